import vlib as V

ID = "C18"
PROP = {
        "props_module": "FV.Props.C18",
        "builders": {"cc": V.build_cc},
        "suites": [("cc", "c18", {"quick": 12000, "thorough": 150000})],
        "suite_kind": {"c18": "cc"},
        "rule": "A random well-formed single-file IDL program (enums; structs, unions, exceptions with fields of random types incl. containers nested up to depth 5 and typedef chains; services with extends/oneway/throws; scopes with prefixes; namespaces, constants) and a copy with k in 0..3 random edits from the documented catalogue (about 25 breaking and 35 compatible kinds, at random applicable sites, one edit per declaration, also inside nested containers and behind typedefs). Both are rendered to IDL text and audited by the real parser.Auditor with a recording logger; the ASTs the real parser produced are sent to the Lean model. Compared: pass/fail, the sorted multiset of finding kinds (errors and warnings), and the independent catalogue predicate `Breaking`. Oracle: the harness knows its edits: no breaking edit => must pass, >= 1 breaking edit => must fail.",
        "trusted": ["Modelled, not verified: Go map semantics (last assignment wins; each key visited once), reflect.DeepEqual on literal values as equality of canonical tokens",
                    "The harness's conversion of parser.Frugal to the model's AST and its classification of the auditor's messages into finding kinds"],
        "level_text": "Theorems (Lean 4) about an executable model of compiler/parser/audit.go over an abstract syntax of IDL programs of any size and nesting depth: for all well-formed old and new programs the modelled audit logs an error if and only if the new program contains one of the documented breaking changes (stated independently as existential statements over sites, types compared after expanding typedefs on each side at any depth); identical programs pass; every documented compatible edit preserves passing; a type change at any depth inside containers is flagged. The tie to the code is differential: generated program pairs through the real auditor and through the model, every run.",
        "level_note": "Trusted: Lean kernel, the hand-written model of audit.go and of Go map idioms, the harness (conversion of the real AST, message classification). Single-file programs only: typedefs reached through an include (second hop resolved in the wrong file, shared known finding with C02) are outside the modelled fragment. The real parser (text to AST) is exercised, not modelled here (C10).",
        "assumptions": ["single-file programs (no includes)", "well-formed programs: unique names per kind, unique field ids (also in throws lists, which the parser does not check), acyclic typedefs", "prefix variables are identifiers (a brace-wrapped non-word such as {a-b} is accepted by the grammar but is static text to the generators)"],
    }
