import vlib as V

ID = "C06"
PROP = {
    "props_module": "FV.Props.C06",
    "generate": [V.generate_locks, V.generate_params],
    "builders": {"rt": V.build_rt},
    "suites": [("rt", "c06reopen", {"quick": 120, "thorough": 4000}), ("rt", "c01reg", {"quick": 6000, "thorough": 1500000}), ("rt", "c06free", {"quick": 40000, "thorough": 4000000}), ("rt", "c01nats", {"quick": 150, "thorough": 20000})],
    "rule": "as C01/c01reg; additionally the watchdog outcome `blocked` of the reader's Execute per injected frame, compared with the model's enabledness.",
    "trusted": ["harness/locks (go/ast, lexical, no type checker) regenerates FV/Generated/Locks.lean: per function the mutexes it locks, the calls it makes under a lock, re-locks and returns with a lock held; calls through interfaces / function values / other packages are not followed; FBaseProcessorFunction.writeMu is taken to be FBaseProcessor.writeMu", "Modelled, not verified: Go channels (buffered send/receive, select), sync.RWMutex atomicity of Register/Unregister/lookup, goroutine scheduling; one Action = one statement group that is atomic in the code (checked by schedule forcing at the yield point registry.dispatch.presend)"] + ["harness/extract (go/ast) regenerates FV/Generated/Params.lean: dispatch send blocking?, result channel capacities, `go f.send`, deferred Unregister"],
    "level_text": "Theorems: in every reachable state (any callers, any history of duplicates / unknown ids / late frames / timeouts / unregisters) the reader's next step is enabled — it never blocks (for the non-blocking dispatch send the code has, a fact regenerated from registry.go on every run); a fresh response is delivered to a waiting caller in two reader steps whatever preceded; bounded reader work per frame; and the counterexample theorem for a blocking send (the defect repaired by fix 77df394).",
    "level_note": 'Trusted: Lean kernel; model granularity; extractor; harness watchdog (300 ms) classifying a send as blocked. Real-time promptness beyond "never blocks" is measured, not proved.',
    "assumptions": ['distinct op ids (C17)', 'result channel capacity >= 1 (regenerated from source and checked by theorem c06_code_capacity)'],
    "technique": "Lean 4 invariant proofs over a transition-system model (all action lists = all interleavings and arrival sequences); model tied to the code by schedule forcing against the real registry (yield point) + parameters regenerated from source",
}
