import vlib as V

ID = "C05"
PROP = {
        "props_module": "FV.Props.C05",
        "builders": {"rt": V.build_rt},
        "suites": [("rt", "c05pure", {"quick": 3000, "thorough": 300000}), ("rt", "c05recv", {"quick": 1500, "thorough": 60000}), ("rt", "c05http", {"quick": 800, "thorough": 20000})],
        "suite_args_first": {"c05pure": ["-huge", "3"]},
        "rule": "Valid frames with one mutation (truncate at any offset, a size field set to a boundary value, version byte, bit flip, duplicate/splice, truncate+pad) and raw random bytes of length 0..64, fed to hff/umf/exf/exe/ums/ahf.",
        "trusted": ["Modelled, not verified: Go slice-expression semantics as `FV.slice` (cap = len), thrift.TMemoryBuffer reader"],
        "level_text": "Theorems (Lean 4) that the modelled receivers — header codec with Go slice semantics (a slice expression out of range is an explicit `panic` outcome of the model), registry Execute, ExecuteFrame, NATS server processFrame, NATS subscriber worker — never reach a panic outcome and terminate for EVERY byte string, and that message-oriented receivers are in their initial state after any garbage. The tie to the code is differential (same bytes to real entry points under recover+watchdog and to the model).",
        "level_note": "Trusted: Lean kernel, model of Go slice/`make` semantics (cap = len), harness. Thrift's own readers after the Frugal header and the brokers are environment (exercised, not modelled). Allocation size on the stream path is not treated as a crash.",
        "assumptions": ["frames shorter than 2^31 bytes", "stream reads with a declared size above 64 MiB are executed only a few times per run (allocation cost)"],
    }
