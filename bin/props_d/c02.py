import vlib as V

ID = "C02"
PROP = {
    "props_module": "FV.Props.C02",
    "builders": {"gen": V.build_gen},
    "suites": [("gen", "c02", {"quick": 2400, "thorough": 40000}), ("gen", "c02bytes", {"quick": 1600, "thorough": 24000})],
    "rule": "Random multi-file IDL programs (typedef chains, enums, structs/unions/exceptions, required/optional/default fields, nested list/set/map, includes) compiled by the real compiler; per program random values of random declared types: generated Write into a recording TProtocol (canonical wire tree vs the declared encoding), generated Read of conforming streams (fields/entries shuffled), streams with unknown fields injected, with a required field removed, unions with 0/2 fields, and round trips through the real binary, compact and JSON protocols. One case = one (program, type, value/stream).",
    "trusted": ["Modelled, not verified: Apache Thrift's binary/compact/JSON byte layouts and SkipDefaultDepth (exercised by the `p` ops), Go reflection in the runner, the Go compiler"],
    "level_text": "Theorems over the model of the emitted Go Read/Write code (FV.Model.Thrift: encV/decV over the stream of TProtocol calls), for ALL definitions tables and ALL values within the depth budget: the field headers written are exactly the declared ones (ids, wire types through typedef resolution, required/default always, optional iff set, union exactly one), reading what was written reproduces the value, unknown fields are skipped, a missing required field and a union with 0 or >=2 fields are rejected. The model is tied to the emitted code on every run by compiling random IDL with the real compiler, building the emitted Go and comparing its behaviour with the model case by case.",
    "level_note": "Trusted: Lean kernel; the hand-written model of the emitted code; the generated-code harness (gen.py spec oracle, reflection runner, canonicalisation); Apache Thrift protocols. Excluded classes (known findings): typedef chains whose second hop is a named type of an INCLUDED file, container key/element types not comparable in Go (binary, containers, structs as keys), IDL default values (not generated).",
    "assumptions": ["values are within nesting depth 64", "no IDL default values (`= v`) on fields", "map/set keys are bool, integers, string, enums or typedefs of those"],
    "technique": "Lean 4 theorems (mutual induction over values/types) about a model of the emitted code; tie = compile random IDL with the real compiler, build and run the emitted Go against the model and against an independent spec encoder",
}
