import vlib as V

ID = "C15"
PROP = {
        "props_module": "FV.Props.C15",
        "builders": {"rt": V.build_rt},
        "suites": [("rt", "c15", {"quick": 14000, "thorough": 280000}), ("rt", "c15cut", {"quick": 28, "thorough": 600})],
        "rule": "A case is one whole history (length <= 12, one byte per action: user Open/Close/IsOpen, feed frame / EOF / read error / oversized header / garbage frame / frame cut at a byte offset then EOF or error, arm and release the yield points before the closeSignal select and before the closeSignal send, fail the next underlying Open, let the monitor run) executed on the REAL fAdapterTransport over a scripted thrift.TTransport with no monitor, a policy stub, or BaseFTransportMonitor at millisecond waits; or (c15cut) a 1-3 frame inbound stream cut at a byte offset.",
        "trusted": ["Modelled, not verified: Go mutex/channel/select semantics, the scheduler's fairness, thrift's TTransportException typing of io.EOF (TSocket convention), bufio.Reader, underlying Close() never failing"],
        "technique": "schedule forcing (yield points adapter.readloop.onerror / adapter.close.presignal / adapter.readloop.exit) + differential line protocol",
        "level_text": "Theorems (Lean 4) over ALL action lists of a transition-system model of fAdapterTransport (Open/Close/IsOpen/close(cause)/read loops per incarnation/closeSignal per incarnation/closeChan/monitor channel) and of BaseFTransportMonitor's policy and runner. The tie to the code is schedule forcing: the same history is executed on the real transport (goroutines parked at build-tag-guarded yield points) and stepped through the model; observables are compared.",
        "level_note": "Trusted: Lean kernel, the model's reading of Go channel/mutex semantics, the scripted transport (errors typed like TSocket), harness and controller. An EOF inside a frame is typed END_OF_FILE by the time it reaches the read loop and is therefore published as nil (the code's own classification; stated by c15_cut_anywhere).",
        "assumptions": ["the underlying transport's Close() succeeds and its Read returns once it is closed", "errors of the underlying transport are thrift.TTransportException values typed as TSocket types them (io.EOF -> END_OF_FILE)", "at most one goroutine waits for the transport mutex while the controller holds another one at the presignal yield point (generator restriction of the forced schedules; the theorems cover all interleavings)", "fewer than 2^64 reopen attempts"],
    }
