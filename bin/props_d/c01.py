import vlib as V

ID = "C01"
PROP = {
    "props_module": "FV.Props.C01",
    "generate": [V.generate_locks, V.generate_params],
    "builders": {"rt": V.build_rt},
    "suites": [("rt", "c01reg", {"quick": 6000, "thorough": 1500000}), ("rt", "c06free", {"quick": 20000, "thorough": 1000000}), ("rt", "c01nats", {"quick": 150, "thorough": 20000}), ("rt", "c13req", {"quick": 40, "thorough": 3000})],
    "rule": 'c01reg: 1-4 callers with distinct real FContexts on one real registry; action lists of length 4-32 over register/recv/timeout/sendError/unregister/readerLookup(own, other, never-issued op id; any tag)/readerSend, the reader split at the yield point; observable after the run: per caller pc/outcome/channel content, registry size, reader state. c13req: real fAdapterTransport.Request calls with real timeouts against a scripted peer.',
    "trusted": ["harness/locks (go/ast, lexical, no type checker) regenerates FV/Generated/Locks.lean: per function the mutexes it locks, the calls it makes under a lock, re-locks and returns with a lock held; calls through interfaces / function values / other packages are not followed; FBaseProcessorFunction.writeMu is taken to be FBaseProcessor.writeMu", "Modelled, not verified: Go channels (buffered send/receive, select), sync.RWMutex atomicity of Register/Unregister/lookup, goroutine scheduling; one Action = one statement group that is atomic in the code (checked by schedule forcing at the yield point registry.dispatch.presend)"] + ["harness/extract (go/ast) regenerates FV/Generated/Params.lean: dispatch send blocking?, result channel capacities, `go f.send`, deferred Unregister"],
    "level_text": "Theorems over the correlation model for ANY number of callers and ANY action list: a request completes successfully only with a frame carrying its own op id (invariant over all reachable states); every frame in a result channel is its owner's; frames for unknown / completed / timed-out op ids leave the state unchanged; frame rule (an action not touching caller j leaves j untouched); registry empty when all calls returned. Tie: schedule forcing on the real registry + real adapter transport runs.",
    "level_note": "Trusted: Lean kernel; the model's atomicity granularity (Go memory model, sync.RWMutex); harness. Hypothesis: callers' op ids pairwise distinct (C17). The adapter transport ignoring Register's error for a context reused while in flight is outside the statement.",
    "assumptions": ['op ids of concurrent requests are pairwise distinct (the property\'s "distinct FContexts"; C17)'],
    "technique": "Lean 4 invariant proofs over a transition-system model (all action lists = all interleavings and arrival sequences); model tied to the code by schedule forcing against the real registry (yield point) + parameters regenerated from source",
}
