import vlib as V

ID = "C13"
PROP = {
    "props_module": "FV.Props.C13",
    "generate": [V.generate_locks, V.generate_params],
    "builders": {"rt": V.build_rt},
    "suites": [("rt", "c01reg", {"quick": 3000, "thorough": 600000}), ("rt", "c13req", {"quick": 60, "thorough": 4000}), ("rt", "c13tiny", {"quick": 90, "thorough": 3000}), ("rt", "c13life", {"quick": 60, "thorough": 1500}), ("rt", "c13http", {"quick": 120, "thorough": 8000})],
    "rule": 'c13http: real FHTTPTransport Request/Oneway against an httptest peer that answers in time, stays silent, sends headers late, or sends headers (and half the body) in time and then stalls; c13req: real fAdapterTransport.Request/Oneway with timeouts 20-150 ms against a scripted peer (silent, late by d, blocked write, blocked flush, duplicates, foreign op ids); measured: elapsed <= timeout + allowance, error class, registry size afterwards. c01reg as C01.',
    "trusted": ["harness/locks (go/ast, lexical, no type checker) regenerates FV/Generated/Locks.lean: per function the mutexes it locks, the calls it makes under a lock, re-locks and returns with a lock held; calls through interfaces / function values / other packages are not followed; FBaseProcessorFunction.writeMu is taken to be FBaseProcessor.writeMu", "Modelled, not verified: Go channels (buffered send/receive, select), sync.RWMutex atomicity of Register/Unregister/lookup, goroutine scheduling; one Action = one statement group that is atomic in the code (checked by schedule forcing at the yield point registry.dispatch.presend)"] + ["harness/extract (go/ast) regenerates FV/Generated/Params.lean: dispatch send blocking?, result channel capacities, `go f.send`, deferred Unregister"],
    "level_text": 'PARTIAL by nature (DESIGN §7 C13). Theorems (logical half): while a call waits its timeout arm is enabled in every state; a call that has not returned always has an enabled step of its own; timeout + unregister returns TIMED_OUT in two own steps; success requires a delivered frame; every return path leaves no registration (distinct op ids); `send` runs in its own goroutine and Unregister is deferred (regenerated from source). The real-time bound itself (scheduler latency, timer accuracy, net/http cancellation, nats.go write buffering) is runtime behaviour the model cannot exhibit: it is measured on the real transports by the harness, not proved.',
    "level_note": 'Trusted: Lean kernel; Go runtime scheduling and timers (an enabled goroutine runs within the allowance); extractor; harness timing allowance 150 ms.',
    "assumptions": ['timeouts are positive (ToContext gives no deadline for a non-positive timeout)', 'scheduling allowance 150 ms on this machine'],
    "technique": "Lean 4 invariant proofs over a transition-system model (all action lists = all interleavings and arrival sequences); model tied to the code by schedule forcing against the real registry (yield point) + parameters regenerated from source",
}
