import os, subprocess
import vlib as V

ID = "C19"


def generate_census19():
    """Recompute the C19 census from /repo's working tree (go/ast, stdlib only) and regenerate
    lean/FV/Generated/Census19.lean = current sites merged with known/c19_census_expected.json."""
    os.makedirs(V.BUILD, exist_ok=True)
    src = os.path.join(V.VERIF, "harness", "cc")
    binp = os.path.join(V.BUILD, "census19")
    tmp = binp + ".%d" % os.getpid()
    # file-list build: only these two files, independent of the rest of harness/cc
    rc, out, err = V.run(["go", "build", "-tags", "census19main", "-o", tmp, "census19.go", "census19_imports.go", "census19_main.go"], cwd=src, env=V.GOENV, timeout=600)
    if rc != 0: return False, "census extractor does not build: " + (out + err)[-800:]
    os.replace(tmp, binp)
    rc, out, err = V.run([binp, V.REPO, os.path.join(V.VERIF, "known", "c19_census_expected.json"),
                          os.path.join(V.LEAN, "FV", "Generated", "Census19.lean"), os.path.join(V.BUILD, "c19_census.json")], timeout=120)
    if rc != 0: return False, "census:C19 " + (out + err).strip()[-800:]
    # untied sites are not an error of the generator: they make theorem c19_census_all_classified fail
    # and the c19site cases disagree, which names them.
    return True, ""


PROP = {
    "props_module": "FV.Props.C19",
    "generate": [generate_census19],
    "builders": {"cc": V.build_cc, "frugal": V.build_frugal},
    "suite_kind": {"c19": "cc"},
    # n = number of random programs; each is compiled for 22 (target, options) configurations,
    # R = 4 (quick) / 12 (thorough) separate compiler processes each + 1 in-process compile
    "suites": [("cc", "c19", {"quick": 3, "thorough": 12})],
    "rule": "Big programs = 14-19 IDL files in sub-directories (root with >= 12 includes, scopes, services, structs, enums, namespaces; one more many-entries file; typedefs, constants incl. map constants, unions, exceptions, cross-file service inheritance, vendored includes whose vendor path does not end in the package name, annotations, docstrings; distinct file base names) compiled for 22 base (target, options) configurations; small programs (4-5 files) compiled for the OPTION SWEEP = for every target of the compiler's own option table (generator.Languages, read at run time) no option, every option alone and every pair of options (98 configurations now; dated java generated_annotations excluded). Every compilation is a separate process of the real compiler binary with a FRESH -out, from 8 layouts: neutral cwd without go.mod; ADVERSARIAL cwd inside a scratch Go module that declares look-alike packages for every package name (and exported symbol) the first run's emitted Go imports, refers to or declares, plus a static list (logrus, thrift, frugal, context, fmt, bytes, errors, sync, time, ...); cwd = the -out directory; cwd = copy of the sources at another absolute path with relative file/-out; cwd inside a GOPATH-like tree with the same look-alike packages and a vendor directory; cwd inside the frugal repository; -out inside a Go module; the adversarial module root (quick: big programs layouts 0-3 + one in-process compile, sweep: neutral + adversarial + two more in rotation; thorough: all). Programs with a REPEATED BASE NAME (two files in different directories, never included by one file) are compiled for all 22 base configurations with 6 repetitions; only html index.html of such a program is outside the comparison (recorded finding). OUTPUT-DIRECTORY HISTORY: for every base configuration the small program is also compiled into a directory that already holds (a) the same program with other options of the target, (b) a superset, (c) a subset of the program (one service + scope of the root file), (d) another target, (e) the same compile; oracle: exactly the paths a fresh-directory compile produces are byte-identical there (files the compile does not write may remain). The oracle of the layout runs compares the set of emitted relative paths and the sha256 of every file. Correspondence cases: c19ord = generation order from the -v log vs the model's traversal; c19mods = module order of html index.html vs the model; c19site = one per census site (source now vs committed classification).",
    "trusted": ["Modelled, not verified: Go's map iteration as 'any permutation', sort.Sort as 'any sorted permutation', filepath.Abs/Rel/Join on lists of segments; text/template, encoding/json, yaml.v2, goimports and the text produced inside each generator function are NOT modelled (hash comparison only)",
                "the census extractor (harness/cc/census19.go, go/ast only; its map-typedness inference was cross-checked once against go/types: 7 of 7 map ranges; census19_imports.go pairs every `var _ = pkg.Sym` line and every package-qualified text of the Go generator with the import lines the generator itself emits and the option guards they are under)"],
    "level_text": "Partial — named. Theorems (Lean 4, no bound on sizes) that every MODELLED pattern through which run-to-run or location variation could reach the output is insensitive to it: sorted permutations of a list with distinct keys are unique, so an unstable sort of any iteration order of a map is a function of the set (c19_sorted_perm_unique, c19_sort_of_any_order, c19_ordered_includes_perm); keys-then-sort (c19_keys_sort), commutative insertion (c19_insert_commutes), lookup (c19_lookup_order_independent) are permutation-invariant; the modelled traversal generateFrugalRec/OrderedIncludes/ParsedIncludes yields the same file sequence for all permutations and generates every file once (c19_order_independent, c19_generated_once); the modelled output-path computation is independent of source root and cwd and equivariant in -out, incl. python's Rel(Abs,Abs) (c19_location_independent). c19_census_all_classified (decide, on a table regenerated from /repo on every check) ties 'these are all the sites' (map ranges, sorts, clock/cwd/env reads, marshalled maps, template ranges under compiler/** and main.go; for the Go generator, whose output is post-processed by goimports, every emitted import line with its option guard and every package the emitted text refers to — an import left for goimports to add is a location-dependent site and cannot be classified) to the committed classification. The html module list is only proved for distinct module names (c19_html_modules_partial) and the counterexample for equal names is a recorded known finding.",
    "level_note": "A functional model is deterministic by construction, so no theorem here says 'the compiler is deterministic'. What is proved is order- and location-INSENSITIVITY OF THE MODELLED PATTERNS; the census ties 'these are all the sites of variation' to the source (a new/changed/vanished site breaks c19_census_all_classified and shows as a disagreement naming the site); the text generated inside each site, the libraries that serialise maps (encoding/json, yaml.v2, text/template) and goimports are covered ONLY by the sha256 comparison of the real compiler's outputs across repetitions / cwd / source location / -out on the generated programs. Trusted: Lean kernel, the hand-written model, the census extractor, the harness.",
    "assumptions": ["same compiler binary, same options, same environment variables other than the working directory (GOPATH/GOFLAGS could influence goimports; not varied)",
                    "java generated_annotations values other than absent/suppress/undated embed the date and are excluded, as the property states",
                    "no two files of one program share a base name (recorded finding html-same-basename-modules; such programs also overwrite each other's output files)"],
    "technique": "Lean 4 theorems (List.Perm-quantified) about the modelled patterns + a source census regenerated on every check and re-checked by `decide` + differential hashing of the real compiler's outputs across processes/locations, with the generation order and html module order tied to the model by the line-protocol driver",
}
