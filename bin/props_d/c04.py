import vlib as V

ID = "C04"
PROP = {
        "props_module": "FV.Props.C04",
        "builders": {"rt": V.build_rt, "py": V.build_py},
        "suites": [("rt", "c04", {"quick": 600, "thorough": 40000}), ("py", "c04py", {"quick": 1500, "thorough": 40000}), ("rt", "c04proto", {"quick": 1500, "thorough": 60000}), ("rt", "c04conc", {"quick": 1500, "thorough": 60000})],
        "rule": "FProtocol layer (c04proto): maps as any peer may send them (with/without _opid, _cid, _timeout; reserved names with arbitrary content) through the real ReadRequestHeader / ReadResponseHeader (contexts with pre-existing response headers) and Write{Request,Response}Header of a third-party FContext; concurrent use (c04conc): 2-4 goroutines read different header blocks from unrelated streams in lock-step (every Read completes before any reader continues), each must get its own map and payload. Go: header maps of 0..40 pairs (lengths 0,1,255,256,65536; ASCII, multi-byte UTF-8, arbitrary bytes incl. 0x00) followed by payloads of 0..4096 bytes; ops mar/csz/ums/hff/umf/ahf. Python (lib/python/frugal/util/headers.py under python3, `thrift` exception class stubbed): UTF-8 maps of 0..20 pairs written by _write_to_bytearray (layout checked by the model), read back by _read and decode_from_frame, compared with the model on the same bytes.",
        "trusted": ["Modelled, not verified: Go map iteration (any order), encoding/binary, thrift.TMemoryBuffer as the stream reader"],
        "level_text": "Theorems (Lean 4, kernel-checked) over the model of lib/go/protocol.go for ALL header lists with distinct names and ALL payloads: the marshalled bytes are the documented v0 layout, stream and frame readers return exactly the map and leave the payload untouched, any iteration order decodes to the same map, addHeadersToFrame yields size/merged headers/same payload, the layout decodes uniquely. The model is tied to the Go code (and the Python codec) by differential runs on every check.",
        "level_note": "Trusted: Lean kernel (+ propext/Classical.choice/Quot.sound), the hand-written model, the correspondence harness and its generators; Go maps, encoding/binary and TMemoryBuffer are modelled, not verified. Hypothesis: total header size < 2^31.",
        "assumptions": ["total header size < 2^31 bytes (int32 size arithmetic)", "Go slices passed to the codec have cap = len (least permissive case)"],
    }
