import os
import vlib as V


def build_rt_race():
    """The runtime harness once more, with the Go race detector (needs cgo + a C compiler)."""
    src = os.path.join(V.VERIF, "harness", "rt")
    tmp = os.path.join(V.BUILD, "rtrace.%d" % os.getpid())
    env = dict(V.GOENV, CGO_ENABLED="1")
    rc, out, err = V.run(["go", "build", "-race", "-tags", "verif", "-o", tmp, "."], cwd=src, env=env, timeout=1800)
    if rc == 0: os.replace(tmp, os.path.join(V.BUILD, "rtrace"))
    return rc == 0, out + err


ID = "C17"
PROP = {
        "generate": [V.generate_locks],
        "props_module": "FV.Props.C17",
        "builders": {"rt": V.build_rt, "rtrace": build_rt_race},   # order matters: build_rt pins go.mod/go.sum first
        "suites": [("rt", "c17", {"quick": 6000, "thorough": 150000}), ("rtrace", "c17race", {"quick": 3000, "thorough": 40000})],
        "suite_kind": {"c17": "rt", "c17race": "rtrace"},
        "rule": "Byte-coded op histories (every byte string decodes to a history; 1..40 ops, every 64th up to 120; 8% raw random bytes) over several real FContexts/FProtocols: NewFContext, Clone, ReadRequestHeader on marshalled headers (with/without _opid, duplicate protocol), Add{Request,Response}Header, AddEphemeralProperty, SetTimeout (boundary durations), header/timeout/cid reads, the three copying accessors, writes/deletes on the returned maps, reads of them; keys include the reserved _opid/_cid/_timeout, values include every class of strconv.ParseInt input; the op id counter is started at 0, near 10^k boundaries, near 2^63, near 2^64 (wrap inside the history) or at random. Each history ends with a dump of every context and returned map. Per job additionally: lock census of context.go (go/ast) and a concurrent stress (8 goroutines on shared contexts); suite c17race repeats the stress (4..16 goroutines) in a -race build.",
        "trusted": ["harness/locks (go/ast, lexical, no type checker) regenerates FV/Generated/Locks.lean: per function the mutexes it locks, the calls it makes under a lock, re-locks and returns with a lock held; calls through interfaces / function values / other packages are not followed; FBaseProcessorFunction.writeMu is taken to be FBaseProcessor.writeMu", "Modelled, not verified: Go maps (association lists, output sorted), sync/atomic.AddUint64 (a counter modulo 2^64), strconv.FormatUint/ParseInt, time.Duration arithmetic (int64 wrap)",
                    "Assumed, checked only by census + stress: every FContextImpl method body is atomic (c.mu); Clone's three separately locked copies are modelled as one step"],
        "level_text": "Theorems (Lean 4, kernel-checked) over a model of lib/go/context.go + FProtocol.ReadRequestHeader with an EXPLICIT HEAP (a context is three references; Clone and the accessors allocate; the one alias the code has — received contexts share their FProtocol's ephemeral map — is in the model): for EVERY op history with fewer than 2^64 creations the op ids of all contexts produced by NewFContext/Clone/ReadRequestHeader are pairwise distinct (whatever the counter started at, wrap included) and parse back as uint64; right after Clone the clone's request headers equal the original's except _opid, response headers, ephemeral properties and timeout are equal and the original is unchanged; after a clone, for EVERY later op list, operations not aimed at the clone leave every read of the clone unchanged and operations aimed at the clone (or at nothing) leave every read of the original unchanged — proved from exclusive ownership of references as an invariant over arbitrary op lists; accessors return fresh maps, and no sequence of writes to returned maps changes any context. The model is tied to the code on every run by executing the same histories on real FContexts and comparing every observable.",
        "level_note": "Partial by design: data-race freedom (Go memory model) is NOT proved; the theorems take each FContextImpl method as one atomic step. That assumption is checked on the current source by a go/ast lock census (every access to the three maps inside a method follows c.mu.Lock/RLock) and exercised by a concurrent stress whose verdict is only 'no panic/fatal error, ids distinct, own writes read back' and by the same stress under the Go race detector (suite c17race, -race build of the harness: a report makes the suite exit 66 and the check fail) — evidence for the sampled schedules only. Clone takes the lock three times; an interleaved Clone copies three snapshots taken at different times (freshness, hence independence, is unaffected). Observed and modelled, not claimed as independent: contexts read from the same FProtocol (FSimpleServer: one per connection) share one ephemeral-properties map guarded by different mutexes. Ephemeral keys/values are strings in harness and model (interface{} in the code; unhashable keys panic in Go with c.mu held). NewFContext(\"\") (random correlation id) is outside the model. Trusted: Lean kernel (+ propext/Classical.choice/Quot.sound), the hand-written model, the harness and its oracle.",
        "assumptions": ["fewer than 2^64 contexts created per process (c17_unique)", "each FContextImpl method executes atomically (c.mu) — census + stress, not proved", "correlation ids passed to NewFContext are non-empty", "ephemeral property keys and values are strings"],
    }
