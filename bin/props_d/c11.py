import os, subprocess
import vlib as V

ID = "C11"


def build_javaparse():
    """Compile the ~30-line javac parse-only helper (harness/cc/javaparse/ParseOnly.java) into .build/javaparse.
    Without a JDK the harness falls back to bracket/quote balance for Java (reported in the evidence)."""
    src = os.path.join(V.VERIF, "harness", "cc", "javaparse", "ParseOnly.java")
    out = os.path.join(V.BUILD, "javaparse")
    cls = os.path.join(out, "ParseOnly.class")
    try:
        if os.path.exists(cls) and os.path.getmtime(cls) >= os.path.getmtime(src):
            return True, ""
        os.makedirs(out, exist_ok=True)
        p = subprocess.run(["javac", "-encoding", "UTF-8", "-d", out, src], capture_output=True, text=True, timeout=300)
        if p.returncode != 0 and os.path.exists(cls):
            os.unlink(cls)
    except (OSError, subprocess.SubprocessError):
        pass
    return True, ""


PROP = {
    "props_module": "FV.Props.C11",
    "builders": {"cc": V.build_cc, "frugal": V.build_frugal, "javaparse": build_javaparse},
    "suites": [("cc", "c11", {"quick": 24, "thorough": 480})],
    "suite_kind": {"c11": "cc", "cc": "cc"},
    "rule": "stub",
    "trusted": [],
    "level_text": "stub",
    "level_note": "stub",
    "assumptions": [],
}
