import os, subprocess
import vlib as V

ID = "C11"


def build_javaparse():
    """Compile the ~30-line javac parse-only helper (harness/cc/javaparse/ParseOnly.java) into .build/javaparse.
    Without a JDK the harness falls back to bracket/quote balance for Java (reported in the evidence)."""
    src = os.path.join(V.VERIF, "harness", "cc", "javaparse", "ParseOnly.java")
    out = os.path.join(V.BUILD, "javaparse")
    cls = os.path.join(out, "ParseOnly.class")
    try:
        if os.path.exists(cls) and os.path.getmtime(cls) >= os.path.getmtime(src):
            return True, ""
        os.makedirs(out, exist_ok=True)
        p = subprocess.run(["javac", "-encoding", "UTF-8", "-d", out, src], capture_output=True, text=True, timeout=300)
        if p.returncode != 0 and os.path.exists(cls):
            os.unlink(cls)
    except (OSError, subprocess.SubprocessError):
        pass
    return True, ""


def generate_census11():
    """Recompute the census of syntactically partial operations of /repo/main.go and /repo/compiler/** (go/ast only),
    compare it with known/c11_census_expected.json and regenerate lean/FV/Generated/Census11.lean."""
    os.makedirs(V.BUILD, exist_ok=True)
    src = os.path.join(V.VERIF, "harness", "extract11")
    binp = os.path.join(V.BUILD, "extract11")
    tmp = binp + ".%d" % os.getpid()
    rc, out, err = V.run(["go", "build", "-o", tmp, "."], cwd=src, env=V.GOENV, timeout=600)
    if rc != 0:
        return False, "census extractor does not build: " + (out + err)[-800:]
    os.replace(tmp, binp)
    lean = os.path.join(V.LEAN, "FV", "Generated", "Census11.lean")
    tmpl = lean + ".%d.tmp" % os.getpid()
    rc, out, err = V.run([binp, V.REPO, os.path.join(V.VERIF, "known", "c11_census_expected.json"), tmpl,
                          os.path.join(V.BUILD, "c11_census.json")], timeout=120)
    try:
        new = open(tmpl).read()
        if not os.path.exists(lean) or open(lean).read() != new:
            os.replace(tmpl, lean)
        else:
            os.unlink(tmpl)
    except OSError:
        pass
    if rc != 0:
        return False, (out + err).strip()[-1200:]
    return True, ""


PROP = {
    "props_module": "FV.Props.C11",
    "generate": [generate_census11],
    "builders": {"cc": V.build_cc, "frugal": V.build_frugal, "javaparse": build_javaparse},
    "suites": [("cc", "c11", {"quick": 96, "thorough": 960}), ("cc", "c11ops", {"quick": 4000, "thorough": 150000}),
               ("cc", "c11cli", {"quick": 300, "thorough": 6000})],
    "suite_kind": {"c11": "cc", "c11ops": "cc", "c11cli": "cc"},
    "rule": "Suite c11, per program index: (A) one random VALID multi-file IDL program (1-3 files in an include DAG; enums, typedefs incl. acyclic chains of up to 60 hops declared in either order, structs/unions/exceptions with 0-6 fields of base, named, include-qualified and nested container types, defaults, constants of every type incl. references, services with extends (also across includes), oneway, throws, annotations, docstrings, scopes with static and variable prefixes, namespaces; identifier-shape family: lower, Title, snake, camel, Pascal, SCREAMING, digit suffix, leading/trailing/double/multiple underscores, single letters, reserved-word-adjacent names) compiled by the real binary for all 8 targets x {no options, one random option subset}; (B) one program with ONE injected invalidity of a kind validate/parseFrugal checks (28 kinds, cycled), one with a kind nothing checks (12 kinds), two mutated texts (span delete/insert token/bit flip/truncate/duplicate/line delete/line swap) and one arbitrary text (random bytes, token soup, nesting 20-200 deep), each compiled for one random target. Per valid program also: 8 probe constants `const T zz_probe = v` with T a random type of the main file and v a value built to fit T (35%: with one node replaced by a misfit) through the real generateConstantValue (op gcv); the in-process front-end verdict (op val) and UnderlyingType of every typedef name, include-qualified typedef name and a sample of field types (op und). Suite c11cli (the command-line layer, main.go): the real binary as `frugal [-gen g] [-r] -out <fresh dir> f1 .. fk`, k = 1..4, every fi one of valid / empty (valid) / syntax error / semantic error / missing file / directory — all 258 sequences with k <= 3 in every run plus random sequences with k = 4 —, g cycling over the eight targets, option strings, an unknown option, an unknown language and no -gen at all; oracle: exit 0 iff every file is valid and -gen is accepted, otherwise non-zero WITH a message, never a crash / panic trace / hang; model cliMain (the loop stops at the first failing file): exit status and, per valid file, whether its output exists. Suite c11ops: random strings over an identifier/option alphabet through snakeToCamel, title, titleServiceName, LowercaseFirstLetter, includeNameToReference, CleanGenParam. NAMING PROBES (totality_names.go): a fixed program in which every declared type is referenced as a type in fields, containers, method arguments / returns / throws and scope operations, locally and through an include, gets names from a pool of 103 (snake / SCREAMING / camel / Pascal variants, new_/New prefixes, _args/Args/_result/Result suffixes, Go initialisms, leading/trailing/double underscores, _, single letters, keywords / builtins / generated helper names of the targets: type func range class final def None self error Error String Read Write Equals hashCode toString client processor ctx result args success …) in 22 positions (struct, union, exception, enum, typedef — each also in the included file —, enum value, constant, service, extended service, method, field, argument, throws field, scope, operation, prefix variable, include file name, namespace): the first job of every run compiles a deterministic cover of 47 programs that together contain EVERY clean combination of the 43 casing names with the 17 type/member positions (clean = fails for no target on the unchanged tree), and 25% of the remaining programs are single (name, position) probes drawn from the whole matrix; suite c11names (development) runs the whole matrix. The (name, position, target) combinations that fail on the unchanged tree are listed in known/c11_names_expected.json, each under a recorded finding. Excluded from the valid stream, each a recorded finding with a replayed witness: see KNOWN_FINDINGS.txt property=C11 (21 ids).",
    "trusted": ["Modelled, not verified: Go's run-time checks on index/slice expressions (FV.Compile.goIndex/goSliceTo), strings.Split/FieldsFunc/ToUpper on ASCII, Go map assignment (last wins)",
                "harness/extract11 (go/ast census extractor) and its committed expectation known/c11_census_expected.json (each site read by hand)",
                "External parsers/compilers used as well-formedness judges: go build against /repo/lib/go, CPython compile() (2.7.18 for py and py:tornado, 3.x for py:asyncio), javac's parser (JavacTask.parse, no attribution), encoding/json, Python's html.parser (tag balance), our bracket/string/comment balance lexer for Dart",
                "Go batches: a generated package that does not even load (syntax error, invalid package name) makes go build stop before it type-checks the other packages of the batch; the harness moves failing trees away and rebuilds until a build is clean", "The harness's classification of a run (exit status, output patterns for Go runtime crashes, 20 s watchdog; an exit-1 run is re-executed in-process under recover to tell a recovered panic from a returned error exactly)"],
    "level_text": "Theorems (Lean 4) about an executable model of the shared front end (parseFrugal's include traversal, (*Frugal).validate with all its parts in code order, isValidType, the typedef step shared by UnderlyingType and the new cycle check, UnderlyingType itself with running out of stack as an explicit outcome) and of the Go casing path (snakeToCamel, title, titleServiceName, LowercaseFirstLetter, includeNameToReference, CleanGenParam) that keeps Go's run-time checks as explicit panic outcomes, against a declarative specification Valid / ValidProg written over the abstract syntax without calling any validator (names of every referenced type resolve — field, argument, return, throws, typedef target, scope operation, constant —, constant references resolve, typedef graph acyclic, field ids unique per struct-like and per argument list, service/method/scope/operation names distinct up to first-letter case, oneway methods void and without throws, no duplicate include, includes resolve and are acyclic): validate returns nil EXACTLY on the valid files (both directions, so Valid is decidable); a valid program is accepted by the whole front end and reaches no modelled panic site on the Go path; every file that is not Valid gets an ERROR from validate, never a panic (18 invalidity kinds one by one, plus missing / circular / badly named includes); for EVERY identifier string the Go casing helpers and -gen parsing never panic; on EVERY validated file typedef resolution terminates for every type within (visible typedefs + 2) frames, so the stack overflow is unreachable; EVERY typedef cycle is rejected (the bounded walk is exact: pigeonhole); a constant value or field default that FITS its declared type (inductive typing relation Fits) goes through the Go generator's generateConstantValue / ContextFromIdentifier / KeyToString / FindStruct without a panic (every type assertion finds the dynamic type it asserts); the command line exits 0 EXACTLY when there is an input file, -gen is given and accepted and EVERY file compiles, else 1, and stops at the first failing file (c11_cli_iff, c11_cli_first); every syntactically partial operation of main.go and compiler/** (173 sites, regenerated from source on every run) is classified. Tied to the code by in-process correspondence of the real functions with the model (verdict and error class of parse+validate on valid and injected-invalid programs, UnderlyingType results, casing helpers on random strings, generateConstantValue on fitting and deliberately misfitting constant values: ok / panic class) and by compiling random valid / invalid / mutated / arbitrary inputs with the real binary for all 8 targets, judging every emitted file with an external parser or compiler.",
    "level_note": "PARTIAL, named plainly. (1) That every emitted file is well-formed source for its target is NOT a Lean theorem (no formal grammar of Go/Java/Dart/Python/HTML here): it is validated on the sampled programs only, by external parsers/compilers (Go: full type-check with go build against /repo/lib/go; Python: compile(); Java: javac parse only, no attribution; JSON: parse; HTML: tag balance; Dart: bracket/string/comment balance only — no Dart SDK in the sandbox). (2) The theorems cover panic-freedom and termination of the MODELLED sites of the shared front end and of the Go casing path; the Java/Dart/Python/HTML/JSON generator bodies are censused (every panic(, unchecked type assertion, constant index/slice, self-recursion is classified, each site read) but modelled only where shared (validate, UnderlyingType, LowercaseFirstLetter). compiler/parser/grammar.peg.go (generated by pigeon; its action code's assertions are shape-guaranteed by the grammar rules) is outside the census; it is exercised by the mutated/arbitrary texts. (3) Valid is exactly what validate is responsible for, NOT all of Thrift validity: duplicate struct/enum/typedef/constant/field names, constant values that do not fit their type, unknown or cyclic extends, duplicate ids in throws are checked by nothing in frugal and are therefore not in Valid (c11_unknown_extends_accepted_counterexample); constant-VALUE generation is modelled for the Go generator only (genConst; c11_fitting_constant_generates: a value that fits its type never panics); that a value fits is validated by nothing in frugal, so for ill-typed values the generators do panic (recovered, exit 1) — the model predicts that panic and its class (op gcv); the Java/Dart/Python/HTML constant-value code is censused (class const-value), not modelled. ValidProg lists the files so that each includes only later ones (= acyclic) and uses .frugal includes in one directory. (4) recovered-panic (main.go's recover -> 'Failed to generate', exit 1) is tolerated ONLY for the invalidity kinds nothing validates — read off the code: constant/default values that do not fit their type, unresolved Enum.VALUE / constant references inside values, duplicate struct/enum/typedef/constant/field/enum-value names, unknown or cyclic extends, duplicate ids in throws; for those even exit 0 is tolerated and recorded as finding unchecked-semantic-errors; a crash, hang or silent failure is never tolerated; for every kind validate/parseFrugal checks (28) the oracle demands a diagnostic. On mutated/arbitrary texts a recovered panic is tolerated only when its message is one of the explicit panic(...) calls of constant-value generation (census class const-value); run-time errors (index, nil, slice) are violations. (5) 21 recorded findings restrict the valid stream (KNOWN_FINDINGS.txt); each witness is replayed on every run.",
    "assumptions": ["RANDOM programs draw identifiers from a word list that avoids target-language reserved words and names of locals/members of the generated code; the naming probes put exactly such names (and every casing shape) into every declaration position, one at a time or in the clean cover",
                    "declared names of one scope are distinct after removing underscores and case (no two declarations collide under any target's case conversion)",
                    "ASCII identifiers and string constants (the grammar's Identifier is ASCII)",
                    "container nesting depth <= 200 in arbitrary texts: generators take time cubic in the nesting depth (depth 1000: 12-34 s), not treated as a hang",
                    "a service does not redefine a method of a service it extends; a method throws each exception type once",
                    "the -help / -version / -audit branches of main.go are not exercised here (-audit: C18 suite c18cli)", "options use_vendor (needs vendor annotations) and thrift_import/frugal_import are not exercised"],
    "technique": "Lean 4 theorems about a hand-written executable model with explicit panic outcomes; model tied to /repo by in-process differential correspondence, a regenerated census of partial operations, and whole-compiler runs judged by external parsers/compilers",
}
