import vlib as V

ID = "C10"
PROP = {
    "props_module": "FV.Props.C10",
    "builders": {"cc": V.build_cc},
    "suites": [("cc", "c10", {"quick": 600, "thorough": 12000})],
    "suite_kind": {"c10": "cc"},
    "rule": "stage 1",
    "trusted": [],
    "level_text": "under construction",
    "level_note": "under construction",
    "assumptions": [],
}
