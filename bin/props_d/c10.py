import os
import vlib as V

ID = "C10"


def generate_grammar():
    """Regenerate lean/FV/Generated/Grammar.lean from /repo's grammar.peg (harness/pegx, stdlib only).
    The file is rewritten only when its content changes (so lake rebuilds the theorems only then)."""
    os.makedirs(V.BUILD, exist_ok=True)
    src = os.path.join(V.VERIF, "harness", "pegx")
    binp = os.path.join(V.BUILD, "pegx")
    tmp = binp + ".%d" % os.getpid()
    rc, out, err = V.run(["go", "build", "-o", tmp, "."], cwd=src, env=V.GOENV, timeout=600)
    if rc != 0:
        return False, "grammar translator does not build: " + (out + err)[-800:]
    os.replace(tmp, binp)
    rc, out, err = V.run([binp, os.path.join(V.REPO, "compiler", "parser", "grammar.peg"),
                          os.path.join(V.LEAN, "FV", "Generated", "Grammar.lean")], timeout=120)
    if rc != 0:
        return False, "grammar:translate " + (out + err).strip()[-800:]
    return True, ""


PROP = {
    "props_module": "FV.Props.C10",
    "generate": [generate_grammar],
    "builders": {"cc": V.build_cc},
    "suites": [("cc", "c10", {"quick": 1500, "thorough": 40000})],
    "suite_kind": {"c10": "cc"},
    "rule": "stage 3",
    "trusted": [],
    "level_text": "under construction",
    "level_note": "under construction",
    "assumptions": [],
}
