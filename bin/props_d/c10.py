import os
import vlib as V

ID = "C10"


def generate_grammar():
    """Regenerate lean/FV/Generated/Grammar.lean from /repo's grammar.peg (harness/pegx, stdlib only).
    The file is rewritten only when its content changes (so lake rebuilds the theorems only then)."""
    os.makedirs(V.BUILD, exist_ok=True)
    src = os.path.join(V.VERIF, "harness", "pegx")
    binp = os.path.join(V.BUILD, "pegx")
    tmp = binp + ".%d" % os.getpid()
    rc, out, err = V.run(["go", "build", "-o", tmp, "."], cwd=src, env=V.GOENV, timeout=600)
    if rc != 0:
        return False, "grammar translator does not build: " + (out + err)[-800:]
    os.replace(tmp, binp)
    rc, out, err = V.run([binp, os.path.join(V.REPO, "compiler", "parser", "grammar.peg"),
                          os.path.join(V.LEAN, "FV", "Generated", "Grammar.lean")], timeout=120)
    if rc != 0:
        return False, "grammar:translate " + (out + err).strip()[-800:]
    return True, ""


PROP = {
    "props_module": "FV.Props.C10",
    "generate": [generate_grammar],
    "builders": {"cc": V.build_cc},
    "suites": [("cc", "c10", {"quick": 1500, "thorough": 40000})],
    "suite_kind": {"c10": "cc"},
    "rule": "Random well-formed IDL models (0-2 included files, one possibly including another; namespaces; typedefs; enums with explicit, negative, decreasing and implicit values; constants with string/bool/int/double/list/map/identifier/enum-value literals; structs, unions, exceptions with field ids, requiredness, base/named/container types nested up to depth 8, defaults, annotations, doc comments; services with extends, oneway, arguments, throws; scopes with prefix tokens and variables, operations) rendered in a random lexical style (// # /* */ /** */ comments and doc comments wherever the grammar admits them, ',' ';' or no separators, both quote styles with escapes, CRLF, dense or airy white space, ';' / newline / end-of-file statement ends, identifier shapes with underscores, digits and dots) = op c10prog (real parser.ParseFrugal over the files); fragments of single rules (Identifier, IntConstant, Literal, FieldType, ConstValue, Field, Enum, Struct/Exception/Union, Function) = op peg; texts with 1-3 mutations (truncate, token insertion, deletion, byte replacement, duplication, bit flip) = op c10text (parser.ParseReader, must return a value or an error, never panic or hang); each case also runs through the Lean PEG interpreter on the grammar regenerated from grammar.peg plus the action model (three-way tie: declared model = real parser = model). 30% of the programs are additionally compared with the -gen json descriptor built from the declared model.",
    "trusted": ["harness/pegx (stdlib-only translator of grammar.peg into the Lean value FV.Generated.grammar; the Go code of the actions is not translated, FV/Model/IdlActions.lean is written by hand from it)",
                "Modelled, not verified: pigeon's matching algorithm as FV.Peg.pExpr (tied on every run by the three-way correspondence), the fragment of strconv.Unquote/ParseInt/ParseFloat and strings.TrimSpace used by the actions",
                "The harness's renderer (a transcription of the grammar's token sequences and gap kinds), the canonical dump of parser.Frugal, and the classification of inputs into the recorded finding classes"],
    "level_text": "Theorems (Lean 4) about the PEG grammar REGENERATED from compiler/parser/grammar.peg on every check and an interpreter with pigeon's semantics, each with an explicit fuel bound: FieldType round-trips EVERY annotation-free type - base, named, arbitrarily nested list/set/map - in every white-space styling of its brackets, by induction over the type, under the hypothesis that no type keyword is a prefix of a named type (with the counterexample `stringy` for the recorded finding); every text made of white space, newlines, block comments, // and # comments is consumed exactly by the gap rules `_` / `__`, and such a text after a type does not change the parsed value (comment/white-space invisibility); Identifier consumes exactly every identifier-shaped string and returns it; IntConstant consumes exactly sign and digits and its action yields the signed decimal value or an error exactly when it does not fit int64; the repaired Enum action assigns Thrift's numbers for every list of enum values; whole declarations round-trip: c10_enum_roundtrip (Enum rule: doc comments, values with or without `= integer`, separators, gaps; syntax composed with the numbering theorem), c10_field_roundtrip (doc, id, required/optional, type, name, integer default, `,` `;` or no separator), c10_fieldlist_roundtrip (induction over the field list), c10_struct_roundtrip (Struct / Exception / Union with fields forced optional); string literals: exact consumption for both quote styles and the value round trip for double-quoted literals with escapes, under the hypothesis that excludes the trailing-backslash finding (c10_literal_consumed, c10_string_literal_partial); the fragment `FieldType _ Identifier` composes (c10_roundtrip_partial); a result obtained with some fuel is the result for every larger fuel (for every grammar). The whole-file round trip parse(render(m)) = m - the stated goal - is NOT proved: single-quoted literal values, non-integer constants, annotations, typedefs, constants, services, scopes, newline/EOF statement ends and the top level are established on every run by a correspondence in which the declared model, the REAL parser (ParseFrugal incl. include resolution and validation) and the Lean interpreter on the regenerated grammar must agree on generated programs in all lexical styles, on rule fragments and on mutated texts, plus -gen json as an independent view.",
    "level_note": "Partial with respect to the stated goal (c10_roundtrip_partial; the list of rules covered by theorem / by correspondence only is in the header of lean/FV/Props/C10.lean). Trusted: Lean kernel, the grammar translator, the hand-written action model, the harness renderer/dumper. Five recorded findings are excluded from generation and replayed as KNOWN-FINDING: keyword-prefix identifiers, statements sharing a line, literals ending in a backslash, a comment after `prefix`, Thrift constructs without a production. Two defects were repaired in /repo (enum numbering, enum-valued constants).",
    "assumptions": ["model class of the generator: names without a grammar keyword as prefix; string values not ending in a backslash; doubles with at most 9 significant digits and |exponent| <= 21 (exact decimal comparison); line ends inside doc comments are LF; prefix variables are a letter, a letter or digit, then word characters (what newScopePrefix accepts); annotations of a scope operation only after a named type (after a base or container type the grammar gives them to the type); no `cpp_type`",
                    "include resolution uses the real file system on the harness side and a finite map (the archive) on the model side",
                    "action errors inside a branch that is later backtracked are reported by pigeon but invisible to the tree-based action model (never observed to differ, mutated texts included)"],
    "technique": "Lean 4 theorems about a PEG grammar regenerated from source and a fuel-indexed interpreter with pigeon's semantics; three-way differential correspondence (declared model / real parser / Lean interpreter) over generated programs, rule fragments and mutated texts; parse-after-render equality on the real parser as the property oracle",
}
