import vlib as V

ID = "C12"
PROP = {
        "props_module": "FV.Props.C12",
        "builders": {"rt": V.build_rt},
        "suites": [("rt", "c12", {"quick": 15000, "thorough": 150000})],
        "rule": "One case = (a) a random program of Write/WriteByte/WriteString/Reset ops (0..12 ops, sizes 0..300) on the real frugal.NewTMemoryOutputBuffer(limit), every op executed, then Bytes(); or (b) the real Thrift binary/compact/JSON protocol writing a payload shape (one big string/binary/list/map of 0..70000 bytes, occasionally 1 MiB, placed first/middle/last among small fields) into the real buffer; or (c) a real FStandardClient.Call answered by a real FBaseProcessor + SendReply over an in-process NATS-shaped transport or the real HTTP transport/handler (httptest). Limits: 0, 1..5, size-8..size+8, far below, far above, 16/1024/1 MiB.",
        "trusted": ["Modelled, not verified: an encoder is the list of transport operations it performs (recorded from the real Thrift encoders by a recording TRichTransport on every case); bytes.Buffer appends"],
        "level_text": "Theorems (Lean 4) about an executable model of TMemoryOutputBuffer (Write/WriteByte/WriteString/Reset/Bytes), prepareMessage, the transports' own size checks, SendReply/trapError/sendError and processReply, for EVERY limit and EVERY sequence of write operations. The model is tied to the code on every run by executing the same op programs on the real buffer, real Thrift protocols and real client/server calls and diffing the outputs.",
        "level_note": "Trusted: Lean kernel, the hand-written model, the harness. NATS/STOMP brokers are environment; the NATS-shaped server is a stand-in FTransport that repeats fNatsServer.processFrame with the limit as a parameter (the real HTTP transport and handler are used as they are). Assumes the RESPONSE_TOO_LARGE error reply itself (about 60 bytes plus response headers) fits the response limit.",
        "assumptions": ["the error reply that reports RESPONSE_TOO_LARGE (message + response headers) fits the server-side limit", "HTTP response limit is compared with the unframed reply size (as the handler does)", "messages shorter than 2^32 bytes"],
    }
