import vlib as V

ID = "C03"
PROP = {
    "props_module": "FV.Props.C03",
    "builders": {"gen": V.build_gen},
    "suites": [("gen", "c03", {"quick": 900, "thorough": 90000})],
    "rule": "Random multi-file IDL programs with services (extends across files, oneway, void, throws) compiled by the real compiler; per case one method (own or inherited) of one emitted client, random argument values, one handler outcome (value / declared exception / plain error / TApplicationException of a given type), transport in-memory or HTTP (httptest + NewFrugalHandlerFunc + FHTTPTransport), protocol binary / compact / JSON; observed: number of handler invocations, arguments the handler saw, correlation id, what the caller got.",
    "trusted": ["Modelled, not verified: sockets, net/http, Apache Thrift protocol byte layouts; the transports are assumed to carry frames unchanged (C01/C04/C12)"],
    "level_text": "Theorems over the composition model FV.Rpc.call (emitted client -> frame-preserving transport -> emitted processor -> emitted result mapping), for ALL definitions tables, methods, well-typed argument values and handler behaviours: the handler is invoked exactly once with equal arguments; the caller observes exactly the returned value / the declared exception / INTERNAL_ERROR or the handler's own application exception type; a successful oneway produces no reply; an inherited method dispatches to the same processor function through the child's processor. Proved from the C02 round-trip theorem (used twice) and encoder totality. Tie: real emitted clients and processors with generated handler stubs, in-memory and HTTP transports, three protocols.",
    "level_note": "Trusted: Lean kernel; the model of the emitted code; generated-code harness (stub generator, reflection runner, Python oracle). TCP adapter + FSimpleServer and NATS transports are covered by C01/C05/C13/C14/C20 checks at the runtime level, not in this suite's quick tier.",
    "assumptions": ["argument and result values within nesting depth 64; IDL default values on the fields of the struct-likes used as argument, result and exception types are generated and modelled (C02), none on the service ARGUMENTS themselves (the emitted args/result structs are made by zero literals, not by constructors)", "a method lists each exception type at most once in `throws` (two entries of one type make the emitted Go type switch not compile — noted in DESIGN §8)"],
    "technique": "Lean 4 theorems about a composition model built on the C02 round-trip theorem; tie = compile random services with the real compiler, run emitted client + processor with generated handler stubs against the model and an independent oracle",
}
