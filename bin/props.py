"""Per-property configuration of bin/check: one file per property in bin/props_d/
(each defines ID and PROP)."""
import glob, importlib.util, os
import vlib as V

PROPS = {}
for path in sorted(glob.glob(os.path.join(os.path.dirname(os.path.abspath(__file__)), "props_d", "*.py"))):
    spec = importlib.util.spec_from_file_location("props_d_" + os.path.basename(path)[:-3], path)
    mod = importlib.util.module_from_spec(spec)
    spec.loader.exec_module(mod)
    PROPS[mod.ID] = mod.PROP
