"""Per-property configuration of bin/check."""
import vlib as V

RT = {"rt": V.build_rt}

PROPS = {
    "C04": {
        "props_module": "FV.Props.C04",
        "builders": RT,
        "suites": [("rt", "c04", {"quick": 600, "thorough": 40000})],
        "rule": "Header maps of 0..40 pairs (lengths 0,1,255,256,65536; ASCII, multi-byte UTF-8, arbitrary bytes incl. 0x00) followed by payloads of 0..4096 bytes; ops mar/csz/ums/hff/umf/ahf.",
        "trusted": ["Modelled, not verified: Go map iteration (any order), encoding/binary, thrift.TMemoryBuffer as the stream reader"],
        "level_text": "Theorems (Lean 4, kernel-checked) over the model of lib/go/protocol.go for ALL header lists with distinct names and ALL payloads: the marshalled bytes are the documented v0 layout, stream and frame readers return exactly the map and leave the payload untouched, any iteration order decodes to the same map, addHeadersToFrame yields size/merged headers/same payload, the layout decodes uniquely. The model is tied to the Go code (and the Python codec) by differential runs on every check.",
        "level_note": "Trusted: Lean kernel (+ propext/Classical.choice/Quot.sound), the hand-written model, the correspondence harness and its generators; Go maps, encoding/binary and TMemoryBuffer are modelled, not verified. Hypothesis: total header size < 2^31.",
        "assumptions": ["total header size < 2^31 bytes (int32 size arithmetic)", "Go slices passed to the codec have cap = len (least permissive case)"],
    },
    "C05": {
        "props_module": "FV.Props.C05",
        "builders": RT,
        "suites": [("rt", "c05pure", {"quick": 3000, "thorough": 300000}), ("rt", "c05recv", {"quick": 1500, "thorough": 60000})],
        "suite_args_first": {"c05pure": ["-huge", "3"]},
        "rule": "Valid frames with one mutation (truncate at any offset, a size field set to a boundary value, version byte, bit flip, duplicate/splice, truncate+pad) and raw random bytes of length 0..64, fed to hff/umf/exf/exe/ums/ahf.",
        "trusted": ["Modelled, not verified: Go slice-expression semantics as `FV.slice` (cap = len), thrift.TMemoryBuffer reader"],
        "level_text": "Theorems (Lean 4) that the modelled receivers — header codec with Go slice semantics (a slice expression out of range is an explicit `panic` outcome of the model), registry Execute, ExecuteFrame, NATS server processFrame, NATS subscriber worker — never reach a panic outcome and terminate for EVERY byte string, and that message-oriented receivers are in their initial state after any garbage. The tie to the code is differential (same bytes to real entry points under recover+watchdog and to the model).",
        "level_note": "Trusted: Lean kernel, model of Go slice/`make` semantics (cap = len), harness. Thrift's own readers after the Frugal header and the brokers are environment (exercised, not modelled). Allocation size on the stream path is not treated as a crash.",
        "assumptions": ["frames shorter than 2^31 bytes", "stream reads with a declared size above 64 MiB are executed only a few times per run (allocation cost)"],
    },
}
