"""Generic engine behind bin/check: proofs + audit, harness build, correspondence
(diff of real outputs and Lean-model outputs over a line protocol), oracle
failures, known findings, search, evidence, verdict.  See DESIGN.md §4, §5."""
import hashlib, json, os, re, subprocess, sys, time, glob, shutil, tempfile, concurrent.futures as cf

VERIF = os.path.dirname(os.path.dirname(os.path.abspath(__file__)))
REPO = os.environ.get("VERIF_REPO", "/repo")
LEAN = os.path.join(VERIF, "lean")
BUILD = os.path.join(VERIF, ".build")
DRIVER = os.path.join(LEAN, ".lake", "build", "bin", "fvdriver")
ALLOWED_AXIOMS = {"propext", "Classical.choice", "Quot.sound"}
FORBIDDEN = re.compile(r"\bsorry\b|\badmit\b|^\s*axiom\s|native_decide|bv_decide|implemented_by|\bunsafe\s|maxHeartbeats\s+0\b")
GOENV = dict(os.environ, GOFLAGS="-mod=mod", GOPROXY="off", GOSUMDB="off", GOTOOLCHAIN="local",
             CGO_ENABLED=os.environ.get("CGO_ENABLED", "0"))
NPROC = os.cpu_count() or 4


def log(*a):
    print(*a, file=sys.stderr, flush=True)


def run(cmd, cwd=None, env=None, timeout=None, input=None):
    p = subprocess.run(cmd, cwd=cwd, env=env, timeout=timeout, input=input, capture_output=True, text=True)
    return p.returncode, p.stdout, p.stderr


# ---------------------------------------------------------------- Lean side

def strip_comments(src):
    """Remove Lean block comments (nested) and line comments."""
    out, i, depth = [], 0, 0
    while i < len(src):
        if src.startswith("/-", i):
            depth += 1; i += 2; continue
        if depth and src.startswith("-/", i):
            depth -= 1; i += 2; continue
        if depth:
            if src[i] == "\n": out.append("\n")
            i += 1; continue
        if src.startswith("--", i):
            while i < len(src) and src[i] != "\n": i += 1
            continue
        out.append(src[i]); i += 1
    return "".join(out)


def grep_forbidden():
    hits = []
    for path in glob.glob(os.path.join(LEAN, "**", "*.lean"), recursive=True):
        if "/.lake/" in path: continue
        for n, line in enumerate(strip_comments(open(path).read()).split("\n"), 1):
            if FORBIDDEN.search(line):
                hits.append("%s:%d: %s" % (os.path.relpath(path, VERIF), n, line.strip()))
    return hits


def props_theorems(module):
    """Names of the theorems stated in a Props module (the obligations)."""
    path = os.path.join(LEAN, *module.split(".")) + ".lean"
    src = strip_comments(open(path).read())
    ns = re.findall(r"^namespace\s+(\S+)", src, re.M)
    prefix = (ns[0] + ".") if ns else ""
    return [prefix + m for m in re.findall(r"^theorem\s+([A-Za-z0-9_'.]+)", src, re.M)]


def lean_build(targets):
    t0 = time.time()
    rc, out, err = run([os.path.join(VERIF, "bin", "lk"), "build"] + targets, cwd=LEAN, timeout=3600)
    return rc == 0, (out + err), time.time() - t0


def lean_audit(module, theorems):
    """#print axioms for every obligation; returns {thm: [axioms]} and failures."""
    os.makedirs(BUILD, exist_ok=True)
    path = os.path.join(BUILD, "Audit_%s.lean" % module.replace(".", "_"))
    with open(path, "w") as f:
        f.write("import %s\n" % module)
        for t in theorems:
            f.write("#print axioms %s\n" % t)
    rc, out, err = run(["lake", "env", "lean", path], cwd=LEAN, timeout=1800)
    res, cur = {}, None
    text = out + "\n" + err
    for m in re.finditer(r"'([^']+)' (does not depend on any axioms|depends on axioms: \[([^\]]*)\])", text, re.S):
        res[m.group(1)] = [] if m.group(3) is None else [a.strip() for a in m.group(3).replace("\n", " ").split(",") if a.strip()]
    bad = []
    for t in theorems:
        if t not in res:
            bad.append("%s: not found by #print axioms (%s)" % (t, text.strip()[:300]))
        elif not set(res[t]) <= ALLOWED_AXIOMS:
            bad.append("%s: axioms %s" % (t, res[t]))
    return res, bad


def leanchecker(modules):
    rc, out, err = run(["lake", "env", "leanchecker"] + modules, cwd=LEAN, timeout=3600)
    return rc == 0, (out + err)[-2000:]


# ---------------------------------------------------------------- harness side

def build_rt():
    """Rebuild the Go runtime harness from /repo's working tree with the guard on."""
    os.makedirs(BUILD, exist_ok=True)
    src = os.path.join(VERIF, "harness", "rt")
    shutil.copyfile(os.path.join(REPO, "lib", "go", "go.sum"), os.path.join(src, "go.sum"))
    gomod = open(os.path.join(src, "go.mod")).read()
    want = "replace github.com/Workiva/frugal/lib/go => %s/lib/go" % REPO
    gomod2 = re.sub(r"replace github.com/Workiva/frugal/lib/go => \S+", want, gomod)
    if gomod2 != gomod:
        open(os.path.join(src, "go.mod"), "w").write(gomod2)
    tmp = os.path.join(BUILD, "rt.%d" % os.getpid())
    rc, out, err = run(["go", "build", "-tags", "verif", "-o", tmp, "."], cwd=src, env=GOENV, timeout=1800)
    if rc == 0: os.replace(tmp, os.path.join(BUILD, "rt"))
    return rc == 0, out + err


def build_cc():
    """Rebuild the compiler harness (parser, audit, generators in-process) from /repo's working tree."""
    os.makedirs(BUILD, exist_ok=True)
    src = os.path.join(VERIF, "harness", "cc")
    shutil.copyfile(os.path.join(REPO, "go.sum"), os.path.join(src, "go.sum"))
    gomod = open(os.path.join(src, "go.mod")).read()
    gomod2 = re.sub(r"replace github.com/Workiva/frugal => \S+", "replace github.com/Workiva/frugal => %s" % REPO, gomod)
    if gomod2 != gomod:
        open(os.path.join(src, "go.mod"), "w").write(gomod2)
    tmp = os.path.join(BUILD, "cc.%d" % os.getpid())
    rc, out, err = run(["go", "build", "-tags", "verif", "-o", tmp, "."], cwd=src, env=GOENV, timeout=1800)
    if rc == 0: os.replace(tmp, os.path.join(BUILD, "cc"))
    return rc == 0, out + err


def build_frugal():
    """Build the frugal compiler binary from /repo's working tree into .build/frugal."""
    os.makedirs(BUILD, exist_ok=True)
    tmp = os.path.join(BUILD, "frugal.%d" % os.getpid())
    rc, out, err = run(["go", "build", "-o", tmp, "."], cwd=REPO, env=GOENV, timeout=1800)
    if rc == 0: os.replace(tmp, os.path.join(BUILD, "frugal"))
    return rc == 0, out + err


def build_gen():
    """Generated-code harness: needs the compiler binary; `.build/gen` is a wrapper around harness/gen/gen.py
    (which compiles random IDL with .build/frugal, builds the emitted Go with the reflection runner in a
    scratch module and runs it)."""
    ok, out = build_frugal()
    if not ok: return ok, out
    path = os.path.join(BUILD, "gen")
    tmp = path + ".%d" % os.getpid()
    open(tmp, "w").write("#!/bin/sh\nexec python3 %s \"$@\"\n" % os.path.join(VERIF, "harness", "gen", "gen.py"))
    os.chmod(tmp, 0o755)
    os.replace(tmp, path)
    return True, ""


def build_py():
    """Python-side harness (lib/python header codec): `.build/py` wraps harness/py/c04py.py."""
    os.makedirs(BUILD, exist_ok=True)
    path = os.path.join(BUILD, "py")
    tmp = path + ".%d" % os.getpid()
    open(tmp, "w").write("#!/bin/sh\nexec python3 %s \"$@\"\n" % os.path.join(VERIF, "harness", "py", "c04py.py"))
    os.chmod(tmp, 0o755)
    os.replace(tmp, path)
    return True, ""


def trim_gocache(limit_mb=12000):
    """The generated-code harness builds every program in its own scratch module, so Go's build cache grows by
    100-200 MB per build and is never trimmed within a day: drop it when it has grown past the limit (disk is
    limited in this sandbox; a full cache once took 129 GB)."""
    try:
        rc, out, err = run(["go", "env", "GOCACHE"], env=GOENV, timeout=60)
        d = out.strip()
        if rc != 0 or not d or not os.path.isdir(d): return
        rc, out, err = run(["du", "-sm", d], timeout=600)
        if rc == 0 and int(out.split()[0]) > limit_mb:
            run(["go", "clean", "-cache"], env=GOENV, timeout=1800)
    except Exception:
        pass
    sweep_stale_tmp()

def sweep_stale_tmp(max_age_s=3 * 3600):
    """Scratch directories of OUR harnesses that a killed run (watchdog, a seeded change that wedges the process)
    left behind in the system temp directory: removed once they are hours old (a live run's are younger)."""
    import glob, shutil, tempfile
    now = time.time()
    for pat in ("verif-c*", "verif-gen-*"):   # verif-c11-, -c19h-, -cc-, -copy-, … (every MkdirTemp prefix of the harnesses)
        for d in glob.glob(os.path.join(tempfile.gettempdir(), pat)):
            try:
                if os.path.isdir(d) and now - os.path.getmtime(d) > max_age_s:
                    shutil.rmtree(d, ignore_errors=True)
            except OSError:
                pass

def generate_params():
    """Regenerate lean/FV/Generated/Params.lean from /repo's working tree (go/ast extractor)."""
    os.makedirs(BUILD, exist_ok=True)
    src = os.path.join(VERIF, "harness", "extract")
    binp = os.path.join(BUILD, "extract")
    rc, out, err = run(["go", "build", "-o", binp + ".%d" % os.getpid(), "."], cwd=src, env=GOENV, timeout=600)
    if rc != 0: return False, "extractor does not build: " + (out + err)[-800:]
    os.replace(binp + ".%d" % os.getpid(), binp)
    rc, out, err = run([binp, REPO, os.path.join(LEAN, "FV", "Generated", "Params.lean")], timeout=120)
    if rc != 0: return False, "census:Params " + (out + err).strip()[-800:]
    return True, ""


LOCKS_REPORT = ""


def generate_locks():
    """Regenerate lean/FV/Generated/Locks.lean (lock-discipline facts of lib/go) from /repo's working tree."""
    os.makedirs(BUILD, exist_ok=True)
    src = os.path.join(VERIF, "harness", "locks")
    binp = os.path.join(BUILD, "locks")
    rc, out, err = run(["go", "build", "-o", binp + ".%d" % os.getpid(), "."], cwd=src, env=GOENV, timeout=600)
    if rc != 0: return False, "lock extractor does not build: " + (out + err)[-800:]
    os.replace(binp + ".%d" % os.getpid(), binp)
    rc, out, err = run([binp, REPO, os.path.join(LEAN, "FV", "Generated", "Locks.lean"),
                        os.path.join(VERIF, "known", "locks_unguarded_expected.txt")], timeout=120)
    if rc != 0: return False, "census:Locks " + (out + err).strip()[-800:]
    global LOCKS_REPORT
    # NESTED / LEAK / COPY / SHARED / SHAREDCTOR / UNGUARDED lines (informative; the Lean theorems decide)
    LOCKS_REPORT = "\n".join(l for l in out.strip().split("\n") if l and not l.startswith("NOTE"))
    return True, ""

class Results:
    """What the suites produced. Correspondence cases are compared with the model AS THEY ARRIVE (one
    harness job at a time) and only counts, a bounded sample and the first disagreements are kept, so that
    the thorough tier's millions of (sometimes 50 KB) lines never sit in memory together."""
    KEEP = 3000

    def __init__(self):
        self.cases = []      # bounded sample of (suite, input, real) — for the interpreter re-check / samples
        self.ncases = 0
        self.distinct = {}   # 8-byte hash of (suite, input) -> outcome class
        self.dis = []        # first disagreements
        self.ndis = 0
        self.oracle = []     # dict
        self.noracle = 0
        self.known = []      # (id, what)
        self.stats = {}
        self.samples = []
        self.crashed = []    # harness process failures
        self.driver_error = None

    def add_output(self, suite, text):
        self.add_lines(suite, text.split("\n"))

    def add_lines(self, suite, lines):
        """Consume harness output lines; correspondence cases go to the driver in chunks of bounded size."""
        batch, vol = [], 0
        for line in lines:
            line = line.rstrip("\n")
            if not line: continue
            tag, _, rest = line.partition("\t")
            if tag == "C":
                inp, _, real = rest.partition("\t")
                batch.append((suite, inp, real)); vol += len(inp)
                if len(batch) >= 20000 or vol >= 48 << 20:
                    self._compare(batch); batch, vol = [], 0
            elif tag == "O":
                self.noracle += 1
                if len(self.oracle) < 400:
                    d = json.loads(rest); d["suite"] = suite; self.oracle.append(d)
            elif tag == "K":
                i, _, what = rest.partition("\t"); self.known.append((i, what))
            elif tag == "S":
                k, _, v = rest.partition("\t"); self.stats[suite + ":" + k] = self.stats.get(suite + ":" + k, 0) + int(v)
            elif tag == "X":
                if len(self.samples) < 8: self.samples.append(json.loads(rest))
        self._compare(batch)

    def _compare(self, batch):
        if not batch: return
        self.ncases += len(batch)
        for (suite, inp, real) in batch:
            self.distinct[hashlib.blake2b((suite + "\0" + inp).encode(), digest_size=8).digest()] = real.split(" ")[0][:80]
        if len(self.cases) < self.KEEP: self.cases += batch[: self.KEEP - len(self.cases)]
        if not os.path.exists(DRIVER):
            self.driver_error = "driver executable missing"; return
        try:
            outs = model_outputs([c[1] for c in batch])
        except Exception as e:
            self.driver_error = str(e); return
        for (suite, inp, real), mod in zip(batch, outs):
            if real != mod:
                self.ndis += 1
                if len(self.dis) < 60: self.dis.append({"suite": suite, "input": inp, "real": real, "model": mod})

    def merge(self, o):
        """Fold in the partial result of one harness job (computed in a worker thread)."""
        self.ncases += o.ncases; self.ndis += o.ndis; self.noracle += o.noracle
        self.distinct.update(o.distinct)
        if len(self.cases) < self.KEEP: self.cases += o.cases[: self.KEEP - len(self.cases)]
        self.dis += o.dis[: max(0, 60 - len(self.dis))]
        self.oracle += o.oracle[: max(0, 400 - len(self.oracle))]
        self.known += o.known
        for k, v in o.stats.items(): self.stats[k] = self.stats.get(k, 0) + v
        self.samples += o.samples[: max(0, 8 - len(self.samples))]
        self.crashed += o.crashed
        self.driver_error = self.driver_error or o.driver_error


_JOBSEQ = [0]


def run_suite(binary, suite, seed, n, extra=(), timeout=3000):
    """One harness job: its output goes to a scratch file under .build/tmp (never all in memory), is compared
    with the model chunk by chunk in this worker, and only the partial Results comes back."""
    cmd = [binary, suite, "-seed", str(seed), "-n", str(n)] + list(extra)
    tmpd = os.path.join(BUILD, "tmp"); os.makedirs(tmpd, exist_ok=True)
    _JOBSEQ[0] += 1
    path = os.path.join(tmpd, "job-%d-%d-%s-%d.out" % (os.getpid(), _JOBSEQ[0], suite, seed))
    part = Results(); part.KEEP = 400
    rc, err = 0, ""
    try:
        with open(path, "wb") as fo:
            try:
                p = subprocess.run(cmd, stdout=fo, stderr=subprocess.PIPE, timeout=timeout, env=GOENV)
                rc, err = p.returncode, p.stderr.decode(errors="replace")[-3000:]
            except subprocess.TimeoutExpired:
                rc, err = -9, "timeout"
        with open(path, "r", errors="replace") as fi:
            part.add_lines(suite, fi)
    finally:
        try: os.remove(path)
        except OSError: pass
    if rc != 0:
        part.crashed.append({"suite": suite, "rc": rc, "stderr": err})
    return part


def run_suites(res, jobs):
    """jobs: list of (binary, suite, seed, n, extra). Run in parallel; each worker compares its own output
    with the model, the partial results are merged here."""
    with cf.ThreadPoolExecutor(max_workers=max(2, NPROC - 2)) as ex:
        futs = [ex.submit(run_suite, *j) for j in jobs]
        for fu in cf.as_completed(futs):
            res.merge(fu.result())


def split_jobs(binary, suite, seed, n, extra=(), parts=None):
    parts = parts or max(min(NPROC - 2, max(1, n // 50)), -(-n // 4000))   # at most ~4000 cases per job: bounded memory
    per = max(1, n // parts)
    return [(binary, suite, seed * 1000 + i, per, extra) for i in range(parts)]


def model_outputs(inputs):
    """Run the compiled Lean driver over the input lines."""
    if not inputs: return []
    p = subprocess.run([DRIVER], input="\n".join(inputs) + "\n", capture_output=True, text=True, timeout=3600)
    outs = p.stdout.split("\n")
    if outs and outs[-1] == "": outs.pop()
    if len(outs) != len(inputs):
        raise RuntimeError("driver printed %d lines for %d inputs (rc=%s, stderr=%s)" % (len(outs), len(inputs), p.returncode, p.stderr[-500:]))
    return outs


def model_outputs_interp(inputs):
    """Same lines through the Lean interpreter (thorough: guards against compiler/kernel divergence)."""
    p = subprocess.run(["lake", "env", "lean", "--run", "Driver/Main.lean"], cwd=LEAN, input="\n".join(inputs) + "\n",
                       capture_output=True, text=True, timeout=3600)
    outs = p.stdout.split("\n")
    if outs and outs[-1] == "": outs.pop()
    return outs


def compare(res):
    """Disagreements found while the outputs streamed in (see Results._compare)."""
    if res.driver_error: raise RuntimeError(res.driver_error)
    return res.dis, None


# ---------------------------------------------------------------- known findings

def load_known(prop):
    path = os.path.join(VERIF, "KNOWN_FINDINGS.txt")
    out = []
    if not os.path.exists(path): return out
    for line in open(path):
        line = line.strip()
        if not line.startswith("finding:"): continue
        d = dict(re.findall(r"(\w+)=(\S+)", line))
        if d.get("property") != prop: continue
        d["text"] = line.split(" -- ", 1)[1] if " -- " in line else line
        out.append(d)
    return out


# ---------------------------------------------------------------- evidence / verdict

def clip(x, n=400):
    s = x if isinstance(x, str) else json.dumps(x)
    return s if len(s) <= n else s[:n] + "…(%d chars)" % len(s)


def write_replay(prop, seed, idx, payload):
    os.makedirs(os.path.join(VERIF, "replays"), exist_ok=True)
    path = os.path.join(VERIF, "replays", "%s-%d-%d.json" % (prop, seed, idx))
    payload = dict(payload, property=prop, seed=seed,
                   rerun="bin/check %s --replay %s" % (prop, os.path.relpath(path, VERIF)))
    json.dump(payload, open(path, "w"), indent=1)
    return path


def write_evidence(prop, tier, seed, coverage, assumptions, wall, violations):
    os.makedirs(os.path.join(VERIF, "evidence"), exist_ok=True)
    ev = {"property_id": prop, "tier": tier, "seed": seed, "level": "proof", "coverage": coverage,
          "assumptions": assumptions, "wall_s": round(wall, 2), "violations": violations}
    json.dump(ev, open(os.path.join(VERIF, "evidence", prop + ".json"), "w"), indent=1)
