/-
Driver ops for the generated-code model (C02): `g2w`, `g2r`, `g2p`.
Parsers of the compact syntaxes shared with harness/gen (gen.py, runner/values.go, runner/events.go)
and the canonical renderings (wire tree of an event stream; typed dump of a value).
-/
import Driver.Util
import FV.Model.Thrift

namespace Driver
open FV FV.Thrift

/-! ### parsers (fuelled recursive descent over `List Char`) -/

def takeUntilT (c : Char) : List Char → List Char × List Char
  | [] => ([], [])
  | x :: xs => if x = c then ([], xs) else let (a, b) := takeUntilT c xs; (x :: a, b)

def parseTyN : Nat → List Char → Option (Ty × List Char)
  | 0, _ => none
  | n + 1, cs =>
    match cs with
    | 'b' :: r => some (.bool, r) | 'y' :: r => some (.byte, r) | 'h' :: r => some (.i16, r)
    | 'i' :: r => some (.i32, r) | 'l' :: r => some (.i64, r) | 'd' :: r => some (.double, r)
    | 's' :: r => some (.string, r) | 'x' :: r => some (.binary, r)
    | 'E' :: r => let (nm, r') := takeUntilT '.' r; some (.enum (String.ofList nm), r')
    | 'S' :: r => let (nm, r') := takeUntilT '.' r; some (.struct (String.ofList nm), r')
    | 'T' :: r => let (nm, r') := takeUntilT '.' r; some (.typedef (String.ofList nm), r')
    | 'L' :: r => do let (a, r') ← parseTyN n r; pure (.list a, r')
    | 'Z' :: r => do let (a, r') ← parseTyN n r; pure (.set a, r')
    | 'M' :: r => do
      let (a, r1) ← parseTyN n r
      let (b, r2) ← parseTyN n r1
      pure (.map a b, r2)
    | _ => none

def parseThriftTy (s : String) : Option Ty := (parseTyN 64 s.toList).map (·.1)

def parseThriftReq : String → Option Req
  | "r" => some .required | "o" => some .optional | "d" => some .default | _ => none

def parseIntUntilT (c : Char) (cs : List Char) : Option (Int × List Char) :=
  let (a, r) := takeUntilT c cs
  (String.ofList a).toInt?.map (·, r)

def hexNatT (cs : List Char) : Option Nat :=
  cs.foldlM (init := 0) fun acc c => (hexVal c).map (acc * 16 + ·)

mutual
def parseValN : Nat → List Char → Option (Val × List Char)
  | 0, _ => none
  | n + 1, cs =>
    match cs with
    | 't' :: r => some (.bool true, r)
    | 'f' :: r => some (.bool false, r)
    | 'n' :: r => do let (k, r') ← parseIntUntilT ';' r; pure (.int k, r')
    | 'g' :: r => do let b ← hexNatT (r.take 16); pure (.dbl b, r.drop 16)
    | 'q' :: r => let (h, r') := takeUntilT ';' r; do let b ← unhexChars h; pure (.bytes b, r')
    | '[' :: r => do let (vs, r') ← parseItemsN n r; pure (.list vs, r')
    | '{' :: r => do let (kvs, r') ← parsePairsN n r; pure (.map kvs, r')
    | '(' :: r => do let (fs, r') ← parseFieldsN n r; pure (.struct fs, r')
    | _ => none
def parseItemsN : Nat → List Char → Option (List Val × List Char)
  | 0, _ => none
  | n + 1, cs =>
    match cs with
    | ']' :: r => some ([], r)
    | _ => do
      let (v, r1) ← parseValN n cs
      let (vs, r2) ← parseItemsN n r1
      pure (v :: vs, r2)
def parsePairsN : Nat → List Char → Option (List (Val × Val) × List Char)
  | 0, _ => none
  | n + 1, cs =>
    match cs with
    | '}' :: r => some ([], r)
    | _ => do
      let (k, r1) ← parseValN n cs
      let (v, r2) ← parseValN n r1
      let (kvs, r3) ← parsePairsN n r2
      pure ((k, v) :: kvs, r3)
def parseFieldsN : Nat → List Char → Option (List (Int × Val) × List Char)
  | 0, _ => none
  | n + 1, cs =>
    match cs with
    | ')' :: r => some ([], r)
    | _ => do
      let (id, r1) ← parseIntUntilT '=' cs
      let (v, r2) ← parseValN n r1
      let (fs, r3) ← parseFieldsN n r2
      pure ((id, v) :: fs, r3)
end

def parseThriftVal (s : String) : Option Val := (parseValN (s.length + 2) s.toList).map (·.1)

/-- `id,req,name,type` or `id,req,name,type,default` — the default in the value syntax with `:` for `;`
(`n5:`, `q6869:`, `[n1:n2:]`), since `;` separates fields. -/
def parseThriftField (s : String) : Option Field :=
  match s.splitOn "," with
  | [i, r, nm, t] => do
    let id ← i.toInt?
    let req ← parseThriftReq r
    let ty ← parseThriftTy t
    pure ⟨id, req, nm, ty, none⟩
  | [i, r, nm, t, dv] => do
    let id ← i.toInt?
    let req ← parseThriftReq r
    let ty ← parseThriftTy t
    let v ← parseThriftVal (dv.replace ":" ";")
    pure ⟨id, req, nm, ty, some v⟩
  | _ => none

def parseThriftDefs (s : String) : Option Defs :=
  if s == "-" || s == "" then some ⟨[], [], []⟩ else
  (s.splitOn "|").foldlM (init := (⟨[], [], []⟩ : Defs)) fun d item =>
    match item.toList with
    | 't' :: rest =>
      match (String.ofList rest).splitOn "=" with
      | [nm, t] => do let ty ← parseThriftTy t; pure { d with typedefs := d.typedefs ++ [(nm, ty)] }
      | _ => none
    | 'e' :: rest =>
      match (String.ofList rest).splitOn "=" with
      | [nm, vs] => do
        let vals ← if vs == "" then some [] else (vs.splitOn ",").mapM String.toInt?
        pure { d with enums := d.enums ++ [(nm, vals)] }
      | _ => none
    | 'r' :: k :: rest =>
      let body := String.ofList rest
      match body.splitOn "(" with
      | [nm, fl] => do
        let kind ← match k with | 's' => some Kind.struct | 'u' => some Kind.union | 'x' => some Kind.exception | _ => none
        let inner := (fl.dropEnd 1).toString
        let fields ← if inner == "" then some [] else (inner.splitOn ";").mapM parseThriftField
        pure { d with structs := d.structs ++ [⟨kind, nm, (nm.splitOn "/").getLast!, fields⟩] }
      | _ => none
    | _ => none

def parseThriftEvent (tok : String) : Option Event :=
  match tok.splitOn ":" with
  | ["SB", nm] => some (.sb nm)
  | ["SE"] => some .se | ["FE"] => some .fe | ["FS"] => some .fs
  | ["ME"] => some .me | ["LE"] => some .le | ["TE"] => some .te
  | ["FB", nm, tt, id] => do pure (.fb nm (← tt.toNat?) (← id.toInt?))
  | ["MB", k, v, n] => do pure (.mb (← k.toNat?) (← v.toNat?) (← n.toNat?))
  | ["LB", t, n] => do pure (.lb (← t.toNat?) (← n.toNat?))
  | ["TB", t, n] => do pure (.tb (← t.toNat?) (← n.toNat?))
  | ["BOOL", n] => do pure (.bool ((← n.toInt?) ≠ 0))
  | ["BYTE", n] => do pure (.byte (← n.toInt?))
  | ["I16", n] => do pure (.i16 (← n.toInt?))
  | ["I32", n] => do pure (.i32 (← n.toInt?))
  | ["I64", n] => do pure (.i64 (← n.toInt?))
  | ["DBL", h] => do pure (.dbl (← hexNatT h.toList))
  | ["STR", h] => do pure (.str false (← unhexChars h.toList))
  | ["BIN", h] => do pure (.str true (← unhexChars h.toList))
  | _ => none

def parseThriftEvents (s : String) : Option (List Event) :=
  if s == "-" || s == "" then some [] else (s.splitOn ";").mapM parseThriftEvent

/-! ### canonical renderings -/

def insertStrT (s : String) : List String → List String
  | [] => [s]
  | x :: t => if s < x then s :: x :: t else x :: insertStrT s t

def sortStrsT (l : List String) : List String := l.foldr insertStrT []

def hex16T (n : Nat) : String :=
  String.ofList ((List.range 16).reverse.map fun i => hexDigit (n / 16 ^ i % 16))

mutual
/-- canonical wire tree of one value of wire type `tt` at the head of the stream -/
def treeV : Nat → Nat → List Event → Option (String × List Event)
  | 0, _, _ => none
  | n + 1, tt, es =>
    match tt, es with
    | 2, .bool b :: r => some (if b then "B1" else "B0", r)
    | 3, .byte k :: r => some (s!"Y{k}", r)
    | 6, .i16 k :: r => some (s!"H{k}", r)
    | 8, .i32 k :: r => some (s!"I{k}", r)
    | 10, .i64 k :: r => some (s!"L{k}", r)
    | 4, .dbl b :: r => some ("D" ++ hex16T b, r)
    | 11, .str _ b :: r => some ("S" ++ hexRaw b, r)
    | 12, es => treeS n es
    | 15, .lb et k :: r => do
      let (items, r') ← treeItems n k et r
      match r' with
      | .le :: r'' => some (s!"LS({et})[{",".intercalate items}]", r'')
      | _ => none
    | 14, .tb et k :: r => do
      let (items, r') ← treeItems n k et r
      match r' with
      | .te :: r'' => some (s!"ST({et})" ++ "{" ++ ",".intercalate (sortStrsT items) ++ "}", r'')
      | _ => none
    | 13, .mb kt vt k :: r => do
      let (items, r') ← treeEntries n k kt vt r
      match r' with
      | .me :: r'' => some (s!"MP({kt},{vt})" ++ "{" ++ ",".intercalate (sortStrsT items) ++ "}", r'')
      | _ => none
    | _, _ => none
def treeItems : Nat → Nat → Nat → List Event → Option (List String × List Event)
  | 0, _, _, _ => none
  | _ + 1, 0, _, es => some ([], es)
  | n + 1, k + 1, et, es => do
    let (s, r) ← treeV n et es
    let (ss, r') ← treeItems n k et r
    pure (s :: ss, r')
def treeEntries : Nat → Nat → Nat → Nat → List Event → Option (List String × List Event)
  | 0, _, _, _, _ => none
  | _ + 1, 0, _, _, es => some ([], es)
  | n + 1, k + 1, kt, vt, es => do
    let (a, r1) ← treeV n kt es
    let (b, r2) ← treeV n vt r1
    let (ss, r3) ← treeEntries n k kt vt r2
    pure ((a ++ "=" ++ b) :: ss, r3)
def treeS : Nat → List Event → Option (String × List Event)
  | 0, _ => none
  | n + 1, es =>
    match es with
    | .sb nm :: r => do
      let (fl, r') ← treeFields n r
      match r' with
      | .se :: r'' =>
        let sorted := fl.foldr (fun (x : Int × String) acc =>
          let rec ins (x : Int × String) : List (Int × String) → List (Int × String)
            | [] => [x]
            | y :: t => if x.1 < y.1 then x :: y :: t else y :: ins x t
          ins x acc) []
        some ("R(" ++ nm ++ "){" ++ ";".intercalate (sorted.map (·.2)) ++ "}", r'')
      | _ => none
    | _ => none
def treeFields : Nat → List Event → Option (List (Int × String) × List Event)
  | 0, _ => none
  | n + 1, es =>
    match es with
    | .fs :: r => some ([], r)
    | .fb nm tt id :: r => do
      let (v, r1) ← treeV n tt r
      match r1 with
      | .fe :: r2 => do
        let (fl, r3) ← treeFields n r2
        pure ((id, s!"{id}:{nm}:{tt}={v}") :: fl, r3)
      | _ => none
    | _ => none
end

def canonThriftEvents (es : List Event) : String :=
  match treeS (2 * es.length + 4) es with
  | some (s, []) => s
  | _ => "malformed"

def dumpV (d : Defs) : Nat → Ty → Val → String
  | 0, _, _ => "?"
  | n + 1, t, v =>
    match resolve d t, v with
    | _, .bool b => if b then "t" else "f"
    | _, .int k => s!"n{k};"
    | _, .dbl b => if dblIsNaN b then "g7ff8000000000001" else "g" ++ hex16T b   -- dumps compare NaNs as "is NaN" (JSON carries no payload)
    | _, .bytes b => "q" ++ hexRaw b ++ ";"
    | .list a, .list vs => "[" ++ String.join (vs.map (dumpV d n a)) ++ "]"
    | .set a, .list vs => "[" ++ String.join (sortStrsT (vs.map (dumpV d n a))) ++ "]"
    | .map kt vt, .map kvs => "{" ++ String.join (sortStrsT (kvs.map fun kv => dumpV d n kt kv.1 ++ dumpV d n vt kv.2)) ++ "}"
    | .struct nm, .struct fs =>
      match lookupStruct d nm with
      | none => "?"
      | some sd =>
        let sortedF := sd.fields.foldr (fun (x : Field) acc =>
          let rec ins (x : Field) : List Field → List Field
            | [] => [x]
            | y :: t => if x.id < y.id then x :: y :: t else y :: ins x t
          ins x acc) []
        "(" ++ String.join (sortedF.map fun f =>
          match lookupVal fs f.id with
          | some fv => s!"{f.id}=" ++ dumpV d n f.ty fv
          | none =>
            if f.req = .optional ∨ sd.kind = .union then "" else
            -- a non-pointer field that was not read: the constructor's default, else the Go zero value
            match f.dflt with
            | some dv => s!"{f.id}=" ++ dumpV d n f.ty dv
            | none =>
            match resolve d f.ty with
            | .bool => s!"{f.id}=f"
            | .byte | .i16 | .i32 | .i64 | .enum _ => s!"{f.id}=n0;"
            | .double => s!"{f.id}=g0000000000000000"
            | .string | .binary => s!"{f.id}=q;"
            | .list _ | .set _ => s!"{f.id}=[]"
            | .map _ _ => s!"{f.id}=" ++ "{}"
            | _ => "") ++ ")"
    | _, _ => "?"

def stepThrift (op : String) (args : List String) : Option String :=
  match op, args with
  | "g2w", [ds, sn, vs] => do
    let d ← parseThriftDefs ds
    let v ← parseThriftVal vs
    pure (showRes (fun es => "ok " ++ canonThriftEvents es) (encV d 64 (.struct sn) v))
  | "g2r", [ds, sn, evs] => do
    let d ← parseThriftDefs ds
    let es ← parseThriftEvents evs
    pure (showRes (fun (v, rest) => s!"ok {dumpV d 64 (.struct sn) v} rest={rest.length}") (decV d 64 (.struct sn) es))
  | "g2p", [ds, sn, vs] => do
    let d ← parseThriftDefs ds
    let v ← parseThriftVal vs
    let one : String := match encV d 64 (.struct sn) v with
      | .ok es => match decV d 64 (.struct sn) es with
        | .ok (v', _) => dumpV d 64 (.struct sn) v'
        | .err e => "read-err:" ++ errName e
        | .panic p => "read-panic:" ++ panicName p
      | .err e => "write-err:" ++ errName e
      | .panic p => "write-panic:" ++ panicName p
    pure s!"ok binary={one} compact={one} json={one}"
  | _, _ => none

end Driver
