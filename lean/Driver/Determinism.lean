/-
Driver ops of C19 (harness/cc/determinism.go, census19_suite.go):
  c19ord <lang> <opts|-> <root> <graph>   generation order of the files of a program
        (model: `genOrder`; real: the compiler's -v log)
  c19mods <rootname> <root> <graph>        module order of the html index
        (model: reachable files sorted by name; real: index.html)
  c19site <key>                            census tie: the regenerated table's entry
  c19det <s|t|u|v|w><seed> <gen> <R> <keep> / c19dir <gen> <R> <dir> / c19hist <tok> <gen> <variant> <keep>
        (c19hist: the -out directory already holds other output; the model's output does not depend on it)
        a determinism run; the model is a function, its outputs over repetitions are
        one and the same: `ok same`
graph: nodes `i=inc,inc,…` separated by `;`, inc = `name.target.vendor`, `-` = no includes.
-/
import FV.Model.Determinism
import FV.Generated.Census19

namespace Driver
open FV.Determinism

def c19ParseInc (s : String) : Option (Inc × Nat) :=
  match s.splitOn "." with
  | [n, t, v] => do
    let t' ← t.toNat?
    some (⟨n, v == "1"⟩, t')
  | _ => none

def c19ParseNode (s : String) : Option (Nat × List (Inc × Nat)) :=
  match s.splitOn "=" with
  | [i, l] => do
    let i' ← i.toNat?
    if l == "-" then some (i', []) else do
      let incs ← (l.splitOn ",").mapM c19ParseInc
      some (i', incs)
  | _ => none

def c19ParseGraph (s : String) : Option (List (Nat × List (Inc × Nat))) :=
  (s.splitOn ";").mapM c19ParseNode

def c19Prog (g : List (Nat × List (Inc × Nat))) : Prog :=
  { incs := fun n => ((g.lookup n).getD []).map (·.1),
    parsed := fun n => ((g.lookup n).getD []).map (fun x => (x.1.name, x.2)) }

def c19UseVendor (lang opts : String) : Bool :=
  (lang == "go" || lang == "java" || lang == "dart") &&
  (opts.splitOn ",").any (fun o => o == "use_vendor" || o.startsWith "use_vendor=")

def c19ShowNats (l : List Nat) : String :=
  if l.isEmpty then "ok ." else "ok " ++ ",".intercalate (l.map toString)

def c19NodeName (rootName : String) (root : Nat) (g : List (Nat × List (Inc × Nat))) (n : Nat) : String :=
  if n = root then rootName else
  match (g.flatMap (·.2)).find? (fun x => x.2 == n) with
  | some x => x.1.name
  | none => "?"

def c19IsNat (s : String) : Bool := s.toNat?.isSome

/-- program tokens of the harness: s/t/u/v followed by the generator seed -/
def c19IsTok (s : String) : Bool := ["s", "t", "u", "v", "w", "x"].any (fun c => s.startsWith c)

def stepDeterminism (op : String) (args : List String) : Option String :=
  match op, args with
  | "c19ord", [lang, opts, root, graph] =>
    some <| match root.toNat?, c19ParseGraph graph with
    | some r, some g => c19ShowNats (genOrder (c19Prog g) (c19UseVendor lang opts) (g.length + 1) r)
    | _, _ => "bad-op"
  | "c19mods", [rootName, root, graph] =>
    some <| match root.toNat?, c19ParseGraph graph with
    | some r, some g =>
      let nodes := reachRec (c19Prog g) (g.length + 1) r []
      let names := sortBy strLe (nodes.map (c19NodeName rootName r g))
      if names.isEmpty then "ok ." else "ok " ++ ",".intercalate names
    | _, _ => "bad-op"
  | "c19site", [key] =>
    some <| match FV.Census19.sites.find? (fun s => s.key == key) with
    | some s =>
      if s.pattern == Pattern.vanished then "expected-present " ++ s.kind
      else if s.pattern.accounted then "present " ++ s.kind ++ " " ++ s.pattern.name
      else "unknown-site"
    | none => "unknown-site"
  | "c19det", [seed, _gen, r, _keep] =>
    some (if c19IsNat (seed.drop 1).toString && c19IsTok seed && c19IsNat r then "ok same" else "bad-op")
  | "c19hist", [seed, _gen, variant, _keep] =>
    some (if c19IsNat (seed.drop 1).toString && c19IsTok seed && ["opts", "sup", "sub", "target", "twice", "gomodule"].contains variant then "ok same" else "bad-op")
  | "c19dir", [_gen, r, _dir] =>
    some (if c19IsNat r then "ok same" else "bad-op")
  | "c19ord", _ => some "bad-op"
  | "c19mods", _ => some "bad-op"
  | "c19site", _ => some "bad-op"
  | "c19det", _ => some "bad-op"
  | "c19hist", _ => some "bad-op"
  | "c19dir", _ => some "bad-op"
  | _, _ => none

end Driver
