/-
Driver ops of C07 (pub/sub delivery). All of them execute the transition system of
FV.Model.PubSub (`step`: publish / work / unsubscribe / abandon) with the real model pipeline
(`handle`: length check, header codec, op check, emitted Read).

  ps  <tr> <w> <delayUs> <ops>              runtime suite, quiescent scenarios: prints
                                            unsub=<none|ok> delivered=<tags> cb=<n> err=<n>
  pm  <tr> <w> <delayUs> <subs> <ops>       runtime suite, several subscriptions (topic index each) from ONE provider:
                                            the product of independent instances; prints k=<n> <sub 0> / <sub 1> / …
  psr <tr> <w> <delayUs> <observed> <ops>   runtime suite, Unsubscribe racing messages in flight: `ok` iff the
                                            observed delivery list is admissible (everything delivered before the
                                            Unsubscribe, then a sub-list of what was queued; as sets for w > 1)
  g7  <defs> <struct> <otherStruct|-> <scope> <op> <otherOp|-> <tokens> <proto> <actions>
                                            generated suite: prints n=<calls> acts=… calls=… (see harness/gen/runner/pubsub.go)
-/
import Driver.Util
import Driver.Thrift
import FV.Model.PubSub
import FV.Model.Context

namespace Driver
open FV FV.Thrift FV.PubSub

def strBytes (s : String) : Bytes := s.toUTF8.toList

/-! ### runtime suite -/

def rtDefs : Defs := ⟨[], [], [⟨.struct, "rt/Payload", "Payload", [⟨1, .default, "tag", .i64, none⟩, ⟨2, .default, "blob", .binary, none⟩]⟩]⟩
def rtCfg : SubCfg := ⟨rtDefs, 8, "Evt", .struct "rt/Payload"⟩
def rtTopicOf (i : Nat) : Topic := strBytes s!"t{i}"
def rtTopic : Topic := rtTopicOf 0

/-- `c07Blob` of harness/rt/pubsub.go. -/
def rtBlob (tag : Nat) : Bytes :=
  (List.range (tag % 7)).map fun i => UInt8.ofNat ((tag * 31 + i * 7) % 256)

def rtHdrs (tag : Nat) : Hdrs :=
  [(cidHeader, strBytes s!"cid-{tag}"), (opIdHeader, strBytes "1"), (timeoutHeader, strBytes "5000"),
   (strBytes "k", strBytes s!"v{tag}")]

def rtVal (tag : Nat) : Val := .struct [(1, .int tag), (2, .bytes (rtBlob tag))]

inductive RtOp where
  | pub (m : Published)
  | barrier | wait | unsub (k : Nat)
  | resub (k : Nat)     -- a new transport from the same provider takes the place of subscription k
  | noop                -- X: refused by the publisher (above the size limit), nothing reaches the broker

def rtPacket (opName : String) (tag : Nat) (truncate : Bool) : Packet :=
  let es : List Event := if truncate then [.sb "Payload", .fb "tag" 10 1] else
    match encV rtCfg.d rtCfg.fuel rtCfg.ty (rtVal tag) with
    | .ok es => es
    | _ => []
  ⟨be32 0 ++ marshal (rtHdrs tag), .msg opName es⟩

/-- `<body>[.<topic>]` -/
def splitTopic (r : List Char) : Option (String × Nat) :=
  match (String.ofList r).splitOn "." with
  | [b] => some (b, 0)
  | [b, t] => t.toNat?.map fun n => (b, n)
  | _ => none

def parseRtOp (s : String) : Option RtOp :=
  match s.toList with
  | ['B'] => some .barrier
  | ['W'] => some .wait
  | ['U'] => some (.unsub 0)
  | 'U' :: r => (String.ofList r).toNat?.map .unsub
  | ['S'] => some (.resub 0)
  | 'S' :: r => (String.ofList r).toNat?.map .resub
  | 'X' :: r => do
    let (b, _) ← splitTopic r
    let _ ← b.toNat?
    pure .noop
  | 'H' :: r => do      -- valid message; the handler returns an error after it was invoked
    let (b, t) ← splitTopic r
    let n ← b.toNat?
    pure (.pub ⟨rtTopicOf t, rtPacket "Evt" n false⟩)
  | 'V' :: r => do
    let (b, t) ← splitTopic r
    let n ← b.toNat?
    pure (.pub ⟨rtTopicOf t, rtPacket "Evt" n false⟩)
  | 'O' :: r => do
    let (b, t) ← splitTopic r
    let n ← b.toNat?
    pure (.pub ⟨rtTopicOf t, rtPacket "Other" n false⟩)
  | 'G' :: r => do
    let (b, t) ← splitTopic r
    let n ← b.toNat?
    pure (.pub ⟨rtTopicOf t, rtPacket "Evt" n true⟩)
  | 'F' :: r => (String.ofList r).toNat?.map fun t => .pub ⟨strBytes "t0.x", rtPacket "Evt" t false⟩
  | 'R' :: r => do
    let (b, t) ← splitTopic r
    let bytes ← unhex b
    pure (.pub ⟨rtTopicOf t, ⟨bytes, .garbage⟩⟩)
  | _ => none

/-- Tags of the `H` operations: delivered like any valid message, and the callback reports the handler's error. -/
def hTagsOf (s : String) : List Nat :=
  (s.splitOn ",").filterMap fun p => match p.toList with
    | 'H' :: r => (splitTopic r).bind fun (b, _) => b.toNat?
    | _ => none

/-- A fresh subscription (new transport, same handler): the model instance starts again, the handler's log goes on. -/
def resubSt (s : St) : St := { St.init with w := s.w, accepted := s.accepted }

def parseRtOps (s : String) : Option (List RtOp) :=
  if s == "." then some [] else (s.splitOn ",").mapM parseRtOp

/-- Workers run until the queue is empty. -/
def drain (c : SubCfg) (topic : Topic) : Nat → St → St
  | 0, s => s
  | n + 1, s => match step c topic s .work with
    | some s' => drain c topic n s'
    | none => s

def tagOf (dl : Delivery) : Nat :=
  match dl.payload with
  | .struct fs => match lookupVal fs 1 with
    | some (.int k) => k.toNat
    | _ => 0
  | _ => 0

def insertNat (x : Nat) : List Nat → List Nat
  | [] => [x]
  | y :: t => if x ≤ y then x :: y :: t else y :: insertNat x t
def sortNats (l : List Nat) : List Nat := l.foldr insertNat []

def tagsStr (l : List Nat) : String := if l.isEmpty then "-" else ",".intercalate (l.map toString)

/-- Quiescent execution: every barrier and the end of the scenario drain the queue; an Unsubscribe
finds the queue as the schedule left it, the workers then quit. -/
def rtRun (ops : List RtOp) : St × Bool :=
  ops.foldl (fun (acc : St × Bool) o =>
    let (s, u) := acc
    match o with
    | .pub m => ((step rtCfg rtTopic s (.publish m)).getD s, u)
    | .barrier => (drain rtCfg rtTopic (s.queue.length + 1) s, u)
    | .wait => (s, u)
    | .noop => (s, u)
    | .resub k => if k ≠ 0 then (s, u) else (resubSt s, false)
    | .unsub k =>
      if k ≠ 0 then (s, u) else
      let s1 := (step rtCfg rtTopic s .unsubscribe).getD s
      ((step rtCfg rtTopic s1 .abandon).getD s1, true)) (St.init, false)

/-- Several subscriptions made from one provider: a PRODUCT of independent instances of the
subscription model, instance `k` on topic `topics[k]` (`c07_subscribers_independent`); every publish is
offered to every instance, the broker model of each keeps what is on its own topic. -/
def rtRunMulti (topics : List Nat) (ops : List RtOp) : List (St × Bool) :=
  let stepAll (f : Nat → Topic → St × Bool → St × Bool) (l : List (St × Bool)) : List (St × Bool) :=
    (l.zip (List.range l.length)).map fun (x, k) => f k (rtTopicOf (topics.getD k 0)) x
  ops.foldl (fun acc o =>
    match o with
    | .pub m => stepAll (fun _ t (s, u) => ((step rtCfg t s (.publish m)).getD s, u)) acc
    | .barrier => stepAll (fun _ t (s, u) => (drain rtCfg t (s.queue.length + 1) s, u)) acc
    | .wait => acc
    | .noop => acc
    | .resub k => stepAll (fun i _ (s, u) => if i ≠ k then (s, u) else (resubSt s, false)) acc
    | .unsub k => stepAll (fun i t (s, u) =>
        if i ≠ k then (s, u) else
        let s1 := (step rtCfg t s .unsubscribe).getD s
        ((step rtCfg t s1 .abandon).getD s1, true)) acc) (topics.map fun _ => (St.init, false))

def subLineStr (wn : Nat) (hs : List Nat) (s : St) (u : Bool) : String :=
  let tags := if wn ≤ 1 then s.w.log.map tagOf else sortNats (s.w.log.map tagOf)
  let herr := ((s.w.log.map tagOf).filter (hs.contains ·)).length
  s!"unsub={if u then "ok" else "none"} delivered={tagsStr tags} cb={s.w.cbs} err={s.w.errs + herr}"

/-- Racing execution up to the first Unsubscribe: (delivered for sure, deliveries owed for what is in flight). -/
def rtRace : List RtOp → St → (List Nat × List Nat)
  | [], s =>
    let s' := drain rtCfg rtTopic (s.queue.length + 1) s
    (s'.w.log.map tagOf, [])
  | .pub m :: r, s => rtRace r ((step rtCfg rtTopic s (.publish m)).getD s)
  | .barrier :: r, s => rtRace r (drain rtCfg rtTopic (s.queue.length + 1) s)
  | .wait :: r, s => rtRace r s
  | .noop :: r, s => rtRace r s
  | .resub _ :: r, s => rtRace r (resubSt s)
  | .unsub _ :: _, s => (s.w.log.map tagOf, (s.queue.filterMap (deliver rtCfg)).map tagOf)

def isSublist : List Nat → List Nat → Bool
  | [], _ => true
  | _ :: _, [] => false
  | x :: xs, y :: ys => if x = y then isSublist xs ys else isSublist (x :: xs) ys

def noDup : List Nat → Bool
  | [] => true
  | x :: t => !t.contains x && noDup t

def parseTags (s : String) : Option (List Nat) :=
  if s == "-" then some [] else (s.splitOn ",").mapM (·.toNat?)

/-! ### generated suite -/

inductive PTok where
  | lit (s : Bytes) | var (name : Bytes)

def parseToks (s : String) : Option (List PTok) :=
  if s == "." then some [] else
  (s.splitOn ",").mapM fun t =>
    match t.splitOn ":" with
    | ["l", h] => (unhexChars h.toList).map PTok.lit
    | ["v", h] => (unhexChars h.toList).map PTok.var
    | _ => none

/-- The emitted topic: every prefix token followed by '.', variables replaced by their values in
order, then `<Scope>.<op>` (default delimiter; C08 covers the construction itself). -/
def renderTopic : List PTok → List Bytes → Bytes → Bytes → Bytes
  | [], _, scope, op => scope ++ [46] ++ op
  | .lit s :: r, vs, scope, op => s ++ [46] ++ renderTopic r vs scope op
  | .var _ :: r, v :: vs, scope, op => v ++ [46] ++ renderTopic r vs scope op
  | .var _ :: r, [], scope, op => [46] ++ renderTopic r [] scope op

def varNames : List PTok → List Bytes
  | [] => []
  | .lit _ :: r => varNames r
  | .var n :: r => n :: varNames r

def parseVarVals (s : String) : Option (List Bytes) :=
  if s == "." then some [] else (s.splitOn "+").mapM unhex

/-- `NewFContext(cid)` + user headers + the emitted `_topic_<var>` headers. -/
def genHdrs (cid : Bytes) (user : Hdrs) (names vals : List Bytes) : Hdrs :=
  pubHeaders (Hdrs.setAll [(cidHeader, cid), (opIdHeader, strBytes "1"), (timeoutHeader, strBytes "5000")] user)
    (names.zip vals)

structure G7 where
  cfg : SubCfg
  otherCfg : Option SubCfg
  toks : List PTok
  scope : Bytes

/-- One subscription made from the provider: its topic, what it decodes, its model instance. -/
structure G7Sub where
  topic : Topic
  cfg : SubCfg
  st : St

structure G7State where
  subs : List G7Sub
  acts : List String
  calls : List String

def g7Classify (before after : St) (enqueued : Bool) : String :=
  if !enqueued then "nosub"
  else if after.w.log.length > before.w.log.length then "cb:ok"
  else if after.w.errs > before.w.errs then "cb:err"
  else "nocb"

def g7Call (d : Defs) (k : Nat) (cfg : SubCfg) (dl : Delivery) : String :=
  s!"{k}:" ++ dumpV d 64 cfg.ty dl.payload ++ "@" ++ pairsOf (dl.hdrs.filter fun kv => kv.1 ≠ opIdHeader)

/-- A publish is offered to every instance (product of independent instances); the in-memory broker
calls the subscriptions on the topic one after the other, in subscription order. -/
def g7Publish (g : G7) (s : G7State) (m : Published) : G7State :=
  let rec go (k : Nat) (subs : List G7Sub) (accS : List G7Sub) (res : List String) (calls : List String) :
      List G7Sub × List String × List String :=
    match subs with
    | [] => (accS.reverse, res, calls)
    | sb :: rest =>
      let s1 := (step sb.cfg sb.topic sb.st (.publish m)).getD sb.st
      let enq := s1.queue.length > sb.st.queue.length
      let s2 := drain sb.cfg sb.topic (s1.queue.length + 1) s1
      let newCalls := (s2.w.log.drop sb.st.w.log.length).map (g7Call g.cfg.d k sb.cfg)
      go (k + 1) rest ({ sb with st := s2 } :: accS)
        (if enq then res ++ [g7Classify sb.st s2 true] else res) (calls ++ newCalls)
  let (subs', res, calls') := go 0 s.subs [] [] s.calls
  { s with subs := subs', calls := calls', acts := s.acts ++ [if res.isEmpty then "nosub" else "+".intercalate res] }

def g7TopicOf (s : G7State) (k : Nat) : Option Topic := (s.subs[k]?).map (·.topic)

def g7Unsub (s : G7State) (i : Nat) : Option G7State := do
  let sb ← s.subs[i]?
  let s1 := (step sb.cfg sb.topic sb.st .unsubscribe).getD sb.st
  let s2 := (step sb.cfg sb.topic s1 .abandon).getD s1
  pure { s with subs := s.subs.set i { sb with st := s2 }, acts := s.acts ++ ["unsub"] }

def g7Act (g : G7) (s : G7State) (a : String) : Option G7State :=
  match a.splitOn "!" with
  | [k, vs] =>
    if k == "S" || k == "T" then do
      let vals ← parseVarVals vs
      let cfg ← if k == "S" then some g.cfg else g.otherCfg
      let t := renderTopic g.toks vals g.scope (strBytes cfg.op)
      pure { s with subs := s.subs ++ [⟨t, cfg, St.init⟩], acts := s.acts ++ ["sub:" ++ hexRaw t] }
    else if k == "M" then do
      let b ← unhex vs
      let t ← g7TopicOf s 0
      pure (g7Publish g s ⟨t, ⟨b, .garbage⟩⟩)
    else if k == "U" then do
      let i ← vs.toNat?
      g7Unsub s i
    else none
  | ["M", h, ks] => do
    let b ← unhex h
    let i ← ks.toNat?
    let t ← g7TopicOf s i
    pure (g7Publish g s ⟨t, ⟨b, .garbage⟩⟩)
  | ["U"] => g7Unsub s 0
  | k :: vs :: cid :: hs :: val :: rest =>
    if k == "P" || k == "Q" then do
      let vals ← parseVarVals vs
      let c ← unhex cid
      let user ← parsePairs hs
      let v ← parseThriftVal val
      let cfg ← if k == "P" then some g.cfg else g.otherCfg
      let t := renderTopic g.toks vals g.scope (strBytes cfg.op)
      let hdrs := genHdrs c user (varNames g.toks) vals
      match publishPkt cfg 0 hdrs v with
      | .ok p => pure (g7Publish g s ⟨t, p⟩)
      | .err e => pure { s with acts := s.acts ++ ["err:" ++ errName e] }
      | .panic p => pure { s with acts := s.acts ++ ["panic:" ++ panicName p] }
    else if k == "E" then do
      let name ← unhex vs
      let c ← unhex cid
      let user ← parsePairs hs
      let v ← parseThriftVal val
      let i ← match rest with
        | [] => some 0
        | [ks] => ks.toNat?
        | _ => none
      let t ← g7TopicOf s i
      let hdrs := genHdrs c user [] []
      match encV g.cfg.d g.cfg.fuel g.cfg.ty v with
      | .ok es => pure (g7Publish g s ⟨t, ⟨be32 0 ++ marshal hdrs, .msg (String.ofList (name.map fun b => Char.ofNat b.toNat)) es⟩⟩)
      | _ => none
    else none
  | _ => none

def stepPubSub (op : String) (args : List String) : Option String :=
  match op, args with
  | "ps", [_, w, _, opsS] => do
    let ops ← parseRtOps opsS
    let (s0, u) := rtRun ops
    let s := drain rtCfg rtTopic (s0.queue.length + 1) s0
    let wn ← w.toNat?
    pure (subLineStr wn (hTagsOf opsS) s u)
  | "pm", [_, w, _, subsS, opsS] => do
    let ops ← parseRtOps opsS
    let topics ← (subsS.splitOn ",").mapM (·.toNat?)
    let wn ← w.toNat?
    let fin := (rtRunMulti topics ops).zip topics
    let parts := fin.map fun ((s0, u), t) =>
      subLineStr wn (hTagsOf opsS) (drain rtCfg (rtTopicOf t) (s0.queue.length + 1) s0) u
    pure s!"k={parts.length} {" / ".intercalate parts}"
  | "psr", [_, w, _, obsS, opsS] => do
    let ops ← parseRtOps opsS
    let obs ← parseTags obsS
    let wn ← w.toNat?
    let (must, may) := rtRace ops St.init
    let ok :=
      if wn ≤ 1 then
        obs.take must.length == must && isSublist (obs.drop must.length) may
      else
        noDup obs && must.all (obs.contains ·) && obs.all (fun t => must.contains t || may.contains t)
    pure (if ok then "ok" else "reject")
  | "g7", [ds, sk, osk, scope, opN, oopN, toksS, _, actsS] => do
    let d ← parseThriftDefs ds
    let toks ← parseToks toksS
    let g : G7 := ⟨⟨d, 64, opN, .struct sk⟩, if osk == "-" then none else some ⟨d, 64, oopN, .struct osk⟩, toks, strBytes scope⟩
    let init : G7State := ⟨[], [], []⟩
    let fin ← (actsS.splitOn "/").foldlM (fun s a => g7Act g s a) init
    let callsS := if fin.calls.isEmpty then "-" else "/".intercalate fin.calls
    pure s!"n={fin.calls.length} acts={",".intercalate fin.acts} calls={callsS}"
  | _, _ => none

end Driver
