/-
Driver ops of C11 (harness/cc/totality*.go):
  cc  <hex> <expect> <gen>          -> run         (whole compilations are not modelled; the line
                                                    exists so that the harness re-evaluates its oracle)
  probe <position> <name> <gen>     -> run         (naming probe program, totality_names.go)
  cli <gen or -> <r 0|1> <kinds,..> -> main.go on k input files: exit=<status> out=<y|n|- per file>
  stc <hex>                         -> snakeToCamel
  ttl <hex>                         -> title
  tsn <hex name> <hex service>      -> titleServiceName
  lfl <hex>                         -> LowercaseFirstLetter
  i2r <hex>                         -> includeNameToReference
  cgp <hex>                         -> CleanGenParam: ok <lang hex> k=v;k=v (sorted by key, hex)
  val <prog>                        -> front (parse + validate, includes first): ok | err:<class> | panic:<class>
  und <prog> <file index> <type>    -> UnderlyingType in that file: ok <type>
  gcv <prog> <type> <value>         -> the main file gets `const <type> zz_probe = <value>`; rejected (front end
                                       refuses it) | generateConstantValue(type, value): ok | panic:<class>
Value encoding (prefix tokens): VS/<hex> VB/<0|1> VI/<int> VD VR/<identifier> VL/<n>/v.. VM/<n>/k/v..
Program encoding: `/`-separated tokens, see `(*c11GProg).enc` in totality_gen.go.
-/
import Driver.Util
import FV.Model.Compile
import FV.Model.ConstValue

namespace Driver
open FV FV.Compile

def verrName : VErr → String
  | .dupService => "dupService" | .conflictService => "conflictService"
  | .dupMethod => "dupMethod" | .conflictMethod => "conflictMethod"
  | .dupScope => "dupScope" | .conflictScope => "conflictScope"
  | .dupOp => "dupOp" | .conflictOp => "conflictOp"
  | .vendorWildcard => "vendorWildcard" | .dupInclude => "dupInclude"
  | .constType => "constType" | .constRef => "constRef" | .constRefInclude => "constRefInclude"
  | .constRefIncluded => "constRefIncluded" | .constRefEnum => "constRefEnum" | .constName => "constName"
  | .typedefType => "typedefType" | .typedefCycle => "typedefCycle"
  | .fieldType => "fieldType" | .dupFieldId => "dupFieldId"
  | .retType => "retType" | .argType => "argType" | .excType => "excType"
  | .onewayThrows => "onewayThrows" | .onewayReturns => "onewayReturns" | .dupArgId => "dupArgId"
  | .opType => "opType"
  | .badIncludeName => "badIncludeName" | .missingInclude => "missingInclude"
  | .circularInclude => "circularInclude" | .unknownOption => "unknownOption"

def cpanicName : CPanic → String
  | .index => "index" | .slice => "sliceBounds" | .stackOverflow => "stackOverflow"
  | .typeAssert => "typeAssert" | .explicit => "explicit"

def showC (f : α → String) : CRes α → String
  | .ok a => f a
  | .err e => "err:" ++ verrName e
  | .panic p => "panic:" ++ cpanicName p

/-- Go strings are byte strings; the harness sends ASCII only (one byte = one char). -/
def nameOfHex (s : String) : Option Name := do
  let b ← unhex s
  pure (b.map fun x => Char.ofNat x.toNat)

def hexOfName (n : Name) : String := hexOf (n.map fun c => UInt8.ofNat c.toNat)

/-! Token parser for the program encoding. -/
abbrev P := StateT (List String) Option

def tok : P String := do
  match (← get) with
  | [] => failure
  | t :: ts => set ts; pure t

def nat : P Nat := do
  let t ← tok
  match t.toNat? with
  | some n => pure n
  | none => failure

def int : P Int := do
  let t ← tok
  match t.toInt? with
  | some n => pure n
  | none => failure

def nm : P Name := do pure (← tok).toList

def rep (n : Nat) (p : P α) : P (List α) :=
  match n with
  | 0 => pure []
  | n + 1 => do
    let a ← p
    let as ← rep n p
    pure (a :: as)

def many (p : P α) : P (List α) := do
  let n ← nat
  rep n p

partial def ty : P Ty := do
  match (← tok) with
  | "N" => do pure (.named (← nm))
  | "L" => do pure (.list (← ty))
  | "S" => do pure (.set (← ty))
  | "M" => do
    let k ← ty
    let v ← ty
    pure (.map k v)
  | _ => failure

def field : P Field := do
  let id ← int
  let n ← nm
  let t ← ty
  pure { id := id, name := n, ty := t }

def method : P Method := do
  let n ← nm
  let ow ← tok
  let ret ← (do
    match (← get) with
    | "V" :: ts => set ts; pure none
    | _ => do pure (some (← ty)))
  let args ← many field
  let excs ← many field
  pure { name := n, oneway := ow == "1", ret := ret, args := args, excs := excs }

def file : P File := do
  let f ← tok
  if f != "F" then failure
  let n ← nm
  let vw ← tok
  let incs ← many nm
  let tds ← many (do
    let n ← nm
    let t ← ty
    pure ({ name := n, ty := t } : Typedef))
  let ens ← many (do
    let n ← nm
    let vs ← many nm
    pure ({ name := n, values := vs } : Enum))
  let sts ← many (do
    let k ← tok
    let n ← nm
    let fs ← many field
    let kind ← match k with
      | "s" => pure SKind.struct
      | "u" => pure SKind.union
      | "e" => pure SKind.exception
      | _ => failure
    pure ({ kind := kind, name := n, fields := fs } : StructLike))
  let cs ← many (do
    let n ← nm
    let t ← ty
    let r ← tok
    pure ({ name := n, ty := t, ref := if r == "-" then none else some r.toList } : Const))
  let svs ← many (do
    let n ← nm
    let e ← tok
    let ms ← many method
    pure ({ name := n, ext := if e == "-" then none else some e.toList, methods := ms } : Service))
  let scs ← many (do
    let n ← nm
    let ops ← many (do
      let n ← nm
      let t ← ty
      pure ({ name := n, ty := t } : Op))
    pure ({ name := n, ops := ops } : Scope))
  pure { name := n, vendorWild := vw == "1", includes := incs, typedefs := tds, enums := ens, structs := sts,
         consts := cs, services := svs, scopes := scs }

def parseProg (s : String) : Option Prog :=
  match (many file).run (s.splitOn "/") with
  | some (p, []) => some p
  | _ => none

def parseTy (s : String) : Option Ty :=
  match ty.run (s.splitOn "/") with
  | some (t, []) => some t
  | _ => none

partial def val : P Val := do
  match (← tok) with
  | "VS" => do
    match nameOfHex (← tok) with
    | some n => pure (.str n)
    | none => failure
  | "VB" => do pure (.bool ((← tok) == "1"))
  | "VI" => do pure (.int (← int))
  | "VD" => pure .dbl
  | "VR" => do pure (.ident (← nm))
  | "VL" => do pure (.list (← many val))
  | "VM" => do
    let kvs ← many (do
      let k ← val
      let v ← val
      pure (k, v))
    pure (.map kvs)
  | _ => failure

def parseVal (s : String) : Option Val :=
  match val.run (s.splitOn "/") with
  | some (v, []) => some v
  | _ => none

def showTy : Ty → String
  | .named n => String.ofList n
  | .list e => "list<" ++ showTy e ++ ">"
  | .set e => "set<" ++ showTy e ++ ">"
  | .map k v => "map<" ++ showTy k ++ "," ++ showTy v ++ ">"

def nameLt (a b : Name) : Bool := bytesLt (a.map fun c => UInt8.ofNat c.toNat) (b.map fun c => UInt8.ofNat c.toNat)

def insertKV (kv : Name × Name) : List (Name × Name) → List (Name × Name)
  | [] => [kv]
  | x :: t => if nameLt kv.1 x.1 then kv :: x :: t else x :: insertKV kv t

def showOpts (m : List (Name × Name)) : String :=
  if m.isEmpty then "-" else
  ";".intercalate ((m.foldr insertKV []).map fun kv => hexOfName kv.1 ++ "=" ++ hexOfName kv.2)

def stepCompile (op : String) (args : List String) : Option String :=
  match op, args with
  | "cc", [_, _, _] => some "run"
  | "cli", [g, _, ks] => do
    -- kinds: v valid, e empty (valid), y syntax error, m semantic error, x missing, d directory
    let kinds := ks.splitOn ","
    let verdicts := kinds.map fun k => if k == "v" || k == "e" then FileVerdict.valid else FileVerdict.invalid
    let gen := if g == "-" then none else some g.toList
    let r := cliMain gen verdicts
    -- per file: only valid non-empty files are compared (y = compiled without error: its output
    -- exists; n = not compiled, or compiled and failed); json overwrites its single output file
    let genOk := match gen with
      | some gg => genAccepted gg
      | none => false
    let isJson := g.startsWith "json"
    let outs := (List.range kinds.length).map fun i =>
      let k := kinds[i]!
      if k != "v" || isJson then "-"
      else if genOk && (i + 1 < r.compiled || (i + 1 == r.compiled && r.exit == 0)) then "y"
      else "n"
    pure s!"exit={r.exit} out={String.join outs}"
  | "probe", [_, _, _] => some "run"
  | "stc", [x] => do
    let n ← nameOfHex x
    pure (showC (fun r => "ok " ++ hexOfName r) (snakeToCamel n))
  | "ttl", [x] => do
    let n ← nameOfHex x
    pure (showC (fun r => "ok " ++ hexOfName r) (title n))
  | "tsn", [x, y] => do
    let n ← nameOfHex x
    let s ← nameOfHex y
    pure (showC (fun r => "ok " ++ hexOfName r) (titleServiceName n s))
  | "lfl", [x] => do
    let n ← nameOfHex x
    pure (showC (fun r => "ok " ++ hexOfName r) (lowerFirst n))
  | "i2r", [x] => do
    let n ← nameOfHex x
    pure (showC (fun r => "ok " ++ hexOfName r) (includeNameToReference n))
  | "cgp", [x] => do
    let n ← nameOfHex x
    pure (showC (fun r => "ok " ++ hexOfName r.1 ++ " " ++ showOpts r.2) (cleanGenParam n))
  | "val", [e] => do
    let p ← parseProg e
    pure (showC (fun _ => "ok") (front p))
  | "und", [e, i, t] => do
    let p ← parseProg e
    let idx ← i.toNat?
    let f ← p[idx]?
    let t ← parseTy t
    let ctx := ctxOf p f
    pure (showC (fun r => "ok " ++ showTy r) (underlying ctx (typedefLimit ctx + 2) t))
  | "gcv", [e, t, v] => do
    let p ← parseProg e
    let t ← parseTy t
    let v ← parseVal v
    match p with
    | [] => none
    | f :: rest =>
      let ref := match v with
        | .ident id => some id
        | _ => none
      let f' := { f with consts := f.consts ++ [{ name := "zz_probe".toList, ty := t, ref := ref }] }
      let p' := f' :: rest
      match front p' with
      | .ok _ => pure (showC (fun _ => "ok") (genConst (ctxOf p' f') 1000 t v))
      | _ => pure "rejected"
  | _, _ => none

end Driver
