/-
Driver ops of C10 (must print byte-for-byte what harness/cc/parser.go prints):
  c10prog <hex archive> <expected|->   parse every file of the archive with the PEG interpreter on
                                       the regenerated grammar, link includes, print `ok <deep dump>` | `err`
  c10text <hex text>                   one text, no includes: `ok <dump>` | `err`
  peg <Rule> <hex fragment>            the rule on the fragment (all of it must be consumed):
                                       `ok <dump of the fragment's value>` | `err`
`outOfFuel` is printed if the fuel `200·(|input|+1)` is ever exhausted, `unsupported` when a string
literal uses an escape outside the modelled fragment of strconv.Unquote, `bad-tree` when a tree
does not have the shape the action expects (all three are disagreements by construction).
-/
import Driver.Util
import FV.Model.Peg
import FV.Model.IdlSyntax
import FV.Model.IdlActions
import FV.Model.IdlIncludes
import FV.Generated.Grammar

namespace Driver.C10
open Driver FV FV.Peg FV.Syn FV.Act

def pegFuel (inp : List Char) : Nat := 200 * (inp.length + 1)

def charsOfBytes (b : Bytes) : Option (List Char) :=
  (String.fromUTF8? ⟨b.toArray⟩).map String.toList

def hexChars (cs : List Char) : String := hexOf (String.ofList cs).toUTF8.toList

def str (cs : List Char) : String := String.ofList cs

def joinWith (sep : String) (l : List String) : String := sep.intercalate l

def dAnns (a : List Ann) : String :=
  if a.isEmpty then "" else "(" ++ joinWith "," (a.map fun x => str x.name ++ "=" ++ hexChars x.value) ++ ")"

def dDoc : Doc → String
  | none => ""
  | some ls => "@" ++ hexChars (List.intercalate ['\n'] ls) ++ "@"

def dTy : Ty → String
  | .base n a => str n ++ dAnns a
  | .named n => str n
  | .list e a => "list<" ++ dTy e ++ ">" ++ dAnns a
  | .set e a => "set<" ++ dTy e ++ ">" ++ dAnns a
  | .map k v a => "map<" ++ dTy k ++ "," ++ dTy v ++ ">" ++ dAnns a

/-- Canonical decimal of (-1)^neg · digits · 10^exp (`pxDecimal` in the harness). -/
def decimal (neg : Bool) (digits : List Char) (exp : Int) : String :=
  let d := digits.dropWhile (· = '0')
  let tz := (d.reverse.takeWhile (· = '0')).length
  let d := d.take (d.length - tz)
  let exp := exp + tz
  let sign := if neg then "-" else ""
  if d.isEmpty then sign ++ "0"
  else if exp ≥ 0 then sign ++ str d ++ str (List.replicate exp.toNat '0')
  else
    let n := d.length
    let k := (-exp).toNat
    if n > k then sign ++ str (d.take (n - k)) ++ "." ++ str (d.drop (n - k))
    else sign ++ "0." ++ str (List.replicate (k - n) '0') ++ str d

mutual
def dCV : CV → String
  | .str s => "s:" ++ hexChars s
  | .bool b => if b then "b:true" else "b:false"
  | .dbl n d e => "d:" ++ decimal n d e
  | .int i => "i:" ++ toString i
  | .ref n => "r:" ++ str n
  | .list l => "l[" ++ joinWith "," (dCVs l) ++ "]"
  | .map l => "m{" ++ joinWith "," (dKVs l) ++ "}"
def dCVs : List CV → List String
  | [] => []
  | v :: vs => dCV v :: dCVs vs
def dKVs : List (CV × CV) → List String
  | [] => []
  | (k, v) :: r => (dCV k ++ "=" ++ dCV v) :: dKVs r
end

def dMod : Mod → String
  | .required => "r"
  | .optional => "o"
  | .dflt => "d"

def dField (f : Field) : String :=
  dDoc f.doc ++ toString f.id ++ ":" ++ dMod f.mod ++ ":" ++ str f.name ++ ":" ++ dTy f.ty ++ ":" ++
    (match f.dflt with | none => "~" | some v => dCV v) ++ ":" ++ dAnns f.anns

def dFields (fs : List Field) : String := "{" ++ joinWith ";" (fs.map dField) ++ "}"

def dStruct (s : Struct) : String := dDoc s.doc ++ str s.name ++ dFields s.fields ++ dAnns s.anns

def dEnumBody (e : Enum) : String :=
  dDoc e.doc ++ str e.name ++ "{" ++ joinWith "," (e.values.map fun v => dDoc v.doc ++ str v.name ++ "=" ++ toString v.num ++ dAnns v.anns) ++ "}" ++ dAnns e.anns

def dMethod (m : Method) : String :=
  dDoc m.doc ++ str m.name ++ ":" ++ (if m.oneway then "o" else "t") ++ ":" ++
    (match m.ret with | none => "void" | some t => dTy t) ++ "|" ++ dFields m.args ++ "|" ++ dFields m.excs ++ "|" ++ dAnns m.anns

def dService (s : Service) : String :=
  dDoc s.doc ++ str s.name ++ "<" ++ str s.ext ++ "{" ++ joinWith ";" (s.methods.map dMethod) ++ "}" ++ dAnns s.anns

def dScope (s : Scope) : String :=
  dDoc s.doc ++ str s.name ++ "|" ++ hexChars s.pfx ++ "|" ++ joinWith "," (s.vars.map str) ++ "|{" ++
    joinWith ";" (s.ops.map fun o => dDoc o.doc ++ str o.name ++ ":" ++ dTy o.ty ++ "|" ++ dAnns o.anns) ++ "}" ++ dAnns s.anns

def insertBy (lt : α → α → Bool) (x : α) : List α → List α
  | [] => [x]
  | y :: t => if lt x y then x :: y :: t else y :: insertBy lt x t

/-- Stable insertion sort (`sort.SliceStable`). -/
def sortBy (lt : α → α → Bool) (l : List α) : List α := l.foldr (insertBy lt) []

def sec (tag : String) (items : List String) : String := tag ++ "[" ++ joinWith "," items ++ "]"

def dFile (f : File) : String :=
  sec "I" (f.includes.map fun i => str i.name ++ "=" ++ hexChars i.value ++ dAnns i.anns) ++
  sec "N" (f.namespaces.map fun n => str n.scope ++ "=" ++ str n.value ++ dAnns n.anns) ++
  sec "T" (f.typedefs.map fun t => dDoc t.doc ++ str t.name ++ "|" ++ dTy t.ty ++ "|" ++ dAnns t.anns) ++
  sec "C" (f.consts.map fun c => dDoc c.doc ++ str c.name ++ "|" ++ dTy c.ty ++ "|" ++ dCV c.value ++ "|" ++ dAnns c.anns) ++
  sec "E" (f.enums.map dEnumBody) ++
  sec "S" (f.structs.map dStruct) ++ sec "X" (f.exceptions.map dStruct) ++ sec "U" (f.unions.map dStruct) ++
  sec "V" (f.services.map dService) ++
  sec "P" ((sortBy (fun a b => str a.name < str b.name) f.scopes).map dScope)

inductive Outcome where
  | ok (f : File)
  | err
  | other (s : String)

/-- One text through the interpreter (rule `Grammar`) and the actions. -/
def parseFile (inp : List Char) : Outcome :=
  match parse (pegFuel inp) FV.Generated.grammar "Grammar" inp with
  | .outOfFuel => .other "outOfFuel"
  | .fail => .err
  | .ok t _ =>
    if treeErr t then .err
    else if treeUnsupported t then .other "unsupported"
    else match evFile t with
      | some f => .ok f
      | none => .other "bad-tree"

def splitBytes (sep : UInt8) : Bytes → Bytes → List Bytes
  | [], cur => [cur.reverse]
  | b :: r, cur => if b = sep then cur.reverse :: splitBytes sep r [] else splitBytes sep r (b :: cur)

def unarchive (b : Bytes) : Option (List (String × List Char)) :=
  (splitBytes 1 b []).mapM fun part =>
    match splitBytes 0 part [] with
    | name :: rest => do
      let n ← charsOfBytes name
      let t ← charsOfBytes (List.intercalate [0] rest)
      pure (String.ofList n, t)
    | [] => none

/-- The archive as the file system of `FV.Inc`: cleaned root-relative path ↦ (shallow dump, include edges). -/
def fsOf (files : List (String × Outcome)) : FV.Inc.FS String :=
  files.filterMap fun (p : String × Outcome) =>
    match p.2 with
    | .ok f => some (FV.Inc.cleanPath (p.1.splitOn "/"),
        { payload := dFile f, includes := f.includes.map fun i => (str i.name, (str i.value).splitOn "/") })
    | _ => none

/-- Deep dump of a meaning: the file's own dump, then per include edge (sorted by include name) the
include name, the origin path and the deep dump of that file. -/
partial def dDeep : FV.Inc.Deep String → String
  | .node _ payload subs =>
    payload ++ sec "Q" ((sortBy (fun (a b : String × FV.Inc.Deep String) => a.1 < b.1) subs).map fun (p : String × FV.Inc.Deep String) =>
      p.1 ++ "@" ++ hexOf ("/".intercalate p.2.origin).toUTF8.toList ++ "=" ++ dDeep p.2)

/-- `parseFrugal` over the archive: the model of the code that exists (cache keyed by the joined path). -/
def deepDump (files : List (String × Outcome)) (fuel : Nat) (path : String) : Option String :=
  (FV.Inc.deepC id fuel (fsOf files) [] (FV.Inc.cleanPath (path.splitOn "/"))).map fun r => dDeep r.2

def showOutcome (o : Outcome) (f : File → String) : String :=
  match o with
  | .ok x => "ok " ++ f x
  | .err => "err"
  | .other s => s

/-- The value of a fragment: which dump a rule's tree gets (mirrors `pxWrap` in the harness). -/
def dumpRule (rule : String) (t : Tree) : Option String :=
  if rule = "Identifier" then some ("id:" ++ str (evIdent t))
  else if rule = "IntConstant" then some ("i:" ++ toString (evInt t))
  else if rule = "Literal" then some ("s:" ++ hexChars (evLiteral t))
  else if rule = "FieldType" then (evTy (tyFuel t) t).map dTy
  else if rule = "ConstValue" then (evCV (tyFuel t) t).map dCV
  else if rule = "Field" then (evField t).map dField
  else if rule = "Function" then (evMethod t).map dMethod
  else if rule = "TypeAnnotations" then some ("a:" ++ dAnns (evAnns t))
  else if rule = "Enum" then some (dEnumBody (evEnum t))
  else if rule = "Struct" then (evStructLike (get t "st")).map dStruct
  else if rule = "Exception" then (evStructLike (get t "st")).map dStruct
  else if rule = "Union" then (evStructLike (get t "st")).map fun s => dStruct { s with fields := forceOptional s.fields }
  else if rule = "Const" then (evConst t).map fun c => str c.name ++ "|" ++ dTy c.ty ++ "|" ++ dCV c.value ++ "|" ++ dAnns c.anns
  else if rule = "TypeDef" then (evTypedef t).map fun c => str c.name ++ "|" ++ dTy c.ty ++ "|" ++ dAnns c.anns
  else if rule = "Namespace" then (let n := evNamespace t; some (str n.scope ++ "=" ++ str n.value ++ dAnns n.anns))
  else if rule = "Include" then (let i := evInclude t; some (str i.name ++ "=" ++ hexChars i.value ++ dAnns i.anns))
  else if rule = "Service" then (evService t).map dService
  else if rule = "Scope" then (evScope t).map dScope
  else none

def step (op : String) (args : List String) : Option String :=
  if op = "c10text" then
    match args with
    | h :: _ => match (unhex h).bind charsOfBytes with
      | some inp => some (showOutcome (parseFile inp) dFile)
      | none => some "err"
    | _ => some "bad-args"
  else if op = "c10prog" then
    match args with
    | h :: _ => match (unhex h).bind unarchive with
      | some ((main, t) :: rest) =>
        let files := ((main, t) :: rest).map fun (n, tx) => (n, parseFile tx)
        match files.findSome? (fun (p : String × Outcome) => match p.2 with | Outcome.other s => some s | _ => none) with
        | some s => some s
        | none => match deepDump files (files.length + 1) main with
          | some d => some ("ok " ++ d)
          | none => some "err"
      | _ => some "err"
    | _ => some "bad-args"
  else if op = "peg" then
    match args with
    | rule :: h :: _ => match (unhex h).bind charsOfBytes with
      | some inp =>
        match parse (pegFuel inp) FV.Generated.grammar rule inp with
        | .outOfFuel => some "outOfFuel"
        | .fail => some "err"
        | .ok t rest =>
          if !rest.isEmpty then some "err"
          else if treeErr t then some "err"
          else if treeUnsupported t then some "unsupported"
          else match dumpRule rule t with
            | some d => some ("ok " ++ d)
            | none => some "bad-tree"
      | none => some "err"
    | _ => some "bad-args"
  else none

end Driver.C10

namespace Driver
def stepPeg (op : String) (args : List String) : Option String := Driver.C10.step op args
end Driver
