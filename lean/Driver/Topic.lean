/-
Driver ops for C08 (topic templates). Must print byte-for-byte what harness/cc/topic.go prints.

  c08 <prefix hex|-> <scope name hex> <delim hex> <op hex,…> <value hex,…|.>
-/
import Driver.Util
import FV.Model.Topic

namespace Driver
open FV FV.Topic

def strOfHex (s : String) : Option Str := do
  let b ← unhex s
  let str ← String.fromUTF8? (ByteArray.mk b.toArray)
  pure str.toList

def hexOfStr (s : Str) : String := hexOf (String.ofList s).toUTF8.toList

def strListOfHex (s : String) : Option (List Str) :=
  if s == "." || s == "" then some [] else (s.splitOn ",").mapM strOfHex

def hexList (xs : List Str) : String :=
  if xs.isEmpty then "." else ",".intercalate (xs.map hexOfStr)

/-- split on '.' -/
def splitDots (s : Str) : List Str :=
  let (cur, acc) := s.foldl (fun (p : Str × List Str) c => if c = '.' then ([], p.1.reverse :: p.2) else (c :: p.1, p.2)) ([], [])
  (cur.reverse :: acc).reverse

def tokOfStr (t : Str) : Tok :=
  match t with
  | '{' :: rest =>
    match rest.reverse with
    | '}' :: inner => .braced inner.reverse
    | _ => .word t
  | _ => .word t

def toksOfPrefix (p : Str) : List Tok := if p.isEmpty then [] else (splitDots p).map tokOfStr

def isIdentifier : Str → Bool
  | [] => false
  | c :: t => (c.isAlpha || c == '_') && t.all (fun d => d.isAlphanum || d == '_' || d == '.')

inductive NSeg where
  | l (s : Str)
  | v (i : Nat)

/-- canonical template: everything but the variables flattened to text, adjacent text merged -/
def normalize (name delim op : Str) : Template → Option (List NSeg)
  | [] => some []
  | s :: t => do
    let rest ← normalize name delim op t
    let txt (x : Str) : List NSeg :=
      if x.isEmpty then rest else
      match rest with
      | .l y :: r => .l (x ++ y) :: r
      | _ => .l x :: rest
    match s with
    | .lit x => pure (txt x)
    | .var i => pure (.v i :: rest)
    | .delim => pure (txt delim)
    | .scopeName b => pure (txt (if b then title name else name))
    | .op => pure (txt op)
    | .bad => none

def showNSegs (l : List NSeg) : String :=
  if l.isEmpty then "E" else
  ",".intercalate (l.map fun
    | .l s => "L" ++ hexOfStr s
    | .v i => "V" ++ toString i)

def c08Cols : List (String × Lang × Entry) :=
  [("go.pub", .go, .pub), ("go.sub", .go, .sub), ("go.sube", .go, .subAlt),
   ("java.pub", .java, .pub), ("java.sub", .java, .sub), ("java.subt", .java, .subAlt),
   ("dart.pub", .dart, .pub), ("dart.sub", .dart, .sub), ("py.pub", .py, .pub),
   ("pyaio.pub", .pyAsyncio, .pub), ("pyaio.sub", .pyAsyncio, .sub),
   ("pytor.pub", .pyTornado, .pub), ("pytor.sub", .pyTornado, .sub)]

/-- which ARGUMENT of the entry point ends up as the i-th format argument: the entry point is
called with the argument positions as values -/
def reachIdx (l : Lang) (e : Entry) (vars : List Str) : List Str :=
  reachVals l e vars ((List.range vars.length).map fun i => (toString i).toList)

def renameVars (perm : List Str) : List NSeg → Option (List NSeg)
  | [] => some []
  | .l s :: t => (renameVars perm t).map (NSeg.l s :: ·)
  | .v i :: t => do
    let j ← (String.ofList (perm.getD i [])).toNat?
    let rest ← renameVars perm t
    pure (.v j :: rest)

/-- one column: the entry point called with the variable arguments `vals`, in prefix order -/
def c08Cell (l : Lang) (e : Entry) (sc : Scope) (vals : List Str) (delim op : Str) : String :=
  -- the exact class of the finding prefix-token-format-chars for this language: not evaluated
  if !safeTokens l sc then "H" else
  let args := vals.take sc.vars.length
  match (normalize sc.name delim op (tmpl l e.role sc delim)).bind (renameVars (reachIdx l e sc.vars)),
        entryTopic l e sc args delim op with
  | some nf, some topic => showNSegs nf ++ "@" ++ hexOfStr topic
  | _, _ => "B@fail"

/-- `"prefix" __ PrefixToken`: `__` also skips comments, so a first token that begins with `#`
or `//` is read by the IDL lexer as a comment to the end of the line and the scope does not
parse (`/*` only opens a comment when a `*/` follows; the harness does not generate that).
Lexical, not part of the topic model. -/
def startsComment : Str → Bool
  | '#' :: _ => true
  | '/' :: '/' :: _ => true
  | _ => false

def hasMarker (s : Str) : Bool := s.any fun c => c.toNat == 0xE000 || c.toNat == 0xE001

def stepTopic (op : String) (args : List String) : Option String :=
  match op, args with
  | "c08hz", [l, hv, c] =>
    -- census of the finding's class: does language `l` read character `c` of a static token as text?
    match (match l with | "go" => some Lang.go | "java" => some .java | "dart" => some .dart | "py" => some .py
                        | "pyaio" => some .pyAsyncio | "pytor" => some .pyTornado | _ => none), strOfHex c with
    | some lang, some [ch] => some (if hazard lang (hv == "1") ch then "fail" else "ok")
    | _, _ => some "err:parse"
  | "c08", [p, n, d, os, vs] =>
    match strOfHex p, strOfHex n, strOfHex d, strListOfHex os, strListOfHex vs with
    | some pfx, some name, some delim, some ops, some vals =>
      if ops.isEmpty || (pfx :: name :: delim :: (ops ++ vals)).any hasMarker then some "err:parse" else
      let toks := toksOfPrefix pfx
      if !(toks.all Tok.wf) || startsComment pfx || !isIdentifier name || !(ops.all isIdentifier) then some "err:parse" else
      let sc : Scope := ⟨name, toks⟩
      match extractVars sc.pfxStr with
      | none => some "err:badvar"
      | some vars =>
        if vals.length < vars.length then some "err:parse" else
        let groups := ops.map fun o =>
          hexOfStr o ++ ":" ++ ";".intercalate (c08Cols.map fun (col, l, e) => col ++ "=" ++ c08Cell l e sc vals delim o)
        some ("ok vars=" ++ hexList vars ++ " " ++ " ".intercalate groups)
    | _, _, _, _, _ => some "err:parse"
  | _, _ => none

end Driver
