/-
Driver ops for the byte-level protocol models (C02): the emitted `Write` through the modelled
binary / compact protocol, and back.

  g2bb <defs> <struct> <value>   ok <hex of the binary bytes> back=<value read back from them>
  g2bc <defs> <struct> <value>   the same through the compact protocol
  g2rb <defs> <struct> <value>   ok <value read back from the model's binary bytes> rest=<unread bytes>
  g2rc <defs> <struct> <value>   the same through the compact protocol
      (the harness feeds the model's bytes of g2bb/g2bc to the emitted Read through the REAL protocol)

Reading back = the read calls that mirror the write calls (`callOf`), each answered from the bytes
by the protocol model, and the events so obtained given to the model of the emitted `Read` (`decV`).
`unfit` = the value is outside what the round-trip theorems cover (`BinFits` / `CmpOK`).
-/
import Driver.Util
import Driver.Thrift
import FV.Model.BinaryProtocol
import FV.Model.CompactProtocol

namespace Driver
open FV FV.Thrift

inductive WireProto where | binary | compact

/-- events of the emitted Write → (bytes, events read back, unread bytes) -/
def wireRoundTrip (pr : WireProto) (es : List Event) : Res (Bytes × List Event × Bytes) :=
  match pr with
  | .binary =>
    if es.all (fun e => decide (BinFits e)) then
      let bs := binEnc es
      match binReads (es.map callOf) bs with
      | .ok (es', r) => .ok (bs, es', r)
      | .err e => .err e
      | .panic p => .panic p
    else .err .other
  | .compact =>
    if decide (CmpOK es) then
      match cmpEnc CW.init es with
      | .ok (bs, _) =>
        (match cmpReads CR.init (es.map callOf) bs with
        | .ok (es', r, _) => .ok (bs, es', r)
        | .err e => .err e
        | .panic p => .panic p)
      | .err e => .err e
      | .panic p => .panic p
    else .err .other

def thriftBytesOp (pr : WireProto) (reverse : Bool) (ds sn vs : String) : Option String := do
  let d ← parseThriftDefs ds
  let v ← parseThriftVal vs
  let t := Ty.struct sn
  pure <|
    match encV d 64 t v with
    | .ok es =>
      (match wireRoundTrip pr es with
      | .ok (bs, es', r) =>
        let back : String := match decV d 64 t es' with
          | .ok (v', _) => dumpV d 64 t v'
          | .err e => "read-err:" ++ errName e
          | .panic p => "read-panic:" ++ panicName p
        if reverse then s!"ok {back} rest={r.length}" else s!"ok {hexRaw bs} back={back}"
      | .err .other => "unfit"
      | .err e => "proto-err:" ++ errName e
      | .panic p => "proto-panic:" ++ panicName p)
    | .err e => "err:" ++ errName e
    | .panic p => "panic:" ++ panicName p

def stepThriftBytes (op : String) (args : List String) : Option String :=
  match op, args with
  | "g2bb", [ds, sn, vs] => thriftBytesOp .binary false ds sn vs
  | "g2bc", [ds, sn, vs] => thriftBytesOp .compact false ds sn vs
  | "g2rb", [ds, sn, vs] => thriftBytesOp .binary true ds sn vs
  | "g2rc", [ds, sn, vs] => thriftBytesOp .compact true ds sn vs
  | _, _ => none

end Driver
