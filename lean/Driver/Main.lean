import Driver.Headers

open Driver

def step (line : String) : String :=
  match (line.splitOn " ").filter (· ≠ "") with
  | [] => "bad-op"
  | op :: args =>
    match stepHeaders op args with
    | some r => r
    | none => "bad-op"

partial def loop (h : IO.FS.Stream) (out : IO.FS.Stream) : IO Unit := do
  let line ← h.getLine
  if line.isEmpty then return ()
  out.putStrLn (step (line.trimAsciiEnd.toString))
  loop h out

def main : IO Unit := do
  let out ← IO.getStdout
  loop (← IO.getStdin) out
  out.flush
