/-
Model driver: one operation per input line, one canonical result line per input.
Each `Driver/<X>.lean` provides `step<X> : String → List String → Option String`
(`none` = not my op); add the import and the entry in `steppers`.
-/
import Driver.Headers
import Driver.Peg
import Driver.Registry
import Driver.Thrift
import Driver.ThriftBytes
import Driver.Rpc
import Driver.OutBuf
import Driver.Processor
import Driver.ContextHeap
import Driver.Context
import Driver.Middleware
import Driver.Adapter
import Driver.Audit
import Driver.Compile
import Driver.Topic
import Driver.NatsServer
import Driver.Determinism
import Driver.PubSub
import Driver.Receivers2

open Driver

def steppers : List (String → List String → Option String) :=
  [stepHeaders, stepRegistry, stepThrift, stepThriftBytes, stepRpc, stepOutBuf, stepProcessor, stepContext, stepContextHeap, stepMiddleware, stepAdapter, stepAudit, stepPeg, stepNatsServer, stepTopic, stepDeterminism, stepCompile, stepPubSub, stepReceivers2]

def step (line : String) : String :=
  match (line.splitOn " ").filter (· ≠ "") with
  | [] => "bad-op"
  | op :: args =>
    match steppers.findSome? (fun f => f op args) with
    | some r => r
    | none => "bad-op"

partial def loop (h : IO.FS.Stream) (out : IO.FS.Stream) : IO Unit := do
  let line ← h.getLine
  if line.isEmpty then return ()
  out.putStrLn (step (line.trimAsciiEnd.toString))
  loop h out

def main : IO Unit := do
  let out ← IO.getStdout
  loop (← IO.getStdin) out
  out.flush
