import Driver.Util
import FV.Model.Headers
import FV.Model.Registry0
import FV.Model.Context
import FV.Model.ContextOnward
import FV.Spec.V0Layout

/-
C09 driver ops (see harness/rt/context.go for the real side):

  c9cli <cid> <opid> <U> <ns> <over>   caller's context: request headers, cid, Timeout(), getOpID
  c9srv <wire> <ctr>                   ReadRequestHeader over the bytes with the op id counter at ctr
  c9hdl <resp> <R>                     handler AddResponseHeader for each of R
  c9rsp <wire> <resp>                  ReadResponseHeader into a context whose response headers are resp
  c9srvd/c9rspd … <k>                  c9srv/c9rsp over a reader that hands out at most k bytes per Read
  c9e2e <cid> <tr> <opid> <ns> <ctr> <U> <R>   a whole call over the named real transport
  c9onw <cid> <tr> <opid> <ns> <ctr> <U> <script>   a call whose handlers run scripts (set headers / onward calls)
  c9ids <who> <n> <ctr>                the n op ids issued (concurrently) from counter value ctr
  c9mar <wire> <map>                   the header bytes written for a context's request/response map
  c9tmo <value|none>                   Timeout() of a context whose _timeout header is value / missing
-/
namespace Driver
open FV

/-- Handler scripts in prefix form, tokens separated by `,`: `P.<k>.<v>` AddResponseHeader, `Q.<k>.<v>`
AddRequestHeader, `C` … `E` onward call with the inbound context (the tokens in between are the downstream
handler's script), `K` … `E` the same with a Clone. -/
def parseActs : Nat → List String → Option (List HAct × List String)
  | 0, _ => none
  | _ + 1, [] => some ([], [])
  | fuel + 1, tok :: rest =>
    if tok == "E" then some ([], rest)
    else if tok == "C" || tok == "K" then do
      let (sub, rest1) ← parseActs fuel rest
      let (t, rest2) ← parseActs fuel rest1
      pure (.call (tok == "K") sub :: t, rest2)
    else match tok.splitOn "." with
      | [kind, k, v] => do
        let k ← unhexChars k.toList
        let v ← unhexChars v.toList
        let (t, r) ← parseActs fuel rest
        if kind == "P" then pure (.setResp k v :: t, r)
        else if kind == "Q" then pure (.setReq k v :: t, r)
        else none
      | _ => none

def parseScript (s : String) : Option (List HAct) :=
  if s == "-" then some [] else
  let toks := s.splitOn ","
  match parseActs (toks.length + 1) toks with
  | some (a, []) => some a
  | _ => none

def showOpId (c : Ctx) : String := showRes (fun n => toString n) c.opId

def stepContext (op : String) (args : List String) : Option String :=
  match op, args with
  | "c9cli", [cid, opid, u, ns, over] => do
    let cid ← unhex cid
    let opid ← opid.toNat?
    let u ← parsePairs u
    let ns ← ns.toInt?
    let over ← parsePairs over
    let c := clientCtx cid opid u ns over
    pure s!"ok req={pairsOf c.req} cid={hexOf c.correlationID} timeout={c.timeout} opid={showOpId c}"
  | "c9srv", [wire, ctr] => do
    let wire ← unhex wire
    let ctr ← ctr.toNat?
    let r := readRequestHeader wire ctr
    pure (showRes (fun (c, rest) =>
      s!"ok req={pairsOf c.req} resp={pairsOf c.resp} cid={hexOf c.correlationID} timeout={c.timeout} opid={showOpId c} rest={hexOf rest}") r
      ++ s!" ctr={ctrAfterRead wire ctr}")
  | "c9srvd", [wire, ctr, _k] =>
    -- the same bytes delivered by a reader that returns at most k bytes per Read: the model reads a
    -- byte string, so the result cannot depend on the chunking
    stepContext "c9srv" [wire, ctr]
  | "c9rspd", [wire, resp, _k] => stepContext "c9rsp" [wire, resp]
  | "c9e2e", [cid, _tr, opid, ns, ctr, u, r] => do
    let cid ← unhex cid
    let opid ← opid.toNat?
    let ns ← ns.toInt?
    let ctr ← ctr.toNat?
    let u ← parsePairs u
    let r ← parsePairs r
    pure (showRes (fun (s, cc) =>
      s!"ok req={pairsOf s.req} resp={pairsOf s.resp} cid={hexOf s.correlationID} timeout={s.timeout} after={pairsOf cc.resp}")
      (callThrough cid opid u ns ctr r))
  | "c9onw", [cid, _tr, opid, ns, ctr, u, script] => do
    let cid ← unhex cid
    let opid ← opid.toNat?
    let ns ← ns.toInt?
    let ctr ← ctr.toNat?
    let u ← parsePairs u
    let script ← parseScript script
    pure (showRes (fun (c, seen) =>
      s!"ok after={pairsOf c.resp} seen={"|".intercalate (seen.map pairsOf)}") (callScript cid opid u ns ctr script))
  | "c9ids", [_who, n, ctr] => do
    let n ← n.toNat?
    let ctr ← ctr.toNat?
    let ids := (issuedIds ctr n).mergeSort (fun a b => !bytesLt b a)
    let distinct := (ids.zip (ids.drop 1)).foldl (fun acc ab => if ab.1 == ab.2 then acc else acc + 1) (if ids.isEmpty then 0 else 1)
    pure s!"ok n={n} distinct={distinct} first={ctr + 1} last={ctr + n} ctr={ctr + n}"
  | "c9hdl", [resp, r] => do
    let resp ← parsePairs resp
    let r ← parsePairs r
    pure ("ok " ++ pairsOf ((⟨[], resp⟩ : Ctx).addResponseHeaders r).resp)
  | "c9rsp", [wire, resp] => do
    let wire ← unhex wire
    let resp ← parsePairs resp
    pure (showRes (fun (c, rest) => s!"ok resp={pairsOf c.resp} rest={hexOf rest}")
      (readResponseHeader ⟨[], resp⟩ wire))
  | "c9mar", [x, p] => do
    -- the bytes are what Write{Request,Response}Header put on the transport for the map `p`
    let b ← unhex x
    let want ← parsePairs p
    match specDecode b with
    | some (l, rest) =>
      if rest.isEmpty ∧ marshal l = b ∧ sortHdrs l = sortHdrs want ∧ (l.map Prod.fst).Nodup then pure "ok"
      else pure "bad"
    | none => pure "bad"
  | "c9tmo", [v] => do
    let c : Ctx ← if v == "none" then some ⟨[], []⟩ else (unhex v).map fun b => ⟨[(timeoutHeader, b)], []⟩
    pure s!"ok {c.timeout}"
  | _, _ => none

end Driver
