import Driver.Util
import FV.Model.Headers
import FV.Model.Registry0
import FV.Model.Context
import FV.Spec.V0Layout

/-
C09 driver ops (see harness/rt/context.go for the real side):

  c9cli <cid> <opid> <U> <ns> <over>   caller's context: request headers, cid, Timeout(), getOpID
  c9srv <wire> <ctr>                   ReadRequestHeader over the bytes with the op id counter at ctr
  c9hdl <resp> <R>                     handler AddResponseHeader for each of R
  c9rsp <wire> <resp>                  ReadResponseHeader into a context whose response headers are resp
  c9mar <wire> <map>                   the header bytes written for a context's request/response map
  c9tmo <value|none>                   Timeout() of a context whose _timeout header is value / missing
-/
namespace Driver
open FV

def showOpId (c : Ctx) : String := showRes (fun n => toString n) c.opId

def stepContext (op : String) (args : List String) : Option String :=
  match op, args with
  | "c9cli", [cid, opid, u, ns, over] => do
    let cid ← unhex cid
    let opid ← opid.toNat?
    let u ← parsePairs u
    let ns ← ns.toInt?
    let over ← parsePairs over
    let c := clientCtx cid opid u ns over
    pure s!"ok req={pairsOf c.req} cid={hexOf c.correlationID} timeout={c.timeout} opid={showOpId c}"
  | "c9srv", [wire, ctr] => do
    let wire ← unhex wire
    let ctr ← ctr.toNat?
    let r := readRequestHeader wire ctr
    pure (showRes (fun (c, rest) =>
      s!"ok req={pairsOf c.req} resp={pairsOf c.resp} cid={hexOf c.correlationID} timeout={c.timeout} opid={showOpId c} rest={hexOf rest}") r
      ++ s!" ctr={ctrAfterRead wire ctr}")
  | "c9hdl", [resp, r] => do
    let resp ← parsePairs resp
    let r ← parsePairs r
    pure ("ok " ++ pairsOf ((⟨[], resp⟩ : Ctx).addResponseHeaders r).resp)
  | "c9rsp", [wire, resp] => do
    let wire ← unhex wire
    let resp ← parsePairs resp
    pure (showRes (fun (c, rest) => s!"ok resp={pairsOf c.resp} rest={hexOf rest}")
      (readResponseHeader ⟨[], resp⟩ wire))
  | "c9mar", [x, p] => do
    -- the bytes are what Write{Request,Response}Header put on the transport for the map `p`
    let b ← unhex x
    let want ← parsePairs p
    match specDecode b with
    | some (l, rest) =>
      if rest.isEmpty ∧ marshal l = b ∧ sortHdrs l = sortHdrs want ∧ (l.map Prod.fst).Nodup then pure "ok"
      else pure "bad"
    | none => pure "bad"
  | "c9tmo", [v] => do
    let c : Ctx ← if v == "none" then some ⟨[], []⟩ else (unhex v).map fun b => ⟨[(timeoutHeader, b)], []⟩
    pure s!"ok {c.timeout}"
  | _, _ => none

end Driver
