import Driver.Util
import FV.Model.Headers
import FV.Model.Registry0
import FV.Model.Receivers
import FV.Model.Context
import FV.Model.HeadersTransport
import FV.Spec.V0Layout

namespace Driver
open FV

/-- `Write{Request,Response}Header(ctx)`: the context's map marshalled (in whatever order), read back by the
independent spec reader. -/
def writeHeaderOut (h : Hdrs) : String :=
  match specDecode (marshal h) with
  | some (l, rest) => if rest.isEmpty ∧ (l.map Prod.fst).Nodup then "ok " ++ pairsOf l else "bad"
  | none => "bad"

/-- The transport `<kind>:<k>` of the `c04tr` suite carrying `b`: pieces of `k` bytes (coarsened to at most
~40 pieces for long inputs: by `c04_read_independent_of_chunking_and_remaining` any chunking will do) and
the kind's way of reporting `RemainingBytes()`. -/
def transportOf (spec : String) (b : Bytes) : Option RdTransport :=
  match spec.splitOn ":" with
  | [kind, ks] => do
    let k ← ks.toNat?
    if k = 0 then none else
    let kk := max k (b.length / 32 + 1)
    let chunks := chunksOf kk 40 b
    let exact : List Bytes → Nat := fun cs => cs.flatten.length
    let rem : Option (List Bytes → Nat) :=
      match kind with
      | "mem" | "remx" | "fill" => some exact
      | "ffr" | "tfr" => some (fun cs => (cs.headD []).length)          -- the rest of the current frame
      | "bufs" | "bufl" | "bufm" | "zlib" => some (fun cs => (cs.drop 1).flatten.length)  -- what is left underneath
      | "bufr" | "pipe" | "remmax" => some (fun _ => 18446744073709551615)
      | "rem0" => some (fun _ => 0)
      | "rem1" => some (fun _ => 1)
      | _ => none
    let r ← rem
    pure ⟨chunks, r⟩
  | _ => none

/-- Independent reader of the documented v0 layout (Spec side): pairs in wire order. -/
def stepHeaders (op : String) (args : List String) : Option String :=
  match op, args with
  | "hff", [x] => do
    let b ← unhex x
    pure (showRes (fun h => "ok " ++ pairsOf h) (headersFromFrame b))
  | "ums", [x] => do
    let b ← unhex x
    pure (showRes (fun (h, r) => "ok " ++ pairsOf h ++ " rest=" ++ hexOf r) (unmarshalStream b))
  | "umf", [x] => do
    let b ← unhex x
    pure (showRes (fun c => s!"ok size={c.frameSize} ver={c.version.toNat} {pairsOf c.headers} payload={hexOf c.payload}") (unmarshalFrame b))
  | "ahf", [x, p] => do
    let b ← unhex x
    let adds ← parsePairs p
    pure (showRes (fun res =>
      -- canonicalise exactly as the harness does: decode the result with the spec reader
      match specDecode (res.drop 4) with
      | some (l, payload) =>
        if res.length ≥ 4 ∧ (l.map Prod.fst).Nodup then
          s!"ok size={rd32 res} {pairsOf l} payload={hexOf payload}"
        else "ok raw=" ++ hexOf res
      | none => "ok raw=" ++ hexOf res) (addHeadersToFrame b adds))
  | "mar", [p, x] => do
    let want ← parsePairs p
    let b ← unhex x
    match specDecode b with
    | some (l, rest) =>
      if rest.isEmpty ∧ marshal l = b ∧ sortHdrs l = sortHdrs want ∧ (l.map Prod.fst).Nodup then pure "ok"
      else pure "bad"
    | none => pure "bad"
  | "csz", [p] => do
    let h ← parsePairs p
    pure (toString (calcSize h))
  | "exe", [x] => do
    let b ← unhex x
    pure (showRes (fun _ => "ok") (registryExecuteEmpty b))
  | "exf", [x] => do
    let b ← unhex x
    pure (showRes (fun _ => "ok") (executeFrameEmpty b))
  | "pfr", [x] => do
    let b ← unhex x
    pure (showRes (fun _ => "ok") (natsServerProcessFrame b))
  | "htp", [x] => do
    let b ← unhex x
    pure (showRes (fun st => s!"status={st}") (httpHandle b))
  | "nsw", [ms] => do
    let msgs ← if ms == "." then some [] else (ms.splitOn ",").mapM unhex
    -- the harness appends one well-formed message after the sequence
    let w := (Worker.init.recvAll msgs).recv [0, 0, 0, 0, 0]
    pure s!"delivered={w.delivered} exited={!w.alive}"
  -- FProtocol layer (C04): the context ReadRequestHeader / ReadResponseHeader build, the bytes Write…Header marshal
  | "prq", [x] => do
    let b ← unhex x
    pure (showRes (fun (c, r) => "ok req=" ++ pairsOf (c.req.without opIdHeader) ++ " resp=" ++ pairsOf c.resp
      ++ " rest=" ++ hexOf r) (readRequestHeader b 0))
  | "prs", [x, p] => do
    let b ← unhex x
    let pre ← parsePairs p
    pure (showRes (fun (c, r) => "ok resp=" ++ pairsOf c.resp ++ " rest=" ++ hexOf r)
      (readResponseHeader ⟨[], Hdrs.setAll [] pre⟩ b))
  | "pwq", [p] => do
    let h ← parsePairs p
    pure (writeHeaderOut h)
  | "pws", [p] => do
    let h ← parsePairs p
    pure (writeHeaderOut h)
  -- the same over a transport of a given kind (c04tr)
  | "tpq", [x, tk] => do
    let b ← unhex x
    let t ← transportOf tk b
    pure (showRes (fun (c, r) => "ok req=" ++ pairsOf (c.req.without opIdHeader) ++ " resp=" ++ pairsOf c.resp
      ++ " rest=" ++ hexOf r) (readRequestHeaderT t 0))
  | "tps", [x, p, tk] => do
    let b ← unhex x
    let pre ← parsePairs p
    let t ← transportOf tk b
    pure (showRes (fun (c, r) => "ok resp=" ++ pairsOf c.resp ++ " rest=" ++ hexOf r)
      (readResponseHeaderT ⟨[], Hdrs.setAll [] pre⟩ t))
  -- several unrelated streams read at once: each reader's answer is the answer for its own bytes
  | "umc", [xs] => do
    let bs ← (xs.splitOn ",").mapM unhex
    pure ("|".intercalate (bs.map fun b =>
      showRes (fun (h, r) => "ok " ++ pairsOf h ++ " rest=" ++ hexOf r) (unmarshalStream b)))
  | _, _ => none

end Driver
