/-
Driver ops of C12 (model side of harness/rt/outbuf.go, outbuf_call.go):
  ob   <prog> <limit>     every op of the program on `OutBuf.new limit`, then `bytes`
  obn  <prog> <limit>     `prepare limit ops` (stops at the first error)
  c12call <req> <rep> <err> <kind> <q> <r> …   `callLoop` / `callHttp` (<err>: comma-separated
                          programs of sendError's steps; further arguments are the
                          harness's generating parameters and are ignored); kind nats = `callNats`
  c12send <req> <kind> <q> …   `sendOnly` (Oneway: kinds nats/http/loop; Publish: natspub/stomp/looppub)
  c12hdr <hex header> <n>      `handlerStatus` (NewFrugalHandlerFunc's reading of x-frugal-payload-limit)
  c12seq - <kind> <L> <steps>    `runSeq` (registration across a sequence of requests on one transport)
  c12g <q> <r> <Q> <R> <E> …   `callLoop` on sizes (generated-code suite harness/gen/suites/c12.py)
Program: opcode c, c%4 = 0 write, 1 writeByte(c), 2 writeString, 3 reset; write/writeString
are followed by a 3-byte big-endian length (missing bytes = 0, taken mod 2^21); content byte j of the op at
program offset p is (13p + j) mod 256.
-/
import Driver.Util
import FV.Model.OutBuf

namespace Driver
open FV

def c12Content (p n : Nat) : Bytes := (List.range n).map fun j => UInt8.ofNat (13 * p + j)

/-- (length, bytes consumed) of the 3-byte length field, missing bytes read as 0. -/
def c12Len3 : List UInt8 → Nat × Nat
  | a :: b :: c :: _ => (a.toNat % 32 * 65536 + b.toNat * 256 + c.toNat, 3)
  | [a, b] => (a.toNat % 32 * 65536 + b.toNat * 256, 2)
  | [a] => (a.toNat % 32 * 65536, 1)
  | [] => (0, 0)

def c12ParseAux : Nat → Nat → List UInt8 → List Op
  | 0, _, _ => []
  | _, _, [] => []
  | fuel + 1, p, c :: rest =>
    match c.toNat % 4 with
    | 1 => Op.writeByte c :: c12ParseAux fuel (p + 1) rest
    | 3 => Op.reset :: c12ParseAux fuel (p + 1) rest
    | k =>
      let (n, used) := c12Len3 rest
      let d := c12Content p n
      (if k = 0 then Op.write d else Op.writeString d) :: c12ParseAux fuel (p + 1 + used) (rest.drop used)

def c12Parse (prog : Bytes) : List Op := c12ParseAux (prog.length + 1) 0 prog

/-- Sizes only (content is irrelevant to `prepareLen`/`callLoop`/`callHttp`). -/
def c12ParseAuxN : Nat → List UInt8 → List Op
  | 0, _ => []
  | _, [] => []
  | fuel + 1, c :: rest =>
    match c.toNat % 4 with
    | 1 => Op.writeByte c :: c12ParseAuxN fuel rest
    | 3 => Op.reset :: c12ParseAuxN fuel rest
    | k =>
      let (n, used) := c12Len3 rest
      let d := List.replicate n (0 : UInt8)
      (if k = 0 then Op.write d else Op.writeString d) :: c12ParseAuxN fuel (rest.drop used)

def c12ParseN (prog : Bytes) : List Op := c12ParseAuxN (prog.length + 1) prog

def c12Hash (b : Bytes) : Nat := b.foldl (fun h x => (h * 31 + x.toNat) % 4294967296) 7

def c12Marks : List Op → List Bool → String
  | Op.reset :: t, _ :: es => "r" ++ c12Marks t es
  | _ :: t, e :: es => (if e then "E" else ".") ++ c12Marks t es
  | _, _ => ""

def c12ErrName : Option CallErr → String
  | none => "ok"
  | some .requestTooLarge => "err:requestTooLarge"
  | some .responseTooLarge => "err:responseTooLarge"
  | some .timedOut => "timeout"
  | some (.application _) => "err:application"
  | some .other => "err:other"

def stepOutBuf (op : String) (args : List String) : Option String :=
  match op, args with
  | "ob", [x, l] => do
    let prog ← unhex x
    let limit ← l.toNat?
    let ops := c12Parse prog
    let r := (OutBuf.new limit).runAll ops
    let out := r.1.bytes
    let marks := c12Marks ops r.2
    pure s!"r={if marks.isEmpty then "-" else marks} len={out.length} h={c12Hash out} head={hexOf (out.take 8)}"
  | "obn", [x, l] => do
    let prog ← unhex x
    let limit ← l.toNat?
    pure (showRes (fun n => s!"ok len={n}") (prepareLen limit (c12ParseN prog)))
  | "c12call", rq :: rp :: er :: kind :: q :: r :: _ => do
    let req ← unhex rq
    let rep ← unhex rp
    let errp ← (er.splitOn ",").mapM unhex
    let q ← q.toNat?
    let r ← r.toNat?
    let o ← if kind == "loop" then some (callLoop q r (c12ParseN req) (c12ParseN rep) (errp.map c12ParseN))
            else if kind == "http" then some (callHttp q r (c12ParseN req) (c12ParseN rep))
            else if kind == "nats" then some (callNats (c12ParseN req) (c12ParseN rep) (errp.map c12ParseN))
            else none
    pure s!"sent={if o.sent then "y" else "n"} res={c12ErrName o.res}"
  | "c12send", rq :: kind :: q :: _ => do
    let req ← unhex rq
    let q ← q.toNat?
    let t ← if kind == "nats" then some natsTransport
            else if kind == "natspub" then some natsPublisher
            else if kind == "http" then some (httpTransport q)
            else if kind == "loop" then some (limitTransport q)
            else if kind == "stomp" || kind == "looppub" then some (stompPublisher q)
            else none
    let o := sendOnly t (c12ParseN req)
    pure s!"sent={if o.sent then "y" else "n"} res={c12ErrName o.res}"
  | "c12hdr", [h, n] => do
    -- the HTTP handler alone: raw x-frugal-payload-limit header value (hex bytes), unframed reply size
    let hb ← unhex h
    let n ← n.toNat?
    pure s!"status={handlerStatus (hb.map fun b => Char.ofNat b.toNat) n}"
  | "c12seq", [_, _kind, l, st] => do
    -- steps  <ctx>:<size>:<op>  ctx s(ame)/c(lone)/f(resh), size in bytes, op r(equest)/o(neway)
    let L ← l.toNat?
    let raw ← (st.splitOn ",").mapM fun x =>
      match x.splitOn ":" with
      | [c, sz, o] => do
        let n ← sz.toNat?
        pure (c, n, o == "o")
      | _ => none
    -- op ids: the shared context has id 0, every clone / fresh context a new one
    let steps := (raw.zipIdx).map fun ((c, n, o), i) => SeqStep.mk (if c == "s" then 0 else i + 1) n o
    let out := runSeq L [] steps
    pure (",".intercalate (out.map fun (e, n) => s!"{c12ErrName e}/{n}"))
  | "c12g", q :: r :: qsz :: rsz :: esz :: _ => do
    -- generated-code call, sizes only: framed request / reply / error reply
    let q ← q.toNat?
    let r ← r.toNat?
    let Q ← qsz.toNat?
    let R ← rsz.toNat?
    let E ← esz.toNat?
    let one (n : Nat) : List Op := [Op.write (List.replicate (n - 4) 0)]
    let o := callLoop q r (one Q) (one R) [one E]
    pure s!"sent={if o.sent then "y" else "n"} res={c12ErrName o.res}"
  | _, _ => none

end Driver
