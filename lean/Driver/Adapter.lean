/-
Driver for C15: `adp <history hex> <monitor cfg>` — a line is a whole history. The controller
discipline of harness/rt/adapter.go (which goroutine is released when, where goroutines are
parked) is replayed here over `FV.Adapter.step`; every model action taken must be enabled, a
goroutine whose action is disabled is reported `w` (the mutex is held by a parked goroutine) or
`blocked`. Prints what the harness prints.
-/
import Driver.Util
import FV.Model.Adapter
import FV.Model.Monitor
import FV.Model.Framed
import FV.Model.NatsClient

namespace Driver
open FV FV.Adapter

namespace Adp

inductive St where
  | run | rd | herr | hpre | wait | done (res : String) | blocked
  deriving DecidableEq

structure Ent where
  pid : Pid
  idx : Nat
  st : St
  reported : String := ""
  deferred : Bool := false

def Ent.show (e : Ent) : String :=
  match e.st with
  | .done r => r
  | .herr => "h"
  | .hpre => "P"
  | .wait => "w"
  | .blocked => "blocked"
  | .rd => "rd"
  | .run => "run"

inductive MonSt where
  | none | idle | parked (c : Cause) | term

structure Ctl where
  s : Sys
  pol : Monitor.Policy
  ents : List Ent := []
  armErr : Bool := false
  armPre : Bool := false
  parkedQ : List Nat := []
  holder : Option Pid := none
  waiter : Option Pid := none
  openScript : List Bool := []   -- next underlying Opens: false = refused, true = accepted and the connection dies at once
  monSt : MonSt := .none
  buffered : Bool := false
  monLog : List String := []
  stepMon : List String := []

def Ctl.setEnt (c : Ctl) (p : Pid) (f : Ent → Ent) : Ctl :=
  { c with ents := c.ents.map fun e => if e.pid = p then f e else e }

def Ctl.setSt (c : Ctl) (p : Pid) (st : St) : Ctl := c.setEnt p fun e => { e with st := st }

def retName : Ret → String
  | .ok => "ok"
  | .alreadyOpen => "already"
  | .notOpen => "notopen"
  | .other => "other"
  | .bool b => if b then "true" else "false"

def causeTok : Cause → String
  | .clean => "C"
  | .dirty => "U"

/-- the monitor runner takes the notification of a close and parks in its first callback -/
def Ctl.monTake (c : Ctl) : Ctl :=
  match step c.s .monRecv, c.s.mon with
  | some s', some (x :: _) => { c with s := s', monSt := .parked x, stepMon := c.stepMon ++ ["!" ++ causeTok x] }
  | _, _ => { c with stepMon := c.stepMon ++ ["!-"] }

/-- bookkeeping after a close completed: `before` is the state before the closing action -/
def Ctl.closeCompleted (c : Ctl) (before : Sys) : Ctl :=
  -- the read that was blocked on the transport returns: that loop reaches the onerror point
  let woken := (List.range before.incs.length).filter fun k =>
    before.loopPc k = some .reading && c.s.loopPc k != some .reading
  let c := woken.foldl (fun (c : Ctl) k =>
    if c.armErr then { (c.setSt (.loop k) .herr) with armErr := false, parkedQ := c.parkedQ ++ [k] }
    else c.setSt (.loop k) .run) c
  match c.monSt with
  | .idle => c.monTake
  | .parked _ => { c with buffered := true }
  | _ => c

def Ctl.opened (c : Ctl) : Ctl :=
  let k := c.s.incs.length - 1
  { c with ents := c.ents ++ [{ pid := .loop k, idx := k + 1, st := .rd }] }

/-- the connection just opened dies at once: the new loop's first read fails -/
def Ctl.flapNewLoop (c : Ctl) : Ctl :=
  let k := c.s.incs.length - 1
  match step c.s (.read k .err) with
  | none => c
  | some s' =>
    let c := { c with s := s' }
    if c.armErr then { (c.setSt (.loop k) .herr) with armErr := false, parkedQ := c.parkedQ ++ [k] }
    else c.setSt (.loop k) .run

def Ctl.stuck (c : Ctl) (p : Pid) : Ctl :=
  c.setSt p (if c.holder.isSome then .wait else .blocked)

/-- run goroutine `p` until it parks, blocks or finishes -/
def runPid (c : Ctl) (p : Pid) : Nat → Ctl
  | 0 => c
  | fuel + 1 =>
    match p with
    | .loop k =>
      match c.s.loopPc k with
      | some (.onerror _) | some (.closing _) =>
        match step c.s (.loopStep k) with
        | none => c.stuck p
        | some s' =>
          let c := { c with s := s' }
          match s'.loopPc k with
          | some (.atSignal _) =>
            if c.armPre then { (c.setSt p .hpre) with armPre := false, holder := some p } else runPid c p fuel
          | some .done => c.setSt p (.done "x")
          | _ => runPid c p fuel
      | some (.atSignal _) =>
        match step c.s (.loopStep k) with
        | none => c.setSt p .blocked
        | some s' => ({ c with s := s' }.setSt p (.done "c")).closeCompleted c.s
      | _ => c
    | .call i =>
      match c.s.calls[i]? with
      | some ⟨kind, .start⟩ =>
        let consumes := kind = .open && !c.s.isOpen
        let openOk := !(consumes && c.openScript.head? == some false)
        let flap := consumes && c.openScript.head? == some true
        match step c.s (.callStep i openOk) with
        | none => c.stuck p
        | some s' =>
          let c := if consumes then { c with openScript := c.openScript.drop 1 } else c
          let c := { c with s := s' }
          match s'.calls[i]? with
          | some ⟨_, .atSignal⟩ =>
            if c.armPre then { (c.setSt p .hpre) with armPre := false, holder := some p } else runPid c p fuel
          | some ⟨_, .done r⟩ =>
            let c := c.setSt p (.done (retName r))
            if kind = .open && r = .ok then (if flap then c.opened.flapNewLoop else c.opened) else c
          | _ => c
      | some ⟨_, .atSignal⟩ =>
        match step c.s (.callStep i true) with
        | none => c.setSt p .blocked
        | some s' => ({ c with s := s' }.setSt p (.done "ok")).closeCompleted c.s
      | _ => c

/-- every followed goroutine that can move runs to its rest state -/
def settle (c : Ctl) : Nat → Ctl
  | 0 => c
  | fuel + 1 =>
    match c.ents.find? fun e => e.st = .run && !e.deferred with
    | none => c
    | some e => settle (runPid c e.pid 8) fuel

def report (c : Ctl) (primary : Option Pid) (head : String) : Ctl × String :=
  let (c, out) := match primary with
    | none => (c, head)
    | some p =>
      match c.ents.find? fun (e : Ent) => e.pid = p with
      | none => (c, head)
      | some e =>
        if e.deferred then (c, head ++ "w")
        else (c.setEnt p fun e => { e with reported := e.show }, head ++ e.show)
  let (ents, out) := c.ents.foldl (fun (acc : List Ent × String) (e : Ent) =>
    if some e.pid = primary || e.deferred then (acc.1 ++ [e], acc.2)
    else
      let s := e.show
      if e.reported = "" && (s = "rd" || s = "run") then (acc.1 ++ [{ e with reported := s }], acc.2)
      else if s ≠ e.reported then
        let tag := match e.pid with | .loop _ => "+L" | .call _ => "+K"
        (acc.1 ++ [{ e with reported := s }], acc.2 ++ tag ++ toString e.idx ++ ":" ++ s)
      else (acc.1 ++ [e], acc.2)) ([], out)
  let out := c.stepMon.foldl (fun (o : String) (t : String) => if t.startsWith "!" then o ++ t else o) out
  ({ c with ents := ents, stepMon := [] }, out)

def reader (c : Ctl) : Option Nat :=
  (List.range c.s.incs.length).find? fun k => c.s.loopPc k = some .reading

def msOf (w : Int) : String := toString (w / 1000000)

def b2s (b : Bool) : String := if b then "1" else "0"

/-- `m`: the parked monitor callback returns and the runner goes on until idle / parked again / returned -/
def monRun (c : Ctl) (cause : Cause) : Ctl × List String :=
  match cause with
  | .clean => ({ c with monSt := .term, monLog := c.monLog ++ ["C"] }, ["C"])
  | .dirty =>
    let nf := (c.openScript.takeWhile (· == false)).length
    let outs := if c.s.isOpen then List.replicate 64 false else List.replicate nf false ++ [true]
    let tr := Monitor.handleClose c.pol false outs
    let toks := tr.filterMap fun e => match e with
      | .closedUncleanly r w => some ("U>" ++ b2s r ++ ":" ++ msOf w)
      | .reopenFailed n pw r w => some ("F" ++ toString n ++ ":" ++ msOf pw ++ ">" ++ b2s r ++ ":" ++ msOf w)
      | .reopenSucceeded => some "S"
      | _ => none
    let fails := (tr.filter fun e => e == .attempt false).length
    let c := if c.s.isOpen then c else { c with openScript := c.openScript.drop fails }
    let c := { c with monLog := c.monLog ++ toks }
    if tr.contains .reopenSucceeded then
      -- the runner's Open: an Open call like any other
      let i := c.s.calls.length
      match (step c.s (.invoke .open)).bind fun s => step s (.callStep i true) with
      | none => ({ c with monSt := .term }, toks ++ ["blocked"])
      | some s' =>
        let flap : Bool := c.openScript.head? == some true
        let c := { c with s := s', openScript := c.openScript.drop 1 }.opened
        -- a connection that dies at once: its loop closes the transport before the runner's sanity
        -- check (which only logs); the close's cause waits in the monitor channel
        let c := if flap then
            -- (nobody is held before the closeSignal send while the monitor runs)
            let pre := c.armPre
            { (settle { c with armPre := false }.flapNewLoop 16) with armPre := pre }
          else c
        if c.buffered then (({ c with buffered := false, monSt := .idle }).monTake, toks)
        else ({ c with monSt := .idle }, toks)
    else ({ c with monSt := .term }, toks)

def evOf (a : Nat) : Ev :=
  if a = 4 || a = 8 then .eof else if a = 7 then .garbage else .err

def doStep (c : Ctl) (i : Nat) (b : UInt8) : Ctl × String :=
  let a := b.toNat % 16
  let held := c.holder.isSome
  let newRunnerOK := !held || c.waiter.isNone
  let asWaiter (c : Ctl) (p : Pid) : Ctl :=
    if held then { (c.setEnt p fun e => { e with deferred := true }) with waiter := some p } else c
  if a ≤ 2 then
    if !newRunnerOK then (c, "skip") else
    let kind := if a = 0 then Kind.open else if a = 1 then Kind.close else Kind.isOpen
    match step c.s (.invoke kind) with
    | none => (c, "bad")
    | some s' =>
      let p := Pid.call (s'.calls.length - 1)
      let c := { c with s := s', ents := c.ents ++ [{ pid := p, idx := i, st := .run }] }
      let c := asWaiter c p
      let c := runPid c p 8
      let c := if held then c else settle c 16
      report c (some p) ""
  else if a = 3 then
    match reader c with
    | none => (c, "skip")
    | some k =>
      match step c.s (.read k .frame) with
      | none => (c, "blocked")
      | some s' => ({ c with s := s' }, "d")
  else if a ≤ 9 then
    let armed := c.armErr && a != 7
    match reader c with
    | none => (c, "skip")
    | some k =>
      if !newRunnerOK && !armed then (c, "skip") else
      match step c.s (.read k (evOf a)) with
      | none => (c, "blocked")
      | some s' =>
        let p := Pid.loop k
        let c := { c with s := s' }
        if armed then
          let c := { (c.setSt p .herr) with armErr := false, parkedQ := c.parkedQ ++ [k] }
          report c (some p) ""
        else
          let c := asWaiter (c.setSt p .run) p
          let c := runPid c p 8
          let c := if held then c else settle c 16
          report c (some p) ""
  else if a = 10 then ({ c with armErr := true }, "a")
  else if a = 11 then
    match c.parkedQ with
    | [] => (c, "skip")
    | k :: rest =>
      if !newRunnerOK then (c, "skip") else
      let p := Pid.loop k
      let c := asWaiter ({ c with parkedQ := rest }.setSt p .run) p
      let c := runPid c p 8
      let c := if held then c else settle c 16
      report c (some p) ""
  else if a = 12 then ({ c with armPre := true }, "a")
  else if a = 13 then
    match c.holder with
    | none => (c, "skip")
    | some p =>
      let c := { c with holder := none }
      let c := match c.waiter with
        | none => c
        | some w => { (c.setEnt w fun e => { e with deferred := false, st := if e.st = St.wait then St.run else e.st }) with waiter := none }
      let c := runPid (c.setSt p .run) p 8
      let c := settle c 16
      report c (some p) ""
  else if a = 14 then ({ c with openScript := c.openScript ++ [decide (b.toNat / 16 ≥ 8)] }, "a")
  else
    match c.monSt, held with
    | .parked cause, false =>
      let (c, toks) := monRun c cause
      report c none (",".intercalate toks)
    | _, _ => (c, "skip")

def actName (b : UInt8) : String := String.singleton ("OCIFERZGTUhrpqxm".toList.getD (b.toNat % 16) '?')

def flush (c : Ctl) (n : Nat) : Nat → List String → Ctl × List String
  | 0, acc => (c, acc)
  | fuel + 1, acc =>
    if c.holder.isSome then
      let (c, o) := doStep c n 13
      flush c n fuel (acc ++ ["q=" ++ o])
    else if !c.parkedQ.isEmpty then
      let (c, o) := doStep c n 11
      flush c n fuel (acc ++ ["r=" ++ o])
    else (c, acc)

def showInc (i : Inc) : String :=
  let vals := i.chan.map fun v => match v with | .clean => "nil" | .dirty => "err"
  if vals.isEmpty then (if i.chanClosed then "closed-empty" else "-") else "&".intercalate vals

def parseCfg (s : String) : Option (Monitor.Policy × Bool) :=
  match s.splitOn ":" with
  | ["n"] => some (Monitor.Base.policy ⟨0, 0, 0⟩, false)
  | ["s", r, mx] => do
    let m ← mx.toNat?
    some (Monitor.stubPolicy (r == "1") ⟨m, 0, 0⟩, true)
  | ["b", mx, ini, mw] => do
    let m ← mx.toNat?
    let i ← ini.toNat?
    let w ← mw.toNat?
    some (Monitor.Base.policy ⟨m, (i : Int) * 1000000, (w : Int) * 1000000⟩, true)
  | _ => none

def runHistory (hist : List UInt8) (pol : Monitor.Policy) (withMon : Bool) : String :=
  let s0 := init true
  let s0 := if withMon then (step s0 .setMonitor).getD s0 else s0
  let c : Ctl := { s := s0, pol := pol, monSt := if withMon then .idle else .none }
  let (c, outs, _) := hist.foldl (fun (acc : Ctl × List String × Nat) b =>
    let (c, o) := doStep acc.1 acc.2.2 b
    (c, acc.2.1 ++ [actName b ++ "=" ++ o], acc.2.2 + 1)) (c, [], 0)
  let n := hist.length
  let c := { c with armErr := false, armPre := false }
  let (c, fl) := flush c n 64 []
  let (c, fin) := doStep c (n + 1) 2
  let exited := (c.s.incs.filter fun i => i.loop = .done).length
  let incs := if c.s.incs.isEmpty then "." else "/".intercalate (c.s.incs.map showInc)
  let mon := if c.monLog.isEmpty then "." else ",".intercalate c.monLog
  ";".intercalate outs ++ "|" ++ ";".intercalate fl ++ "|" ++
    s!"open={fin} inc={incs} loops={exited}/{c.s.incs.length} mon={mon}"

end Adp

def stepAdapter (op : String) (args : List String) : Option String :=
  match op, args with
  | "adp", [h, cfg] => do
    let hist ← unhex h
    if hist.length > 64 then none else
    let (pol, withMon) ← Adp.parseCfg cfg
    pure (Adp.runHistory hist pol withMon)
  | "ads", [h, cfg] => do
    -- real-TSocket history: sequential, same meaning as the adp history it maps to
    let hist ← unhex h
    if hist.length > 64 then none else
    if hist.any (fun b => b.toNat % 16 > 9 && b.toNat % 16 != 15) then none else
    let (pol, withMon) ← Adp.parseCfg cfg
    let m : Nat → Nat := fun a => if a = 6 then 4 else a
    let adp := hist.map fun b => UInt8.ofNat (m (b.toNat % 16) + 16 * (b.toNat / 16))
    pure (Adp.runHistory adp pol withMon)
  | "nct", [h] => do
    -- NATS client transport: sequential history, one byte per action (mod 7)
    let hist ← unhex h
    if hist.length > 64 then none else
    let acts : List NatsClient.Act := hist.map fun b =>
      match b.toNat % 7 with
      | 0 => .open | 1 => .close | 2 => .isOpen | 3 => .request | 4 => .connClose | 5 => .brokerDown | _ => .brokerUp
    let names := "OCIQKDU".toList
    let retS : NatsClient.Ret → String := fun r => match r with
      | .ok => "ok" | .alreadyOpen => "already" | .notOpen => "notopen" | .other => "other"
      | .bool b => if b then "true" else "false" | .env => "env"
    let (s, outs) := acts.foldl (fun (acc : NatsClient.Sys × List String) a =>
      let idx := match a with | .open => 0 | .close => 1 | .isOpen => 2 | .request => 3 | .connClose => 4 | .brokerDown => 5 | .brokerUp => 6
      let nm := String.singleton (names.getD idx '?')
      -- the harness does not shut down a broker that is down / restart one that is up
      if (a = .brokerDown && !acc.1.broker) || (a = .brokerUp && acc.1.broker) then (acc.1, acc.2 ++ [nm ++ "=skip"])
      else if acc.1.panicked then (acc.1, acc.2 ++ [nm ++ "=panic:closedChan"])
      else
        let r := NatsClient.step acc.1 a
        if r.1.panicked then (r.1, acc.2 ++ [nm ++ "=panic:closedChan"]) else (r.1, acc.2 ++ [nm ++ "=" ++ retS r.2])) (NatsClient.init, [])
    let incs := if s.incs.isEmpty then "." else "/".intercalate (s.incs.map fun i =>
      if i.sent = 0 then (if i.chanClosed then "closed-empty" else "-") else "&".intercalate (List.replicate i.sent "nil"))
    pure (";".intercalate outs ++ "|open=" ++ (if s.isOpen then "true" else "false") ++ " inc=" ++ incs)
  | "adm", [h] => do
    -- several transports, each with its own monitor (product of independent instances)
    let bs ← unhex h
    if bs.length > 64 then none else
    let byteAt (j : Nat) : Nat := (bs.getD j 0).toNat
    let n := 2 + byteAt 0 % 2
    let polOf (mx ini mw : Nat) : Monitor.Base := ⟨mx, (ini : Int) * 1000000, ((ini + mw : Nat) : Int) * 1000000⟩
    let insts : List Monitor.Inst := (List.range n).map fun t =>
      let c1 := byteAt (1 + 2 * t); let c2 := byteAt (2 + 2 * t)
      { pol := polOf ((c1 / 2) % 5) (c2 % 3) ((c2 / 3) % 4), alive := true }
    let toks (tr : List Monitor.MEv) : String := ",".intercalate (tr.filterMap fun e => match e with
      | .closedUncleanly r w => some ("U>" ++ Adp.b2s r ++ ":" ++ Adp.msOf w)
      | .reopenFailed k pw r w => some ("F" ++ toString k ++ ":" ++ Adp.msOf pw ++ ">" ++ Adp.b2s r ++ ":" ++ Adp.msOf w)
      | .reopenSucceeded => some "S"
      | _ => none)
    let rec go (fuel : Nat) (j : Nat) (ms : List Monitor.Inst) (acc : List String) (cnt : Nat) : List Monitor.Inst × List String :=
      match fuel with
      | 0 => (ms, acc)
      | fuel + 1 =>
        if j ≥ bs.length || cnt ≥ 24 then (ms, acc) else
        let e := byteAt j
        let t := e % n
        let op := (e / n) % 8
        match ms[t]? with
        | none => (ms, acc)
        | some m =>
          if op = 6 then
            let nb := byteAt (j + 1)
            let r := Monitor.multiStep ms (.setPolicy t (polOf ((nb / 2) % 5) (nb % 3) ((nb / 16) % 4)))
            go fuel (j + 2) r.1 (acc ++ ["P" ++ toString t]) (cnt + 1)
          else
            let k := if op = 7 then m.pol.maxReopenAttempts else op
            if !m.alive then go fuel (j + 1) ms (acc ++ ["T" ++ toString t ++ ":term"]) (cnt + 1) else
            let r := Monitor.multiStep ms (.outage t k)
            let tr := match r.2 with | some x => x.2 | none => []
            go fuel (j + 1) r.1 (acc ++ ["T" ++ toString t ++ ":" ++ toks tr]) (cnt + 1)
    let (ms, outs) := go 64 (1 + 2 * n) insts [] 0
    let alive := String.mk (ms.map fun m => if m.alive then '1' else '0')
    pure (";".intercalate outs ++ "|alive=" ++ alive)
  | "cut", [x, k, mode] => do
    -- inbound stream x cut after k bytes, then EOF (e) or a read error (r)
    let bs ← unhex x
    let n ← k.toNat?
    if mode != "e" && mode != "r" then none else
    let r := Framed.readAll (bs.take n) (mode == "e")
    let c := match r.2 with | .clean => "nil" | .dirty => "err"
    pure s!"delivered={r.1} closed={c} values=1 open=false"
  | _, _ => none

end Driver
