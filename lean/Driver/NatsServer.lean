/-
Driver ops of the NATS server shutdown model (C20).

`nstrace <w> <q> <events>`  trace validation: the events observed on the real server
  (`E<i>` callback of request i is about to send to workC, `D<i>` a worker received i,
  `P<i>` processFrame for i finished / reply published, `X<i>` the handler turned i away (queue closed),
  `SC` Stop called, `SR` Stop returned nil, `SRE` Stop returned an error (the drain failed), `VR` Serve
  returned, `FC` a connection fault is injected) must be the observable projection of a run of `FV.NS.step`. The hidden
  actions (arrive, deliver, handlerEnqueue, callbackDone, the steps of Serve, worker exits) are
  filled in lazily, only when the next observed event needs them. `D` is logged by the worker
  AFTER its receive, so a receive may have happened before it shows up in the log: when the
  callback can only have gone on because a worker took a frame, that take is performed and
  remembered in `unconf` until the matching `D` arrives.
  Output `ok end=<observable>` or `rejected at <k>:<event>`.

`nsrun <w> <q> <stopPos> <gap> <delay> <jitter> <pub2> <fault> <opts> <durs>` (`nsrun1` = the same, executed in-process by the harness)  the model's prediction for a configuration: a fair
  schedule of the model (first `stopPos` requests arrive, Stop is called, the remaining ones are
  offered while the system runs) is executed to the end.
-/
import Driver.Util
import FV.Model.NatsServer

namespace Driver
open FV.NS

structure VState where
  s : Sys
  unconf : List Msg      -- receives performed on the model whose `D` event has not been seen yet
  fail : Bool := false   -- the log says (somewhere) that Stop returned an error: the drain step failed

def idleWorker (ws : List Wk) : Option Nat := ws.findIdx? (· == .idle)
def busyWorker (ws : List Wk) (m : Msg) : Option Nat := ws.findIdx? (· == .busy m)

def stepV (v : VState) (a : Action) : Option VState := (step v.s a).map fun s => { v with s := s }

/-- A worker that is idle in the model receives from workC now (its `D` event will follow). -/
def hypoTake (v : VState) : Option VState := do
  let i ← idleWorker v.s.workers
  let taken ← match v.s.workC, v.s.cb with
    | x :: _, _ => some x
    | [], .sending m => some m
    | _, _ => none
  let s' ← step v.s (.workerTake i)
  pure { v with s := s', unconf := v.unconf ++ [taken] }

/-- Let the current callback (if any) complete. -/
def finishCb : Nat → VState → Option VState
  | fuel, v =>
    match v.s.cb with
    | .idle => some v
    | .sent _ => stepV v .callbackDone
    | .sending _ =>
      match stepV v .handlerEnqueue with
      | some v' => stepV v' .callbackDone
      | none =>
        match fuel with
        | 0 => none
        | fuel + 1 => (hypoTake v).bind (finishCb fuel)

def deliverAll : Nat → Sys → Sys
  | 0, s => s
  | fuel + 1, s => match step s .deliver with
    | some s' => deliverAll fuel s'
    | none => s

def servePcRank : ServePc → Nat
  | .running => 0 | .gotQuit => 1 | .unsubbed => 2 | .barrierWait => 3
  | .barrierDone => 4 | .resultSent => 5 | .closedQ => 6 | .returned => 7

/-- Advance `Serve` (hidden steps) until its program counter has rank ≥ `target` (≤ 6). With `fail` the
drain step ends with an error (possible after a fault only), otherwise it runs to the barrier. -/
def advanceServe (fail : Bool) (target : Nat) : Nat → VState → Option VState
  | 0, v => if servePcRank v.s.serve ≥ target then some v else none
  | fuel + 1, v =>
    if servePcRank v.s.serve ≥ target then some v else
    match v.s.serve with
    | .running => (stepV v .serveGotQuit).bind (advanceServe fail target fuel)
    | .gotQuit =>
      -- after a fault the broker may not act on the UNSUB any more (requests may still come)
      (stepV v (if fail then .drainFail else if v.s.faulty then .drainStartIgnored else .drainStart)).bind (advanceServe fail target fuel)
    | .unsubbed =>
      if fail then (stepV v .drainFail).bind (advanceServe fail target fuel)
      else (stepV { v with s := deliverAll (v.s.inflight.length) v.s } .flushBarrier).bind (advanceServe fail target fuel)
    | .barrierWait =>
      if fail then (stepV v .drainFail).bind (advanceServe fail target fuel)
      else ((finishCb (v.s.workers.length + 2) v).bind (stepV · .barrierFires)).bind (advanceServe fail target fuel)
    | .barrierDone => (stepV v .sendResult).bind (advanceServe fail target fuel)
    | .resultSent => ((finishCb (v.s.workers.length + 2) v).bind (stepV · .closeWorkC)).bind (advanceServe fail target fuel)
    | .closedQ => none
    | .returned => none

/-- Hidden steps of Serve, the way the log says the drain ended (`SRE` anywhere in it: it failed). -/
def advanceAny (target : Nat) (v : VState) : Option VState := advanceServe v.fail target 12 v

def exitIdle (s : Sys) : Sys :=
  (List.range s.workers.length).foldl (fun s i => (step s (.workerExit i)).getD s) s

/-- Make request `m` the one a worker receives now. -/
def takeMsg (m : Msg) : Nat → VState → Option VState
  | fuel, v =>
    match v.s.workC with
    | x :: _ =>
      if x = m then do
        let i ← idleWorker v.s.workers
        stepV v (.workerTake i)
      else match fuel with
        | 0 => none
        | fuel + 1 => (hypoTake v).bind (takeMsg m fuel)      -- an earlier frame was received, its `D` is late
    | [] =>
      if v.s.cb = .sending m then
        match stepV v .handlerEnqueue, fuel with
        | some v', fuel + 1 => takeMsg m fuel v'
        | some _, 0 => none
        | none, _ => do                                       -- q = 0: direct hand-off
          let i ← idleWorker v.s.workers
          stepV v (.workerTake i)
      else none

inductive Ev where
  | e (m : Msg) | d (m : Msg) | p (m : Msg) | x (m : Msg) | sc | sr | sre | vr | fc

def parseEv (t : String) : Option Ev :=
  match t.toList with
  | ['S', 'C'] => some .sc
  | ['S', 'R'] => some .sr
  | ['S', 'R', 'E'] => some .sre
  | ['V', 'R'] => some .vr
  | ['F', 'C'] => some .fc
  | 'X' :: r => (String.ofList r).toNat?.map .x
  | 'E' :: r => (String.ofList r).toNat?.map .e
  | 'D' :: r => (String.ofList r).toNat?.map .d
  | 'P' :: r => (String.ofList r).toNat?.map .p
  | _ => none

def dropMsg (m : Msg) (v : VState) : Option VState := do
  let s ← if m ∈ v.s.arrived then some v.s else step v.s (.arrive m)
  let s := deliverAll s.inflight.length s
  let s ← step s .cbStart
  if m ∈ s.dropped then some { v with s := s } else none

def applyEv (v : VState) : Ev → Option VState
  | .e m => do
    let v ← finishCb (v.s.workers.length + 2) v
    let s ← if m ∈ v.s.arrived then some v.s else step v.s (.arrive m)
    let s := deliverAll s.inflight.length s
    let s ← step s .cbStart
    if s.cb = .sending m then some { v with s := s } else none
  | .d m =>
    if m ∈ v.unconf then some { v with unconf := v.unconf.erase m }
    else takeMsg m (v.s.workers.length + 2) v
  | .p m => do
    if m ∈ v.unconf then none
    let i ← busyWorker v.s.workers m
    -- the handler returned, the reply was written under the write mutex and published
    let v ← stepV v (.workerHandlerDone i)
    let v ← stepV v (.workerLock i)
    let v ← stepV v (.workerWriteOk i)
    let v ← stepV v (.workerUnlock i)
    stepV v (.workerReply i)
  | .x m => (advanceAny 6 v).bind (dropMsg m)     -- the queue is closed; the request is turned away
  | .sc => stepV v .stopCall
  | .fc => stepV v .fault
  | .sr => do
    let v ← advanceServe false 5 12 v
    stepV v .stopReturn
  | .sre => do
    let v ← if servePcRank v.s.serve ≥ 5 then some v else advanceServe true 5 12 v
    stepV v .stopReturn
  | .vr => do
    let v ← advanceAny 6 v
    stepV { v with s := exitIdle v.s } .serveReturn

def showEnd (s : Sys) : String :=
  let sv := if s.serve = .returned then "returned" else "hung"
  let st := if s.stop = .returned then "returned" else "hung"
  s!"serve:{sv},stop:{st},arrived:{s.handed.length},processed:{s.processed.length},replied:{s.replied.length},dropped:{s.dropped.length}"

def validate (v : VState) (k : Nat) : List String → String
  | [] =>
    if v.unconf ≠ [] then s!"rejected at {k}:end-unconfirmed-receive"
    else if v.s.panicked then s!"rejected at {k}:end-panicked"
    else "ok end=" ++ showEnd v.s
  | t :: ts =>
    match (parseEv t).bind (applyEv v) with
    | some v' => if v'.s.panicked then s!"rejected at {k}:{t}" else validate v' (k + 1) ts
    | none => s!"rejected at {k}:{t}"

/-! The model's own fair execution of a configuration. -/

def systemActions (w : Nat) : List Action :=
  [.serveGotQuit, .drainStart, .deliver, .flushBarrier, .cbStart, .handlerEnqueue, .callbackDone, .barrierFires,
   .sendResult, .stopReturn, .closeWorkC, .serveReturn] ++
  (List.range w).flatMap fun i => [Action.workerReply i, .workerUnlock i, .workerWriteOk i, .workerErrReply i,
    .workerLock i, .workerHandlerDone i, .workerTake i, .workerExit i]

def firstEnabled (s : Sys) : List Action → Option Sys
  | [] => none
  | a :: as => match step s a with
    | some s' => some s'
    | none => firstEnabled s as

/-- Alternate one system action with one offered arrival until nothing moves. -/
def fairRun (w : Nat) : Nat → Sys → List Msg → Sys
  | 0, s, _ => s
  | fuel + 1, s, offered =>
    let (s1, offered, moved1) := match offered with
      | m :: rest => match step s (.arrive m) with
        | some s' => (s', rest, true)
        | none => (s, rest, false)
      | [] => (s, [], false)
    match firstEnabled s1 (systemActions w) with
    | some s2 => fairRun w fuel s2 offered
    | none => if moved1 || !offered.isEmpty then fairRun w fuel s1 offered else s1

def predictRun (w q stopPos n : Nat) : String :=
  let s0 := init w q
  let pre := (List.range (min stopPos n))
  let s1 := pre.foldl (fun s m => (step s (.arrive m)).getD s) s0
  let s2 := (step s1 .stopCall).getD s1
  let s := fairRun w (40 * (n + 10) + 100) s2 ((List.range n).drop (min stopPos n))
  let once := s.arrived.all fun m => s.processed.count m == 1 && s.replied.count m == 1
  let sv := if s.serve = .returned then "returned" else "hung"
  let st := if s.stop = .returned then "returned" else "hung"
  if once && !s.panicked && s.processed.length == s.arrived.length then s!"ok serve:{sv},stop:{st}"
  else s!"violated serve:{sv},stop:{st}"

/-- `<n>` or `<n><kind>` with kind one of x e u a o (what the handler does; irrelevant to the model). -/
def durTok (t : String) : Option Nat :=
  match t.toList.reverse with
  | c :: r => if c ∈ ['x', 'e', 'u', 'a', 'o'] then (String.ofList r.reverse).toNat? else t.toNat?
  | [] => none

def faultOk (f : String) : Bool :=
  match f.toList with
  | ['-'] => true
  | [k, d] => (k ∈ ['c', 'b', 's']) && ('0' ≤ d && d ≤ '6')
  | _ => false

/-- Builder options: the high watermark in ms or `d` (default), then `g` (queue group) and/or `h` (event
handlers). None of them exists in the model: no option changes the shutdown protocol. -/
def optsOk (o : String) : Bool :=
  let cs := o.toList
  let (base, flags) :=
    if cs.reverse.take 2 == ['h', 'g'] then (cs.dropLast.dropLast, "gh")
    else match cs.reverse with
      | 'g' :: _ => (cs.dropLast, "g")
      | 'h' :: _ => (cs.dropLast, "h")
      | _ => (cs, "")
  let _ := flags
  base == ['d'] ||
    (match (String.ofList base).toNat? with
     | some n => n ≤ 600000 && (base.length == 1 || base.head? != some '0') && base.all Char.isDigit
     | none => false)

def stepNsrun (args : List String) : String :=
  match args with
  | [w, q, sp, gap, delay, jit, pub2, fault, opts, durs] =>
    match w.toNat?, q.toNat?, sp.toNat?, gap.toNat?, delay.toNat?, jit.toNat?, pub2.toNat? with
    | some w, some q, some sp, some gap, some delay, some jit, some pub2 =>
      let ds := (durs.splitOn ",").map durTok
      if !faultOk fault || !optsOk opts then "bad-args" else
      if w < 1 ∨ w > 64 ∨ q > 1024 ∨ gap > 100000 ∨ delay > 100000 ∨ jit > 100000 ∨ pub2 > 500 ∨ ds.isEmpty ∨ ds.length > 400
          ∨ ds.any (fun d => match d with | some d => d > 20000 | none => true) then "bad-args"
      else predictRun w q sp ds.length
    | _, _, _, _, _, _, _ => "bad-args"
  | _ => "bad-args"

def stepNatsServer (op : String) (args : List String) : Option String :=
  match op, args with
  | "nstrace", [w, q, tr] =>
    match w.toNat?, q.toNat? with
    | some w, some q =>
      if w < 1 ∨ w > 64 ∨ q > 1024 then some "bad-args" else
      let evs := if tr == "." then [] else tr.splitOn ","
      some (validate { s := init w q, unconf := [], fail := evs.contains "SRE" } 0 evs)
    | _, _ => some "bad-args"
  | "nsrun", args => some (stepNsrun args)
  | "nsrun1", args => some (stepNsrun args)
  | "nstrace", _ => some "bad-args"
  | _, _ => none

end Driver
