/-
Driver ops of the NATS server shutdown model (C20).

`nstrace <w> <q> <k> <events>`  (k subjects; `E<i>/<j>`, `X<i>/<j>` name the subject j of request i)  trace validation: the events observed on the real server
  (`E<i>` callback of request i is about to send to workC, `D<i>` a worker received i,
  `P<i>` processFrame for i finished / reply published, `X<i>` the handler turned i away (queue closed),
  `SC` Stop called, `SR` Stop returned nil, `SRE` Stop returned an error (the drain failed), `VR` Serve
  returned, `FC` a connection fault is injected) must be the observable projection of a run of `FV.NS.step`. The hidden
  actions (arrive, deliver, handlerEnqueue, callbackDone, the steps of Serve, worker exits) are
  filled in lazily, only when the next observed event needs them. `D` is logged by the worker
  AFTER its receive, so a receive may have happened before it shows up in the log: when the
  callback can only have gone on because a worker took a frame, that take is performed and
  remembered in `unconf` until the matching `D` arrives.
  Output `ok end=<observable>` or `rejected at <k>:<event>`.

`nsrun <w> <q> <stopPos> <gap> <delay> <jitter> <pub2> <fault> <opts> <subjects> <durs>` (`nsrun1` = the same, executed in-process by the harness)  the model's prediction for a configuration: a fair
  schedule of the model (first `stopPos` requests arrive, Stop is called, the remaining ones are
  offered while the system runs) is executed to the end.
-/
import Driver.Util
import FV.Model.NatsServer

namespace Driver
open FV.NS

structure VState where
  s : Sys
  unconf : List Msg      -- receives performed on the model whose `D` event has not been seen yet
  fail : Bool := false   -- the log says (somewhere) that Stop returned an error: the drain step failed
  subjOf : List (Msg × Nat) := []   -- the subscription each request came in on (from its `E` event)

def idleWorker (ws : List Wk) : Option Nat := ws.findIdx? (· == .idle)
def busyWorker (ws : List Wk) (m : Msg) : Option Nat := ws.findIdx? (· == .busy m)

def stepV (v : VState) (a : Action) : Option VState := (step v.s a).map fun s => { v with s := s }

def subCb (s : Sys) (j : Nat) : Cb := match s.subs[j]? with | some sb => sb.cb | none => .idle

/-- A worker that is idle in the model receives now (its `D` event will follow): the oldest frame in the
buffer of workC, or, with an empty buffer, directly from subscription `j`'s blocked sender. -/
def hypoTake (j : Nat) (v : VState) : Option VState := do
  let i ← idleWorker v.s.workers
  match v.s.workC, subCb v.s j with
  | x :: _, _ => do
    let s' ← step v.s (.workerTake i)
    pure { v with s := s', unconf := v.unconf ++ [x] }
  | [], .sending m => do
    let s' ← step v.s (.workerHandoff i j)
    pure { v with s := s', unconf := v.unconf ++ [m] }
  | _, _ => none

/-- Let the current callback of subscription `j` (if any) complete. -/
def finishCb : Nat → Nat → VState → Option VState
  | fuel, j, v =>
    match subCb v.s j with
    | .idle => some v
    | .sent _ => stepV v (.callbackDone j)
    | .sending _ =>
      match stepV v (.handlerEnqueue j) with
      | some v' => stepV v' (.callbackDone j)
      | none =>
        match fuel with
        | 0 => none
        | fuel + 1 => (hypoTake j v).bind (finishCb fuel j)

/-- Let the current callbacks of all subscriptions complete. -/
def finishAll (v : VState) : Option VState :=
  (List.range v.s.subs.length).foldlM (fun v j => finishCb (v.s.workers.length + 2) j v) v

def deliverAll (j : Nat) : Nat → Sys → Sys
  | 0, s => s
  | fuel + 1, s => match step s (.deliver j) with
    | some s' => deliverAll j fuel s'
    | none => s

def inflightLen (s : Sys) (j : Nat) : Nat := match s.subs[j]? with | some sb => sb.inflight.length | none => 0

def deliverEvery (s : Sys) : Sys :=
  (List.range s.subs.length).foldl (fun s j => deliverAll j (inflightLen s j) s) s

def servePcRank : ServePc → Nat
  | .running => 0 | .gotQuit => 1 | .unsubbed => 2 | .barrierWait => 3
  | .barrierDone => 4 | .resultSent => 5 | .closedQ => 6 | .returned => 7

/-- Advance `Serve` (hidden steps) until its program counter has rank ≥ `target` (≤ 6). With `fail` the
drain step ends with an error (possible after a fault only), otherwise it runs to the barrier. -/
def advanceServe (fail : Bool) (target : Nat) : Nat → VState → Option VState
  | 0, v => if servePcRank v.s.serve ≥ target then some v else none
  | fuel + 1, v =>
    if servePcRank v.s.serve ≥ target then some v else
    match v.s.serve with
    | .running => (stepV v .serveGotQuit).bind (advanceServe fail target fuel)
    | .gotQuit =>
      -- after a fault the broker may not act on the UNSUB any more (requests may still come)
      (stepV v (if fail then .drainFail else if v.s.faulty then .drainStartIgnored else .drainStart)).bind (advanceServe fail target fuel)
    | .unsubbed =>
      if fail then (stepV v .drainFail).bind (advanceServe fail target fuel)
      else (stepV { v with s := deliverEvery v.s } .flushBarrier).bind (advanceServe fail target fuel)
    | .barrierWait =>
      if fail then (stepV v .drainFail).bind (advanceServe fail target fuel)
      else ((finishAll v).bind (stepV · .barrierFires)).bind (advanceServe fail target fuel)
    | .barrierDone => (stepV v .sendResult).bind (advanceServe fail target fuel)
    | .resultSent => ((finishAll v).bind (stepV · .closeWorkC)).bind (advanceServe fail target fuel)
    | .closedQ => none
    | .returned => none

/-- Hidden steps of Serve, the way the log says the drain ended (`SRE` anywhere in it: it failed). -/
def advanceAny (target : Nat) (v : VState) : Option VState := advanceServe v.fail target 12 v

def exitIdle (s : Sys) : Sys :=
  (List.range s.workers.length).foldl (fun s i => (step s (.workerExit i)).getD s) s

/-- The subscription whose handler is blocked sending `m`. -/
def senderOf (s : Sys) (m : Msg) : Option Nat := s.subs.findIdx? (fun sb => sb.cb == .sending m)

def subjLookup (v : VState) (m : Msg) : Option Nat := (v.subjOf.find? (·.1 == m)).map (·.2)

/-- `m` is in the buffer of workC and every frame ahead of it came in on another subscription. -/
def crossSubOnly (v : VState) (m : Msg) : Bool :=
  m ∈ v.s.workC &&
    match subjLookup v m with
    | some j => (v.s.workC.takeWhile (· != m)).all fun x => subjLookup v x != some j
    | none => false

/-- A frame `y` in the buffer that came in on another subscription than `j` and whose handler has not
returned yet: its send may as well still be blocked (the model completed it eagerly). -/
def swappable (v : VState) (j : Nat) : Option (Msg × Nat) :=
  v.s.workC.findSome? fun y =>
    match subjLookup v y with
    | some jy => if jy != j && subCb v.s jy == .sent y then some (y, jy) else none
    | none => none

/-- Undo the eager send of `y` (subscription `jy`): its handler is blocked again. -/
def unsend (v : VState) (y : Msg) (jy : Nat) : VState :=
  match v.s.subs[jy]? with
  | some sb => { v with s := { v.s with workC := v.s.workC.erase y, subs := v.s.subs.set jy { sb with cb := .sending y } } }
  | none => v

/-- The frames ahead of `m` in the buffer that came in on the same subscription as `m`. -/
def sameSubAhead (v : VState) (m : Msg) : List Msg :=
  match subjLookup v m with
  | some j => (v.s.workC.takeWhile (· != m)).filter fun x => subjLookup v x == some j
  | none => v.s.workC.takeWhile (· != m)

def toFront (v : VState) (y : Msg) : VState := { v with s := { v.s with workC := y :: v.s.workC.erase y } }

/-- Make request `m` the one a worker receives now. The sends of concurrent handlers are hidden and may
have happened in any order between their `E` and the receive: frames of OTHER subscriptions may be
overtaken; the order within one subscription is kept (an earlier frame of the same subscription that is
still in the buffer was received before, its `D` is late). -/
def takeMsg (m : Msg) : Nat → VState → Option VState
  | fuel, v =>
    if m ∈ v.s.workC then
      match sameSubAhead v m, fuel with
      | [], _ => let v' := toFront v m; (idleWorker v'.s.workers).bind fun i => stepV v' (.workerTake i)
      | y :: _, fuel + 1 => do
        let v' := toFront v y
        let i ← idleWorker v'.s.workers
        let s' ← step v'.s (.workerTake i)
        takeMsg m fuel { v' with s := s', unconf := v'.unconf ++ [y] }
      | _ :: _, 0 => none
    else do
      let j ← senderOf v.s m
      match stepV v (.handlerEnqueue j), fuel with
      | some v', fuel + 1 => takeMsg m fuel v'
      | some _, 0 => none
      | none, fuel =>
        if v.s.workC.all (fun x => subjLookup v x != some j) then do
          -- the buffer is empty (q = 0) or holds frames of OTHER subscriptions only: direct hand-off to the
          -- parked worker (before those frames were sent, if any: the `D` of `m` is logged late)
          let i ← idleWorker v.s.workers
          let s1 ← step { v.s with workC := [] } (.workerHandoff i j)
          pure { v with s := { s1 with workC := v.s.workC } }
        else match fuel with
          | fuel + 1 => (hypoTake j v).bind (takeMsg m fuel)
          | 0 => none

inductive Ev where
  | e (m : Msg) (j : Nat) | d (m : Msg) | p (m : Msg) | x (m : Msg) (j : Nat) | sc | sr | sre | vr | fc

def parseEv (t : String) : Option Ev :=
  match t.toList with
  | ['S', 'C'] => some .sc
  | ['S', 'R'] => some .sr
  | ['S', 'R', 'E'] => some .sre
  | ['V', 'R'] => some .vr
  | ['F', 'C'] => some .fc
  | 'X' :: r => match (String.ofList r).splitOn "/" with
    | [m, j] => do pure (.x (← m.toNat?) (← j.toNat?))
    | _ => none
  | 'E' :: r => match (String.ofList r).splitOn "/" with
    | [m, j] => do pure (.e (← m.toNat?) (← j.toNat?))
    | _ => none
  | 'D' :: r => (String.ofList r).toNat?.map .d
  | 'P' :: r => (String.ofList r).toNat?.map .p
  | _ => none

def dropMsg (m : Msg) (j : Nat) (v : VState) : Option VState := do
  let s ← if m ∈ v.s.arrived then some v.s else step v.s (.arrive j m)
  let s := deliverAll j (inflightLen s j) s
  let s ← step s (.cbStart j)
  if m ∈ s.dropped then some { v with s := s } else none

def applyEv (v : VState) : Ev → Option VState
  | .e m j => do
    let v ← finishCb (v.s.workers.length + 2) j v
    -- After a fault the broker may go on delivering although the drain "succeeded" (`drainStartIgnored`):
    -- a request may then enter a callback AFTER the barrier fired. The barrier is therefore fired as early
    -- as it can be once a fault is known (later arrivals stay possible: the subscription is still active).
    let v := if v.s.faulty && !v.fail && v.s.stop != .notCalled && servePcRank v.s.serve < 4
      then (advanceServe false 4 12 v).getD v else v
    let s ← if m ∈ v.s.arrived then some v.s else step v.s (.arrive j m)
    let s := deliverAll j (inflightLen s j) s
    let s ← step s (.cbStart j)
    if subCb s j = .sending m then
      -- the send follows the log at once: it completes now if the buffer has room (the model's buffer holds
      -- at least what the real one holds), otherwise the handler stays blocked and the send is filled in later
      let s := (step s (.handlerEnqueue j)).getD s
      some { v with s := s, subjOf := (m, j) :: v.subjOf }
    else none
  | .d m =>
    if m ∈ v.unconf then some { v with unconf := v.unconf.erase m }
    else takeMsg m (v.s.workers.length + 2) v
  | .p m => do
    if m ∈ v.unconf then none
    let i ← busyWorker v.s.workers m
    -- the handler returned, the reply was written under the write mutex and published
    let v ← stepV v (.workerHandlerDone i)
    let v ← stepV v (.workerLock i)
    let v ← stepV v (.workerWriteOk i)
    let v ← stepV v (.workerUnlock i)
    stepV v (.workerReply i)
  | .x m j => (advanceAny 6 v).bind (dropMsg m j)     -- the queue is closed; the request is turned away
  | .sc => stepV v .stopCall
  | .fc => stepV v .fault
  | .sr => do
    let v ← advanceServe false 5 12 v
    stepV v .stopReturn
  | .sre => do
    let v ← if servePcRank v.s.serve ≥ 5 then some v else advanceServe true 5 12 v
    stepV v .stopReturn
  | .vr => do
    let v ← advanceAny 6 v
    stepV { v with s := exitIdle v.s } .serveReturn

def showEnd (s : Sys) : String :=
  let sv := if s.serve = .returned then "returned" else "hung"
  let st := if s.stop = .returned then "returned" else "hung"
  s!"serve:{sv},stop:{st},arrived:{s.handed.length},processed:{s.processed.length},replied:{s.replied.length},dropped:{s.dropped.length}"

def validate (v : VState) (k : Nat) : List String → String
  | [] =>
    if v.unconf ≠ [] then s!"rejected at {k}:end-unconfirmed-receive"
    else if v.s.panicked then s!"rejected at {k}:end-panicked"
    else "ok end=" ++ showEnd v.s
  | t :: ts =>
    match (parseEv t).bind (applyEv v) with
    | some v' => if v'.s.panicked then s!"rejected at {k}:{t}" else validate v' (k + 1) ts
    | none => s!"rejected at {k}:{t}"

/-! The model's own fair execution of a configuration. -/

def systemActions (w k : Nat) : List Action :=
  [.serveGotQuit, .drainStart] ++
  ((List.range k).flatMap fun j => [Action.deliver j, .cbStart j, .handlerEnqueue j, .callbackDone j]) ++
  [.flushBarrier, .barrierFires, .sendResult, .stopReturn, .closeWorkC, .serveReturn] ++
  (List.range w).flatMap fun i => [Action.workerReply i, .workerUnlock i, .workerWriteOk i, .workerErrReply i,
    .workerLock i, .workerHandlerDone i, .workerTake i, .workerExit i] ++ (List.range k).map (Action.workerHandoff i)

def firstEnabled (s : Sys) : List Action → Option Sys
  | [] => none
  | a :: as => match step s a with
    | some s' => some s'
    | none => firstEnabled s as

/-- Alternate one system action with one offered arrival until nothing moves. -/
def fairRun (w k : Nat) (subj : Nat → Nat) : Nat → Sys → List Msg → Sys
  | 0, s, _ => s
  | fuel + 1, s, offered =>
    let (s1, offered, moved1) := match offered with
      | m :: rest => match step s (.arrive (subj m) m) with
        | some s' => (s', rest, true)
        | none => (s, rest, false)
      | [] => (s, [], false)
    match firstEnabled s1 (systemActions w k) with
    | some s2 => fairRun w k subj fuel s2 offered
    | none => if moved1 || !offered.isEmpty then fairRun w k subj fuel s1 offered else s1

/-- The subject of request `i` in a configuration with `k` subjects and spread `p` (as the harness does it). -/
def subjectOf (k : Nat) (p : Char) (i : Nat) : Nat :=
  if k ≤ 1 then 0 else
  match p with
  | 'f' => 0
  | 'l' => k - 1
  | 'u' => if i % 4 = 3 then k - 1 else 0
  | _ => i % k

def predictRun (w q stopPos n k : Nat) (p : Char) : String :=
  let s0 := init w q k
  let subj := subjectOf k p
  let pre := (List.range (min stopPos n))
  let s1 := pre.foldl (fun s m => (step s (.arrive (subj m) m)).getD s) s0
  let s2 := (step s1 .stopCall).getD s1
  let s := fairRun w k subj (60 * (n + 10) + 100) s2 ((List.range n).drop (min stopPos n))
  let once := s.arrived.all fun m => s.processed.count m == 1 && s.replied.count m == 1
  let sv := if s.serve = .returned then "returned" else "hung"
  let st := if s.stop = .returned then "returned" else "hung"
  if once && !s.panicked && s.processed.length == s.arrived.length then s!"ok serve:{sv},stop:{st}"
  else s!"violated serve:{sv},stop:{st}"

/-- `<n>` or `<n><kind>` with kind one of x e u a o (what the handler does; irrelevant to the model). -/
def durTok (t : String) : Option Nat :=
  match t.toList.reverse with
  | c :: r => if c ∈ ['x', 'e', 'u', 'a', 'o'] then (String.ofList r.reverse).toNat? else t.toNat?
  | [] => none

def faultOk (f : String) : Bool :=
  match f.toList with
  | ['-'] => true
  | [k, d] => (k ∈ ['c', 'b', 's']) && ('0' ≤ d && d ≤ '6')
  | _ => false

/-- Builder options: the high watermark in ms or `d` (default), then `g` (queue group) and/or `h` (event
handlers). None of them exists in the model: no option changes the shutdown protocol. -/
def optsOk (o : String) : Bool :=
  let cs := o.toList
  let (base, flags) :=
    if cs.reverse.take 2 == ['h', 'g'] then (cs.dropLast.dropLast, "gh")
    else match cs.reverse with
      | 'g' :: _ => (cs.dropLast, "g")
      | 'h' :: _ => (cs.dropLast, "h")
      | _ => (cs, "")
  let _ := flags
  base == ['d'] ||
    (match (String.ofList base).toNat? with
     | some n => n ≤ 600000 && (base.length == 1 || base.head? != some '0') && base.all Char.isDigit
     | none => false)

def stepNsrun (args : List String) : String :=
  match args with
  | [w, q, sp, gap, delay, jit, pub2, fault, opts, subj, durs] =>
    match w.toNat?, q.toNat?, sp.toNat?, gap.toNat?, delay.toNat?, jit.toNat?, pub2.toNat? with
    | some w, some q, some sp, some gap, some delay, some jit, some pub2 =>
      let ds := (durs.splitOn ",").map durTok
      if !faultOk fault || !optsOk opts then "bad-args" else
      match subj.toList with
      | [kc, p] =>
      if !('1' ≤ kc && kc ≤ '4' && p ∈ ['s', 'f', 'l', 'u']) then "bad-args" else
      let k := kc.toNat - 48
      if w < 1 ∨ w > 64 ∨ q > 1024 ∨ gap > 100000 ∨ delay > 100000 ∨ jit > 100000 ∨ pub2 > 500 ∨ ds.isEmpty ∨ ds.length > 400
          ∨ ds.any (fun d => match d with | some d => d > 20000 | none => true) then "bad-args"
      else predictRun w q sp ds.length k p
      | _ => "bad-args"
    | _, _, _, _, _, _, _ => "bad-args"
  | _ => "bad-args"

def stepNatsServer (op : String) (args : List String) : Option String :=
  match op, args with
  | "nstrace", [w, q, k, tr] =>
    match w.toNat?, q.toNat?, k.toNat? with
    | some w, some q, some k =>
      if w < 1 ∨ w > 64 ∨ q > 1024 ∨ k < 1 ∨ k > 4 then some "bad-args" else
      let evs := if tr == "." then [] else tr.splitOn ","
      -- With several subjects the handlers send concurrently and the logs lag on both sides of the sends
      -- (`E` before, `D` after): which of two concurrent sends got the last free slot is not observable.
      -- Those traces are validated against the model with an unbounded queue (the theorems hold for every
      -- q): everything is checked but the capacity bound; one-subject traces (half of the runs) check it.
      let q' := if k > 1 then 100000 else q
      some (validate { s := init w q' k, unconf := [], fail := evs.contains "SRE" } 0 evs)
    | _, _, _ => some "bad-args"
  | "nsrun", args => some (stepNsrun args)
  | "nsrun1", args => some (stepNsrun args)
  | "nstrace", _ => some "bad-args"
  | _, _ => none

end Driver
