import Driver.Util
import FV.Model.Headers
import FV.Model.Processor
import FV.Model.Server

/-
Driver ops of C14.

  prc - <proto> <mode> <req>,<req>,…   a request sequence through `processAll stdProcMap`
                                       (`processConn` for the one-connection modes shared / simple)
      req = <header block hex>/<env 1|0|n>/<method hex>/<msg type>/<seqid>/<args>/<outcome>
      args = ok<k> | req | bad<k>        outcome = s:<hex> | d:<field> | a:<type> | o
      optionally /<output condition> (see parseOut)
      (protocol and mode — shared / simple = one connection, sep / http = one transport pair per
      request, conc = concurrent — do not enter the model's answer; the mode only selects how
      much of the per-request result the harness can observe)
  srv - <proto> <gomaxprocs> <timing> <split> <conn>;<conn>;…   connections of the real simple server
  eph - <proto> <simple|http> <seq|conc> <conn>;<conn>;…   handlers using ephemeral properties
  frm <maxLen> <chunk hex>,<chunk hex>,…   the framed reader fed a chunked byte stream
  cw <k> <g>:<len>,<g>:<len>,…         a recorded trace of Write calls on the shared output
      of k concurrent goroutines, replayed through `step` (lock before a goroutine's first
      chunk, unlock after its last)
-/
namespace Driver
open FV FV.Proc
namespace Proc

/-- The process map of the harness's hand-written service:
`string ping(1: required string s) throws (1: Err e)`, `void nop()`, `binary blob()`, `oneway void fire(1: required string s)`. -/
def stdProcMap : ProcMap :=
  ProcMap.add (ProcMap.add (ProcMap.add (ProcMap.add [] "ping".toUTF8.toList ⟨false, [1]⟩) "nop".toUTF8.toList ⟨false, []⟩)
    "blob".toUTF8.toList ⟨false, []⟩) "fire".toUTF8.toList ⟨true, []⟩

def parseArgs (s : String) : Option Args :=
  if s.startsWith "ok" then some ⟨true, true⟩
  else if s == "req" then some ⟨false, true⟩
  else if s.startsWith "bad" then some ⟨false, false⟩
  else none

def parseOutcome (s : String) : Option HOutcome :=
  match s.splitOn ":" with
  | ["s", v] => (unhex v).map HOutcome.success
  | ["d", f] => f.toNat?.map HOutcome.declared
  | ["a", t] => t.toInt?.map HOutcome.appEx
  | ["o"] => some .other
  | _ => none

/-- 8th field of a request token: how its output protocol behaves.
`L<limit>:<fit 1|0>` bounded buffer (the limit is for the harness; `fit` = the REPLY / unknown-method
message fits), `W<k>` the k-th Write fails, `FL` the Flush fails; absent or `-` = healthy. -/
def parseOut (s : String) : Option OutCond :=
  if s == "-" then some .healthy
  else if s.startsWith "W" || s == "FL" then some .fails
  else if s.startsWith "L" then
    match s.splitOn ":" with
    | [_, "1"] => some .healthy
    | [_, "0"] => some .tooSmall
    | _ => none
  else none

def parseReqCore (fields : List String) (out : OutCond) : Option (Request × HOutcome) :=
  match fields with
  | [hb, env, m, mt, sq, a, o] => do
    let hb ← unhex hb
    let m ← unhex m
    let mt ← mt.toNat?
    let sq ← sq.toInt?
    let a ← parseArgs a
    let o ← parseOutcome o
    let hdr : Res Hdrs := match unmarshalStream hb with
      | .ok (h, _) => .ok h
      | .err e => .err e
      | .panic p => .panic p
    pure (⟨hdr, env == "1", m, mt, sq, a, out⟩, o)
  | _ => none

def parsePanic (s : String) : Option PanicPos :=
  if s == "Ph" then some .handler else if s == "Pb" then some .mwBefore else if s == "Pa" then some .mwAfter
  else if s == "Pr" then some .argsRead
  else if s.startsWith "Pw" then (s.drop 2).toNat?.map PanicPos.resultWrite
  else none

/-- A request token of the modes in which user code may panic: output condition `P…` = where. -/
def parseMuReq (s : String) : Option MuReq :=
  match s.splitOn "/" with
  | [hb, env, m, mt, sq, a, o, oc] =>
    if oc.startsWith "P" then do
      let p ← parsePanic oc
      let (rq, ho) ← parseReqCore [hb, env, m, mt, sq, a, o] .healthy
      pure ⟨rq, ho, some p⟩
    else none
  | _ => none

def parseReq (s : String) : Option (Request × HOutcome) := do
  let (fields, out) ← match s.splitOn "/" with
    | [hb, env, m, mt, sq, a, o] => some ([hb, env, m, mt, sq, a, o], OutCond.healthy)
    | [hb, env, m, mt, sq, a, o, oc] => (parseOut oc).map fun c => ([hb, env, m, mt, sq, a, o], c)
    | _ => none
  parseReqCore fields out

def parseMuOrReq (t : String) : Option MuReq :=
  match parseMuReq t with
  | some m => some m
  | none => (parseReq t).map fun x => (⟨x.1, x.2, none⟩ : MuReq)

def showPayload : PayloadTag → String
  | .success v => "s:" ++ hexOf v
  | .declared f => s!"d:{f}"
  | .appEx => "x"

def showReply (r : ReplyMsg) : String :=
  let k := match r.kind with | .reply => "R" | .exception => "E"
  s!"{k}/{r.exType}/{hexOf r.method}/{r.seqid}/{showPayload r.payload}/{pairsOf r.hdrs}"

/-- Per-request results as the mode lets the harness observe them: the error class where
`Process` is called directly; ok/err from the HTTP status; for a whole connection of the
simple server the return value of its loop (nil at a clean end of input, else the first error). -/
def showResults (mode : String) (clean : Bool) (rs : List (Res Unit)) : String :=
  if mode == "sock" then "conn"   -- a socket client does not see the return value of the server's loop
  else if mode == "simple" then (if clean || rs.all (·.isOk) then "ok" else "err")
  else if mode == "http" then ",".intercalate (rs.map fun r => if r.isOk then "ok" else "err")
  else ",".intercalate (rs.map fun r => showRes (fun _ => "ok") r)

def showProcessed (mode : String) (clean : Bool) (rs : List (List ReplyMsg × Res Unit)) : String :=
  let outs := (rs.map fun r => r.1).flatten
  let o := if outs.isEmpty then "." else "|".intercalate (outs.map showReply)
  s!"res={showResults mode clean (rs.map (·.2))} out={o}"

/-- Group a write trace into maximal runs of one goroutine. -/
def groupTrace : List (Nat × Nat) → List (Nat × List Nat)
  | [] => []
  | (g, l) :: t =>
    match groupTrace t with
    | (g', ls) :: rest => if g = g' then (g, l :: ls) :: rest else (g, [l]) :: (g', ls) :: rest
    | [] => [(g, [l])]

def parseTrace (s : String) : Option (List (Nat × Nat)) :=
  if s == "." then some [] else
  (s.splitOn ",").mapM fun e =>
    match e.splitOn ":" with
    | [g, l] => do pure (← g.toNat?, ← l.toNat?)
    | _ => none

def natList (l : List Nat) : String :=
  if l.isEmpty then "." else ",".intercalate (l.map toString)

end Proc
open Proc

def stepProcessor (op : String) (args : List String) : Option String :=
  match op, args with
  | "prc", [_, _proto, mode, reqs] => do
    if mode == "fault" || mode == "hsrv" then
      -- ONE processor, one request after the other, user code may panic: through the mutex model
      let ms ← if reqs == "." then some [] else (reqs.splitOn ",").mapM parseMuOrReq
      let ends := serveAll .deferred stdProcMap false ms
      let resOf : MuEnd → String
        | .returned r => if mode == "hsrv" then (if r.2.isOk then "ok" else "err") else showRes (fun _ => "ok") r.2
        | .panicked => "panic"
        | .blocked => "blocked"
      let outs := (ends.map fun e => match e with | .returned r => r.1 | _ => []).flatten
      let o := if outs.isEmpty then "." else "|".intercalate (outs.map showReply)
      return s!"res={",".intercalate (ends.map resOf)} out={o}"
    let rs ← if reqs == "." then some [] else (reqs.splitOn ",").mapM parseReq
    let conn := mode == "shared" || mode == "simple"
    let clean := rs.all fun r => (process stdProcMap r.1 r.2).2.isOk && positionKept stdProcMap r.1
    pure (showProcessed mode clean (if conn then processConn stdProcMap rs else processAll stdProcMap rs))
  | "srv", [_, _proto, _gmp, _timing, _split, conns] => do
    -- the real FSimpleServer on a loopback listener: connections separated by `;`, each a pipelined
    -- request sequence; neither GOMAXPROCS, nor when the connections were opened relative to Serve(),
    -- nor how the client cut its writes enters the answer
    let cs ← (conns.splitOn ";").mapM fun c => if c == "." then some [] else (c.splitOn ",").mapM parseReq
    let st := srvRun stdProcMap (cs.map ConnSt.init)
      ((List.range cs.length).flatMap fun i => List.replicate ((cs[i]?.map List.length).getD 0) i)
    pure (" ; ".intercalate (st.map fun c => showProcessed "sock" true c.out))
  | "eph", [_, _proto, server, _mode, conns] => do
    -- handlers that use the FContext's ephemeral properties: req = <op id hex>/<key hex>/<value hex>.
    -- server = simple: one map per connection (shared by its requests); http: one map per request
    let parse (t : String) : Option (Bytes × EphScript) :=
      match t.splitOn "/" with
      | [o, k, v] => do pure (← unhex o, ⟨← unhex k, ← unhex v⟩)
      | _ => none
    let cs ← (conns.splitOn ";").mapM fun c => if c == "." then some [] else (c.splitOn ",").mapM parse
    let showO (o : Option Bytes) : String := match o with | some b => hexOf b | none => "none"
    let showReq (x : Bytes × EphScript) (ob : EphObs) : String :=
      s!"{hexOf x.1}:entry={showO ob.entry},back={showO ob.back},n={ob.count},own={hexOf x.2.val}"
    let showConn (c : List (Bytes × EphScript)) : String :=
      let obs := if server == "http" then c.map (fun x => (ephRequest [] x.2).1) else (ephProtocol [] (c.map (·.2))).1
      if c.isEmpty then "." else "|".intercalate ((c.zip obs).map fun (x, ob) => showReq x ob)
    pure (" ; ".intercalate (cs.map showConn))
  | "frm", [maxLen, chunks] => do
    let maxLen ← maxLen.toNat?
    let cs ← if chunks == "." then some [] else (chunks.splitOn ",").mapM unhex
    let (fs, tail) := Chunked.feedAll maxLen (.pending []) cs
    let showF (f : Bytes) : String := s!"{f.length}.{(f.foldl (fun a b => (a + b.toNat) % 65536) 0)}"
    let t := match tail with | .pending b => s!"pending:{b.length}" | .bad => "bad"
    pure s!"frames={if fs.isEmpty then "." else ",".intercalate (fs.map showF)} tail={t}"
  | "cw", [k, tr] => do
    let k ← k.toNat?
    let tr ← parseTrace tr
    let groups := groupTrace tr
    -- goroutine g's reply = its chunks in the trace, in order (all its groups)
    let chunksOf (g : Nat) : List Bytes :=
      (tr.filter (·.1 = g)).map fun e => List.replicate e.2 (UInt8.ofNat g)
    let acts : List Action := groups.flatMap fun (g, ls) =>
      [Action.lock g] ++ ls.map (fun _ => Action.writeChunk g) ++ [Action.unlock g]
    match run (Sys.init k chunksOf) acts with
    | none => pure "rejected"
    | some s => pure s!"ok fin={natList s.fin} lens={natList (s.fin.map fun g => (s.whole g).length)} total={s.out.length}"
  | _, _ => none

end Driver
