import Driver.Util
import Driver.Thrift
import FV.Model.Rpc

namespace Driver
open FV FV.Thrift FV.Rpc

/-- One modelled call rendered as the runner renders a real one; `q = some (wait, timeout)` runs `callQ`. -/
def runRpcLine (ds key ow av oc : String) (q : Option (Nat × Nat)) : Option String := do
    let d ← parseThriftDefs ds
    let a ← parseThriftVal av
    let oneway := ow == "1"
    let h : HOutcome ← match oc.toList with
      | ['v'] => some (.value none)
      | 'v' :: r => (parseThriftVal (String.ofList r)).map fun v => .value (some v)
      | 'x' :: r =>
        match (String.ofList r).splitOn "=" with
        | i :: rest => do
          let id ← i.toInt?
          let e ← parseThriftVal ("=".intercalate rest)
          pure (.declared id e)
        | _ => none
      | ['e'] => some .otherError
      | 'a' :: r => (String.ofList r).toNat?.map .appException
      | _ => none
    let obs := match q with
      | none => call d 64 key oneway a (fun _ => h)
      | some (w, t) => callQ d 64 key oneway a (fun _ => h) w t
    let argsS := match obs.args with
      | some v => dumpV d 64 (.struct (key ++ "_args")) v
      | none => "-"
    let retTy : Ty := match lookupStruct d (key ++ "_result") with
      | some sd => match sd.fields.find? (·.id = 0) with
        | some f => f.ty
        | none => .bool
      | none => .bool
    let excTy (i : Int) : Ty := match lookupStruct d (key ++ "_result") with
      | some sd => match sd.fields.find? (·.id = i) with
        | some f => f.ty
        | none => .bool
      | none => .bool
    let res := match obs.result with
      | .ok v => "ok " ++ dumpV d 64 retTy v
      | .okNil => "ok ~"
      | .void => "void"
      | .exc i e => s!"exc {i} " ++ dumpV d 64 (excTy i) e
      | .app ty => s!"app {ty}"
      | .failed e => "err:" ++ errName e
      | .crashed => "crashed"
      | .timedOut => "err:timeout"
    pure s!"calls={obs.calls} args={argsS} cid=ok result={res}"

/-- `g3 <defs> <methodKey> <oneway> <args value> <outcome>` (see harness/gen/suites/c03.py);
`g3q <defs> <methodKey> <oneway> <args value> <outcome> <wait ms> <timeout ms>`: the same call whose request
waits `wait` at a busy server, issued with that FContext timeout (`FV.Rpc.callQ`). -/
def stepRpc (op : String) (args : List String) : Option String :=
  match op, args with
  | "g3", [ds, key, ow, av, oc] => runRpcLine ds key ow av oc none
  | "g3q", [ds, key, ow, av, oc, w, t] => do
    let w ← w.toNat?
    let t ← t.toNat?
    runRpcLine ds key ow av oc (some (w, t))
  | _, _ => none

end Driver
