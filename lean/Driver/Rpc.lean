import Driver.Util
import Driver.Thrift
import FV.Model.Rpc

namespace Driver
open FV FV.Thrift FV.Rpc

/-- `g3 <defs> <methodKey> <oneway> <args value> <outcome>` (see harness/gen/suites/c03.py). -/
def stepRpc (op : String) (args : List String) : Option String :=
  match op, args with
  | "g3", [ds, key, ow, av, oc] => do
    let d ← parseThriftDefs ds
    let a ← parseThriftVal av
    let oneway := ow == "1"
    let h : HOutcome ← match oc.toList with
      | ['v'] => some (.value none)
      | 'v' :: r => (parseThriftVal (String.ofList r)).map fun v => .value (some v)
      | 'x' :: r =>
        match (String.ofList r).splitOn "=" with
        | i :: rest => do
          let id ← i.toInt?
          let e ← parseThriftVal ("=".intercalate rest)
          pure (.declared id e)
        | _ => none
      | ['e'] => some .otherError
      | 'a' :: r => (String.ofList r).toNat?.map .appException
      | _ => none
    let obs := call d 64 key oneway a (fun _ => h)
    let argsS := match obs.args with
      | some v => dumpV d 64 (.struct (key ++ "_args")) v
      | none => "-"
    let retTy : Ty := match lookupStruct d (key ++ "_result") with
      | some sd => match sd.fields.find? (·.id = 0) with
        | some f => f.ty
        | none => .bool
      | none => .bool
    let excTy (i : Int) : Ty := match lookupStruct d (key ++ "_result") with
      | some sd => match sd.fields.find? (·.id = i) with
        | some f => f.ty
        | none => .bool
      | none => .bool
    let res := match obs.result with
      | .ok v => "ok " ++ dumpV d 64 retTy v
      | .okNil => "ok ~"
      | .void => "void"
      | .exc i e => s!"exc {i} " ++ dumpV d 64 (excTy i) e
      | .app ty => s!"app {ty}"
      | .failed e => "err:" ++ errName e
      | .crashed => "crashed"
    pure s!"calls={obs.calls} args={argsS} cid=ok result={res}"
  | _, _ => none

end Driver
