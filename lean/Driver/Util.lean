/-
Line-protocol helpers for the model driver: hex, header-pair lists, canonical
rendering. Must print byte-for-byte what harness/rt/common.go prints.
-/
import FV.Basic
import FV.Model.Headers

namespace Driver
open FV

def hexDigit (n : Nat) : Char :=
  if n < 10 then Char.ofNat (48 + n) else Char.ofNat (87 + n)

def hexOf (b : Bytes) : String :=
  if b.isEmpty then "-" else
  String.ofList (b.foldr (fun x acc => hexDigit (x.toNat / 16) :: hexDigit (x.toNat % 16) :: acc) [])

def hexRaw (b : Bytes) : String :=
  String.ofList (b.foldr (fun x acc => hexDigit (x.toNat / 16) :: hexDigit (x.toNat % 16) :: acc) [])

def hexVal (c : Char) : Option Nat :=
  if '0' ≤ c ∧ c ≤ '9' then some (c.toNat - 48)
  else if 'a' ≤ c ∧ c ≤ 'f' then some (c.toNat - 87)
  else if 'A' ≤ c ∧ c ≤ 'F' then some (c.toNat - 55)
  else none

def unhexChars : List Char → Option Bytes
  | [] => some []
  | a :: b :: t => do
    let x ← hexVal a
    let y ← hexVal b
    let r ← unhexChars t
    pure (UInt8.ofNat (x * 16 + y) :: r)
  | _ => none

def unhex (s : String) : Option Bytes :=
  if s == "-" || s == "" then some [] else unhexChars s.toList

def parsePairs (s : String) : Option Hdrs :=
  if s == "-" || s == "" then some [] else
  (s.splitOn ";").mapM fun p =>
    match p.splitOn ":" with
    | [k, v] => do
      let k' ← unhexChars k.toList
      let v' ← unhexChars v.toList
      pure (k', v')
    | _ => none

def insertSorted (kv : Bytes × Bytes) : Hdrs → Hdrs
  | [] => [kv]
  | x :: t => if bytesLt kv.1 x.1 then kv :: x :: t else x :: insertSorted kv t

def sortHdrs (h : Hdrs) : Hdrs := h.foldr insertSorted []

def pairsOf (h : Hdrs) : String :=
  if h.isEmpty then "-" else
  ";".intercalate ((sortHdrs h).map fun kv => hexRaw kv.1 ++ ":" ++ hexRaw kv.2)

def errName : Err → String
  | .invalidData => "invalidData"
  | .badVersion => "badVersion"
  | .eof => "eof"
  | .transport => "transport"
  | .tooLarge => "tooLarge"
  | .missingOpId => "missingOpId"
  | .badOpId => "badOpId"
  | .other => "other"

def panicName : Panic → String
  | .sliceBounds => "sliceBounds"
  | .makeNegative => "makeNegative"
  | .index => "index"
  | .nilMap => "nilMap"
  | .closedChan => "closedChan"
  | .typeAssert => "typeAssert"
  | .overflow => "overflow"
  | .fuel => "fuel"

def showRes (f : α → String) : Res α → String
  | .ok a => f a
  | .err e => "err:" ++ errName e
  | .panic p => "panic:" ++ panicName p

end Driver
