/-
Driver for C17: `c17 <program-hex> <start>` — a whole op history per line.
The program is a byte string; EVERY byte string decodes to a history (so the
shrinker and the byte mutator of bin/check apply). Decoding needs the numbers of
contexts / protocols / returned maps that exist when the op is reached, so it is
interleaved with execution. Must stay in step with harness/rt/contextheap.go.
-/
import Driver.Util
import FV.Model.ContextHeap

namespace Driver
open FV FV.CH

def c17bs (s : String) : Bytes := s.toUTF8.toList

def c17Keys : Array Bytes := #[
  c17bs "_opid", c17bs "_cid", c17bs "_timeout", c17bs "a", c17bs "b", c17bs "c", c17bs "k0", c17bs "k1",
  [], c17bs "é", [0], c17bs "_opid ", c17bs "x-long-header-name-0123456789", c17bs "A", c17bs "_cid", c17bs "_timeout"]

def c17Vals : Array Bytes := #[
  [], c17bs "0", c17bs "1", c17bs "100", c17bs "-5", c17bs "+7", c17bs "abc", c17bs "9223372036854775807",
  c17bs "9223372036854775808", c17bs "-9223372036854775808", c17bs "v1", c17bs "v2", c17bs "1_000", c17bs " 5",
  c17bs "9223372036855", c17bs "-18446744073709552"]

def c17Durs : Array Int := #[
  0, 1000000, 5000000000, 999999, -1500000, 9223372036854775807, -9223372036854775808,
  3600000000000, 1, -1, 30000000000, 123456789]

def c17Cids : Array Bytes := #[c17bs "cid0", c17bs "cid1", c17bs "é", c17bs "x"]

def c17Key (b : UInt8) : Bytes := c17Keys[b.toNat % 16]!
def c17Val (b : UInt8) : Bytes := c17Vals[b.toNat % 16]!

def c17Idx (n : Nat) (b : UInt8) : Nat := if n = 0 then 0 else b.toNat % n

def c17Pairs : Nat → List UInt8 → Option (Hdrs × List UInt8)
  | 0, rest => some ([], rest)
  | n + 1, k :: v :: rest => do
    let (ps, rest') ← c17Pairs n rest
    pure ((c17Key k, c17Val v) :: ps, rest')
  | _, _ => none

/-- One op from the front of the program; `none` when the bytes run out. -/
def c17Decode (nc np nr : Nat) : List UInt8 → Option (Op × List UInt8)
  | [] => none
  | o :: rest =>
    let code := o.toNat % 20
    let which : Nat → Which := fun x => if x = 0 then .req else if x = 1 then .resp else .eph
    match code, rest with
    | 0, rest => some (.newProto, rest)
    | 1, v :: rest => some (.new (c17Cids[v.toNat % 4]!), rest)
    -- clone variants (o / 20) % 4: 0 FContextImpl.Clone, 1 package Clone, 2 package Clone of a foreign FContext
    -- without ephemeral properties (the generic branch), 3 package Clone of a foreign FContextWithEphemeralProperties
    | 2, c :: rest => some (.clone (c17Idx nc c) (o.toNat / 20 % 4 == 2), rest)
    | 19, c :: rest => some (.clone (c17Idx nc c) (o.toNat / 20 % 4 == 2), rest)
    | 3, p :: oid :: n :: rest => do
      let (ps, rest') ← c17Pairs (n.toNat % 5) rest
      let extra : Hdrs :=
        if oid.toNat % 8 = 0 then []
        else if oid.toNat % 8 = 1 then [(opIdHeader, c17Val (UInt8.ofNat (oid.toNat / 8)))]
        else [(opIdHeader, dec oid.toNat)]
      pure (.fromRequest (c17Idx np p) (ps ++ extra), rest')
    | 4, c :: k :: v :: rest => some (.add (c17Idx nc c) .req (c17Key k) (c17Val v), rest)
    | 5, c :: k :: v :: rest => some (.add (c17Idx nc c) .resp (c17Key k) (c17Val v), rest)
    | 6, c :: k :: v :: rest => some (.add (c17Idx nc c) .eph (c17Key k) (c17Val v), rest)
    | 7, c :: d :: rest => some (.setTimeout (c17Idx nc c) (c17Durs[d.toNat % 12]!), rest)
    | 8, c :: k :: rest => some (.read (c17Idx nc c) (.header .req (c17Key k)), rest)
    | 9, c :: k :: rest => some (.read (c17Idx nc c) (.header .resp (c17Key k)), rest)
    | 10, c :: k :: rest => some (.read (c17Idx nc c) (.header .eph (c17Key k)), rest)
    | 11, c :: rest =>
      let q : Query := if o.toNat / 20 % 3 = 0 then .timeout else if o.toNat / 20 % 3 = 1 then .toContext else .opId
      some (.read (c17Idx nc c) q, rest)
    | 12, c :: rest =>
      let q : Query := if o.toNat / 20 % 3 = 0 then .cid else if o.toNat / 20 % 3 = 1 then .wireReq else .wireResp
      some (.read (c17Idx nc c) q, rest)
    | 13, c :: rest => some (.get (c17Idx nc c) (which 0), rest)
    | 14, c :: rest => some (.get (c17Idx nc c) (which 1), rest)
    | 15, c :: rest => some (.get (c17Idx nc c) (which 2), rest)
    | 16, i :: k :: v :: rest => some (.retSet (c17Idx nr i) (c17Key k) (c17Val v), rest)
    | 17, i :: k :: rest => some (.retDel (c17Idx nr i) (c17Key k), rest)
    | 18, i :: rest => some (.retRead (c17Idx nr i), rest)
    | _, _ => none

def c17Obs : Obs → String
  | .unit => "."
  | .bad => "bad"
  | .created (some id) => "new=" ++ hexRaw id
  | .created none => "new=?"
  | .err e => "err:" ++ errName e
  | .val none => "nil"
  | .val (some v) => "v=" ++ hexOf v
  | .dur ns => "t=" ++ toString ns
  | .map m => "m=" ++ pairsOf m
  | .num n => "n=" ++ toString n
  | .flag b => if b then "f=1" else "f=0"

/-- Decode-and-run; the fuel is the program length (every op consumes ≥ 1 byte). -/
def c17Run : Nat → State → List UInt8 → List Obs → State × List Obs
  | 0, s, _, acc => (s, acc.reverse)
  | fuel + 1, s, prog, acc =>
    match c17Decode s.ctxs.length s.protos.length s.rets.length prog with
    | none => (s, acc.reverse)
    | some (op, rest) =>
      let r := step s op
      c17Run fuel r.1 rest (r.2 :: acc)

def c17Dump (s : State) : String :=
  let cs := s.ctxs.map fun c =>
    let v := viewOf s.heap c
    "m=" ++ pairsOf v.req ++ ",m=" ++ pairsOf v.resp ++ ",m=" ++ pairsOf v.eph ++ ",t=" ++ toString (timeoutOf v.req)
  let rs := s.rets.map fun r => "m=" ++ pairsOf (hget s.heap r)
  "|".intercalate cs ++ " # " ++ "|".intercalate rs

def stepContextHeap (op : String) (args : List String) : Option String :=
  match op, args with
  | "c17", [x, st] => do
    let prog ← unhex x
    let start ← st.toNat?
    if start ≥ M64 then none else
    let (s, obs) := c17Run (prog.length + 1) (State.init start) prog []
    pure ("ok " ++ "|".intercalate (obs.map c17Obs) ++ " # " ++ c17Dump s)
  -- a free-running concurrent case (harness: child process): the model's prediction is that
  -- nothing goes wrong — no crash, no block, ids distinct, every serialised frame a snapshot
  | "c17conc", [x, it] => do
    let _ ← unhex x
    let _ ← it.toNat?
    pure "ok"
  | _, _ => none

end Driver
