/-
Driver op for C18:  `aud <ignored> OLD NEW [EXPECT]`  →  `pass|fail <sorted finding kinds> spec=0|1`
(`spec` = the independent catalogue `Breaking old new`; a program that is not `WF` prints
`not-wf-old` / `not-wf-new` first). Program tokens: see harness/cc/audit_ast.go.
`audn <ignored> OLD F1 … Fk [EXPECT]`  →  `exit=0` | `exit=1 first=<i>` (the command line loop).
-/
import FV.Model.Idl
import FV.Model.Audit
import FV.Spec.Breaking

namespace Driver.C18
open FV.Idl FV.Audit

inductive SExp where
  | atom (s : String)
  | node (l : List SExp)
  deriving Inhabited

mutual
  /-- One s-expression at the head of the input. -/
  partial def parseSExp : List Char → Option (SExp × List Char)
    | '(' :: ')' :: r => some (.node [], r)
    | '(' :: r => do
      let (items, r') ← parseItems r
      pure (.node items, r')
    | cs =>
      let a := cs.takeWhile (fun c => c != '(' && c != ')' && c != ',')
      some (.atom (String.ofList a), cs.drop a.length)
  partial def parseItems (cs : List Char) : Option (List SExp × List Char) := do
    let (x, r) ← parseSExp cs
    match r with
    | ',' :: r' => do
      let (xs, r'') ← parseItems r'
      pure (x :: xs, r'')
    | ')' :: r' => pure ([x], r')
    | _ => none
end

def readSExp (s : String) : Option SExp :=
  match parseSExp s.toList with
  | some (x, []) => some x
  | _ => none

partial def tyOf : SExp → Option Ty
  | .atom a =>
    -- `Type.IncludeName` / `ParamName`: split at the first `.`
    match a.splitOn "." with
    | [_] => some (if baseTypeNames.contains a then .base a else .named a)
    | i :: rest => some (.qual i (".".intercalate rest))
    | [] => none
  | .node [.atom "l", e] => do pure (.list (← tyOf e))
  | .node [.atom "s", e] => do pure (.set (← tyOf e))
  | .node [.atom "m", k, v] => do pure (.map (← tyOf k) (← tyOf v))
  | _ => none

def modOf : String → Option Modifier
  | "r" => some .required
  | "o" => some .optional
  | "d" => some .dflt
  | _ => none

def items : SExp → Option (List SExp)
  | .node l => some l
  | .atom _ => none

def fieldOf : SExp → Option Field
  | .node [.atom id, .atom m, .atom name, ty, .atom d] => do
    pure { id := ← id.toInt?, name := name, mod := ← modOf m, ty := ← tyOf ty, dflt := if d == "-" then none else some d }
  | _ => none

def fieldsOf (x : SExp) : Option (List Field) := do (← items x).mapM fieldOf

def kindOf : String → Option StructKind
  | "s" => some .struct
  | "u" => some .union
  | "x" => some .exception
  | _ => none

def progOf : SExp → Option Prog
  | .node (tds :: ens :: sts :: svs :: scs :: nss :: cs :: more) => do
    let includes ← (match more with
      | [] => some []
      | [incs] => do
        (← items incs).mapM fun
          | .node [.atom n, itds, .node names] => do
            let typedefs ← (← items itds).mapM fun
              | .node [.atom tn, t] => do pure (Typedef.mk tn (← tyOf t))
              | _ => none
            let decls ← names.mapM fun
              | .atom d => some d
              | _ => none
            pure (IncFile.mk n typedefs decls)
          | _ => none
      | _ => none)
    let typedefs ← (← items tds).mapM fun
      | .node [.atom n, t] => do pure (Typedef.mk n (← tyOf t))
      | _ => none
    let enums ← (← items ens).mapM fun
      | .node [.atom n, vs] => do
        let values ← (← items vs).mapM fun
          | .node [.atom vn, .atom num] => do pure (EnumValue.mk vn (← num.toInt?))
          | _ => none
        pure (Enum.mk n values)
      | _ => none
    let structs ← (← items sts).mapM fun
      | .node [.atom k, .atom n, fs] => do pure (StructLike.mk (← kindOf k) n (← fieldsOf fs))
      | _ => none
    let services ← (← items svs).mapM fun
      | .node [.atom n, ext, ms] => do
        let ext' ← (match ext with
          | .atom e => some (some e)
          | .node [] => some none
          | _ => none)
        let methods ← (← items ms).mapM fun
          | .node [.atom mn, .atom ow, ret, args, excs] => do
            let ret' ← (match ret with
              | .node [] => some none
              | t => (tyOf t).map some)
            pure (Method.mk mn (ow == "1") ret' (← fieldsOf args) (← fieldsOf excs))
          | _ => none
        pure (Service.mk n ext' methods)
      | _ => none
    let scopes ← (← items scs).mapM fun
      | .node [.atom n, pt, ops] => do
        let pfx ← (← items pt).mapM fun
          | .node [.atom "v", .atom s] => some (PTok.var s)
          | .node [.atom "t", .atom s] => some (PTok.lit s)
          | _ => none
        let ops' ← (← items ops).mapM fun
          | .node [.atom on, t] => do pure (Operation.mk on (← tyOf t))
          | _ => none
        pure (Scope.mk n pfx ops')
      | _ => none
    let namespaces ← (← items nss).mapM fun
      | .node [.atom a, .atom b] => some (Namespace.mk a b)
      | _ => none
    let consts ← (← items cs).mapM fun
      | .node [.atom n, t, .atom v] => do pure (Const.mk n (← tyOf t) v)
      | _ => none
    pure { typedefs, enums, structs, services, scopes, namespaces, consts, includes }
  | _ => none

def kindName : Kind → String
  | .scopeMissing => "scopeMissing" | .pfx => "prefix" | .opRemoved => "opRemoved" | .type => "type"
  | .enumValue => "enumValue" | .structMissing => "structMissing" | .ext => "extends"
  | .serviceMissing => "serviceMissing" | .methodMissing => "methodMissing" | .oneway => "oneway"
  | .excAdd => "excAdd" | .excRemove => "excRemove" | .modifier => "modifier"
  | .fieldRemoved => "fieldRemoved" | .addedRequired => "addedRequired" | .nsChanged => "nsChanged"
  | .nsRemoved => "nsRemoved" | .constChanged => "constChanged" | .constRemoved => "constRemoved"
  | .enumRemoved => "enumRemoved" | .enumName => "enumName" | .dflt => "default"
  | .middle => "middle" | .name => "name"

def findingName : Finding → String
  | .error k => "E:" ++ kindName k
  | .warning k => "W:" ++ kindName k

def insertStr (s : String) : List String → List String
  | [] => [s]
  | x :: t => if s < x then s :: x :: t else x :: insertStr s t

def sortStrs (l : List String) : List String := l.foldr insertStr []

end Driver.C18

namespace Driver
open FV.Idl FV.Audit Driver.C18

def stepAudit (op : String) (args : List String) : Option String :=
  match op, args with
  | "aud", _ :: o :: n :: _ => do
    let old ← (readSExp o).bind progOf
    let new ← (readSExp n).bind progOf
    if ¬ WF old then pure "not-wf-old"
    else if ¬ WF new then pure "not-wf-new"
    else
      let fs := audit old new
      let kinds := sortStrs (fs.map findingName)
      let v := if fs.any Finding.isError then "fail" else "pass"
      let ks := if kinds.isEmpty then "-" else ",".intercalate kinds
      let sp := if FV.Breaking.breakingB old new then "1" else "0"
      pure s!"{v} {ks} spec={sp}"
  | "audn", _ :: o :: rest => do
    -- `frugal -audit OLD F1 … Fk` (arguments that are not program tokens are ignored)
    let old ← (readSExp o).bind progOf
    let files ← (rest.filter (·.startsWith "(")).mapM fun a => (readSExp a).bind progOf
    if ¬ WF old ∨ files.any (fun f => ¬ WF f) then pure "not-wf"
    else if cliAudit old files then
      match cliFirstFailing old files with
      | some k => pure s!"exit=1 first={k + 1}"
      | none => pure "exit=1 first=?"
    else pure "exit=0"
  | _, _ => none

end Driver
