/-
Driver ops of the connection / client / STOMP receivers (C05, FV.Model.Receivers2 and Receivers3).

  arl <stream> <chunk>      adapter read loop over the peer's stream then END_OF_FILE
  ssa <stream> <chunk>      FSimpleServer.accept with the draining processor
  ssp <stream> <chunk>      the same with FBaseProcessor + `ping` (oracle only: always `held`)
  stm <bodies> <shapes>     STOMP processMessages: the bodies (shapes = which MESSAGE headers each frame carried;
                            they do not reach the loop), then one well-formed body
  prp <method> <reply>      FStandardClient.processReply (binary protocol, result = {0: string})

  htc <c|o> <limit> <method> <status> <body> <decoded|!>
                            FStandardClient.Call / Oneway over fHTTPTransport (the model sees status + decoded)

`chunk` is how the harness cuts the stream into reads; the model does not depend on it.
-/
import Driver.Util
import FV.Model.Receivers2
import FV.Model.Receivers3
import FV.Model.Receivers4

namespace Driver
open FV FV.Recv2

def causeName : Option Err → String
  | none => "nil"
  | some e => "err:" ++ errName e

def showReplyOutcome (o : Recv3.ReplyOutcome) : String :=
  let st := match o.stage with
    | .hdr e => "hdr:" ++ errName e
    | .msg => "msg"
    | .wrongMethod => "wrong-method"
    | .exception => "exception"
    | .badType => "bad-type"
    | .reply => "reply"
  s!"stage={st} hdrs={pairsOf o.added}"

def stepReceivers2 (op : String) (args : List String) : Option String :=
  match op, args with
  | "arl", [x, _chunk] => do
    let s ← unhex x
    pure (showRes (fun e => s!"delivered={e.delivered} closed={causeName e.cause} values=1 open=false") (adapterRecv s))
  | "ssa", [x, _chunk] => do
    let s ← unhex x
    pure (showRes (fun e =>
      let ret := match e.ret with | none => "ok" | some c => "err:" ++ errName c
      s!"ret={ret} handled={e.handled} rejected={if e.ret.isSome then 1 else 0}") (accept s))
  | "ssp", [x, _chunk] => do
    -- FSimpleServer.accept with the real FBaseProcessor and a `ping` method: oracle only on the Go side
    -- (what Thrift's readers make of the bytes is not modelled); `held` = the property oracle held
    let _ ← unhex x
    pure "held"
  | "stm", [ms, _shapes] => do
    let msgs ← if ms == "." then some [] else (ms.splitOn ",").mapM unhex
    -- the harness's callback accepts a payload iff it starts with the byte 0; it appends one
    -- well-formed message after the sequence
    let cb : Bytes → Bool := fun p => p.head? == some 0
    pure (showRes (fun w => s!"delivered={w.delivered} acked={w.acked} exited={!w.alive}")
      (Stomp.recvAll cb Stomp.init (msgs ++ [[0, 0, 0, 1, 0]])))
  | "prp", [m, x] => do
    let m ← unhex m
    let b ← unhex x
    pure (showRes showReplyOutcome (Recv3.processReply m b))
  | "htc", [mode, _limit, m, st, _body, dec] => do
    -- FStandardClient.Call / Oneway over the real HTTP transport: status, and what base64 made of the body
    let m ← unhex m
    let st ← st.toNat?
    let body ← if dec == "!" then some Recv4.B64.invalid else (unhex dec).map Recv4.B64.decoded
    if mode == "o" then
      pure (showRes (fun o => match o with | none => "ok" | some e => "req:" ++ errName e) (Recv4.httpOneway st body))
    else if mode == "c" then
      pure (match Recv4.httpCall true m st body with
        | .req e => "req:" ++ errName e
        | .reply o => showReplyOutcome o
        | .nilDeref => "panic:other"
        | .panic p => "panic:" ++ panicName p)
    else none
  | _, _ => none

end Driver
