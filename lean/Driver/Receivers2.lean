/-
Driver ops of the connection / client / STOMP receivers (C05, FV.Model.Receivers2 and Receivers3).

  arl <stream> <chunk>      adapter read loop over the peer's stream then END_OF_FILE
  ssa <stream> <chunk>      FSimpleServer.accept with the draining processor
  ssp <stream> <chunk>      the same with FBaseProcessor + `ping` (oracle only: always `held`)
  stm <bodies> <shapes>     STOMP processMessages: the bodies (shapes = which MESSAGE headers each frame carried;
                            they do not reach the loop), then one well-formed body
  prp <method> <reply>      FStandardClient.processReply (binary protocol, result = {0: string})

  htc <c|o> <limit> <method> <status> <body> <decoded|!>
                            FStandardClient.Call / Oneway over fHTTPTransport (the model sees status + decoded)

  htr <c|o> <method> <status> <framing> <close|hold> <sent> <decoded|!|x>
                            the same over a raw socket: Content-Length / chunk sizes chosen by the peer
  big <entry> <limit> <scenario> <cid-len> <opid-len> <writes> <fallback-writes>
                            the reply step of a server worker with large echoed header values (FV.Recv5)

`chunk` is how the harness cuts the stream into reads; the model does not depend on it.
-/
import Driver.Util
import FV.Model.Receivers2
import FV.Model.Receivers3
import FV.Model.Receivers4
import FV.Model.Receivers5

namespace Driver
open FV FV.Recv2

def causeName : Option Err → String
  | none => "nil"
  | some e => "err:" ++ errName e

def showReplyOutcome (o : Recv3.ReplyOutcome) : String :=
  let st := match o.stage with
    | .hdr e => "hdr:" ++ errName e
    | .msg => "msg"
    | .wrongMethod => "wrong-method"
    | .exception => "exception"
    | .badType => "bad-type"
    | .reply => "reply"
  s!"stage={st} hdrs={pairsOf o.added}"

def parseChunk (c : String) : Option (Nat × Nat) :=
  match c.splitOn ":" with
  | [a, k] => do pure (← a.toNat?, ← k.toNat?)
  | _ => none

/-- `L<n>` = Content-Length n; `K<a>:<k>,…[T]` = chunked (announced size : bytes carried), T = terminated. -/
def parseFraming (fr : String) : Option Recv4.Framing :=
  match fr.toList with
  | 'L' :: r => (String.ofList r).toNat?.map Recv4.Framing.length
  | 'K' :: r =>
    let t := r.getLast? == some 'T'
    let core := String.ofList (if t then r.dropLast else r)
    if core == "" then some (Recv4.Framing.chunked [] t)
    else ((core.splitOn ",").mapM parseChunk).map (fun cs => Recv4.Framing.chunked cs t)
  | _ => none

def stepReceivers2 (op : String) (args : List String) : Option String :=
  match op, args with
  | "arl", [x, _chunk] => do
    let s ← unhex x
    pure (showRes (fun e => s!"delivered={e.delivered} closed={causeName e.cause} values=1 open=false") (adapterRecv s))
  | "ssa", [x, _chunk] => do
    let s ← unhex x
    pure (showRes (fun e =>
      let ret := match e.ret with | none => "ok" | some c => "err:" ++ errName c
      s!"ret={ret} handled={e.handled} rejected={if e.ret.isSome then 1 else 0}") (accept s))
  | "ssp", [x, _chunk] => do
    -- FSimpleServer.accept with the real FBaseProcessor and a `ping` method: oracle only on the Go side
    -- (what Thrift's readers make of the bytes is not modelled); `held` = the property oracle held
    let _ ← unhex x
    pure "held"
  | "stm", [ms, _shapes] => do
    let msgs ← if ms == "." then some [] else (ms.splitOn ",").mapM unhex
    -- the harness's callback accepts a payload iff it starts with the byte 0; it appends one
    -- well-formed message after the sequence
    let cb : Bytes → Bool := fun p => p.head? == some 0
    pure (showRes (fun w => s!"delivered={w.delivered} acked={w.acked} exited={!w.alive}")
      (Stomp.recvAll cb Stomp.init (msgs ++ [[0, 0, 0, 1, 0]])))
  | "prp", [m, x] => do
    let m ← unhex m
    let b ← unhex x
    pure (showRes showReplyOutcome (Recv3.processReply m b))
  | "htc", [mode, _limit, m, st, _body, dec] => do
    -- FStandardClient.Call / Oneway over the real HTTP transport: status, and what base64 made of the body
    let m ← unhex m
    let st ← st.toNat?
    let body ← if dec == "!" then some Recv4.B64.invalid else (unhex dec).map Recv4.B64.decoded
    if mode == "o" then
      pure (showRes (fun o => match o with | none => "ok" | some e => "req:" ++ errName e) (Recv4.httpOneway st body))
    else if mode == "c" then
      pure (match Recv4.httpCall true m st body with
        | .req e => "req:" ++ errName e
        | .reply o => showReplyOutcome o
        | .nilDeref => "panic:other"
        | .panic p => "panic:" ++ panicName p)
    else none
  | "htr", [mode, m, st, fr, _ending, sent, dec] => do
    -- the HTTP envelope with size fields chosen by the peer; `dec` = base64 of the delivered bytes (x = none)
    let m ← unhex m
    let st ← st.toNat?
    let sent ← unhex sent
    let body : Recv4.B64 ← if dec == "!" || dec == "x" then some Recv4.B64.invalid else (unhex dec).map Recv4.B64.decoded
    let framing ← parseFraming fr
    if mode == "o" then
      pure (showRes (fun o => match o with | none => "ok" | some e => "req:" ++ errName e)
        (Recv4.httpOnewayEnvelope (fun _ => body) st framing sent))
    else if mode == "c" then
      pure (match Recv4.httpCallEnvelope (fun _ => body) true m st framing sent with
        | .req e => "req:" ++ errName e
        | .reply o => showReplyOutcome o
        | .nilDeref => "panic:other"
        | .panic p => "panic:" ++ panicName p)
    else none
  | "big", [entry, limit, sc, _cid, _opid, ws, fs] => do
    -- the reply step with large echoed header values: write sizes of the attempt(s) as recorded by the harness
    let natList (x : String) : Option (List (List Nat)) :=
      if x == "." then some [] else (x.splitOn ";").mapM fun g => (g.splitOn ",").mapM String.toNat?
    let limit ← limit.toNat?
    let primary ← natList ws
    let fallback ← natList fs
    let sc ← match sc with
      | "r" => some Recv5.Scenario.reply
      | "e" | "a" => some Recv5.Scenario.error
      | "u" => some Recv5.Scenario.unknown
      | _ => none
    let pub (o : Option Nat) : String := match o with | none => "published=none" | some n => s!"published={n}"
    if entry == "n1" || entry == "n4" then
      pure (pub (Recv5.published (Recv5.replyStep 1048576 sc primary fallback)))
    else if entry == "ss" then
      pure (pub (Recv5.published (Recv5.replyStep 0 sc primary fallback)))
    else if entry == "ht" then
      let r := Recv5.httpReply limit sc primary fallback
      pure s!"status={r.1} {pub r.2}"
    else none
  | _, _ => none

end Driver
