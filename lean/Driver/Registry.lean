import Driver.Util
import FV.Model.Registry
import FV.Generated.Params

namespace Driver
open FV.Reg

/-- `R0 V1 T0 E0 U0 L<i>:<tag> LX<k>:<tag> S`; caller `i` has model op id `i`, a never-issued id is `1000+k`. -/
def parseRegAction (a : String) : Option Action :=
  match a.toList with
  | 'R' :: r => (String.ofList r).toNat?.map .register
  | 'V' :: r => (String.ofList r).toNat?.map .recv
  | 'T' :: r => (String.ofList r).toNat?.map .timeout
  | 'E' :: r => (String.ofList r).toNat?.map .sendError
  | 'U' :: r => (String.ofList r).toNat?.map .unregister
  | ['S'] => some .readerSend
  | 'L' :: r =>
    match (String.ofList r).splitOn ":" with
    | [o, t] => do
      let tag ← t.toNat?
      let opid ← match o.toList with
        | 'X' :: k => (String.ofList k).toNat?.map (· + 1000)
        | _ => o.toNat?
      pure (.readerLookup ⟨opid, tag⟩)
    | _ => none
  | _ => none

def showOutcome : Outcome → String
  | .ok f => s!"ok:{f.opid}:{f.tag}"
  | .timedOut => "timedOut"
  | .sendErr => "sendErr"
  | .regErr => "regErr"

def showPc : Pc → String
  | .new => "new"
  | .waiting => "waiting"
  | .leaving o => "leaving:" ++ showOutcome o
  | .done o => "done:" ++ showOutcome o

def showRegSys (s : Sys) : String :=
  let cs := (List.range s.callers.length).zip s.callers |>.map fun (i, c) =>
    s!"{i}={showPc c.pc}[{" ".intercalate (c.buf.map fun f => s!"{f.opid}:{f.tag}")}]"
  let rd := match s.reader with
    | .idle => "idle"
    | .lookedUp ch _ => s!"lookedUp:{ch}"
  s!"{",".intercalate cs} reg={s.registry.length} reader={rd}"

/-- The schedule of the real-transport scenario `kind` with `noise` other callers in flight:
caller 0 is under test, callers 1..noise are the others (silent peer for them), caller noise+1 is
the fresh request sent afterwards. -/
def rqSchedule (kind : String) (noise : Nat) : Option (List Action) :=
  let regs := (List.range (noise + 1)).map Action.register
  let noiseEnd := (List.range noise).flatMap fun k => [Action.timeout (k + 1), .unregister (k + 1)]
  let noiseRecvEnd := (List.range noise).flatMap fun k => [Action.recv (k + 1), .unregister (k + 1)]
  let own (t : Nat) := [Action.readerLookup ⟨0, t⟩, .readerSend]
  let fresh := [Action.register (noise + 1), .readerLookup ⟨noise + 1, 1⟩, .readerSend, .recv (noise + 1), .unregister (noise + 1)]
  match kind with
  | "early" => some (regs ++ own 7 ++ [.recv 0, .unregister 0] ++ noiseEnd ++ fresh)
  | "dupearly" => some (regs ++ own 7 ++ own 8 ++ own 9 ++ [.recv 0, .unregister 0] ++ noiseEnd ++ fresh)
  | "otherfirst" =>
    let others := (List.range noise).flatMap fun k =>
      [Action.readerLookup ⟨k + 1, 1⟩, .readerSend, .readerLookup ⟨k + 1, 2⟩, .readerSend, .readerLookup ⟨k + 1, 3⟩, .readerSend]
    some (regs ++ others ++ [.readerLookup ⟨1005, 4⟩] ++ own 7 ++ [.recv 0, .unregister 0] ++ noiseRecvEnd ++ fresh)
  | "silent" | "stallwrite" | "stallflush" => some (regs ++ [.timeout 0, .unregister 0] ++ noiseEnd ++ fresh)
  | "foreignonly" => some (regs ++ [.readerLookup ⟨1001, 1⟩, .readerLookup ⟨1002, 2⟩, .timeout 0, .unregister 0] ++ noiseEnd ++ fresh)
  | "late" => some (regs ++ [.timeout 0, .unregister 0, .readerLookup ⟨0, 7⟩] ++ noiseEnd ++ fresh)
  | _ => none

def stepRegistry (op : String) (args : List String) : Option String :=
  match op, args with
  | "rq", [kind, _timeout, noise] => do
    let noise ← noise.toNat?
    let as ← rqSchedule kind noise
    let s ← run (init FV.Params.resultChanCapAdapter FV.Params.dispatchSendBlocking (List.range (noise + 2))) as
    let c0 ← s.callers[0]?
    let cf ← s.callers[noise + 1]?
    let out := match c0.pc with
      | .done (.ok f) => s!"ok:{f.tag}"
      | .done .timedOut => "timedOut"
      | pc => showPc pc
    let fresh := if kind == "stallwrite" || kind == "stallflush" then "n/a"
      else match cf.pc with
        | .done (.ok _) => "delivered"
        | _ => "lost"
    pure s!"outcome={out} reg={s.registry.length} fresh={fresh}"
  | "reg", [n, cap, acts] => do
    let n ← n.toNat?
    let cap ← cap.toNat?
    let as ← (acts.splitOn ",").mapM parseRegAction
    let (s, flags) := runSkip (init cap FV.Params.dispatchSendBlocking (List.range n)) as
    pure s!"flags={String.ofList (flags.map fun b => if b then '1' else '0')} {showRegSys s}"
  | _, _ => none

end Driver
