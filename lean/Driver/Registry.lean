import Driver.Util
import FV.Model.Registry
import FV.Generated.Params

namespace Driver
open FV.Reg

/-- `R0 V1 T0 E0 U0 L<i>:<tag> LX<k>:<tag> S`; caller `i` has model op id `i`, a never-issued id is `1000+k`. -/
def parseRegAction (a : String) : Option Action :=
  match a.toList with
  | 'R' :: r => (String.ofList r).toNat?.map .register
  | 'V' :: r => (String.ofList r).toNat?.map .recv
  | 'T' :: r => (String.ofList r).toNat?.map .timeout
  | 'E' :: r => (String.ofList r).toNat?.map .sendError
  | 'U' :: r => (String.ofList r).toNat?.map .unregister
  | ['S'] => some .readerSend
  | 'L' :: r =>
    match (String.ofList r).splitOn ":" with
    | [o, t] => do
      let tag ← t.toNat?
      let opid ← match o.toList with
        | 'X' :: k => (String.ofList k).toNat?.map (· + 1000)
        | _ => o.toNat?
      pure (.readerLookup ⟨opid, tag⟩)
    | _ => none
  | _ => none

def showOutcome : Outcome → String
  | .ok f => s!"ok:{f.opid}:{f.tag}"
  | .timedOut => "timedOut"
  | .sendErr => "sendErr"
  | .regErr => "regErr"

def showPc : Pc → String
  | .new => "new"
  | .waiting => "waiting"
  | .leaving o => "leaving:" ++ showOutcome o
  | .done o => "done:" ++ showOutcome o

def showRegSys (s : Sys) : String :=
  let cs := (List.range s.callers.length).zip s.callers |>.map fun (i, c) =>
    s!"{i}={showPc c.pc}[{" ".intercalate (c.buf.map fun f => s!"{f.opid}:{f.tag}")}]"
  let rd := match s.reader with
    | .idle => "idle"
    | .lookedUp ch _ => s!"lookedUp:{ch}"
  s!"{",".intercalate cs} reg={s.registry.length} reader={rd}"

/-- The schedule of the real-transport scenario `kind` with `noise` other callers in flight:
caller 0 is under test, callers 1..noise are the others (silent peer for them), caller noise+1 is
the fresh request sent afterwards. -/
def rqSchedule (kind : String) (noise : Nat) : Option (List Action) :=
  let regs := (List.range (noise + 1)).map Action.register
  let noiseEnd := (List.range noise).flatMap fun k => [Action.timeout (k + 1), .unregister (k + 1)]
  let noiseRecvEnd := (List.range noise).flatMap fun k => [Action.recv (k + 1), .unregister (k + 1)]
  let own (t : Nat) := [Action.readerLookup ⟨0, t⟩, .readerSend]
  let fresh := [Action.register (noise + 1), .readerLookup ⟨noise + 1, 1⟩, .readerSend, .recv (noise + 1), .unregister (noise + 1)]
  match kind with
  | "early" => some (regs ++ own 7 ++ [.recv 0, .unregister 0] ++ noiseEnd ++ fresh)
  | "dupearly" => some (regs ++ own 7 ++ own 8 ++ own 9 ++ [.recv 0, .unregister 0] ++ noiseEnd ++ fresh)
  | "otherfirst" =>
    let others := (List.range noise).flatMap fun k =>
      [Action.readerLookup ⟨k + 1, 1⟩, .readerSend, .readerLookup ⟨k + 1, 2⟩, .readerSend, .readerLookup ⟨k + 1, 3⟩, .readerSend]
    some (regs ++ others ++ [.readerLookup ⟨1005, 4⟩] ++ own 7 ++ [.recv 0, .unregister 0] ++ noiseRecvEnd ++ fresh)
  | "silent" | "stallwrite" | "stallflush" => some (regs ++ [.timeout 0, .unregister 0] ++ noiseEnd ++ fresh)
  | "foreignonly" => some (regs ++ [.readerLookup ⟨1001, 1⟩, .readerLookup ⟨1002, 2⟩, .timeout 0, .unregister 0] ++ noiseEnd ++ fresh)
  | "late" => some (regs ++ [.timeout 0, .unregister 0, .readerLookup ⟨0, 7⟩] ++ noiseEnd ++ fresh)
  | _ => none

/-- Schedules of the NATS-transport scenarios (harness/rt/natsreq.go): caller 0 = A, caller 1 = B
(only in `reuse`), the last caller = the fresh request. -/
def nrqSchedule (kind : String) (missed : Bool) : Option (List Action × Nat) :=
  let own (i t : Nat) := [Action.readerLookup ⟨i, t⟩, .readerSend]
  match kind with
  | "early" => some ([.register 0] ++ own 0 7 ++ [.recv 0, .unregister 0, .register 1] ++ own 1 7 ++ [.recv 1, .unregister 1], 1)
  | "dup3" => some ([.register 0] ++ own 0 7 ++ own 0 8 ++ own 0 9 ++ [.recv 0, .unregister 0, .register 1] ++ own 1 7 ++ [.recv 1, .unregister 1], 1)
  | "silent" => some ([.register 0, .timeout 0, .unregister 0, .register 1] ++ own 1 7 ++ [.recv 1, .unregister 1], 1)
  | "foreign" => some ([.register 0, .readerLookup ⟨1007, 1⟩, .timeout 0, .unregister 0, .register 1] ++ own 1 7 ++ [.recv 1, .unregister 1], 1)
  | "reuse" =>
    -- the duplicate for A is looked up while A is still registered, held, and sent after A has
    -- unregistered and B has registered (or, window missed: looked up after A unregistered: dropped)
    let mid := if missed then [Action.recv 0, .unregister 0, .readerLookup ⟨0, 8⟩, .register 1]
               else [Action.readerLookup ⟨0, 8⟩, .recv 0, .unregister 0, .register 1, .readerSend]
    some ([.register 0] ++ own 0 7 ++ mid ++ [.timeout 1, .unregister 1, .register 2] ++ own 2 7 ++ [.recv 2, .unregister 2], 2)
  | "reopen" =>
    -- A is in flight; the application closes and reopens the transport (the registrations and the reply inbox
    -- survive: not a step of the model); B, issued after the reopen, is answered; then A's answer arrives
    some ([.register 0, .register 1] ++ own 1 7 ++ [.recv 1, .unregister 1] ++ own 0 7 ++
      [.recv 0, .unregister 0, .register 2] ++ own 2 7 ++ [.recv 2, .unregister 2], 2)
  | _ => none

def showNrqOutcome (c : Caller) : String :=
  match c.pc with
  | .done (.ok f) => s!"ok:{f.tag}"
  | .done .timedOut => "timedOut"
  | pc => showPc pc

def stepRegistry (op : String) (args : List String) : Option String :=
  match op, args with
  | "hrq", [kind, _timeout, _oneway] =>
    -- HTTP client transport: no registry; the call either gets its response in time or the request
    -- context's deadline ends it — the model's caller with a reader that delivers (early) or not.
    let as : List Action := if kind == "early" then [.register 0, .readerLookup ⟨0, 1⟩, .readerSend, .recv 0, .unregister 0]
      else [.register 0, .timeout 0, .unregister 0]
    match run (init 1 false [0]) as with
    | some s => match s.callers[0]? with
      | some c => some ("outcome=" ++ (match c.pc with | .done (.ok _) => "ok" | .done .timedOut => "timedOut" | pc => showPc pc))
      | none => none
    | none => none
  | "nrq", [kind, _timeout, missed] => do
    let (as, freshIdx) ← nrqSchedule kind (missed == "1")
    let s ← run (init FV.Params.resultChanCapNats FV.Params.dispatchSendBlocking (List.range (freshIdx + 1))) as
    let a ← s.callers[0]?
    let f ← s.callers[freshIdx]?
    let b := if kind == "reuse" || kind == "reopen" then
        match s.callers[1]? with
        | some c => showNrqOutcome c ++ (if missed == "1" then ":window-missed" else "")
        | none => "?"
      else "-"
    pure s!"A={showNrqOutcome a} B={b} fresh={showNrqOutcome f} reg={s.registry.length}"
  | "rq", [kind, _timeout, noise] => do
    let noise ← noise.toNat?
    let as ← rqSchedule kind noise
    let s ← run (init FV.Params.resultChanCapAdapter FV.Params.dispatchSendBlocking (List.range (noise + 2))) as
    let c0 ← s.callers[0]?
    let cf ← s.callers[noise + 1]?
    let out := match c0.pc with
      | .done (.ok f) => s!"ok:{f.tag}"
      | .done .timedOut => "timedOut"
      | pc => showPc pc
    let fresh := if kind == "stallwrite" || kind == "stallflush" then "n/a"
      else match cf.pc with
        | .done (.ok _) => "delivered"
        | _ => "lost"
    pure s!"outcome={out} reg={s.registry.length} fresh={fresh}"
  | "reg", [n, cap, acts] => do
    let n ← n.toNat?
    let cap ← cap.toNat?
    let as ← (acts.splitOn ",").mapM parseRegAction
    let (s, flags) := runSkip (init cap FV.Params.dispatchSendBlocking (List.range n)) as
    pure s!"flags={String.ofList (flags.map fun b => if b then '1' else '0')} {showRegSys s}"
  -- a call issued while the transport's own Open / Close is stalled (C13): the lifecycle lock is not on the call
  -- path (c13_calls_take_no_lifecycle_lock), so the call is an ordinary one against a silent peer: a Request times
  -- out (c13_timeout_returns), a Oneway whose write is accepted returns ok
  | "rql", [_phase, _timeout, ow] => pure (if ow == "1" then "outcome=ok" else "outcome=timedOut")
  -- connection 1 ends inside a frame, the same transport is reopened (C05/C06): each Open starts a fresh framed
  -- reader and read loop (a fresh system), so the response on connection 2 is delivered as in `rq early`
  | "rqo", [_cut, pre, _timeout] => do
    let pre ← pre.toNat?
    let as ← rqSchedule (if pre == 0 then "early" else "otherfirst") 0
    let s ← run (init FV.Params.resultChanCapAdapter FV.Params.dispatchSendBlocking (List.range 2)) as
    let c0 ← s.callers[0]?
    pure (match c0.pc with
      | .done (.ok f) => s!"outcome=ok:{f.tag}"
      | .done .timedOut => "outcome=timedOut"
      | pc => s!"outcome={showPc pc}")
  -- a positive timeout at or below the header's resolution against a silent peer (C13): by
  -- c13_positive_timeout_is_a_deadline it is a deadline like any other: a Request times out; a Oneway whose write the
  -- transport accepts (adapter, NATS) returns ok, over HTTP it waits for the response and times out
  | "rqt", [tr, _ns, ow] => pure (if ow == "1" && tr != "http" then "outcome=ok" else "outcome=timedOut")
  -- free-running registry (C06): by c06_reader_never_blocks no interleaving stalls, every call is answered
  | "rfree", [k, iters] => do
    let k ← k.toNat?
    let iters ← iters.toNat?
    pure s!"ok answered={k * iters}"
  | _, _ => none

end Driver
