/-
Driver ops of C16 (harness/rt/middleware.go): tracing middleware over string
arguments and (string, error) results, run through the model of NewMethod /
AddMiddleware / the generated wiring / the processor map.
-/
import Driver.Util
import FV.Model.Middleware

namespace Driver
open FV FV.Mw

abbrev MwA := String
abbrev MwR := String × Option String

/-- One middleware's behaviour from its spec letters (see c16Pre/c16Post in the harness). -/
def specW (label : Nat) (spec : String) : W MwA MwR :=
  { pre := fun s => if spec.contains 'a' then s ++ s!"a{label}" else s,
    post := fun r =>
      let res := if spec.contains 'r' then r.1 ++ s!"r{label}" else r.1
      let err :=
        if spec.contains 'c' then none
        else if spec.contains 's' then some s!"E{label}"
        else if spec.contains 't' then r.2.map (· ++ s!"t{label}")
        else r.2
      (res, err) }

def specWs (k : Nat) (specs : List String) : List (W MwA MwR) :=
  specs.zipIdx.map (fun (s, i) => specW (k + i) s)

/-- The real middleware list for `specs`, labelled from `k`. -/
def specMws (k : Nat) (specs : List String) : List (Middleware MwA MwR) :=
  wrapsFrom k (specWs k specs)

def parseSpecs (s : String) : List String :=
  if s == "." || s == "" then [] else s.splitOn ","

/-- The proxied function: `k` succeeds, `f` returns the error "B"; `mark` names it. -/
def baseFn (mode : String) (mark : String) : MwA → MwR :=
  fun s => (s ++ "|" ++ mark, if mode == "f" then some "B" else none)

def showErr : Option String → String
  | none => "-"
  | some e => e

def showEv : Ev MwA MwR → String
  | .enter i a => s!"e{i}:{a}"
  | .base a => s!"b:{a}"
  | .exit i r => s!"x{i}:{r.1}/{showErr r.2}"

def showRun (out : MwR × List (Ev MwA MwR)) : String :=
  let t := ";".intercalate (out.2.map showEv)
  (if t == "" then "." else t) ++ " R=" ++ out.1.1 ++ "/" ++ showErr out.1.2

/-- Insertion sort on strings (Go's sort.Strings on ASCII names). -/
def insertStr (s : String) : List String → List String
  | [] => [s]
  | x :: t => if s < x then s :: x :: t else x :: insertStr s t

def sortStrs (l : List String) : List String := l.foldr insertStr []

def parseChain (s : String) : List (List String) :=
  (s.splitOn "/").map parseSpecs

def twoSubsRun (form : AppendForm) (extra : Nat) (ctorS aS bS : List String) (base arg : String) : String :=
  let ctor := specMws 0 ctorS
  let filler : List (Middleware MwA MwR) := List.replicate extra (wrap 999 id id)
  let l := twoSubscribers form (ctor ++ filler) ctorS.length (specMws ctorS.length aS) (specMws 100 bS)
  "ok " ++ showRun ((newMethod (baseFn base "") l).invoke arg)

/-! ### the value dimension (harness/rt/middleware_values.go) -/

/-- The harness's value table: (kind, code) ↦ the Go value, as a dynamic value. -/
def valTable (kind code : String) : Option DVal :=
  match kind, code with
  | "ptr", "n" => some (.val "*c16Thing" .ptr true "")
  | "ptr", "z" => some (.val "*c16Thing" .ptr false "{0}")
  | "ptr", "v" => some (.val "*c16Thing" .ptr false "{7}")
  | "list", "n" => some (.val "[]string" .slice true "")
  | "list", "e" => some (.val "[]string" .slice false "[]")
  | "list", "v" => some (.val "[]string" .slice false "[a+b]")
  | "map", "n" => some (.val "map[string]int32" .map true "")
  | "map", "e" => some (.val "map[string]int32" .map false "{}")
  | "map", "v" => some (.val "map[string]int32" .map false "{k=1}")
  | "bin", "n" => some (.val "[]uint8" .slice true "")
  | "bin", "e" => some (.val "[]uint8" .slice false "")
  | "bin", "v" => some (.val "[]uint8" .slice false "00ff")
  | "i32", "z" => some (.val "int32" .prim false "0")
  | "i32", "v" => some (.val "int32" .prim false "42")
  | "i64", "z" => some (.val "int64" .prim false "0")
  | "i64", "v" => some (.val "int64" .prim false "-9")
  | "bool", "z" => some (.val "bool" .prim false "false")
  | "bool", "v" => some (.val "bool" .prim false "true")
  | "dbl", "z" => some (.val "float64" .prim false "0")
  | "dbl", "v" => some (.val "float64" .prim false "1.5")
  | "str", "z" => some (.val "string" .prim false "")
  | "str", "v" => some (.val "string" .prim false "s")
  | _, _ => none

def errTable (code : String) : Option DVal :=
  match code with
  | "-" => some .untyped
  | "p" => some (.val "*errors.errorString" .ptr false "P")
  | "x" => some (.val "*c16Exc" .ptr false "{boom}")
  | "t" => some (.val "*c16Exc" .ptr true "")
  | _ => none

def isErrTy (t : String) : Bool := t == "*errors.errorString" || t == "*c16Exc"

def showDVal : DVal → String
  | .untyped => "nil"
  | .val ty _ true _ => ty ++ "#nil"
  | .val ty _ false p => ty ++ "#" ++ p

def showDVals (l : List DVal) : String := "/".intercalate (l.map showDVal)

/-- A declared-type return value for a dynamic one from the tables. -/
def asDeclared : DVal → SVal
  | .val ty k n p => .concrete ty k n p
  | .untyped => .iface .untyped

def setLast (l : List DVal) (v : DVal) : List DVal :=
  match l.reverse with
  | [] => []
  | _ :: t => (v :: t).reverse

def vSpecW (aKind rKind spec : String) : Option (W (List DVal) (List DVal)) :=
  if spec == "o" then some ⟨id, id⟩
  else if spec == "U" then
    if rKind == "void" then none else some ⟨id, fun r => .untyped :: r.drop 1⟩
  else match spec.toList with
    | ['R', c] => if rKind == "void" then none else
        (valTable rKind (String.singleton c)).map fun v => ⟨id, fun r => v :: r.drop 1⟩
    | ['A', c] => (valTable aKind (String.singleton c)).map fun v => ⟨fun _ => [v], id⟩
    | ['E', c] => (errTable (String.singleton c)).map fun v => ⟨id, fun r => setLast r v⟩
    | _ => none

def showVEv : Ev (List DVal) (List DVal) → String
  | .enter i a => s!"e{i}:{showDVals a}"
  | .base a => s!"b:{showDVals a}"
  | .exit i r => s!"x{i}:{showDVals r}"

def showConsumed : Consumed → String
  | .success => "success" | .errPath => "errPath" | .returned => "returned" | .panic => "panic"

def stepMwv (site aS rS errCode s1 s2 : String) : Option String := do
  let (aKind, aCode) ← match aS.splitOn ":" with | [k, c] => some (k, c) | _ => none
  let (rKind, rCode) ← match rS.splitOn ":" with | [k, c] => some (k, c) | _ => none
  let argV ← valTable aKind aCode
  let errV ← errTable errCode
  let rets : List SVal ←
    if rKind == "void" then (if rCode == "-" then some [SVal.iface errV] else none)
    else (valTable rKind rCode).map fun v => [asDeclared v, SVal.iface errV]
  let l1 := parseSpecs s1
  let l2 := parseSpecs s2
  let w1 ← l1.mapM (vSpecW aKind rKind)
  let w2 ← l2.mapM (vSpecW aKind rKind)
  let ctor := wrapsFrom 0 w1
  let more := wrapsFrom l1.length w2
  let f := baseFnDyn (fun _ => rets)
  let m ← match site with
    | "method" => some ((newMethod f ctor).addAll more)
    | "processor" => some ((newMethod f (processorWiring ctor)).addAll more)
    | "client" => some (newMethod f (clientWiring ctor more))
    | "publisher" => if rKind == "void" then some (newMethod f (publisherWiring ctor more)) else none
    | "subscriber" => if rKind == "void" then some (genSubscribe f ctor more) else none
    | _ => none
  let out := m.invoke [argV]
  let ty := match valTable rKind "z" <|> valTable rKind "n" with
    | some (.val t _ _ _) => t
    | _ => ""
  let consumed :=
    if rKind == "void" then consumeVoid isErrTy out.1
    else if site == "client" then consumeClient ty isErrTy out.1
    else consumeProcessor ty isErrTy out.1
  pure s!"ok {";".intercalate (out.2.map showVEv)} R={showDVals out.1} consume={showConsumed consumed}"

/-! ### when and from what the chain is composed (harness/rt/middleware_lifetime.go) -/

def stepSpecs (s : String) : List String := if s == "" then [] else s.splitOn "_"

/-- Runs an `mwl` script on the model: state = caller's array + objects; output per call. -/
def runLife (base arg : String) : List String → Nat → Life MwA MwR → List String → Option (List String)
  | [], _, _, outs => some outs.reverse
  | st :: rest, si, s, outs =>
    match st.toList with
    | 'N' :: site :: ':' :: ps =>
      let provS := stepSpecs (String.ofList ps)
      let oi := s.objs.length
      let f := baseFn base (toString oi)
      if site == 'c' || site == 'p' then
        runLife base arg rest (si + 1) (s.step (.construct f true (specMws (20 * (oi + 1)) provS))) outs
      else if (site == 'm' || site == 'r') && provS.isEmpty then
        runLife base arg rest (si + 1) (s.step (.construct f false [])) outs
      else none
    | 'W' :: r =>
      match (String.ofList r).splitOn ":" with
      | [j, spec] => do
        let j ← j.toNat?
        runLife base arg rest (si + 1) (s.step (.write j (wrap (200 + si) (specW (200 + si) spec).pre (specW (200 + si) spec).post))) outs
      | _ => none
    | 'P' :: ':' :: r =>
      let spec := String.ofList r
      runLife base arg rest (si + 1) (s.step (.push (wrap (200 + si) (specW (200 + si) spec).pre (specW (200 + si) spec).post))) outs
    | 'A' :: r =>
      match (String.ofList r).splitOn ":" with
      | [i, spec] => do
        let i ← i.toNat?
        if i < s.objs.length then
          runLife base arg rest (si + 1) (s.step (.add i (wrap (300 + si) (specW (300 + si) spec).pre (specW (300 + si) spec).post))) outs
        else none
      | _ => none
    | 'C' :: r => do
      let i ← (String.ofList r).toNat?
      let o ← s.objs[i]?
      runLife base arg rest (si + 1) s (showRun (o.invoke arg) :: outs)
    | 'G' :: r =>
      match (String.ofList r).splitOn "x" with
      | [i, n] => do
        let i ← i.toNat?
        let n ← n.toNat?
        let o ← s.objs[i]?
        runLife base arg rest (si + 1) s (s!"calls={n} uniform {showRun (o.invoke "@")}" :: outs)
      | _ => none
    | _ => none

def stepMiddleware (op : String) (args : List String) : Option String :=
  match op, args with
  | "mwi", [mset, name, specs, added, reps, base, arg] => do
    let n ← reps.toNat?
    let name := if name == "-" then "" else name
    match nameOutcome (parseSpecs mset) name with
    | .panicIndex => pure "panic:index"
    | .panicNoSuchMethod => pure "panic:nosuchmethod"
    | .ok =>
      let sp := parseSpecs specs
      let m := (newMethod (baseFn base "") (specMws 0 sp)).addAll (specMws sp.length (parseSpecs added))
      pure ("ok " ++ " | ".intercalate ((List.range n).map fun _ => showRun (m.invoke arg)))
  | "mww", [site, ctorS, provS, base, arg] =>
    let c := parseSpecs ctorS
    let ctor := specMws 0 c
    let prov := specMws c.length (parseSpecs provS)
    let f := baseFn base ""
    match site with
    | "client" => some ("ok " ++ showRun ((newMethod f (clientWiring ctor prov)).invoke arg))
    | "publisher" => some ("ok " ++ showRun ((newMethod f (publisherWiring ctor prov)).invoke arg))
    | "subscriber" => some ("ok " ++ showRun ((genSubscribe f ctor prov).invoke arg))
    | _ => some "bad-op"
  | "mws", [extra, ctorS, aS, bS, base, arg] => do
    let e ← extra.toNat?
    pure (twoSubsRun .copy e (parseSpecs ctorS) (parseSpecs aS) (parseSpecs bS) base arg)
  | "mwx", [form, extra, ctorS, aS, bS, base, arg] => do
    let e ← extra.toNat?
    let fm ← if form == "alias" then some AppendForm.alias else if form == "copy" then some AppendForm.copy else none
    pure (twoSubsRun fm e (parseSpecs ctorS) (parseSpecs aS) (parseSpecs bS) base arg)
  | "mwp", [chainS, ctorS, addedS, base, arg] =>
    let names := parseChain chainS
    let chain : List (List (Op MwA MwR)) :=
      names.zipIdx.map (fun (level, lv) => level.map (fun n => (n, baseFn base (n ++ toString lv))))
    let c := parseSpecs ctorS
    let pm := (genProcessor chain (specMws 0 c)).addAll (specMws c.length (parseSpecs addedS))
    let keys := sortStrs (names.flatten.eraseDups)
    let outs := keys.map (fun k =>
      match pm.invoke k arg with
      | some out => k ++ "=" ++ (showRun out).replace " " "~"
      | none => k ++ "=failed")
    let unk := match pm.invoke "zz" arg with
      | none => "zz=unknown"
      | some _ => "zz=handled"
    some ("ok " ++ " ".intercalate (outs ++ [unk]))
  | "mwc", [g, k, r, specs, base, _prefix] => do
    let g ← g.toNat?
    let k ← k.toNat?
    let r ← r.toNat?
    -- the model is stateless: every one of the concurrent calls has the sequential
    -- trace of its own argument (written "@")
    let m := newMethod (baseFn base "") (specMws 0 (parseSpecs specs))
    pure s!"ok calls={g * k * r} uniform {showRun (m.invoke "@")}"
  | "mwv", [site, aS, rS, errCode, s1, s2] =>
    some ((stepMwv site aS rS errCode s1 s2).getD "bad-op")
  | "mwl", [extra, ctorS, base, arg, script] =>
    match extra.toNat? with
    | none => some "bad-op"
    | some e =>
      let c := parseSpecs ctorS
      let filler : List (Middleware MwA MwR) := List.replicate e (wrap 999 id id)
      let s0 : Life MwA MwR := { arr := specMws 0 c ++ filler, k := c.length, objs := [] }
      match runLife base arg (script.splitOn "+") 0 s0 [] with
      | none => some "bad-op"
      | some [] => some "ok ."
      | some outs => some ("ok " ++ " | ".intercalate outs)
  | "wiring", [what] =>
    -- the model's wiring functions on symbolic lists
    let render (l : List String) := "-then-".intercalate l
    match what with
    | "client" => some (render (clientWiring ["ctor"] ["provider"]))
    | "publisher" => some (render (publisherWiring ["ctor"] ["provider"]))
    | "subscriber" => some (render (subscriberWiring ["ctor"] ["provider"]))
    | "processor" => some (render (processorWiring ["ctor"]))
    | "subscriber-list" => some "stored-list"
    -- the form for which `c16_subscriber_list_stable` holds
    | "subscriber-append" => some "copy"
    | "newmethod-sites" => some "client,processor,publisher,subscriber accounted=true"
    | _ => some "bad-op"
  | _, _ => none

end Driver
