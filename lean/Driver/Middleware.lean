/-
Driver ops of C16 (harness/rt/middleware.go): tracing middleware over string
arguments and (string, error) results, run through the model of NewMethod /
AddMiddleware / the generated wiring / the processor map.
-/
import Driver.Util
import FV.Model.Middleware

namespace Driver
open FV FV.Mw

abbrev MwA := String
abbrev MwR := String × Option String

/-- One middleware's behaviour from its spec letters (see c16Pre/c16Post in the harness). -/
def specW (label : Nat) (spec : String) : W MwA MwR :=
  { pre := fun s => if spec.contains 'a' then s ++ s!"a{label}" else s,
    post := fun r =>
      let res := if spec.contains 'r' then r.1 ++ s!"r{label}" else r.1
      let err :=
        if spec.contains 'c' then none
        else if spec.contains 's' then some s!"E{label}"
        else if spec.contains 't' then r.2.map (· ++ s!"t{label}")
        else r.2
      (res, err) }

def specWs (k : Nat) (specs : List String) : List (W MwA MwR) :=
  specs.zipIdx.map (fun (s, i) => specW (k + i) s)

/-- The real middleware list for `specs`, labelled from `k`. -/
def specMws (k : Nat) (specs : List String) : List (Middleware MwA MwR) :=
  wrapsFrom k (specWs k specs)

def parseSpecs (s : String) : List String :=
  if s == "." || s == "" then [] else s.splitOn ","

/-- The proxied function: `k` succeeds, `f` returns the error "B"; `mark` names it. -/
def baseFn (mode : String) (mark : String) : MwA → MwR :=
  fun s => (s ++ "|" ++ mark, if mode == "f" then some "B" else none)

def showErr : Option String → String
  | none => "-"
  | some e => e

def showEv : Ev MwA MwR → String
  | .enter i a => s!"e{i}:{a}"
  | .base a => s!"b:{a}"
  | .exit i r => s!"x{i}:{r.1}/{showErr r.2}"

def showRun (out : MwR × List (Ev MwA MwR)) : String :=
  let t := ";".intercalate (out.2.map showEv)
  (if t == "" then "." else t) ++ " R=" ++ out.1.1 ++ "/" ++ showErr out.1.2

/-- Insertion sort on strings (Go's sort.Strings on ASCII names). -/
def insertStr (s : String) : List String → List String
  | [] => [s]
  | x :: t => if s < x then s :: x :: t else x :: insertStr s t

def sortStrs (l : List String) : List String := l.foldr insertStr []

def parseChain (s : String) : List (List String) :=
  (s.splitOn "/").map parseSpecs

def twoSubsRun (form : AppendForm) (extra : Nat) (ctorS aS bS : List String) (base arg : String) : String :=
  let ctor := specMws 0 ctorS
  let filler : List (Middleware MwA MwR) := List.replicate extra (wrap 999 id id)
  let l := twoSubscribers form (ctor ++ filler) ctorS.length (specMws ctorS.length aS) (specMws 100 bS)
  "ok " ++ showRun ((newMethod (baseFn base "") l).invoke arg)

def stepMiddleware (op : String) (args : List String) : Option String :=
  match op, args with
  | "mwi", [mset, name, specs, added, reps, base, arg] => do
    let n ← reps.toNat?
    let name := if name == "-" then "" else name
    match nameOutcome (parseSpecs mset) name with
    | .panicIndex => pure "panic:index"
    | .panicNoSuchMethod => pure "panic:nosuchmethod"
    | .ok =>
      let sp := parseSpecs specs
      let m := (newMethod (baseFn base "") (specMws 0 sp)).addAll (specMws sp.length (parseSpecs added))
      pure ("ok " ++ " | ".intercalate ((List.range n).map fun _ => showRun (m.invoke arg)))
  | "mww", [site, ctorS, provS, base, arg] =>
    let c := parseSpecs ctorS
    let ctor := specMws 0 c
    let prov := specMws c.length (parseSpecs provS)
    let f := baseFn base ""
    match site with
    | "client" => some ("ok " ++ showRun ((newMethod f (clientWiring ctor prov)).invoke arg))
    | "publisher" => some ("ok " ++ showRun ((newMethod f (publisherWiring ctor prov)).invoke arg))
    | "subscriber" => some ("ok " ++ showRun ((genSubscribe f ctor prov).invoke arg))
    | _ => some "bad-op"
  | "mws", [extra, ctorS, aS, bS, base, arg] => do
    let e ← extra.toNat?
    pure (twoSubsRun .copy e (parseSpecs ctorS) (parseSpecs aS) (parseSpecs bS) base arg)
  | "mwx", [form, extra, ctorS, aS, bS, base, arg] => do
    let e ← extra.toNat?
    let fm ← if form == "alias" then some AppendForm.alias else if form == "copy" then some AppendForm.copy else none
    pure (twoSubsRun fm e (parseSpecs ctorS) (parseSpecs aS) (parseSpecs bS) base arg)
  | "mwp", [chainS, ctorS, addedS, base, arg] =>
    let names := parseChain chainS
    let chain : List (List (Op MwA MwR)) :=
      names.zipIdx.map (fun (level, lv) => level.map (fun n => (n, baseFn base (n ++ toString lv))))
    let c := parseSpecs ctorS
    let pm := (genProcessor chain (specMws 0 c)).addAll (specMws c.length (parseSpecs addedS))
    let keys := sortStrs (names.flatten.eraseDups)
    let outs := keys.map (fun k =>
      match pm.invoke k arg with
      | some out => k ++ "=" ++ (showRun out).replace " " "~"
      | none => k ++ "=failed")
    let unk := match pm.invoke "zz" arg with
      | none => "zz=unknown"
      | some _ => "zz=handled"
    some ("ok " ++ " ".intercalate (outs ++ [unk]))
  | "mwc", [g, k, r, specs, base, _prefix] => do
    let g ← g.toNat?
    let k ← k.toNat?
    let r ← r.toNat?
    -- the model is stateless: every one of the concurrent calls has the sequential
    -- trace of its own argument (written "@")
    let m := newMethod (baseFn base "") (specMws 0 (parseSpecs specs))
    pure s!"ok calls={g * k * r} uniform {showRun (m.invoke "@")}"
  | "wiring", [what] =>
    -- the model's wiring functions on symbolic lists
    let render (l : List String) := "-then-".intercalate l
    match what with
    | "client" => some (render (clientWiring ["ctor"] ["provider"]))
    | "publisher" => some (render (publisherWiring ["ctor"] ["provider"]))
    | "subscriber" => some (render (subscriberWiring ["ctor"] ["provider"]))
    | "processor" => some (render (processorWiring ["ctor"]))
    | "subscriber-list" => some "stored-list"
    -- the form for which `c16_subscriber_list_stable` holds
    | "subscriber-append" => some "copy"
    | "newmethod-sites" => some "client,processor,publisher,subscriber accounted=true"
    | _ => some "bad-op"
  | _, _ => none

end Driver
