import FV.Basic
import FV.Model.Headers
import FV.Model.Registry0
import FV.Spec.V0Layout
import FV.Model.Receivers
