/-
C17 — Op ids are unique and FContexts are safe to share and clone.

  "Under any concurrent use, every FContext created, cloned or received in a
  process carries an op id different from every other one, concurrent header
  reads and writes on one FContext never corrupt it, and a clone is fully
  independent: it starts with equal headers, timeout and ephemeral properties
  (except for a new op id) and later changes on either side are invisible to
  the other."

Model: FV/Model/ContextHeap.lean — a process-wide uint64 counter and an explicit
heap of maps; a context is three references; `Clone` and the accessors allocate.
A history is ANY list of operations (`run`), i.e. any interleaving of the
operations of any number of goroutines, each operation atomic. Atomicity is what
`c.mu` provides; it is an assumption of these theorems, checked on the current
source by the lock census and exercised by the concurrent stress of the harness
(harness/rt/contextheap.go). Data-race freedom in the sense of the Go memory
model is NOT proved here (partial, see DESIGN.md §7 C17).

Independence is proved from separation of references (`Owns`, `Apart`, `RInv` in
FV/Proofs/ContextHeap.lean), not from the functional nature of the model: the
model CAN express aliasing, and one alias really exists in the code and in the
model — contexts read from one FProtocol share that protocol's ephemeral map
(`c17_received_share_protocol_eph`).
-/
import FV.Model.ContextHeap
import FV.Proofs.ContextHeap
import FV.Generated.Locks

namespace FV.C17
open FV FV.CH

/-- Uniqueness: for EVERY history with fewer than 2^64 creations — whatever value the
uint64 counter starts from, wrap-around included — the op ids observed on the contexts
produced by NewFContext / Clone / ReadRequestHeader are pairwise distinct. -/
theorem c17_unique (start : Nat) (ops : List Op) (h : creations ops < M64) :
    (createdIds (run (State.init start) ops).2).Nodup := by
  obtain ⟨k, hk, hids⟩ := createdIds_run ops (State.init start)
  rw [hids]
  exact idsFrom_nodup _ k (by omega)

/-- Right after `Clone`: the original reads as before; the clone's request headers are the
original's with `_opid` set to the fresh id (so equal at every other name), response
headers are equal, and so is the timeout (it lives in `_timeout`); ephemeral properties are
equal for `FContextImpl.Clone` and EMPTY for the generic package-level `Clone` of a foreign
FContext (`g = true`: that branch has no access to them) — stated as the code is. -/
theorem c17_clone_equal (s : State) (c : Nat) (g : Bool) (x : Ctx) (h : WF s) (hc : s.ctxs[c]? = some x) :
    ∃ vo vc, view s c = some vo ∧ view (step s (.clone c g)).1 c = some vo ∧
      view (step s (.clone c g)).1 s.ctxs.length = some vc ∧
      vc.req = vo.req.set opIdHeader (dec s.bump) ∧
      vc.req.get? opIdHeader = some (dec s.bump) ∧
      (∀ k, k ≠ opIdHeader → vc.req.get? k = vo.req.get? k) ∧
      vc.resp = vo.resp ∧ vc.eph = (if g then [] else vo.eph) ∧ timeoutOf vc.req = timeoutOf vo.req := by
  obtain ⟨h1, h2, h3, h4, h5⟩ := clone_step s c g x hc
  refine ⟨viewOf s.heap x, ⟨(hget s.heap x.req).set opIdHeader (dec s.bump), hget s.heap x.resp, if g then [] else hget s.heap x.eph⟩,
    ?_, ?_, ?_, rfl, get?_set_self _ _ _, ?_, rfl, rfl, ?_⟩
  · simp [view, hc]
  · have : view (step s (.clone c g)).1 c = view s c := by
      apply view_eq_of s _ c x hc (step_ctxs_old s _ c x hc)
      intro r hr
      have := h.ctxs x (List.mem_of_getElem? hc) r hr
      rw [h2]; unfold hget; rw [List.getElem?_append_left this]
    rw [this]; simp [view, hc]
  · simp [view, h1, h2, viewOf, hget]
  · intro k hk; exact get?_set_ne _ _ _ _ hk
  · unfold timeoutOf
    rw [show (Hdrs.set (hget s.heap x.req) opIdHeader (dec s.bump)).get? timeoutHeader = (hget s.heap x.req).get? timeoutHeader from
      get?_set_ne _ _ _ _ (by decide)]
    rfl

/-- Independence, as an invariant over arbitrary op lists, from separation of references:
after a clone (index `s.ctxs.length`) of context `c`, (1) no sequence of operations that are
not aimed at the clone changes any read of the clone, and (2) no sequence of operations aimed
at the clone (or at no context: creations, reads, accessors, writes to returned maps)
changes any read of the original. `view` determines every read (`c17_reads_from_view`). -/
theorem c17_clone_independent (s : State) (h : RInv s) (c : Nat) (g : Bool) (x : Ctx) (hc : s.ctxs[c]? = some x) :
    (∀ ops, (∀ op ∈ ops, op.target ≠ some s.ctxs.length) →
      view (run (step s (.clone c g)).1 ops).1 s.ctxs.length = view (step s (.clone c g)).1 s.ctxs.length) ∧
    (∀ ops, (∀ op ∈ ops, op.target = none ∨ op.target = some s.ctxs.length) →
      view (run (step s (.clone c g)).1 ops).1 c = view (step s (.clone c g)).1 c) := by
  obtain ⟨h1, h2, h3, h4, h5⟩ := clone_step s c g x hc
  have wf1 : WF (step s (.clone c g)).1 := WF_step s _ h.wf
  have hj : (step s (.clone c g)).1.ctxs[s.ctxs.length]? = some ⟨s.heap.length, s.heap.length + 1, s.heap.length + 2⟩ := by
    simp [h1]
  have hc1 := step_ctxs_old s (.clone c g) c x hc
  constructor
  · intro ops hops
    apply view_eq_of _ _ _ _ hj (run_ctxs_old ops _ _ _ hj)
    intro r hr
    exact (owned_frame_run ops _ _ r wf1 (clone_owns s c g x h hc r hr) hops).1
  · intro ops hops
    apply view_eq_of _ _ _ _ hc1 (run_ctxs_old ops _ _ _ hc1)
    intro r hr
    have hlt := h.wf.ctxs x (List.mem_of_getElem? hc) r hr
    apply apart_frame_run ops _ s.ctxs.length r _ hops
    constructor
    · rw [h2]; simp; omega
    · rw [h3]; intro hm; exact h.retsCtx r hm x (List.mem_of_getElem? hc) hr
    · exact ⟨_, hj⟩
    · intro c2 h2'; rw [hj] at h2'; cases h2'
      simp only [Ctx.refs, List.mem_cons, List.not_mem_nil, or_false]; omega

/-- Every read of a context is a function of its view (so "the view is unchanged" means
"every read returns what it returned before"). -/
theorem c17_reads_from_view (s : State) (c : Nat) (q : Query) (w : Which) :
    (step s (.read c q)).2 = (match view s c with | none => Obs.bad | some v => query v q) ∧
    (step s (.get c w)).2 = (match view s c with | none => Obs.bad | some v => Obs.map (v.sel w)) := by
  constructor <;> simp only [step, effect] <;> split <;> simp_all

theorem c17_accessors_copy (s : State) (h : RInv s) (c : Nat) (w : Which) (v : View) (hv : view s c = some v) :
    -- the caller gets the content of the context's map ...
    (step s (.get c w)).2 = .map (v.sel w) ∧
    -- ... in a new map: held by no context and no protocol, distinct from every map returned before
    (step s (.get c w)).1.rets = s.rets ++ [s.heap.length] ∧
    hget (step s (.get c w)).1.heap s.heap.length = v.sel w ∧
    (∀ c' ∈ (step s (.get c w)).1.ctxs, s.heap.length ∉ c'.refs) ∧
    s.heap.length ∉ (step s (.get c w)).1.protos ∧ s.heap.length ∉ s.rets ∧
    -- so no sequence of writes to returned maps (nor anything else not aimed at a context)
    -- changes what any context reads
    (∀ ops, (∀ op ∈ ops, op.target = none) → ∀ k vk, view (step s (.get c w)).1 k = some vk →
      view (run (step s (.get c w)).1 ops).1 k = some vk) := by
  have e : effect s (.get c w) =
      ({ nextOpId := s.nextOpId, allocs := [v.sel w], rets := [s.heap.length] }, .map (v.sel w)) := by
    simp [effect, hv]
  refine ⟨by simp [step, e], by simp [step, e, State.apply], by simp [step, e, State.apply, hget], ?_, ?_, ?_, ?_⟩
  · intro c' hc' hm
    simp only [step, e, State.apply, List.append_nil] at hc'
    have := h.wf.ctxs c' hc' _ hm; omega
  · simp only [step, e, State.apply, List.append_nil]
    intro hm; have := h.wf.protos _ hm; omega
  · intro hm; have := h.wf.rets _ hm; omega
  · intro ops hops k vk hk
    exact untargeted_frame_run ops _ (RInv_step s _ h) hops k vk hk

/-- Every state reached by a history satisfies the invariant the theorems assume. -/
theorem c17_reachable_inv (start : Nat) (ops : List Op) : RInv (run (State.init start) ops).1 :=
  RInv_run ops _ (RInv_init start)

/-- Uniqueness is about what `getOpID` will parse: every id handed out is the decimal
rendering of a number below 2^64 and `strconv.ParseUint` (model: `parseU64`) reads it back. -/
theorem c17_ids_parse (start : Nat) (ops : List Op) :
    ∀ o ∈ createdIds (run (State.init start) ops).2,
      ∃ n, n < M64 ∧ o = some (dec n) ∧ parseU64 (dec n) = some n := by
  obtain ⟨k, _, hids⟩ := createdIds_run ops (State.init start)
  rw [hids]
  intro o ho
  simp only [idsFrom, List.mem_map, List.mem_range] at ho
  obtain ⟨i, _, rfl⟩ := ho
  have hlt : ((State.init start).nextOpId + 1 + i) % M64 < M64 := Nat.mod_lt _ (by unfold M64; omega)
  exact ⟨_, hlt, rfl, parseU64_dec _ hlt⟩

/-- The independence theorem at history level: take ANY history, clone any context it
produced, continue with ANY operations. -/
theorem c17_clone_independent_history (start : Nat) (pre : List Op) (c : Nat) (g : Bool) (x : Ctx)
    (hc : (run (State.init start) pre).1.ctxs[c]? = some x) :
    let s := (run (State.init start) pre).1
    (∀ post, (∀ op ∈ post, op.target ≠ some s.ctxs.length) →
      view (run (step s (.clone c g)).1 post).1 s.ctxs.length = view (step s (.clone c g)).1 s.ctxs.length) ∧
    (∀ post, (∀ op ∈ post, op.target = none ∨ op.target = some s.ctxs.length) →
      view (run (step s (.clone c g)).1 post).1 c = view (step s (.clone c g)).1 c) :=
  c17_clone_independent _ (c17_reachable_inv start pre) c g x hc

/-- Non-interference: a context produced by `NewFContext` or `Clone` reads, after ANY
history, exactly what it would read had only the operations aimed at it been executed. -/
theorem c17_noninterference (s : State) (h : RInv s) (mk : Op)
    (hmk : (∃ cid, mk = .new cid) ∨ (∃ c g x, mk = .clone c g ∧ s.ctxs[c]? = some x)) (ops : List Op) :
    view (run (step s mk).1 ops).1 s.ctxs.length =
    view (run (step s mk).1 (ops.filter fun op => op.target = some s.ctxs.length)).1 s.ctxs.length := by
  have wf1 : WF (step s mk).1 := WF_step s mk h.wf
  have key : ∀ r : Nat, r ∈ (Ctx.mk s.heap.length (s.heap.length + 1) (s.heap.length + 2)).refs →
      Owns (step s mk).1 s.ctxs.length r ∧
      (step s mk).1.ctxs[s.ctxs.length]? = some ⟨s.heap.length, s.heap.length + 1, s.heap.length + 2⟩ := by
    intro r hr
    rcases hmk with ⟨cid, rfl⟩ | ⟨c, g, x, rfl, hc⟩
    · exact new_owns s cid h.wf r hr
    · refine ⟨clone_owns s c g x h hc r hr, ?_⟩
      rw [(clone_step s c g x hc).1]; simp
  have hj := (key s.heap.length (by simp [Ctx.refs])).2
  have ag : AgreeOn (step s mk).1 (step s mk).1 s.ctxs.length ⟨s.heap.length, s.heap.length + 1, s.heap.length + 2⟩ :=
    { wfa := wf1, wfb := wf1, ca := hj, cb := hj, oa := fun r hr => (key r hr).1, ob := fun r hr => (key r hr).1
      same := fun _ _ => rfl }
  exact (AgreeOn_run ops _ _ _ _ ag).view_eq

def k1 : Bytes := [107]
def v1 : Bytes := [118]

/-- The alias that does exist (protocol.go: `ctx.ephemeralProperties = f.ephemeralProperties`):
two contexts read from the same FProtocol share the ephemeral map — a property added
through the second is read through the first. Independence is a theorem about clones
(and about created contexts), not about these. -/
theorem c17_received_share_protocol_eph :
    (run (State.init 0) [.newProto, .fromRequest 0 [(opIdHeader, [49])], .fromRequest 0 [(opIdHeader, [50])],
      .add 1 .eph k1 v1, .read 0 (.header .eph k1)]).2.getLast? = some (.val (some v1)) := by
  decide

/-! Non-vacuity. -/

-- a history with creations of all three kinds satisfies the hypothesis of `c17_unique`
example : creations [.newProto, .new [99], .clone 0 false, .fromRequest 0 [(opIdHeader, [49])], .add 1 .req k1 v1] < M64 := by
  decide

-- ... and really produces three contexts (so the list of ids is not empty)
example : (run (State.init 7) [.newProto, .new [99], .clone 0 false, .fromRequest 0 [(opIdHeader, [49])]]).1.ctxs.length = 3 := by
  decide

-- the hypotheses of `c17_clone_equal` / `c17_clone_independent` / `c17_accessors_copy` hold in a
-- state with a context that has headers of all three kinds
example : ∃ s x, RInv s ∧ s.ctxs[0]? = some x ∧ (hget s.heap x.eph).get? k1 = some v1 ∧
    (hget s.heap x.resp).get? k1 = some v1 :=
  ⟨(run (State.init 0) [.new [99], .add 0 .eph k1 v1, .add 0 .resp k1 v1, .get 0 .req]).1, ⟨0, 1, 2⟩,
    c17_reachable_inv 0 _, by decide, by decide, by decide⟩

-- a write to a map an accessor returned is a real write (seen by `retRead`) and the context does not see it
example : (run (State.init 0) [.new [99], .get 0 .req, .retSet 0 k1 v1, .retRead 0, .read 0 (.header .req k1)]).2.drop 3
    = [.map ((newReq [99] 1).set k1 v1), .val none] := by
  simp [run, step, effect, State.apply, State.init, view, viewOf, hget, State.bump, M64, query, View.sel, State.noop]
  simp [newReq, Hdrs.get?, k1, cidHeader, opIdHeader, timeoutHeader]

-- a mutation on the original after the clone is a real change of the original
example : (run (State.init 0) [.new [99], .clone 0 false, .add 0 .req k1 v1, .read 0 (.header .req k1),
    .read 1 (.header .req k1)]).2.drop 3 = [.val (some v1), .val none] := by
  decide

-- the generic package-level Clone (foreign FContext): fresh id like every other creation, request headers
-- kept, ephemeral properties EMPTY — next to FContextImpl.Clone, which copies them
example : creations [.new [99], .clone 0 true, .clone 1 true, .clone 2 false] < M64 := by decide
example : (run (State.init 0) [.new [99], .add 0 .eph k1 v1, .add 0 .req k1 v1, .clone 0 true, .clone 0 false,
    .read 1 (.header .eph k1), .read 2 (.header .eph k1), .read 1 (.header .req k1)]).2.drop 5
    = [.val none, .val (some v1), .val (some v1)] := by
  decide


/-- `getOpID` as a function of the request header map alone. -/
def opIdOf (m : AMap) : Obs := query ⟨m, [], []⟩ .opId

/-- Quiescent consistency of the accessors. In EVERY state reached by ANY interleaving of the
atomic operations, every derived accessor of a context is a function of the header maps the
copying accessors return at that moment: Timeout()/ToContext decode `_timeout` of
RequestHeaders(), CorrelationID() is `_cid`, getOpID parses `_opid`, the single-header getters
look up the same maps and the FProtocol write path serialises exactly them. (The model has no
second copy of any fact; the harness checks the same equalities on the real code after
concurrent mutators and readers of one context have finished — kind `quiescent`.) -/
theorem c17_accessors_agree_with_headers (start : Nat) (ops : List Op) (c : Nat) (mq mp me : AMap) :
    let s := (run (State.init start) ops).1
    (step s (.get c .req)).2 = .map mq → (step s (.get c .resp)).2 = .map mp → (step s (.get c .eph)).2 = .map me →
    (step s (.read c .timeout)).2 = .dur (timeoutOf mq) ∧
    (step s (.read c .toContext)).2 = .flag (decide (timeoutOf mq > 0)) ∧
    (step s (.read c .cid)).2 = .val (some ((mq.get? cidHeader).getD [])) ∧
    (step s (.read c .opId)).2 = opIdOf mq ∧
    (step s (.read c .wireReq)).2 = .map mq ∧ (step s (.read c .wireResp)).2 = .map mp ∧
    (∀ k, (step s (.read c (.header .req k))).2 = .val (mq.get? k)) ∧
    (∀ k, (step s (.read c (.header .resp k))).2 = .val (mp.get? k)) ∧
    (∀ k, (step s (.read c (.header .eph k))).2 = .val (me.get? k)) := by
  intro s hq hp he
  simp only [step, effect] at hq hp he ⊢
  cases hv : view s c with
  | none => simp [hv] at hq
  | some v =>
    simp only [hv, View.sel] at hq hp he ⊢
    cases hq; cases hp; cases he
    simp [query, View.sel, opIdOf]

/-- A clone taken in any state agrees with its source on every derived fact: timeout,
deadline, correlation id, every request header except `_opid`, every response header. -/
theorem c17_clone_agrees_with_source (s : State) (c : Nat) (g : Bool) (x : Ctx) (h : WF s)
    (hc : s.ctxs[c]? = some x) :
    let s1 := (step s (.clone c g)).1
    let j := s.ctxs.length
    (step s1 (.read j .timeout)).2 = (step s (.read c .timeout)).2 ∧
    (step s1 (.read j .toContext)).2 = (step s (.read c .toContext)).2 ∧
    (step s1 (.read j .cid)).2 = (step s (.read c .cid)).2 ∧
    (∀ k, k ≠ opIdHeader → (step s1 (.read j (.header .req k))).2 = (step s (.read c (.header .req k))).2) ∧
    (∀ k, (step s1 (.read j (.header .resp k))).2 = (step s (.read c (.header .resp k))).2) := by
  obtain ⟨vo, vc, h1, _, h3, _, _, h6, h7, _, h9⟩ := c17_clone_equal s c g x h hc
  intro s1 j
  have R1 : ∀ q, (step s1 (.read j q)).2 = query vc q := by
    intro q; rw [(c17_reads_from_view s1 j q .req).1, show view s1 j = some vc from h3]
  have R0 : ∀ q, (step s (.read c q)).2 = query vo q := by
    intro q; rw [(c17_reads_from_view s c q .req).1, h1]
  simp only [R1, R0, query, View.sel, h9, h7]
  refine ⟨trivial, trivial, ?_, ?_, ?_⟩
  · rw [h6 cidHeader (by decide)]
  · intro k hk; rw [h6 k hk]
  · intro k; trivial

/-- **Lock discipline behind the model's atomic steps** (FContext), decided by the kernel on facts
REGENERATED from lib/go's source on every check (harness/locks → FV/Generated/Locks.lean): no function
calls, while it holds one of these mutexes, anything that (transitively) acquires the same mutex, no
lexical re-lock, and every path out of a function releases what the function locked. This is what makes a
critical section ONE step of the model and rules out the self-deadlocks (a second RLock behind a queued
writer, SendError under SendReply's lock) and leaked locks that would wedge every later request. -/
theorem c17_lock_discipline :
    FV.Locks.ok [4] FV.Generated.Locks.mutexTags FV.Generated.Locks.facts = true := by decide +kernel

/-- **No mutex is copied** (regenerated from lib/go on every check): no method copies its receiver's struct BY
VALUE (`x := *c`) when that struct holds a mutex by value — a clone built from such a copy would start with
the original's mutex in whatever state a concurrent reader or writer left it. -/
theorem c17_no_lock_copied : FV.Generated.Locks.lockCopies = [] := by decide

/-- **Fields are written under their lock** (regenerated from lib/go on every check): no method writes a field
of a mutex-holding struct (FContext: the header maps and everything derived from them) while no mutex of that struct is write-held — by assignment, `++`, `delete` or an
atomic store — unless the site is one of the hand-classified set-up / single-owner sites of
`known/locks_unguarded_expected.txt`. The atomic-step models read and write such state in ONE critical section;
a value computed from a read under the lock and stored after it was released (a lazily filled cache) is a lost
update the models cannot exhibit and the race detector does not see. -/
theorem c17_fields_written_under_lock :
    FV.Locks.writesGuarded [4] FV.Generated.Locks.unguardedUnexpected = true := by decide +kernel

/-- **Locks held across calls are released by defer** (regenerated from lib/go on every check): no function calls
anything while it holds a mutex that only a hand-written `Unlock` releases, except the hand-classified callees that
cannot panic (`manual:` lines of `known/locks_unguarded_expected.txt`). The models release a mutex on EVERY exit of
a critical section, a panic included — the servers recover panics of user-supplied code and keep serving, so a
hand-released mutex would stay locked and every later request behind it would go unanswered. -/
theorem c17_locks_released_by_defer :
    FV.Locks.releasedByDefer [4] FV.Generated.Locks.manualUnexpected = true := by decide +kernel

end FV.C17
