/-
C10 — the parser represents every declaration exactly and accepts all Thrift.
(placeholder while the model is being built; replaced by the real statements)
-/
namespace FV.C10

/-- Thrift's enum numbering: explicit values as written, implicit = previous + 1 (first 0). -/
def thriftNumbers : Int → List (Option Int) → List Int
  | _, [] => []
  | prev, some v :: t => v :: thriftNumbers v t
  | prev, none :: t => (prev + 1) :: thriftNumbers (prev + 1) t

theorem c10_thrift_numbers_length (p : Int) (l : List (Option Int)) : (thriftNumbers p l).length = l.length := by
  induction l generalizing p with
  | nil => rfl
  | cons h t ih => cases h <;> simp [thriftNumbers, ih]

end FV.C10
