/-
C10 — the parser represents every declaration exactly and accepts all Thrift.

  "For every syntactically valid Thrift/Frugal IDL text, parsing succeeds and the resulting model
  contains exactly the declared includes, namespaces, typedefs, enums (with Thrift's implicit
  numbering), constants, structs, unions and exceptions (field ids, requiredness, types, defaults,
  annotations), services (extends, oneway, arguments, throws) and scopes (prefix, variables,
  operations), independent of comment, whitespace and separator style. Rendering a model to text
  and parsing it back yields the same model."

The objects: `FV.Generated.grammar` is `compiler/parser/grammar.peg` translated rule by rule on
every check (harness/pegx), `FV.Peg.parse` is pigeon's matching algorithm with explicit fuel,
`FV.Act` are the semantic actions written by hand from the Go code.  The theorems below are about
the REGENERATED grammar: an edit of grammar.peg re-checks them.

Covered by theorem (for all inputs of the stated shape, each with an explicit fuel bound):
  Letter, Digit, Identifier (`c10_identifier`); IntConstant and its value (`c10_int_literal`);
  the numbering loop of the Enum action (`c10_enum_numbering`);
  FieldType, BaseType, BaseTypeName, ContainerType, MapType, SetType, ListType, CppType (absent), WS,
  TypeAnnotations (absent): `c10_type_roundtrip_partial` — every annotation-free type, arbitrarily nested,
  in every white-space styling of its brackets, by induction over the type
  (`c10_type_roundtrip_canonical`, `c10_type_ws_invisible`);
  Whitespace, EOL, Comment, MultiLineComment, MultiLineCommentNoLineTerminator, SingleLineComment,
  SourceChar, DocString (absent), `_`, `__`: `c10_gap_texts` / `c10_gap_consumed` — every text made of
  white space, newlines, block comments, `//` and `#` comments is consumed exactly by the gap rule;
  `c10_type_comments_invisible` — such a text after a type does not change the value;
  the sequence `typ:FieldType _ name:Identifier` of Field / TypeDef / Const (`c10_roundtrip_partial`);
  the interpreter itself (`c10_peg_fuel_monotone`: a result obtained with some fuel is the result
  with any larger fuel, so the fuel is not part of the meaning).
  Reusable combinators for further rules are in Proofs/Peg.lean (`ParsesTo`, `FailsOn`, `SeqRun`,
  `ChoiceRun`, `StarRun`) and Proofs/PegGaps.lean (`IsGap`: gaps as abstract texts).
  Concrete instances evaluated by the kernel: an annotated nested type, the keyword-prefix finding
  (`c10_type_roundtrip_counterexample`).
Covered by correspondence only (harness suite c10: original model = real parser = this interpreter
on the regenerated grammar, whole files and fragments, every run): type annotations and comments
after a base/container type inside brackets, Literal, DoubleConstant, BoolConstant,
ConstValue/ConstList/ConstMap, TypeAnnotations/TypeAnnotation (present), Field as a whole (docstr, id,
modifier, default, separator), FieldList, StructLike/Struct/Exception/Union, Enum/EnumValue syntax,
TypeDef, Const, Namespace, Include, Function, FunctionType, Throws, Service, Scope, Prefix, Operation,
DocString (present), EOS, Statement, Grammar (the top-level round trip `parse (render m) = m` is the
stated goal and is NOT proved here; `c10_roundtrip_partial` names the largest multi-rule fragment proved).
Recorded findings (KNOWN_FINDINGS.txt) are outside every hypothesis: identifiers with a keyword
prefix in a keyword position, statements sharing a line, literals ending in a backslash, a comment
after `prefix`, Thrift constructs without a production.
-/
import FV.Model.Peg
import FV.Model.IdlSyntax
import FV.Model.IdlActions
import FV.Generated.Grammar
import FV.Proofs.Peg
import FV.Proofs.PegIdl
import FV.Proofs.PegGaps
import FV.Proofs.PegTypes
import FV.Proofs.PegComments

namespace FV.C10
open FV.Peg FV.Act FV.Syn FV.Generated FV.PegIdl

/-! ### enum numbering -/

/-- Thrift's rule, stated independently of the action: an explicit value is taken as written,
an implicit one is the previous value plus one (`prev = -1` before the first). -/
def thriftNumbers : Int → List (Option Int) → List Int
  | _, [] => []
  | _, some v :: t => v :: thriftNumbers v t
  | prev, none :: t => (prev + 1) :: thriftNumbers (prev + 1) t

theorem numberEnum_thrift (prev : Int) (vs : List RawEV) :
    (numberEnum (prev + 1) vs).map (·.num) = thriftNumbers prev (vs.map (·.value)) := by
  induction vs generalizing prev with
  | nil => rfl
  | cons v t ih =>
    cases hv : v.value with
    | none => simp [numberEnum, thriftNumbers, hv, ih]
    | some x => simp [numberEnum, thriftNumbers, hv, ih]

/-- The numbers the `Enum` action assigns are Thrift's, for every list of enum values (any mix of
explicit — also negative or decreasing — and implicit values); names, docs and annotations are
kept in order. Full strength since the repair of the action (commit 6543e6e in /repo). -/
theorem c10_enum_numbering (vs : List RawEV) :
    (numberEnum 0 vs).map (·.num) = thriftNumbers (-1) (vs.map (·.value)) ∧
    (numberEnum 0 vs).map (·.name) = vs.map (·.name) ∧
    (numberEnum 0 vs).map (·.doc) = vs.map (·.doc) ∧
    (numberEnum 0 vs).map (·.anns) = vs.map (·.anns) := by
  refine ⟨by simpa using numberEnum_thrift (-1) vs, ?_, ?_, ?_⟩ <;>
  · generalize (0 : Int) = n
    induction vs generalizing n with
    | nil => rfl
    | cons v t ih => simp [numberEnum, ih]

/-- The action as it was before the repair (`-1` = no explicit value, a counter that only grows). -/
def oldNumbers : Int → List Int → List Int
  | _, [] => []
  | next, v :: t =>
    let v' := if v < 0 then next else v
    v' :: oldNumbers (if v' ≥ next then v' + 1 else next) t

/-- Why the repair was needed: on `enum E {A=5,B=2,C,D=-3,F}` the old action gave 5,2,6,7,8 where
Thrift's rule gives 5,2,3,-3,-2 (replayed on the real parser: corpus/C10/c10-fixed-enum-numbering.lines). -/
theorem c10_enum_numbering_old_action_counterexample :
    oldNumbers 0 [5, 2, -1, -3, -1] = [5, 2, 6, 7, 8] ∧
    thriftNumbers (-1) [some 5, some 2, none, some (-3), none] = [5, 2, 3, -3, -2] := by
  decide

/-! ### the interpreter -/

/-- More fuel never changes a result that is `ok` or `fail`: if `parse` answers with fuel `f`, it
gives the same answer with every `f' ≥ f` (for every grammar, rule and input). -/
theorem c10_peg_fuel_monotone (g : Grammar) (rule : String) (inp : List Char) (f f' : Nat) (hle : f ≤ f')
    (h : parse f g rule inp ≠ .outOfFuel) : parse f' g rule inp = parse f g rule inp :=
  pExpr_mono_le g hle (.ref rule) inp h

/-! ### identifiers -/

/-- Identifier shape: a start character (letter or `_`) followed by part characters (letters, digits, `.`, `_`). -/
def IdentShape (s : List Char) : Prop :=
  ∃ c t, s = c :: t ∧ idStart c = true ∧ ∀ x ∈ t, idPart x = true

/-- The character classes are the expected ones. -/
theorem c10_ident_classes (c : Char) :
    (idStart c = (isLetter c || c == '_')) ∧ (idPart c = (isLetter c || isDigit c || c == '.' || c == '_')) := by
  constructor
  · simp only [idStart, letterC, clsMatches, inRanges, isLetter, List.contains_nil, Bool.false_or, Bool.or_false,
      Bool.false_eq_true, if_false]
    cases h1 : decide ('A' ≤ c) <;> cases h2 : decide (c ≤ 'Z') <;> cases h3 : decide ('a' ≤ c) <;> cases h4 : decide (c ≤ 'z') <;> simp
  · simp only [idPart, letterC, digitC, clsMatches, inRanges, isLetter, isDigit, List.contains_nil, Bool.false_or, Bool.or_false,
      Bool.false_eq_true, if_false, List.contains_cons, beq_iff_eq]
    cases h1 : decide ('A' ≤ c) <;> cases h2 : decide (c ≤ 'Z') <;> cases h3 : decide ('a' ≤ c) <;> cases h4 : decide (c ≤ 'z') <;>
      cases h5 : decide ('0' ≤ c) <;> cases h6 : decide (c ≤ '9') <;> cases h7 : (c == '.') <;> cases h8 : (c == '_') <;> simp

/-- For every identifier-shaped string `s`, followed by anything that does not start with an
identifier character, rule `Identifier` consumes exactly `s` and its action returns `s`
(fuel `|s| + 12` suffices). -/
theorem c10_identifier (s rest : List Char) (hs : IdentShape s) (hrest : StopsAt idPart rest)
    (F : Nat) (hF : s.length + 12 ≤ F) :
    ∃ t, parse F grammar "Identifier" (s ++ rest) = .ok t rest ∧ evIdent t = s := by
  obtain ⟨c, t, rfl, hc, ht⟩ := hs
  obtain ⟨tr, h1, _, h3⟩ := identifier_exact c t rest hc ht hrest F (by simp at hF; omega)
  exact ⟨tr, h1, h3⟩

/-! ### integer constants -/

/-- Digits read as a decimal number (Horner). -/
def decimalValue (ds : List Char) : Nat := digitsVal ds 0

/-- For every optional sign and non-empty digit string, followed by a non-digit, rule `IntConstant`
consumes exactly the text; the action (`strconv.ParseInt`) returns the signed decimal value when it
fits int64 and an error otherwise (fuel `|digits| + 10` suffices). -/
theorem c10_int_literal (sign : List Char) (hs : sign = [] ∨ sign = ['-'] ∨ sign = ['+'])
    (d : Char) (ds rest : List Char) (hd : digitC d = true) (hds : ∀ x ∈ ds, digitC x = true)
    (hrest : StopsAt digitC rest) (F : Nat) (hF : ds.length + 10 ≤ F) :
    ∃ t, parse F grammar "IntConstant" (sign ++ d :: ds ++ rest) = .ok t rest ∧
      tagOf t = "IntConstant1" ∧ textOf t = sign ++ d :: ds ∧
      (let n := decimalValue (d :: ds)
       if sign = ['-'] then
         (n ≤ 9223372036854775808 → actErr "IntConstant1" (textOf t) = false ∧ evInt t = -(n : Int)) ∧
         (9223372036854775808 < n → actErr "IntConstant1" (textOf t) = true)
       else
         (n ≤ 9223372036854775807 → actErr "IntConstant1" (textOf t) = false ∧ evInt t = (n : Int)) ∧
         (9223372036854775807 < n → actErr "IntConstant1" (textOf t) = true)) := by
  refine ⟨_, intconst_exact sign hs d ds rest hd hds hrest F hF, rfl, rfl, ?_⟩
  rcases hs with rfl | rfl | rfl
  · simp only [List.nil_append, textOf, decimalValue, actErr, evInt, parseInt_unsigned d ds hd, posInt]
    refine ⟨fun h => ?_, fun h => ?_⟩
    · simp [h]
    · have : ¬ digitsVal (d :: ds) 0 ≤ 9223372036854775807 := by omega
      simp [this]
  · simp only [List.cons_append, List.nil_append, textOf, decimalValue, actErr, evInt, parseInt_minus, negInt]
    refine ⟨fun h => ?_, fun h => ?_⟩
    · simp [h]
    · have : ¬ digitsVal (d :: ds) 0 ≤ 9223372036854775808 := by omega
      simp [this]
  · simp only [List.cons_append, List.nil_append, textOf, decimalValue, actErr, evInt, parseInt_plus, posInt]
    refine ⟨fun h => ?_, fun h => ?_⟩
    · simp [h]
    · have : ¬ digitsVal (d :: ds) 0 ≤ 9223372036854775807 := by omega
      simp [this]

/-! ### types -/

/-- Round trip of `FieldType` for EVERY type without annotations — base types, named types and
arbitrarily nested `list`/`set`/`map` — in every white-space styling of its brackets (`STy`: the
type plus the white space written after `<`, before `,`/`>` and after `,`): parsing the rendered
text, followed by any separator (`rest` does not start with an identifier character, `<`, `(`,
white space or a comment), consumes exactly the text, and the actions return the type (`erase`).
By induction over the type; fuel bound `cost s + 110`, where `cost` adds 30 per list/set, 40 per
map, the lengths of the names and twice the lengths of the white-space runs.
Hypothesis `Ok`: base names are the grammar's eight, named types are identifiers of which no type
keyword is a prefix (the negation of the recorded finding keyword-prefix-identifier; without it the
statement is false: `c10_type_roundtrip_counterexample`), the `w`s are white space.
PARTIAL — what is missing for the full statement "∀ Ty, ∀ style": (i) types carrying annotations
(`i32 (a = "b")`, rule TypeAnnotations present), (ii) comments after a base or container type inside
the brackets (`list<i32 /* c */>`: admitted by the `_` of BaseType / the container rules). Both are
covered by the correspondence of suite c10 only. -/
theorem c10_type_roundtrip_partial (s : STy) (hok : s.Ok) (rest : List Char) (hr : SepOk rest) (ht : TokHead rest)
    (F : Nat) (hF : s.cost + 110 ≤ F) :
    ∃ t, parse F grammar "FieldType" (s.render ++ rest) = .ok t rest ∧ evTy (tyFuel t) t = some s.erase := by
  obtain ⟨t, mid, h1, hmid, htx, hev⟩ := fieldType_styled s hok [] rest (IsGap.nil _) (by simpa using hr) hr.noParen ht
  have hm : mid = rest := by rcases hmid with h | h <;> simpa using h
  subst hm
  simp only [List.nil_append] at h1 htx
  refine ⟨t, h1 F (by simpa using hF), ?_⟩
  have hl : (textOf t).length = s.render.length := by rw [htx, consumed_append]
  have := hev ((textOf t).length + 1) (by rw [hl]; exact Nat.le_succ_of_le s.depth_le_render)
  simpa [tyFuel] using this

/-- Every annotation-free type has a styling (the canonical one, without white space), so the
round trip covers all of them. -/
theorem c10_type_roundtrip_canonical (ty : Ty) (hna : NoAnns ty) (hok : (STy.canon ty).Ok) (rest : List Char)
    (hr : SepOk rest) (ht : TokHead rest) (F : Nat) (hF : (STy.canon ty).cost + 110 ≤ F) :
    ∃ t, parse F grammar "FieldType" ((STy.canon ty).render ++ rest) = .ok t rest ∧ evTy (tyFuel t) t = some ty := by
  have := c10_type_roundtrip_partial (STy.canon ty) hok rest hr ht F hF
  rwa [STy.erase_canon ty hna] at this

/-- White space inside the brackets is invisible: two stylings of the same type parse to the same value. -/
theorem c10_type_ws_invisible (s1 s2 : STy) (h1 : s1.Ok) (h2 : s2.Ok) (he : s1.erase = s2.erase) (rest : List Char)
    (hr : SepOk rest) (ht : TokHead rest) (F : Nat) (hF1 : s1.cost + 110 ≤ F) (hF2 : s2.cost + 110 ≤ F) :
    ∃ t1 t2, parse F grammar "FieldType" (s1.render ++ rest) = .ok t1 rest ∧ parse F grammar "FieldType" (s2.render ++ rest) = .ok t2 rest ∧
      evTy (tyFuel t1) t1 = evTy (tyFuel t2) t2 := by
  obtain ⟨t1, p1, e1⟩ := c10_type_roundtrip_partial s1 h1 rest hr ht F hF1
  obtain ⟨t2, p2, e2⟩ := c10_type_roundtrip_partial s2 h2 rest hr ht F hF2
  exact ⟨t1, t2, p1, p2, by rw [e1, e2, he]⟩

/-- The hypotheses are satisfiable: `list< base.Item>` before `)`. -/
example : (STy.list [' '] (.named "base.Item".toList) []).Ok ∧ SepOk [')'] ∧ TokHead [')'] := by
  refine ⟨⟨?_, ⟨⟨'b', "ase.Item".toList, rfl, by decide, by decide⟩, ?_⟩, ?_⟩, ?_, ?_⟩
  · intro c h; simp at h; subst h; decide
  · unfold NoKw; decide
  · intro c h; simp at h
  · intro c r h; simp at h; obtain ⟨rfl, _⟩ := h; decide
  · intro c r h; simp at h; obtain ⟨rfl, _⟩ := h; decide

/-! ### white space and comments -/

/-- Every such text is consumed item by item by the repetition of the gap rule, whatever follows. -/
theorem c10_gap_texts : (∀ g, UGapText g → IsGap uBody g) ∧ (∀ g, UUGapText g → IsGap uuBody g) :=
  ⟨fun _ h => h.isGap, fun _ h => h.isGap⟩

/-- Rules `_` and `__` consume exactly such a text when a token follows (a character that starts
no gap item: not white space, newline, `/`, `#`) or the input ends; fuel `2·|g| + 70`. -/
theorem c10_gap_consumed (g next : List Char) (hn : TokHead next) (F : Nat) (hF : 2 * g.length + 70 ≤ F) :
    (UGapText g → ∃ ts, parse F grammar "_" (g ++ next) = .ok (.seq ts) next) ∧
    (UUGapText g → ∃ ts, parse F grammar "__" (g ++ next) = .ok (.seq ts) next) := by
  constructor
  · intro h
    obtain ⟨ts, hp⟩ := u_consumes g next (c10_gap_texts.1 g h) hn
    exact ⟨ts, hp F hF⟩
  · intro h
    obtain ⟨ts, hp⟩ := uu_consumes g next (c10_gap_texts.2 g h) hn
    exact ⟨ts, hp F hF⟩

/-- Comments and white space after a type are invisible: for every well-formed type, every gap text
`g` of `_` (white space, one-line comments; separating the type from what follows when the type is a
name) and every following token, `FieldType` then `_` consume exactly type and gap, and the value is
the type whatever `g` is. (Inside the brackets: `c10_type_ws_invisible`.) -/
theorem c10_type_comments_invisible (s : STy) (hok : s.Ok) (g rest : List Char) (hg : UGapText g)
    (hsep : SepOk (g ++ rest)) (hr : NoParen rest) (ht : TokHead rest) (F : Nat) (hF : s.cost + 2 * g.length + 110 ≤ F) :
    ∃ t mid ts, parse F grammar "FieldType" (s.render ++ (g ++ rest)) = .ok t mid ∧
      parse F grammar "_" mid = .ok (.seq ts) rest ∧ evTy (tyFuel t) t = some s.erase := by
  have hgap := c10_gap_texts.1 g hg
  obtain ⟨t, mid, h1, hmid, htx, hev⟩ := fieldType_styled s hok g rest hgap hsep hr ht
  have hlen : s.depth ≤ (textOf t).length + 1 := by
    rw [htx]
    rcases hmid with rfl | rfl
    · rw [consumed_append]; exact Nat.le_succ_of_le s.depth_le_render
    · rw [← List.append_assoc, consumed_append, List.length_append]
      exact Nat.le_trans s.depth_le_render (by omega)
  have hval : evTy (tyFuel t) t = some s.erase := by simpa [tyFuel] using hev _ hlen
  rcases hmid with rfl | rfl
  · obtain ⟨ts, hu⟩ := u_consumes g rest hgap ht
    exact ⟨t, _, ts, h1 F hF, hu F (by omega), hval⟩
  · obtain ⟨ts, hu⟩ := u_consumes [] mid (IsGap.nil _) ht
    have hu' := hu F (by simp; omega)
    simp only [List.nil_append] at hu'
    exact ⟨t, _, ts, h1 F hF, hu', hval⟩

/-! ### several rules in sequence -/

theorem idStart_tok {c : Char} (h : idStart c = true) : tokC c = true ∧ c ≠ '(' := by
  have hw := idPart_not_ws (idStart_idPart h)
  refine ⟨?_, ?_⟩
  · simp only [tokC, hw, Bool.false_or, Bool.not_eq_true', Bool.or_eq_false_iff, beq_eq_false_iff_ne]
    refine ⟨⟨?_, ?_⟩, ?_⟩ <;> (intro e; subst e; revert h; decide)
  · intro e; subst e; revert h; decide

/-- The fragment `typ:FieldType _ name:Identifier` shared by the rules Field, TypeDef and Const:
for every well-formed type, every separating gap text (white space, one-line comments) and every
identifier-shaped name followed by a non-identifier character, the three rules in sequence consume
exactly type, gap and name and return the type and the name (fuel `cost + 2·|gap| + |name| + 110`).
PARTIAL with respect to the whole-file round trip `parse (render m) = m`, which is the stated goal:
the rules covered by theorem / by correspondence only are listed in the header of this file. -/
theorem c10_roundtrip_partial (s : STy) (hok : s.Ok) (g : List Char) (hg : UGapText g) (name rest : List Char)
    (hname : IdentShape name) (hrest : StopsAt idPart rest) (hsep : SepOk (g ++ (name ++ rest)))
    (F : Nat) (hF : s.cost + 2 * g.length + name.length + 110 ≤ F) :
    ∃ t mid ts tn, parse F grammar "FieldType" (s.render ++ (g ++ (name ++ rest))) = .ok t mid ∧
      parse F grammar "_" mid = .ok (.seq ts) (name ++ rest) ∧
      parse F grammar "Identifier" (name ++ rest) = .ok tn rest ∧
      evTy (tyFuel t) t = some s.erase ∧ evIdent tn = name := by
  obtain ⟨c, tl, rfl, hc, htl⟩ := hname
  have hnp : NoParen (c :: tl ++ rest) := by
    intro c' r' e; simp only [List.cons_append, List.cons.injEq] at e; rw [← e.1]; exact (idStart_tok hc).2
  have htk : TokHead (c :: tl ++ rest) := by
    intro c' r' e; simp only [List.cons_append, List.cons.injEq] at e; rw [← e.1]; exact (idStart_tok hc).1
  obtain ⟨t, mid, ts, h1, h2, h3⟩ := c10_type_comments_invisible s hok g (c :: tl ++ rest) hg hsep hnp htk F (by omega)
  obtain ⟨tn, h4, h5⟩ := c10_identifier (c :: tl) rest ⟨c, tl, rfl, hc, htl⟩ hrest F (by simp at hF ⊢; omega)
  exact ⟨t, mid, ts, tn, h1, h2, h4, h3, h5⟩

/-! ### types: concrete instances evaluated by the kernel -/

/-- `FieldType` on `inp` yields exactly `ty` and leaves `rest` (decidable, evaluated with fuel `fuel`). -/
def tyParses (fuel : Nat) (inp : List Char) (ty : Ty) (rest : List Char) : Bool :=
  match parse fuel grammar "FieldType" inp with
  | .ok t r => decide (r = rest) && decide (evTy (tyFuel t) t = some ty)
  | _ => false

set_option maxRecDepth 100000 in
/-- The keyword-prefix finding on the model: a type called `stringy` is read as the base type
`string`, leaving `y` (known finding keyword-prefix-identifier; witness known/c10_keyword_prefix.frugal);
so the round trip needs the hypothesis that excludes such names. -/
theorem c10_type_roundtrip_counterexample :
    tyParses 60 "stringy".toList (.base "string".toList []) ['y'] = true ∧
    tyParses 60 "stringy".toList (.named "stringy".toList) [] = false := by
  decide

set_option maxRecDepth 100000 in
/-- Nested containers, white space inside the brackets and an annotated base type (one instance). -/
theorem c10_type_nested_example :
    tyParses 400 "map< string ,list<set<base.Item>>>".toList
      (.map (.base "string".toList []) (.list (.set (.named "base.Item".toList) []) []) []) [] = true := by
  decide

end FV.C10
