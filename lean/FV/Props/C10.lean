/-
C10 — the parser represents every declaration exactly and accepts all Thrift.

  "For every syntactically valid Thrift/Frugal IDL text, parsing succeeds and the resulting model
  contains exactly the declared includes, namespaces, typedefs, enums (with Thrift's implicit
  numbering), constants, structs, unions and exceptions (field ids, requiredness, types, defaults,
  annotations), services (extends, oneway, arguments, throws) and scopes (prefix, variables,
  operations), independent of comment, whitespace and separator style. Rendering a model to text
  and parsing it back yields the same model."

The objects: `FV.Generated.grammar` is `compiler/parser/grammar.peg` translated rule by rule on
every check (harness/pegx), `FV.Peg.parse` is pigeon's matching algorithm with explicit fuel,
`FV.Act` are the semantic actions written by hand from the Go code.  The theorems below are about
the REGENERATED grammar: an edit of grammar.peg re-checks them.

Covered by theorem (for all inputs of the stated shape, each with an explicit fuel bound):
  Letter, Digit, Identifier (`c10_identifier`); IntConstant and its value (`c10_int_literal`);
  the numbering loop of the Enum action (`c10_enum_numbering`);
  FieldType, BaseType, BaseTypeName, ContainerType, MapType, SetType, ListType, CppType (absent), WS,
  TypeAnnotations (absent): `c10_type_roundtrip_partial` — every annotation-free type, arbitrarily nested,
  in every white-space styling of its brackets, by induction over the type
  (`c10_type_roundtrip_canonical`, `c10_type_ws_invisible`);
  Whitespace, EOL, Comment, MultiLineComment, MultiLineCommentNoLineTerminator, SingleLineComment,
  SourceChar, DocString (absent), `_`, `__`: `c10_gap_texts` / `c10_gap_consumed` — every text made of
  white space, newlines, block comments, `//` and `#` comments is consumed exactly by the gap rule;
  `c10_type_comments_invisible` — such a text after a type does not change the value;
  EnumValue, the enum body `(EnumValue __)*` by induction over the list, Enum with the `;` form of EOS:
  `c10_enum_roundtrip` — syntax and Thrift numbering together, doc comments, `= integer`, separators,
  any gap texts; ListSeparator; DocString (present) with its lines (`docLines`);
  Field (doc, id, FieldModifier, type, name, integer default via ConstValue — Literal / BoolConstant /
  DoubleConstant shown to fail on an integer —, separators): `c10_field_roundtrip`;
  FieldList by induction over the list: `c10_fieldlist_roundtrip`;
  StructLike, Struct, Exception, Union (fields forced optional): `c10_struct_roundtrip`;
  Literal: exact consumption for both quote styles (`c10_literal_consumed`), value round trip for the
  double-quoted style with its escapes (`c10_string_literal_partial`, counterexample for the finding);
  include resolution and the parse cache of parser.go (`FV.Inc`): resolution is by cleaned path, same
  base names in different directories are distinct, a path-keyed cache is transparent / order-independent
  (`c10_include_by_path`, `c10_include_same_basename_distinct`, `c10_include_cache_transparent`, counterexample
  for a base-name key); tied by op c10prog over include graphs with per-edge origins;
  the sequence `typ:FieldType _ name:Identifier` of Field / TypeDef / Const (`c10_roundtrip_partial`);
  the interpreter itself (`c10_peg_fuel_monotone`: a result obtained with some fuel is the result
  with any larger fuel, so the fuel is not part of the meaning).
  Reusable combinators for further rules are in Proofs/Peg.lean (`ParsesTo`, `FailsOn`, `SeqRun`,
  `ChoiceRun`, `StarRun`), Proofs/PegGaps.lean (`IsGap`: gaps as abstract texts) and
  Proofs/PegTokens.lean (doc comments, integers, item tails, `SeqRun.append`).
  Concrete instances evaluated by the kernel: an annotated nested type, the keyword-prefix finding
  (`c10_type_roundtrip_counterexample`), a written enum and a written struct (non-vacuity).
Covered by correspondence only (harness suite c10: original model = real parser = this interpreter
on the regenerated grammar, whole files and fragments, every run): annotations everywhere
(TypeAnnotations/TypeAnnotation present) and comments after a base/container type inside brackets,
the VALUE of single-quoted literals (consumption is proved), DoubleConstant and BoolConstant values, ConstList/ConstMap, Identifier as a
constant value, defaults other than integers, TypeDef, Const, Namespace, Include, Function,
FunctionType, Throws, Service, Scope, Prefix, Operation, the newline and end-of-file forms of EOS,
Statement (doc comments of declarations), Grammar (the top-level round trip `parse (render m) = m` is
the stated goal and is NOT proved here; the declaration-level theorems above are its largest proved parts).
Recorded findings (KNOWN_FINDINGS.txt) are outside every hypothesis: identifiers with a keyword
prefix in a keyword position, statements sharing a line, literals ending in a backslash, a comment
after `prefix`, Thrift constructs without a production.
-/
import FV.Model.Peg
import FV.Model.IdlSyntax
import FV.Model.IdlActions
import FV.Generated.Grammar
import FV.Proofs.Peg
import FV.Proofs.PegIdl
import FV.Proofs.PegGaps
import FV.Proofs.PegTypes
import FV.Proofs.PegComments
import FV.Proofs.PegTokens
import FV.Proofs.PegEnums
import FV.Proofs.PegFields
import FV.Proofs.PegLiterals
import FV.Proofs.IdlIncludes

namespace FV.C10
open FV.Peg FV.Act FV.Syn FV.Generated FV.PegIdl

/-! ### enum numbering -/

/-- Thrift's rule, stated independently of the action: an explicit value is taken as written,
an implicit one is the previous value plus one (`prev = -1` before the first). -/
def thriftNumbers : Int → List (Option Int) → List Int
  | _, [] => []
  | _, some v :: t => v :: thriftNumbers v t
  | prev, none :: t => (prev + 1) :: thriftNumbers (prev + 1) t

theorem numberEnum_thrift (prev : Int) (vs : List RawEV) :
    (numberEnum (prev + 1) vs).map (·.num) = thriftNumbers prev (vs.map (·.value)) := by
  induction vs generalizing prev with
  | nil => rfl
  | cons v t ih =>
    cases hv : v.value with
    | none => simp [numberEnum, thriftNumbers, hv, ih]
    | some x => simp [numberEnum, thriftNumbers, hv, ih]

/-- The numbers the `Enum` action assigns are Thrift's, for every list of enum values (any mix of
explicit — also negative or decreasing — and implicit values); names, docs and annotations are
kept in order. Full strength since the repair of the action (commit 6543e6e in /repo). -/
theorem c10_enum_numbering (vs : List RawEV) :
    (numberEnum 0 vs).map (·.num) = thriftNumbers (-1) (vs.map (·.value)) ∧
    (numberEnum 0 vs).map (·.name) = vs.map (·.name) ∧
    (numberEnum 0 vs).map (·.doc) = vs.map (·.doc) ∧
    (numberEnum 0 vs).map (·.anns) = vs.map (·.anns) := by
  refine ⟨by simpa using numberEnum_thrift (-1) vs, ?_, ?_, ?_⟩ <;>
  · generalize (0 : Int) = n
    induction vs generalizing n with
    | nil => rfl
    | cons v t ih => simp [numberEnum, ih]

/-- The action as it was before the repair (`-1` = no explicit value, a counter that only grows). -/
def oldNumbers : Int → List Int → List Int
  | _, [] => []
  | next, v :: t =>
    let v' := if v < 0 then next else v
    v' :: oldNumbers (if v' ≥ next then v' + 1 else next) t

/-- Why the repair was needed: on `enum E {A=5,B=2,C,D=-3,F}` the old action gave 5,2,6,7,8 where
Thrift's rule gives 5,2,3,-3,-2 (replayed on the real parser: corpus/C10/c10-fixed-enum-numbering.lines). -/
theorem c10_enum_numbering_old_action_counterexample :
    oldNumbers 0 [5, 2, -1, -3, -1] = [5, 2, 6, 7, 8] ∧
    thriftNumbers (-1) [some 5, some 2, none, some (-3), none] = [5, 2, 3, -3, -2] := by
  decide

/-- Thrift's numbering over the values as the `EnumValue` action returns them (`prev = -1` before the first). -/
def thriftEnum : Int → List RawEV → List EnumValue
  | _, [] => []
  | prev, v :: t =>
    let n := match v.value with
      | some x => x
      | none => prev + 1
    { doc := v.doc, name := v.name, num := n, anns := v.anns } :: thriftEnum n t

theorem numberEnum_thriftEnum (prev : Int) (vs : List RawEV) : numberEnum (prev + 1) vs = thriftEnum prev vs := by
  induction vs generalizing prev with
  | nil => rfl
  | cons v t ih => cases hv : v.value <;> simp [numberEnum, thriftEnum, hv, ih]

/-- The enum a written enum denotes: its name, and its values numbered by Thrift's rule. -/
def enumOf (e : SEnum) : Syn.Enum :=
  { doc := none, name := e.c :: e.s, values := thriftEnum (-1) (e.items.map fun p => p.1.raw), anns := [] }

/-- Round trip of the `Enum` rule, syntax and numbering together: for every written enum —
`enum` name `{` values `}` `;` with any gap texts (white space, newlines, comments) between the
tokens, every value with or without doc comment, with or without `= integer` (any sign, any digits
that fit int64), with `,` `;` or no separator — parsing consumes exactly the text and the action
returns the same name and values with Thrift's numbers (fuel `cost + 30`; `cost` is linear in the text).
`Ok` asks that the gaps are gap texts, names are identifiers, and that what follows a value without a
separator is not something the value's own rule would take (`SEnumValue.End`).
Not covered (correspondence only): annotations on the enum and its values, the newline and
end-of-file forms of the statement end (`EOS`), a doc comment on the enum itself (rule Statement). -/
theorem c10_enum_roundtrip (e : SEnum) (rest : List Char) (hok : e.Ok rest) (F : Nat) (hF : e.cost + 30 ≤ F) :
    ∃ t, parse F grammar "Enum" (e.renderK rest) = .ok t rest ∧ evEnum t = enumOf e := by
  obtain ⟨t, hp, hev⟩ := enum_parses e rest hok
  refine ⟨t, hp F hF, ?_⟩
  rw [hev, enumOf]
  have := numberEnum_thriftEnum (-1) (e.items.map fun p => p.1.raw)
  have h0 : (-1 : Int) + 1 = 0 := by decide
  rw [h0] at this
  rw [this]

/-- Non-vacuity: `enum E {A, B=-3\n};` is a written enum the theorem applies to; its numbers are 0, -3. -/

def exV1 : SEnumValue := ⟨none, 'A', [], [], none, some ','⟩
def exV2 : SEnumValue := ⟨none, 'B', [], [], some ⟨[], ⟨['-'], '3', []⟩, []⟩, none⟩
def exEnum : SEnum := ⟨[' '], 'E', [], [' '], [], [(exV1, [' ']), (exV2, ['\n'])], [], []⟩

example : exEnum.renderK [] = "enum E {A, B=-3\n};".toList := by decide

example : exEnum.Ok [] := by
  refine ⟨.ws ' ' (by decide), by decide, by simp [exEnum], .ws ' ' (by decide), .nil, ?_, ?_, .nil, .nil, HeadP.nil⟩
  · exact TokHead.uustop (HeadP.cons (by decide))
  · refine ⟨⟨trivial, by decide, by simp [exV1], .nil, Or.inl rfl, trivial⟩, .ws ' ' (by decide), ⟨trivial, fun h => by cases h⟩,
      TokHead.uustop (HeadP.cons (by decide)), ?_⟩
    refine ⟨⟨trivial, by decide, by simp [exV2], .nil, trivial, .nil, ⟨Or.inr (Or.inl rfl), by decide, by simp [exV2], by decide⟩, .nil⟩, .newline,
      ⟨HeadP.cons (by decide), fun _ _ => HeadP.cons (by decide)⟩, TokHead.uustop (HeadP.cons (by decide)), trivial⟩

example : (enumOf exEnum).values.map (·.num) = [0, -3] := by decide

/-! ### fields and struct-like declarations -/

/-- Round trip of the `Field` rule: for every written field — optional doc comment, id (any sign and
digits that fit int64), gap, `:`, gap, optional `required`/`optional` with its gap, any well-formed
type (`c10_type_roundtrip_partial`'s class), a separating gap, the name, a gap of `__`, optionally
`=` gap integer gap, then `,` `;` or no separator — with any gap texts (white space, comments)
in the gap positions, parsing consumes exactly the text and the action returns the field (doc, id,
requiredness, name, type, default); fuel `cost + 30`, `cost` linear in the text.
`End` states what may follow a field without separator (nothing its own rule would take).
Not covered (correspondence only): annotations on the field, defaults other than integer literals. -/
theorem c10_field_roundtrip (f : SField) (hok : f.Ok) (rest : List Char) (hend : f.End rest) (F : Nat) (hF : f.cost + 30 ≤ F) :
    ∃ t, parse F grammar "Field" (f.renderK rest) = .ok t rest ∧ evField t = some f.erase := by
  obtain ⟨t, hp, _, hev⟩ := field_parses f hok rest hend
  exact ⟨t, hp F hF, hev⟩

/-- Round trip of `FieldList` (the body of structs, unions, exceptions, argument and throws lists) by
induction over the list: every list of written fields, each followed by a gap of `__`, up to a closer
that cannot start a field (`}` or `)`), gives the list of fields; fuel `2·cost + 10`. -/
theorem c10_fieldlist_roundtrip (items : List (SField × List Char)) (tail : List Char) (hok : FieldsOk items tail)
    (ht : NoFieldStart tail) (F : Nat) (hF : 2 * fieldsCost items + 10 ≤ F) :
    ∃ t, parse F grammar "FieldList" (fieldsK items tail) = .ok t tail ∧ evFields t = some (items.map fun p => p.1.erase) := by
  obtain ⟨t, hp, hev⟩ := fieldList_parses items tail hok ht
  exact ⟨t, hp F hF, hev⟩

/-- The three struct-like declarations. -/
inductive StructKind where
  | struct | exception | union

def StructKind.rule : StructKind → String
  | .struct => "Struct"
  | .exception => "Exception"
  | .union => "Union"

def StructKind.keyword : StructKind → List Char
  | .struct => "struct".toList
  | .exception => "exception".toList
  | .union => "union".toList

/-- What the `Grammar` action stores for the declaration: a union's fields are all optional. -/
def structOf (k : StructKind) (e : SStructLike) : Struct :=
  match k with
  | .union => { e.erase with fields := forceOptional e.erase.fields }
  | _ => e.erase

/-- The value the `Grammar` action computes from the statement's tree (`addStatement`, doc comment aside). -/
def evStructDecl (k : StructKind) (t : Tree) : Option Struct :=
  match k with
  | .union => (evStructLike (FV.Act.get t "st")).map fun c => { c with fields := forceOptional c.fields }
  | _ => evStructLike (FV.Act.get t "st")

/-- Round trip of `Struct` / `Exception` / `Union`: keyword, gap, name, gap, `{`, gap, fields, `}`,
gaps, `;` — for every written declaration the rule consumes exactly the text and the model gets the
name and the fields (for a union: every field optional, whatever was written); fuel `cost + 2·|gap| + 110`.
Not covered (correspondence only): annotations, the newline / end-of-file statement ends, the doc comment
of the declaration (rule Statement). -/
theorem c10_struct_roundtrip (k : StructKind) (ga : List Char) (hga : UGapText ga) (e : SStructLike) (rest : List Char)
    (hok : e.Ok rest) (F : Nat) (hF : e.cost + 2 * ga.length + 110 ≤ F) :
    ∃ t, parse F grammar k.rule (k.keyword ++ (ga ++ e.renderK rest)) = .ok t rest ∧ evStructDecl k t = some (structOf k e) := by
  cases k with
  | struct =>
    obtain ⟨t, hp, hev⟩ := structKw_parses "Struct" "Struct1" "struct".toList (by rfl) ga hga e rest hok
    exact ⟨t, hp F hF, by simpa [evStructDecl, structOf] using hev⟩
  | exception =>
    obtain ⟨t, hp, hev⟩ := structKw_parses "Exception" "Exception1" "exception".toList (by rfl) ga hga e rest hok
    exact ⟨t, hp F hF, by simpa [evStructDecl, structOf] using hev⟩
  | union =>
    obtain ⟨t, hp, hev⟩ := structKw_parses "Union" "Union1" "union".toList (by rfl) ga hga e rest hok
    exact ⟨t, hp F hF, by simp [evStructDecl, structOf, hev]⟩


/-- Non-vacuity: `struct S {\n 1: i32 a\n};` is a written struct the theorems apply to. -/
def exField : SField := ⟨none, ⟨[], '1', []⟩, [], [' '], none, .base "i32".toList, [' '], 'a', [], ['\n'], none, none⟩
def exStruct : SStructLike := ⟨'S', [], [' '], ['\n', ' '], [(exField, [])], [], []⟩

example : "struct".toList ++ ([' '] ++ exStruct.renderK []) = "struct S {\n 1: i32 a\n};".toList := by decide

theorem exField_ok : exField.Ok :=
  ⟨trivial, ⟨Or.inl rfl, by decide, by simp [exField], by decide⟩, .nil, .ws ' ' (by decide), ⟨by decide, by decide⟩, (by simp [exField, STy.Ok, baseNames]),
    .ws ' ' (by decide), by simp [exField], by decide, by simp [exField], .newline, trivial, trivial⟩

example : exStruct.Ok [] := by
  refine ⟨by decide, by simp [exStruct], .ws ' ' (by decide), .append .newline (.ws ' ' (by decide)), ?_, ?_, .nil, .nil, HeadP.nil⟩
  · exact TokHead.uustop (HeadP.cons (by decide))
  · refine ⟨exField_ok, .nil, ⟨HeadP.cons (by decide), fun _ => ⟨TokHead.uustop (HeadP.cons (by decide)), HeadP.cons (by decide), fun h => by simp [exField] at h⟩⟩,
      TokHead.uustop (HeadP.cons (by decide)), trivial⟩

/-! ### string literals -/

/-- The `Literal` rule, both quote styles: a written literal `q body q` whose body is scanned by
`(\\q / [^q])*` up to its end (`litBodyOk`: no bare `q`, and no final backslash that would pair with
the closing quote — the recorded finding literal-trailing-backslash is exactly the excluded class) is
consumed exactly, whatever follows, and the action gets its text (fuel `2·|body| + 20`). -/
theorem c10_literal_consumed (q : Char) (hq : IsQuote q) (body next : List Char) (hok : litBodyOk q body = true)
    (F : Nat) (hF : 2 * body.length + 20 ≤ F) :
    ∃ t, parse F grammar "Literal" (q :: body ++ q :: next) = .ok t next ∧ tagOf t = "Literal1" ∧ textOf t = q :: body ++ [q] := by
  obtain ⟨t, hp, h1, h2⟩ := literal_exact q hq body next hok
  exact ⟨t, hp F hF, h1, h2⟩

/-- Round trip of string values in the double-quoted style with the escapes `\\"` `\\\\` `\\n` `\\t` `\\r`:
for EVERY value (any characters) that does not end in a backslash, the rendered literal is consumed
exactly and the action (strconv.Unquote as modelled) returns the value, without error.
PARTIAL — missing for the full statement: the VALUE computed for the single-quoted style (the action's
two `strings.Replace` calls before Unquote); for that style only exact consumption is proved
(`c10_literal_consumed`), the values are covered by the correspondence of suite c10. -/
theorem c10_string_literal_partial (v next : List Char) (hv : endsBS v = false) (F : Nat) (hF : 2 * (renderDQ v).length + 20 ≤ F) :
    ∃ t, parse F grammar "Literal" ('"' :: renderDQ v ++ '"' :: next) = .ok t next ∧
      evLiteral t = v ∧ actErr "Literal1" (textOf t) = false := by
  obtain ⟨t, hp, _, htx⟩ := c10_literal_consumed '"' (Or.inl rfl) (renderDQ v) next (renderDQ_ok v hv).1 F hF
  have hl : literalValue (textOf t) = .ok v := by rw [htx]; exact literalValue_renderDQ v
  refine ⟨t, hp, ?_, ?_⟩
  · simp only [evLiteral, hl]
  · simp [actErr, hl]

/-- The recorded finding on the model: the body of `"a\\\\"` (value `a\\`) is not scanned to its end. -/
theorem c10_string_literal_counterexample : litBodyOk '"' (renderDQ ['a', '\\']) = false ∧ endsBS ['a', '\\'] = true := by
  decide

/-! ### includes: resolution by path, the parse cache -/

open FV.Inc in
/-- "The model contains exactly the declared includes": the meaning of a path is the file AT that
path (its origin is the path, its declarations are that file's), and per include edge the meaning
of exactly the path the edge resolves to (`filepath.Join` of the including file's directory and the
written path, cleaned) — for every file system, depth and include graph. -/
theorem c10_include_by_path {α : Type} (n : Nat) (fs : FS α) (p : Path) (d : Deep α) (h : deep n fs p = some d) :
    d.origin = p ∧ ∃ m nd subs, n = m + 1 ∧ fs.lookup p = some nd ∧ d.payload = nd.payload ∧
      subsWith (deep m fs) (dirOf p) nd.includes = some subs ∧ d = .node p nd.payload subs := by
  obtain ⟨m, nd, subs, hn, hl, hs, rfl⟩ := deep_node n fs p d h
  exact ⟨rfl, m, nd, subs, hn, hl, rfl, hs, rfl⟩

open FV.Inc in
/-- Two different paths — whatever their base names — resolve to their own files. -/
theorem c10_include_same_basename_distinct {α : Type} (n : Nat) (fs : FS α) (p1 p2 : Path) (d1 d2 : Deep α)
    (h1 : deep n fs p1 = some d1) (h2 : deep n fs p2 = some d2) :
    d1.origin = p1 ∧ d2.origin = p2 ∧ (∃ nd, fs.lookup p1 = some nd ∧ d1.payload = nd.payload) ∧
      (∃ nd, fs.lookup p2 = some nd ∧ d2.payload = nd.payload) := by
  obtain ⟨o1, _, nd1, _, _, l1, e1, _, _⟩ := c10_include_by_path n fs p1 d1 h1
  obtain ⟨o2, _, nd2, _, _, l2, e2, _, _⟩ := c10_include_by_path n fs p2 d2 h2
  exact ⟨o1, o2, ⟨nd1, l1, e1⟩, ⟨nd2, l2, e2⟩⟩

open FV.Inc in
/-- The parse cache is transparent when its key is injective on paths — in particular for the code's key,
the joined path itself: starting from ANY sound cache (any files visited before, in any order)
`parseFrugal` returns the meaning of the path; so the result does not depend on the visiting order,
and a file reached along two routes (a diamond) has the identical model. -/
theorem c10_include_cache_transparent {α : Type} (fs : FS α) (n : Nat) (c c' : Cache Path α) (p : Path) (d : Deep α)
    (hc : CacheOk id fs c) (h : deepC id n fs c p = some (c', d)) :
    CacheOk id fs c' ∧ ∃ m, deep m fs p = some d :=
  deepC_transparent id (fun _ _ h => h) fs n c p c' d hc h

namespace IncEx
open FV.Inc
/-- main -> a/x, b/y; each includes its own ./common.frugal (payload 1 resp. 2). -/
def fs : FS Nat := [
  (["main.frugal"], ⟨0, [("x", ["a", "x.frugal"]), ("y", ["b", "y.frugal"])]⟩),
  (["a", "x.frugal"], ⟨10, [("common", ["common.frugal"])]⟩),
  (["b", "y.frugal"], ⟨20, [("common", ["common.frugal"])]⟩),
  (["a", "common.frugal"], ⟨1, []⟩),
  (["b", "common.frugal"], ⟨2, []⟩)]
/-- The key of the seeded change C10-m2: the base name. -/
def baseKey (p : Path) : String := p.getLast?.getD ""
def yCommon (d : Option (Deep Nat)) : Option (Path × Nat) :=
  ((d.bind (·.sub? "y")).bind (·.sub? "common")).map fun c => (c.origin, c.payload)
end IncEx

/-- Why the key must be the path: with the cache keyed by base name, `y`'s `common` is the model of
`a/common.frugal` (origin and declarations of the wrong file); by path it is `b/common.frugal`. -/
theorem c10_include_cache_basename_counterexample :
    IncEx.yCommon ((FV.Inc.deepC IncEx.baseKey 5 IncEx.fs [] ["main.frugal"]).map (·.2)) = some (["a", "common.frugal"], 1) ∧
    IncEx.yCommon ((FV.Inc.deepC id 5 IncEx.fs [] ["main.frugal"]).map (·.2)) = some (["b", "common.frugal"], 2) ∧
    IncEx.yCommon (FV.Inc.deep 5 IncEx.fs ["main.frugal"]) = some (["b", "common.frugal"], 2) := by
  decide

/-! ### the interpreter -/

/-- More fuel never changes a result that is `ok` or `fail`: if `parse` answers with fuel `f`, it
gives the same answer with every `f' ≥ f` (for every grammar, rule and input). -/
theorem c10_peg_fuel_monotone (g : Grammar) (rule : String) (inp : List Char) (f f' : Nat) (hle : f ≤ f')
    (h : parse f g rule inp ≠ .outOfFuel) : parse f' g rule inp = parse f g rule inp :=
  pExpr_mono_le g hle (.ref rule) inp h

/-! ### identifiers -/

/-- Identifier shape: a start character (letter or `_`) followed by part characters (letters, digits, `.`, `_`). -/
def IdentShape (s : List Char) : Prop :=
  ∃ c t, s = c :: t ∧ idStart c = true ∧ ∀ x ∈ t, idPart x = true

/-- The character classes are the expected ones. -/
theorem c10_ident_classes (c : Char) :
    (idStart c = (isLetter c || c == '_')) ∧ (idPart c = (isLetter c || isDigit c || c == '.' || c == '_')) := by
  constructor
  · simp only [idStart, letterC, clsMatches, inRanges, isLetter, List.contains_nil, Bool.false_or, Bool.or_false,
      Bool.false_eq_true, if_false]
    cases h1 : decide ('A' ≤ c) <;> cases h2 : decide (c ≤ 'Z') <;> cases h3 : decide ('a' ≤ c) <;> cases h4 : decide (c ≤ 'z') <;> simp
  · simp only [idPart, letterC, digitC, clsMatches, inRanges, isLetter, isDigit, List.contains_nil, Bool.false_or, Bool.or_false,
      Bool.false_eq_true, if_false, List.contains_cons, beq_iff_eq]
    cases h1 : decide ('A' ≤ c) <;> cases h2 : decide (c ≤ 'Z') <;> cases h3 : decide ('a' ≤ c) <;> cases h4 : decide (c ≤ 'z') <;>
      cases h5 : decide ('0' ≤ c) <;> cases h6 : decide (c ≤ '9') <;> cases h7 : (c == '.') <;> cases h8 : (c == '_') <;> simp

/-- For every identifier-shaped string `s`, followed by anything that does not start with an
identifier character, rule `Identifier` consumes exactly `s` and its action returns `s`
(fuel `|s| + 12` suffices). -/
theorem c10_identifier (s rest : List Char) (hs : IdentShape s) (hrest : StopsAt idPart rest)
    (F : Nat) (hF : s.length + 12 ≤ F) :
    ∃ t, parse F grammar "Identifier" (s ++ rest) = .ok t rest ∧ evIdent t = s := by
  obtain ⟨c, t, rfl, hc, ht⟩ := hs
  obtain ⟨tr, h1, _, h3⟩ := identifier_exact c t rest hc ht hrest F (by simp at hF; omega)
  exact ⟨tr, h1, h3⟩

/-! ### integer constants -/

/-- Digits read as a decimal number (Horner). -/
def decimalValue (ds : List Char) : Nat := digitsVal ds 0

/-- For every optional sign and non-empty digit string, followed by a non-digit, rule `IntConstant`
consumes exactly the text; the action (`strconv.ParseInt`) returns the signed decimal value when it
fits int64 and an error otherwise (fuel `|digits| + 10` suffices). -/
theorem c10_int_literal (sign : List Char) (hs : sign = [] ∨ sign = ['-'] ∨ sign = ['+'])
    (d : Char) (ds rest : List Char) (hd : digitC d = true) (hds : ∀ x ∈ ds, digitC x = true)
    (hrest : StopsAt digitC rest) (F : Nat) (hF : ds.length + 10 ≤ F) :
    ∃ t, parse F grammar "IntConstant" (sign ++ d :: ds ++ rest) = .ok t rest ∧
      tagOf t = "IntConstant1" ∧ textOf t = sign ++ d :: ds ∧
      (let n := decimalValue (d :: ds)
       if sign = ['-'] then
         (n ≤ 9223372036854775808 → actErr "IntConstant1" (textOf t) = false ∧ evInt t = -(n : Int)) ∧
         (9223372036854775808 < n → actErr "IntConstant1" (textOf t) = true)
       else
         (n ≤ 9223372036854775807 → actErr "IntConstant1" (textOf t) = false ∧ evInt t = (n : Int)) ∧
         (9223372036854775807 < n → actErr "IntConstant1" (textOf t) = true)) := by
  refine ⟨_, intconst_exact sign hs d ds rest hd hds hrest F hF, rfl, rfl, ?_⟩
  rcases hs with rfl | rfl | rfl
  · simp only [List.nil_append, textOf, decimalValue, actErr, evInt, parseInt_unsigned d ds hd, posInt]
    refine ⟨fun h => ?_, fun h => ?_⟩
    · simp [h]
    · have : ¬ digitsVal (d :: ds) 0 ≤ 9223372036854775807 := by omega
      simp [this]
  · simp only [List.cons_append, List.nil_append, textOf, decimalValue, actErr, evInt, parseInt_minus, negInt]
    refine ⟨fun h => ?_, fun h => ?_⟩
    · simp [h]
    · have : ¬ digitsVal (d :: ds) 0 ≤ 9223372036854775808 := by omega
      simp [this]
  · simp only [List.cons_append, List.nil_append, textOf, decimalValue, actErr, evInt, parseInt_plus, posInt]
    refine ⟨fun h => ?_, fun h => ?_⟩
    · simp [h]
    · have : ¬ digitsVal (d :: ds) 0 ≤ 9223372036854775807 := by omega
      simp [this]

/-! ### types -/

/-- Round trip of `FieldType` for EVERY type without annotations — base types, named types and
arbitrarily nested `list`/`set`/`map` — in every white-space styling of its brackets (`STy`: the
type plus the white space written after `<`, before `,`/`>` and after `,`): parsing the rendered
text, followed by any separator (`rest` does not start with an identifier character, `<`, `(`,
white space or a comment), consumes exactly the text, and the actions return the type (`erase`).
By induction over the type; fuel bound `cost s + 110`, where `cost` adds 30 per list/set, 40 per
map, the lengths of the names and twice the lengths of the white-space runs.
Hypothesis `Ok`: base names are the grammar's eight, named types are identifiers of which no type
keyword is a prefix (the negation of the recorded finding keyword-prefix-identifier; without it the
statement is false: `c10_type_roundtrip_counterexample`), the `w`s are white space.
PARTIAL — what is missing for the full statement "∀ Ty, ∀ style": (i) types carrying annotations
(`i32 (a = "b")`, rule TypeAnnotations present), (ii) comments after a base or container type inside
the brackets (`list<i32 /* c */>`: admitted by the `_` of BaseType / the container rules). Both are
covered by the correspondence of suite c10 only. -/
theorem c10_type_roundtrip_partial (s : STy) (hok : s.Ok) (rest : List Char) (hr : SepOk rest) (ht : TokHead rest)
    (F : Nat) (hF : s.cost + 110 ≤ F) :
    ∃ t, parse F grammar "FieldType" (s.render ++ rest) = .ok t rest ∧ evTy (tyFuel t) t = some s.erase := by
  obtain ⟨t, mid, h1, hmid, htx, hev⟩ := fieldType_styled s hok [] rest (IsGap.nil _) (by simpa using hr) hr.noParen ht
  have hm : mid = rest := by rcases hmid with h | h <;> simpa using h
  subst hm
  simp only [List.nil_append] at h1 htx
  refine ⟨t, h1 F (by simpa using hF), ?_⟩
  have hl : (textOf t).length = s.render.length := by rw [htx, consumed_append]
  have := hev ((textOf t).length + 1) (by rw [hl]; exact Nat.le_succ_of_le s.depth_le_render)
  simpa [tyFuel] using this

/-- Every annotation-free type has a styling (the canonical one, without white space), so the
round trip covers all of them. -/
theorem c10_type_roundtrip_canonical (ty : Ty) (hna : NoAnns ty) (hok : (STy.canon ty).Ok) (rest : List Char)
    (hr : SepOk rest) (ht : TokHead rest) (F : Nat) (hF : (STy.canon ty).cost + 110 ≤ F) :
    ∃ t, parse F grammar "FieldType" ((STy.canon ty).render ++ rest) = .ok t rest ∧ evTy (tyFuel t) t = some ty := by
  have := c10_type_roundtrip_partial (STy.canon ty) hok rest hr ht F hF
  rwa [STy.erase_canon ty hna] at this

/-- White space inside the brackets is invisible: two stylings of the same type parse to the same value. -/
theorem c10_type_ws_invisible (s1 s2 : STy) (h1 : s1.Ok) (h2 : s2.Ok) (he : s1.erase = s2.erase) (rest : List Char)
    (hr : SepOk rest) (ht : TokHead rest) (F : Nat) (hF1 : s1.cost + 110 ≤ F) (hF2 : s2.cost + 110 ≤ F) :
    ∃ t1 t2, parse F grammar "FieldType" (s1.render ++ rest) = .ok t1 rest ∧ parse F grammar "FieldType" (s2.render ++ rest) = .ok t2 rest ∧
      evTy (tyFuel t1) t1 = evTy (tyFuel t2) t2 := by
  obtain ⟨t1, p1, e1⟩ := c10_type_roundtrip_partial s1 h1 rest hr ht F hF1
  obtain ⟨t2, p2, e2⟩ := c10_type_roundtrip_partial s2 h2 rest hr ht F hF2
  exact ⟨t1, t2, p1, p2, by rw [e1, e2, he]⟩

/-- The hypotheses are satisfiable: `list< base.Item>` before `)`. -/
example : (STy.list [' '] (.named "base.Item".toList) []).Ok ∧ SepOk [')'] ∧ TokHead [')'] := by
  refine ⟨⟨?_, ⟨⟨'b', "ase.Item".toList, rfl, by decide, by decide⟩, ?_⟩, ?_⟩, ?_, ?_⟩
  · intro c h; simp at h; subst h; decide
  · unfold NoKw; decide
  · intro c h; simp at h
  · intro c r h; simp at h; obtain ⟨rfl, _⟩ := h; decide
  · intro c r h; simp at h; obtain ⟨rfl, _⟩ := h; decide

/-! ### white space and comments -/

/-- Every such text is consumed item by item by the repetition of the gap rule, whatever follows. -/
theorem c10_gap_texts : (∀ g, UGapText g → IsGap uBody g) ∧ (∀ g, UUGapText g → IsGap uuBody g) :=
  ⟨fun _ h => h.isGap, fun _ h => h.isGap⟩

/-- Rules `_` and `__` consume exactly such a text when a token follows (a character that starts
no gap item: not white space, newline, `/`, `#`) or the input ends; fuel `2·|g| + 70`. -/
theorem c10_gap_consumed (g next : List Char) (hn : TokHead next) (F : Nat) (hF : 2 * g.length + 70 ≤ F) :
    (UGapText g → ∃ ts, parse F grammar "_" (g ++ next) = .ok (.seq ts) next) ∧
    (UUGapText g → ∃ ts, parse F grammar "__" (g ++ next) = .ok (.seq ts) next) := by
  constructor
  · intro h
    obtain ⟨ts, hp⟩ := u_consumes g next (c10_gap_texts.1 g h) hn
    exact ⟨ts, hp F hF⟩
  · intro h
    obtain ⟨ts, hp⟩ := uu_consumes g next (c10_gap_texts.2 g h) hn
    exact ⟨ts, hp F hF⟩

/-- Comments and white space after a type are invisible: for every well-formed type, every gap text
`g` of `_` (white space, one-line comments; separating the type from what follows when the type is a
name) and every following token, `FieldType` then `_` consume exactly type and gap, and the value is
the type whatever `g` is. (Inside the brackets: `c10_type_ws_invisible`.) -/
theorem c10_type_comments_invisible (s : STy) (hok : s.Ok) (g rest : List Char) (hg : UGapText g)
    (hsep : SepOk (g ++ rest)) (hr : NoParen rest) (ht : TokHead rest) (F : Nat) (hF : s.cost + 2 * g.length + 110 ≤ F) :
    ∃ t mid ts, parse F grammar "FieldType" (s.render ++ (g ++ rest)) = .ok t mid ∧
      parse F grammar "_" mid = .ok (.seq ts) rest ∧ evTy (tyFuel t) t = some s.erase := by
  have hgap := c10_gap_texts.1 g hg
  obtain ⟨t, mid, h1, hmid, htx, hev⟩ := fieldType_styled s hok g rest hgap hsep hr ht
  have hlen : s.depth ≤ (textOf t).length + 1 := by
    rw [htx]
    rcases hmid with rfl | rfl
    · rw [consumed_append]; exact Nat.le_succ_of_le s.depth_le_render
    · rw [← List.append_assoc, consumed_append, List.length_append]
      exact Nat.le_trans s.depth_le_render (by omega)
  have hval : evTy (tyFuel t) t = some s.erase := by simpa [tyFuel] using hev _ hlen
  rcases hmid with rfl | rfl
  · obtain ⟨ts, hu⟩ := u_consumes g rest hgap ht
    exact ⟨t, _, ts, h1 F hF, hu F (by omega), hval⟩
  · obtain ⟨ts, hu⟩ := u_consumes [] mid (IsGap.nil _) ht
    have hu' := hu F (by simp; omega)
    simp only [List.nil_append] at hu'
    exact ⟨t, _, ts, h1 F hF, hu', hval⟩

/-! ### several rules in sequence -/

theorem idStart_tok {c : Char} (h : idStart c = true) : tokC c = true ∧ c ≠ '(' := by
  have hw := idPart_not_ws (idStart_idPart h)
  refine ⟨?_, ?_⟩
  · simp only [tokC, hw, Bool.false_or, Bool.not_eq_true', Bool.or_eq_false_iff, beq_eq_false_iff_ne]
    refine ⟨⟨?_, ?_⟩, ?_⟩ <;> (intro e; subst e; revert h; decide)
  · intro e; subst e; revert h; decide

/-- The fragment `typ:FieldType _ name:Identifier` shared by the rules Field, TypeDef and Const:
for every well-formed type, every separating gap text (white space, one-line comments) and every
identifier-shaped name followed by a non-identifier character, the three rules in sequence consume
exactly type, gap and name and return the type and the name (fuel `cost + 2·|gap| + |name| + 110`).
PARTIAL with respect to the whole-file round trip `parse (render m) = m`, which is the stated goal:
the rules covered by theorem / by correspondence only are listed in the header of this file. -/
theorem c10_roundtrip_partial (s : STy) (hok : s.Ok) (g : List Char) (hg : UGapText g) (name rest : List Char)
    (hname : IdentShape name) (hrest : StopsAt idPart rest) (hsep : SepOk (g ++ (name ++ rest)))
    (F : Nat) (hF : s.cost + 2 * g.length + name.length + 110 ≤ F) :
    ∃ t mid ts tn, parse F grammar "FieldType" (s.render ++ (g ++ (name ++ rest))) = .ok t mid ∧
      parse F grammar "_" mid = .ok (.seq ts) (name ++ rest) ∧
      parse F grammar "Identifier" (name ++ rest) = .ok tn rest ∧
      evTy (tyFuel t) t = some s.erase ∧ evIdent tn = name := by
  obtain ⟨c, tl, rfl, hc, htl⟩ := hname
  have hnp : NoParen (c :: tl ++ rest) := by
    intro c' r' e; simp only [List.cons_append, List.cons.injEq] at e; rw [← e.1]; exact (idStart_tok hc).2
  have htk : TokHead (c :: tl ++ rest) := by
    intro c' r' e; simp only [List.cons_append, List.cons.injEq] at e; rw [← e.1]; exact (idStart_tok hc).1
  obtain ⟨t, mid, ts, h1, h2, h3⟩ := c10_type_comments_invisible s hok g (c :: tl ++ rest) hg hsep hnp htk F (by omega)
  obtain ⟨tn, h4, h5⟩ := c10_identifier (c :: tl) rest ⟨c, tl, rfl, hc, htl⟩ hrest F (by simp at hF ⊢; omega)
  exact ⟨t, mid, ts, tn, h1, h2, h4, h3, h5⟩

/-! ### types: concrete instances evaluated by the kernel -/

/-- `FieldType` on `inp` yields exactly `ty` and leaves `rest` (decidable, evaluated with fuel `fuel`). -/
def tyParses (fuel : Nat) (inp : List Char) (ty : Ty) (rest : List Char) : Bool :=
  match parse fuel grammar "FieldType" inp with
  | .ok t r => decide (r = rest) && decide (evTy (tyFuel t) t = some ty)
  | _ => false

set_option maxRecDepth 100000 in
/-- The keyword-prefix finding on the model: a type called `stringy` is read as the base type
`string`, leaving `y` (known finding keyword-prefix-identifier; witness known/c10_keyword_prefix.frugal);
so the round trip needs the hypothesis that excludes such names. -/
theorem c10_type_roundtrip_counterexample :
    tyParses 60 "stringy".toList (.base "string".toList []) ['y'] = true ∧
    tyParses 60 "stringy".toList (.named "stringy".toList) [] = false := by
  decide

set_option maxRecDepth 100000 in
/-- Nested containers, white space inside the brackets and an annotated base type (one instance). -/
theorem c10_type_nested_example :
    tyParses 400 "map< string ,list<set<base.Item>>>".toList
      (.map (.base "string".toList []) (.list (.set (.named "base.Item".toList) []) []) []) [] = true := by
  decide

end FV.C10
