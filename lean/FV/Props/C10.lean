/-
C10 — the parser represents every declaration exactly and accepts all Thrift.

  "For every syntactically valid Thrift/Frugal IDL text, parsing succeeds and the resulting model
  contains exactly the declared includes, namespaces, typedefs, enums (with Thrift's implicit
  numbering), constants, structs, unions and exceptions (field ids, requiredness, types, defaults,
  annotations), services (extends, oneway, arguments, throws) and scopes (prefix, variables,
  operations), independent of comment, whitespace and separator style. Rendering a model to text
  and parsing it back yields the same model."

The objects: `FV.Generated.grammar` is `compiler/parser/grammar.peg` translated rule by rule on
every check (harness/pegx), `FV.Peg.parse` is pigeon's matching algorithm with explicit fuel,
`FV.Act` are the semantic actions written by hand from the Go code.  The theorems below are about
the REGENERATED grammar: an edit of grammar.peg re-checks them.

Covered by theorem (for all inputs of the stated shape, with an explicit fuel bound):
  Letter, Digit, Identifier (`c10_identifier`), IntConstant and its value (`c10_int_literal`),
  the numbering loop of the Enum action (`c10_enum_numbering`), FieldType for base-type names and
  for named types (`c10_type_roundtrip_partial`), the interpreter itself (`c10_peg_fuel_monotone`:
  a result obtained with some fuel is the result with any larger fuel, so the fuel is not part of
  the meaning).  Concrete instances evaluated by the kernel: nested container types, comments and
  separators inside a struct, the keyword-prefix finding (`c10_type_roundtrip_counterexample`).
Covered by correspondence only (harness suite c10: original model = real parser = this interpreter
on the regenerated grammar, whole files and fragments, every run): ContainerType for arbitrary
nesting, Literal, DoubleConstant, ConstValue/ConstList/ConstMap, TypeAnnotations, Field, FieldList,
StructLike/Struct/Exception/Union, Enum/EnumValue syntax, TypeDef, Const, Namespace, Include,
Function, Throws, Service, Scope, Prefix, Operation, DocString, comments, `__`/`_`/WS, EOS, Statement,
Grammar (the top-level round trip `parse (render m) = m` is the stated goal and is NOT proved here).
Recorded findings (KNOWN_FINDINGS.txt) are outside every hypothesis: identifiers with a keyword
prefix in a keyword position, statements sharing a line, literals ending in a backslash, a comment
after `prefix`, Thrift constructs without a production.
-/
import FV.Model.Peg
import FV.Model.IdlSyntax
import FV.Model.IdlActions
import FV.Generated.Grammar
import FV.Proofs.Peg
import FV.Proofs.PegIdl
import FV.Proofs.PegGaps
import FV.Proofs.PegTypes

namespace FV.C10
open FV.Peg FV.Act FV.Syn FV.Generated FV.PegIdl

/-! ### enum numbering -/

/-- Thrift's rule, stated independently of the action: an explicit value is taken as written,
an implicit one is the previous value plus one (`prev = -1` before the first). -/
def thriftNumbers : Int → List (Option Int) → List Int
  | _, [] => []
  | _, some v :: t => v :: thriftNumbers v t
  | prev, none :: t => (prev + 1) :: thriftNumbers (prev + 1) t

theorem numberEnum_thrift (prev : Int) (vs : List RawEV) :
    (numberEnum (prev + 1) vs).map (·.num) = thriftNumbers prev (vs.map (·.value)) := by
  induction vs generalizing prev with
  | nil => rfl
  | cons v t ih =>
    cases hv : v.value with
    | none => simp [numberEnum, thriftNumbers, hv, ih]
    | some x => simp [numberEnum, thriftNumbers, hv, ih]

/-- The numbers the `Enum` action assigns are Thrift's, for every list of enum values (any mix of
explicit — also negative or decreasing — and implicit values); names, docs and annotations are
kept in order. Full strength since the repair of the action (commit 6543e6e in /repo). -/
theorem c10_enum_numbering (vs : List RawEV) :
    (numberEnum 0 vs).map (·.num) = thriftNumbers (-1) (vs.map (·.value)) ∧
    (numberEnum 0 vs).map (·.name) = vs.map (·.name) ∧
    (numberEnum 0 vs).map (·.doc) = vs.map (·.doc) ∧
    (numberEnum 0 vs).map (·.anns) = vs.map (·.anns) := by
  refine ⟨by simpa using numberEnum_thrift (-1) vs, ?_, ?_, ?_⟩ <;>
  · generalize (0 : Int) = n
    induction vs generalizing n with
    | nil => rfl
    | cons v t ih => simp [numberEnum, ih]

/-- The action as it was before the repair (`-1` = no explicit value, a counter that only grows). -/
def oldNumbers : Int → List Int → List Int
  | _, [] => []
  | next, v :: t =>
    let v' := if v < 0 then next else v
    v' :: oldNumbers (if v' ≥ next then v' + 1 else next) t

/-- Why the repair was needed: on `enum E {A=5,B=2,C,D=-3,F}` the old action gave 5,2,6,7,8 where
Thrift's rule gives 5,2,3,-3,-2 (replayed on the real parser: corpus/C10/c10-fixed-enum-numbering.lines). -/
theorem c10_enum_numbering_old_action_counterexample :
    oldNumbers 0 [5, 2, -1, -3, -1] = [5, 2, 6, 7, 8] ∧
    thriftNumbers (-1) [some 5, some 2, none, some (-3), none] = [5, 2, 3, -3, -2] := by
  decide

/-! ### the interpreter -/

/-- More fuel never changes a result that is `ok` or `fail`: if `parse` answers with fuel `f`, it
gives the same answer with every `f' ≥ f` (for every grammar, rule and input). -/
theorem c10_peg_fuel_monotone (g : Grammar) (rule : String) (inp : List Char) (f f' : Nat) (hle : f ≤ f')
    (h : parse f g rule inp ≠ .outOfFuel) : parse f' g rule inp = parse f g rule inp :=
  pExpr_mono_le g hle (.ref rule) inp h

/-! ### identifiers -/

/-- Identifier shape: a start character (letter or `_`) followed by part characters (letters, digits, `.`, `_`). -/
def IdentShape (s : List Char) : Prop :=
  ∃ c t, s = c :: t ∧ idStart c = true ∧ ∀ x ∈ t, idPart x = true

/-- The character classes are the expected ones. -/
theorem c10_ident_classes (c : Char) :
    (idStart c = (isLetter c || c == '_')) ∧ (idPart c = (isLetter c || isDigit c || c == '.' || c == '_')) := by
  constructor
  · simp only [idStart, letterC, clsMatches, inRanges, isLetter, List.contains_nil, Bool.false_or, Bool.or_false,
      Bool.false_eq_true, if_false]
    cases h1 : decide ('A' ≤ c) <;> cases h2 : decide (c ≤ 'Z') <;> cases h3 : decide ('a' ≤ c) <;> cases h4 : decide (c ≤ 'z') <;> simp
  · simp only [idPart, letterC, digitC, clsMatches, inRanges, isLetter, isDigit, List.contains_nil, Bool.false_or, Bool.or_false,
      Bool.false_eq_true, if_false, List.contains_cons, beq_iff_eq]
    cases h1 : decide ('A' ≤ c) <;> cases h2 : decide (c ≤ 'Z') <;> cases h3 : decide ('a' ≤ c) <;> cases h4 : decide (c ≤ 'z') <;>
      cases h5 : decide ('0' ≤ c) <;> cases h6 : decide (c ≤ '9') <;> cases h7 : (c == '.') <;> cases h8 : (c == '_') <;> simp

/-- For every identifier-shaped string `s`, followed by anything that does not start with an
identifier character, rule `Identifier` consumes exactly `s` and its action returns `s`
(fuel `|s| + 12` suffices). -/
theorem c10_identifier (s rest : List Char) (hs : IdentShape s) (hrest : StopsAt idPart rest)
    (F : Nat) (hF : s.length + 12 ≤ F) :
    ∃ t, parse F grammar "Identifier" (s ++ rest) = .ok t rest ∧ evIdent t = s := by
  obtain ⟨c, t, rfl, hc, ht⟩ := hs
  obtain ⟨tr, h1, _, h3⟩ := identifier_exact c t rest hc ht hrest F (by simp at hF; omega)
  exact ⟨tr, h1, h3⟩

/-! ### integer constants -/

/-- Digits read as a decimal number (Horner). -/
def decimalValue (ds : List Char) : Nat := digitsVal ds 0

/-- For every optional sign and non-empty digit string, followed by a non-digit, rule `IntConstant`
consumes exactly the text; the action (`strconv.ParseInt`) returns the signed decimal value when it
fits int64 and an error otherwise (fuel `|digits| + 10` suffices). -/
theorem c10_int_literal (sign : List Char) (hs : sign = [] ∨ sign = ['-'] ∨ sign = ['+'])
    (d : Char) (ds rest : List Char) (hd : digitC d = true) (hds : ∀ x ∈ ds, digitC x = true)
    (hrest : StopsAt digitC rest) (F : Nat) (hF : ds.length + 10 ≤ F) :
    ∃ t, parse F grammar "IntConstant" (sign ++ d :: ds ++ rest) = .ok t rest ∧
      tagOf t = "IntConstant1" ∧ textOf t = sign ++ d :: ds ∧
      (let n := decimalValue (d :: ds)
       if sign = ['-'] then
         (n ≤ 9223372036854775808 → actErr "IntConstant1" (textOf t) = false ∧ evInt t = -(n : Int)) ∧
         (9223372036854775808 < n → actErr "IntConstant1" (textOf t) = true)
       else
         (n ≤ 9223372036854775807 → actErr "IntConstant1" (textOf t) = false ∧ evInt t = (n : Int)) ∧
         (9223372036854775807 < n → actErr "IntConstant1" (textOf t) = true)) := by
  refine ⟨_, intconst_exact sign hs d ds rest hd hds hrest F hF, rfl, rfl, ?_⟩
  rcases hs with rfl | rfl | rfl
  · simp only [List.nil_append, textOf, decimalValue, actErr, evInt, parseInt_unsigned d ds hd, posInt]
    refine ⟨fun h => ?_, fun h => ?_⟩
    · simp [h]
    · have : ¬ digitsVal (d :: ds) 0 ≤ 9223372036854775807 := by omega
      simp [this]
  · simp only [List.cons_append, List.nil_append, textOf, decimalValue, actErr, evInt, parseInt_minus, negInt]
    refine ⟨fun h => ?_, fun h => ?_⟩
    · simp [h]
    · have : ¬ digitsVal (d :: ds) 0 ≤ 9223372036854775808 := by omega
      simp [this]
  · simp only [List.cons_append, List.nil_append, textOf, decimalValue, actErr, evInt, parseInt_plus, posInt]
    refine ⟨fun h => ?_, fun h => ?_⟩
    · simp [h]
    · have : ¬ digitsVal (d :: ds) 0 ≤ 9223372036854775807 := by omega
      simp [this]

/-! ### types -/

/-- Round trip of `FieldType` for EVERY type without annotations — base types, named types and
arbitrarily nested `list`/`set`/`map` — in every white-space styling of its brackets (`STy`: the
type plus the white space written after `<`, before `,`/`>` and after `,`): parsing the rendered
text, followed by any separator (`rest` does not start with an identifier character, `<`, `(`,
white space or a comment), consumes exactly the text, and the actions return the type (`erase`).
By induction over the type; fuel bound `cost s + 70`, where `cost` adds 30 per list/set, 40 per
map, the lengths of the names and twice the lengths of the white-space runs.
Hypothesis `Ok`: base names are the grammar's eight, named types are identifiers of which no type
keyword is a prefix (the negation of the recorded finding keyword-prefix-identifier; without it the
statement is false: `c10_type_roundtrip_counterexample`), the `w`s are white space.
Not covered here (correspondence only): type annotations (rule TypeAnnotations) and comments after a
base or container type inside the brackets. -/
theorem c10_type_roundtrip (s : STy) (hok : s.Ok) (rest : List Char) (hr : SepOk rest) (ht : TokHead rest)
    (F : Nat) (hF : s.cost + 70 ≤ F) :
    ∃ t, parse F grammar "FieldType" (s.render ++ rest) = .ok t rest ∧ evTy (tyFuel t) t = some s.erase := by
  obtain ⟨t, mid, h1, hmid, htx, hev⟩ := fieldType_styled s hok [] rest (IsGap.nil _) (by simpa using hr) hr ht
  have hm : mid = rest := by rcases hmid with h | h <;> simpa using h
  subst hm
  simp only [List.nil_append] at h1 htx
  refine ⟨t, h1 F (by simpa using hF), ?_⟩
  have hl : (textOf t).length = s.render.length := by rw [htx, consumed_append]
  have := hev ((textOf t).length + 1) (by rw [hl]; exact Nat.le_succ_of_le s.depth_le_render)
  simpa [tyFuel] using this

/-- Every annotation-free type has a styling (the canonical one, without white space), so the
round trip covers all of them. -/
theorem c10_type_roundtrip_canonical (ty : Ty) (hna : NoAnns ty) (hok : (STy.canon ty).Ok) (rest : List Char)
    (hr : SepOk rest) (ht : TokHead rest) (F : Nat) (hF : (STy.canon ty).cost + 70 ≤ F) :
    ∃ t, parse F grammar "FieldType" ((STy.canon ty).render ++ rest) = .ok t rest ∧ evTy (tyFuel t) t = some ty := by
  have := c10_type_roundtrip (STy.canon ty) hok rest hr ht F hF
  rwa [STy.erase_canon ty hna] at this

/-- White space inside the brackets is invisible: two stylings of the same type parse to the same value. -/
theorem c10_type_ws_invisible (s1 s2 : STy) (h1 : s1.Ok) (h2 : s2.Ok) (he : s1.erase = s2.erase) (rest : List Char)
    (hr : SepOk rest) (ht : TokHead rest) (F : Nat) (hF1 : s1.cost + 70 ≤ F) (hF2 : s2.cost + 70 ≤ F) :
    ∃ t1 t2, parse F grammar "FieldType" (s1.render ++ rest) = .ok t1 rest ∧ parse F grammar "FieldType" (s2.render ++ rest) = .ok t2 rest ∧
      evTy (tyFuel t1) t1 = evTy (tyFuel t2) t2 := by
  obtain ⟨t1, p1, e1⟩ := c10_type_roundtrip s1 h1 rest hr ht F hF1
  obtain ⟨t2, p2, e2⟩ := c10_type_roundtrip s2 h2 rest hr ht F hF2
  exact ⟨t1, t2, p1, p2, by rw [e1, e2, he]⟩

/-- The hypotheses are satisfiable: `list< base.Item>` before `)`. -/
example : (STy.list [' '] (.named "base.Item".toList) []).Ok ∧ SepOk [')'] ∧ TokHead [')'] := by
  refine ⟨⟨?_, ⟨⟨'b', "ase.Item".toList, rfl, by decide, by decide⟩, ?_⟩, ?_⟩, ?_, ?_⟩
  · intro c h; simp at h; subst h; decide
  · unfold NoKw; decide
  · intro c h; simp at h
  · intro c r h; simp at h; obtain ⟨rfl, _⟩ := h; decide
  · intro c r h; simp at h; obtain ⟨rfl, _⟩ := h; decide

/-! ### types: concrete instances evaluated by the kernel -/

/-- `FieldType` on `inp` yields exactly `ty` and leaves `rest` (decidable, evaluated with fuel `fuel`). -/
def tyParses (fuel : Nat) (inp : List Char) (ty : Ty) (rest : List Char) : Bool :=
  match parse fuel grammar "FieldType" inp with
  | .ok t r => decide (r = rest) && decide (evTy (tyFuel t) t = some ty)
  | _ => false

set_option maxRecDepth 100000 in
/-- The keyword-prefix finding on the model: a type called `stringy` is read as the base type
`string`, leaving `y` (known finding keyword-prefix-identifier; witness known/c10_keyword_prefix.frugal);
so the round trip needs the hypothesis that excludes such names. -/
theorem c10_type_roundtrip_counterexample :
    tyParses 60 "stringy".toList (.base "string".toList []) ['y'] = true ∧
    tyParses 60 "stringy".toList (.named "stringy".toList) [] = false := by
  decide

set_option maxRecDepth 100000 in
/-- Nested containers, white space inside the brackets and an annotated base type (one instance). -/
theorem c10_type_nested_example :
    tyParses 400 "map< string ,list<set<base.Item>>>".toList
      (.map (.base "string".toList []) (.list (.set (.named "base.Item".toList) []) []) []) [] = true := by
  decide

end FV.C10
