/-
C02 — Generated Go types encode and decode exactly what the IDL declares.

  "For every valid IDL program and every value of every struct, union, exception and
  service args/result type in it, the generated Go code writes a Thrift encoding whose
  field ids, wire types and values are exactly those the IDL declares (required and default
  fields always present, optional fields present iff set, exactly one field for a union), and
  reading any conforming encoding reproduces the same value, skipping unknown fields and
  rejecting a missing required field. This holds for the binary, compact and JSON protocols
  and through typedefs, includes, enums and arbitrarily nested containers."

`FV.Thrift.encV` / `decV` model the emitted `Write` / `Read` code over the stream of
TProtocol calls (the emitted code is protocol agnostic; the three byte-level protocols are
Apache Thrift's: exercised by the correspondence runs, not modelled). `d : Defs` is ANY table
of typedefs, enums and struct-likes (one table for the whole multi-file program, names file
qualified); `WT d n t v` = `v` is a well-typed value of declared type `t` in canonical form
(the state an emitted Go struct can be in), nesting depth ≤ `n`. Theorems are for all `d`, `n`.
-/
import FV.Model.Thrift
import FV.Proofs.Thrift

namespace FV.C02
open FV FV.Thrift

/-- Reading what the emitted `Write` wrote reproduces the same value and leaves what follows
untouched — for every type (typedef chains, enums, arbitrarily nested containers, structs). -/
theorem c02_roundtrip (d : Defs) (n : Nat) (t : Ty) (v : Val) (es rest : List Event)
    (hwt : WT d n t v) (henc : encV d n t v = .ok es) : decV d n t (es ++ rest) = .ok (v, rest) :=
  roundtrip d n t v es rest hwt henc

/-- What `Write` emits for a struct-like: StructBegin(name), one chunk per declared field in
declaration order, FieldStop, StructEnd; the chunk of a field that is set, or that is not
optional, is `FieldBegin(name, wire type of the RESOLVED declared type, id) … FieldEnd`; the
chunk of an unset optional (or union) field is empty. -/
theorem c02_write_declared (d : Defs) (n : Nat) (t : Ty) (nm : String) (sd : StructDef)
    (fs : List (Int × Val)) (es : List Event)
    (hres : resolve d t = .struct nm) (hsd : lookupStruct d nm = some sd)
    (henc : encV d (n + 1) t (.struct fs) = .ok es) :
    ∃ cs : List (List Event), es = [.sb sd.name] ++ cs.flatten ++ [.fs, .se] ∧
      All2 (fun (f : Field) (c : List Event) =>
        ((lookupVal fs f.id).isSome ∨ ¬ (f.req = .optional ∨ sd.kind = .union) →
            ∃ body, c = [.fb f.name (wireOf d f.ty) f.id] ++ body ++ [.fe]) ∧
        ((lookupVal fs f.id).isNone ∧ (f.req = .optional ∨ sd.kind = .union) → c = [])) sd.fields cs := by
  unfold encV at henc
  simp only [hres, hsd] at henc
  split at henc
  · cases henc
  · split at henc
    · rename_i body hbody
      cases henc
      obtain ⟨cs, hall, rfl⟩ := concatRes_map_ok _ _ _ hbody
      refine ⟨cs, rfl, ?_⟩
      clear hbody
      generalize sd.fields = fl at hall ⊢
      induction hall with
      | nil => exact .nil
      | @cons f c fl cs' hx _ ih =>
        refine .cons ⟨?_, ?_⟩ ih
        · intro hp
          simp only [fieldEvents] at hx
          split at hx
          · split at hx
            · cases hx; exact ⟨_, rfl⟩
            · cases hx
            · cases hx
          · rename_i hnone
            split at hx
            · rename_i hopt
              rcases hp with hp | hp
              · rw [hnone] at hp; cases hp
              · exact absurd hopt hp
            · split at hx
              · cases hx; exact ⟨_, rfl⟩
              · cases hx
        · intro ⟨hn, hopt⟩
          simp only [fieldEvents] at hx
          split at hx
          · rename_i x hsome; rw [hsome] at hn; cases hn
          · rw [if_pos hopt] at hx; cases hx; rfl
    · cases henc
    · cases henc

/-- A union with no field or with two or more fields set is refused by `Write`. -/
theorem c02_union_write_exactly_one (d : Defs) (n : Nat) (t : Ty) (nm : String) (sd : StructDef)
    (fs : List (Int × Val)) (hres : resolve d t = .struct nm) (hsd : lookupStruct d nm = some sd)
    (hu : sd.kind = .union) (hbad : (sd.fields.filter fun f => (lookupVal fs f.id).isSome).length ≠ 1) :
    encV d (n + 1) t (.struct fs) = .err .invalidData := by
  unfold encV
  simp only [hres, hsd]
  rw [if_pos ⟨hu, hbad⟩]

/-- Whatever the stream, when `Read` of a struct-like succeeds every required field has been
read and a union holds exactly one field — i.e. a stream in which a required field is missing
(or a union's field count is not one) is rejected. -/
theorem c02_read_complete (d : Defs) (n : Nat) (t : Ty) (nm : String) (sd : StructDef)
    (es r : List Event) (v : Val) (hres : resolve d t = .struct nm) (hsd : lookupStruct d nm = some sd)
    (hdec : decV d (n + 1) t es = .ok (v, r)) :
    ∃ fs, v = .struct (normFields sd fs) ∧
      (∀ f ∈ sd.fields, f.req = .required → sd.kind ≠ .union → (lookupVal fs f.id).isSome) ∧
      (sd.kind = .union → (sd.fields.filter fun f => (lookupVal fs f.id).isSome).length = 1) := by
  unfold decV at hdec
  simp only [hres] at hdec
  split at hdec
  all_goals (try (rename_i heq; cases heq; done))
  all_goals (try (cases hdec; done))
  rename_i nm' name r0 heq
  cases heq
  simp only [hsd] at hdec
  split at hdec
  · rename_i fs r' _
    split at hdec
    · cases hdec
    · rename_i hany
      split at hdec
      · cases hdec
      · rename_i hun
        cases hdec
        refine ⟨fs, rfl, ?_, ?_⟩
        · intro f hf hr hk
          simp only [Bool.not_eq_true, List.any_eq_false, decide_eq_true_eq, not_and] at hany
          have := hany f hf hr hk
          cases hl : lookupVal fs f.id with
          | none => simp [hl] at this
          | some x => rfl
        · intro hk
          cases Nat.decEq (sd.fields.filter fun f => (lookupVal fs f.id).isSome).length 1 with
          | isTrue h => exact h
          | isFalse h => exact absurd ⟨hk, h⟩ hun
  · cases hdec
  · cases hdec
  · cases hdec

/-- Unknown fields are skipped: at any point of the emitted field loop (`acc` = whatever has been
read so far), a field whose id the struct does not declare — carrying ANY well-typed value `u` of ANY
type of ANY definitions table `d'` (the sender's schema, unknown to the reader) — is consumed and
leaves the loop exactly where it would be without it. -/
theorem c02_skip_unknown (d d' : Defs) (n : Nat) (sd : StructDef) (fuel : Nat) (nm : String) (uid : Int)
    (tu : Ty) (u : Val) (body rest : List Event) (acc : List (Int × Val))
    (hunk : sd.fields.find? (·.id = uid) = none)
    (hwt : WT d' (n + 1) tu u) (henc : encV d' (n + 1) tu u = .ok body) :
    decFields (decV d n) (skip (n + 1)) sd (fuel + 1) (.fb nm (wireOf d' tu) uid :: (body ++ .fe :: rest)) acc
      = decFields (decV d n) (skip (n + 1)) sd fuel rest acc :=
  decFields_skip_unknown _ _ sd fuel nm _ uid body rest acc hunk (skip_enc d' (n + 1) tu u body _ hwt henc)

/-- Enums are written as I32, strings and binaries as STRING, through any typedef: the wire type
is a function of the resolved type only. -/
theorem c02_wire_type_of_resolved (d : Defs) (t t' : Ty) (h : resolve d t = resolve d t') :
    wireOf d t = wireOf d t' := by
  unfold wireOf; rw [h]

/-! Non-vacuity: a two-struct program with a typedef chain, an enum, an optional field and nested
containers; a well-typed value; the emitted writer succeeds on it (so `c02_roundtrip` applies). -/
def exDefs : Defs :=
  { typedefs := [("m/Id", .i64), ("m/Ids", .list (.typedef "m/Id"))],
    enums := [("m/Color", [1, 5, 6])],
    structs := [⟨.struct, "m/Inner", "Inner", [⟨1, .required, "name", .string⟩, ⟨2, .optional, "n", .i32⟩]⟩,
                ⟨.struct, "m/Outer", "Outer", [⟨1, .required, "ids", .typedef "m/Ids"⟩,
                   ⟨3, .default, "m", .map .string (.list (.struct "m/Inner"))⟩, ⟨8, .optional, "c", .enum "m/Color"⟩]⟩] }

def exVal : Val :=
  .struct [(1, .list [.int 7, .int (-1)]), (3, .map [(.bytes [107], .list [.struct [(1, .bytes [97])]])])]

example : (encV exDefs 8 (.struct "m/Outer") exVal).isOk = true := by decide

example : WT exDefs 8 (.struct "m/Outer") exVal := by
  simp [WT, exDefs, exVal, resolve, resolveN, lookupTypedef, lookupStruct, normFields, lookupVal]

end FV.C02
