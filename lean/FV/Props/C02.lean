/-
C02 — Generated Go types encode and decode exactly what the IDL declares.

  "For every valid IDL program and every value of every struct, union, exception and
  service args/result type in it, the generated Go code writes a Thrift encoding whose
  field ids, wire types and values are exactly those the IDL declares (required and default
  fields always present, optional fields present iff set, exactly one field for a union), and
  reading any conforming encoding reproduces the same value, skipping unknown fields and
  rejecting a missing required field. This holds for the binary, compact and JSON protocols
  and through typedefs, includes, enums and arbitrarily nested containers."

`FV.Thrift.encV` / `decV` model the emitted `Write` / `Read` code over the stream of
TProtocol calls (the emitted code is protocol agnostic). The byte-level protocols are Apache
Thrift's; the BINARY and the COMPACT one are modelled as the emitted code uses them
(`FV.Model.BinaryProtocol`, `FV.Model.CompactProtocol`: bytes of every write call, result of
every read call, the compact protocol's field-id state) and the round trip is proved down to
the bytes (second half of this file); the JSON protocol is exercised by the correspondence
runs, not modelled. `d : Defs` is ANY table
of typedefs, enums and struct-likes (one table for the whole multi-file program, names file
qualified); `WT d n t v` = `v` is a well-typed value of declared type `t` in canonical form
(the state an emitted Go struct can be in), nesting depth ≤ `n`. Theorems are for all `d`, `n`.

NAMES ARE PER FILE. A bare IDL name is relative to the file that uses it; the definitions table keys every
typedef, enum and struct-like by `<file>/<name>` and every `Ty.typedef` / `.enum` / `.struct` carries such a
key (the harness qualifies each reference with the file it resolves in), so `lookupTypedef`, `lookupStruct`
and `resolve` never see a bare name: two files that declare `Stamp` as `i32` and as `i64` (or as an enum, or
a struct) are two unrelated entries, and every theorem below — being for ALL tables `d` — covers programs
whose files reuse names with different meanings. Only `StructDef.name` (what `WriteStructBegin` is given) is
the bare name.

IDL DEFAULT VALUES (`Field.dflt`) are part of the model as the generator treats them (header of
`FV.Model.Thrift`): "set" is what the emitted `IsSet<F>()` says — `isSetIn sd fs f`: listed and, for
a non-pointer optional field with a default, different from it. Where a struct has no such field,
`isSetIn` is "listed" (`c02_set_is_listed_without_default`), which is how these statements read for
programs without defaults. `c02_default_optional_iff_differs`, `c02_required_default_always_written`,
`c02_default_reproduced`, `c02_read_state` are the statements about defaults themselves.
-/
import FV.Model.Thrift
import FV.Proofs.Thrift
import FV.Proofs.ThriftBytes
import FV.Proofs.ThriftFits
import FV.Proofs.CompactBits

namespace FV.C02
open FV FV.Thrift

/-- Reading what the emitted `Write` wrote reproduces the same value and leaves what follows
untouched — for every type (typedef chains, enums, arbitrarily nested containers, structs). -/
theorem c02_roundtrip (d : Defs) (n : Nat) (t : Ty) (v : Val) (es rest : List Event)
    (hwt : WT d n t v) (henc : encV d n t v = .ok es) : decV d n t (es ++ rest) = .ok (v, rest) :=
  roundtrip d n t v es rest hwt henc

/-- What `Write` emits for a struct-like: StructBegin(name), one chunk per declared field in
declaration order, FieldStop, StructEnd; the chunk of a field that is set (`IsSet<F>()`: listed — and,
for a non-pointer optional field with a default, different from that default), or that is not
optional, is `FieldBegin(name, wire type of the RESOLVED declared type, id) … FieldEnd`; the
chunk of an unset optional (or union) field is empty. -/
theorem c02_write_declared (d : Defs) (n : Nat) (t : Ty) (nm : String) (sd : StructDef)
    (fs : List (Int × Val)) (es : List Event)
    (hres : resolve d t = .struct nm) (hsd : lookupStruct d nm = some sd)
    (henc : encV d (n + 1) t (.struct fs) = .ok es) :
    ∃ cs : List (List Event), es = [.sb sd.name] ++ cs.flatten ++ [.fs, .se] ∧
      All2 (fun (f : Field) (c : List Event) =>
        (isSetIn sd fs f = true ∨ ¬ (f.req = .optional ∨ sd.kind = .union) →
            ∃ body, c = [.fb f.name (wireOf d f.ty) f.id] ++ body ++ [.fe]) ∧
        (isSetIn sd fs f = false ∧ (f.req = .optional ∨ sd.kind = .union) → c = [])) sd.fields cs := by
  obtain ⟨cs, hes, hall⟩ := encV_struct_chunks d n t nm sd fs es hres hsd henc
  refine ⟨cs, hes, All2.imp ?_ hall⟩
  intro f c hx
  simp only [fieldEvents] at hx
  unfold isSetIn
  cases hl : lookupVal fs f.id with
  | some x =>
    simp only [hl] at hx ⊢
    by_cases hs : isSetVal sd f x = true
    · rw [if_pos hs] at hx
      refine ⟨fun _ => ?_, fun h => absurd hs (by rw [h.1]; simp)⟩
      split at hx
      · cases hx; exact ⟨_, rfl⟩
      · cases hx
      · cases hx
    · rw [if_neg hs] at hx
      cases hx
      refine ⟨fun h => ?_, fun _ => rfl⟩
      rcases h with h | h
      · exact absurd h hs
      · exact absurd (isSetVal_of_not_optional sd f x h) hs
  | none =>
    simp only [hl] at hx ⊢
    by_cases hopt : f.req = .optional ∨ sd.kind = .union
    · rw [if_pos hopt] at hx
      cases hx
      refine ⟨fun h => ?_, fun _ => rfl⟩
      rcases h with h | h
      · cases h
      · exact absurd hopt h
    · rw [if_neg hopt] at hx
      refine ⟨fun _ => ?_, fun h => absurd h.2 hopt⟩
      split at hx
      · split at hx
        · cases hx; exact ⟨_, rfl⟩
        · cases hx
        · cases hx
      · split at hx
        · cases hx; exact ⟨_, rfl⟩
        · cases hx

/-- Without a compared default (`cmpDflt`: the field is not optional, or has no default, or a default of
container type) a field is set exactly when the value lists it. -/
theorem c02_set_is_listed_without_default (sd : StructDef) (fs : List (Int × Val)) (f : Field)
    (h : cmpDflt sd f = none) : isSetIn sd fs f = (lookupVal fs f.id).isSome := by
  unfold isSetIn isSetVal
  rw [h]
  cases lookupVal fs f.id <;> rfl

/-- DEFAULTS, optional: a field that is optional (or a union's) and has a default `dv` of base / enum /
string / binary type is a non-pointer Go field holding its listed value `x` (or `dv` when the value does
not list it). It is on the wire iff it is listed with a value that Go's `!=` tells from `dv`
(`goEq x dv = false`: inequality — `c02_default_differs_off_doubles` — except on doubles, where it is the
float comparison, `c02_default_double_compare`), and then it carries `x`. -/
theorem c02_default_optional_iff_differs (d : Defs) (n : Nat) (t : Ty) (nm : String) (sd : StructDef)
    (fs : List (Int × Val)) (es : List Event)
    (hres : resolve d t = .struct nm) (hsd : lookupStruct d nm = some sd)
    (henc : encV d (n + 1) t (.struct fs) = .ok es) :
    ∃ cs : List (List Event), es = [.sb sd.name] ++ cs.flatten ++ [.fs, .se] ∧
      All2 (fun (f : Field) (c : List Event) =>
        ∀ dv, (f.req = .optional ∨ sd.kind = .union) → f.dflt = some dv → dv.scalar = true →
          (c ≠ [] ↔ ∃ x, lookupVal fs f.id = some x ∧ goEq x dv = false) ∧
          (∀ x, lookupVal fs f.id = some x → goEq x dv = false →
            ∃ body, encV d n f.ty x = .ok body ∧ c = [.fb f.name (wireOf d f.ty) f.id] ++ body ++ [.fe])) sd.fields cs := by
  obtain ⟨cs, hes, hall⟩ := encV_struct_chunks d n t nm sd fs es hres hsd henc
  refine ⟨cs, hes, All2.imp ?_ hall⟩
  intro f c hx dv hopt hd hsc
  simp only [fieldEvents] at hx
  cases hl : lookupVal fs f.id with
  | none =>
    simp only [hl, if_pos hopt] at hx
    cases hx
    exact ⟨⟨fun h => absurd rfl h, fun ⟨x, hx, _⟩ => by cases hx⟩, fun x hx => by cases hx⟩
  | some x =>
    simp only [hl] at hx
    have hiff := isSetVal_default sd f x dv hopt hd hsc
    by_cases hs : isSetVal sd f x = true
    · rw [if_pos hs] at hx
      have hne := hiff.mp hs
      split at hx
      · rename_i body hbody
        cases hx
        refine ⟨⟨fun _ => ⟨x, rfl, hne⟩, fun _ => by simp⟩, fun y hy _ => ?_⟩
        cases hy; exact ⟨body, hbody, rfl⟩
      · cases hx
      · cases hx
    · rw [if_neg hs] at hx
      cases hx
      have heq : ¬ goEq x dv = false := fun h => hs (hiff.mpr h)
      refine ⟨⟨fun h => absurd rfl h, fun ⟨y, hy, hg⟩ => ?_⟩, fun y hy hg => ?_⟩
      · cases hy; exact absurd hg heq
      · cases hy; exact absurd hg heq

/-- Off the doubles (bool, integers, enums, string, binary defaults) "Go's `!=` tells them apart" is plain
inequality of the values. -/
theorem c02_default_differs_off_doubles (x dv : Val) (h : ∀ b, dv ≠ .dbl b) : goEq x dv = false ↔ x ≠ dv := by
  have hi := goEq_iff_of_not_dbl x dv h
  constructor
  · intro hf e; rw [hi.mpr e] at hf; cases hf
  · intro hne
    cases hg : goEq x dv with
    | false => rfl
    | true => exact absurd (hi.mp hg) hne

/-- On doubles the emitted `p.F != T_F_DEFAULT` is Go's float comparison of the IEEE bit patterns `a`
(the field) and `b` (the default): the field is SET iff one of them is a NaN, or they are different
bits that are not both zeros. So a NaN is always set (and written), -0.0 against a 0.0 default (and
+0.0 against -0.0) is NOT set and reads back as the default, and every other bit pattern different from
the default's — one ulp away, a subnormal, an infinity — is set. -/
theorem c02_default_double_compare (a b : Nat) :
    (goEq (.dbl a) (.dbl b) = false ↔
      dblIsNaN a = true ∨ dblIsNaN b = true ∨ (a ≠ b ∧ (dblIsZero a = false ∨ dblIsZero b = false))) ∧
    (dblIsNaN a = true → goEq (.dbl a) (.dbl b) = false) ∧
    goEq (.dbl 9223372036854775808) (.dbl 0) = true ∧ goEq (.dbl 0) (.dbl 9223372036854775808) = true := by
  refine ⟨?_, fun h => dblEq_nan_left a b h, dblEq_zeros.2, dblEq_zeros.1⟩
  rw [goEq_dbl]
  constructor
  · intro h
    cases hna : dblIsNaN a with
    | true => exact Or.inl rfl
    | false =>
      cases hnb : dblIsNaN b with
      | true => exact Or.inr (Or.inl rfl)
      | false =>
        right; right
        have hn : ¬ (dblIsNaN a = false ∧ dblIsNaN b = false ∧ ((dblIsZero a = true ∧ dblIsZero b = true) ∨ a = b)) := by
          rw [← dblEq_iff]; rw [h]; simp
        refine ⟨fun e => hn ⟨hna, hnb, Or.inr e⟩, ?_⟩
        cases hza : dblIsZero a with
        | false => exact Or.inl rfl
        | true =>
          cases hzb : dblIsZero b with
          | false => exact Or.inr rfl
          | true => exact absurd ⟨hna, hnb, Or.inl ⟨hza, hzb⟩⟩ hn
  · rintro (h | h | ⟨hne, hz⟩)
    · exact dblEq_nan_left a b h
    · exact dblEq_nan_right a b h
    · exact dblEq_ne a b hne hz

/-- DEFAULTS, required / default requiredness: a field that is not optional and has a default `dv` is
ALWAYS written, whatever the value: it carries the listed value, or `dv` (the constructor's default)
when the value does not list it. -/
theorem c02_required_default_always_written (d : Defs) (n : Nat) (t : Ty) (nm : String) (sd : StructDef)
    (fs : List (Int × Val)) (es : List Event)
    (hres : resolve d t = .struct nm) (hsd : lookupStruct d nm = some sd)
    (henc : encV d (n + 1) t (.struct fs) = .ok es) :
    ∃ cs : List (List Event), es = [.sb sd.name] ++ cs.flatten ++ [.fs, .se] ∧
      All2 (fun (f : Field) (c : List Event) =>
        ∀ dv, ¬ (f.req = .optional ∨ sd.kind = .union) → f.dflt = some dv →
          ∃ body, encV d n f.ty ((lookupVal fs f.id).getD dv) = .ok body ∧
            c = [.fb f.name (wireOf d f.ty) f.id] ++ body ++ [.fe]) sd.fields cs := by
  obtain ⟨cs, hes, hall⟩ := encV_struct_chunks d n t nm sd fs es hres hsd henc
  refine ⟨cs, hes, All2.imp ?_ hall⟩
  intro f c hx dv hopt hd
  simp only [fieldEvents] at hx
  cases hl : lookupVal fs f.id with
  | none =>
    simp only [hl, if_neg hopt, hd] at hx
    simp only [Option.getD_none]
    split at hx
    · rename_i body hbody
      cases hx; exact ⟨body, hbody, rfl⟩
    · cases hx
    · cases hx
  | some x =>
    simp only [hl, isSetVal_of_not_optional sd f x hopt, if_true] at hx
    simp only [Option.getD_some]
    split at hx
    · rename_i body hbody
      cases hx; exact ⟨body, hbody, rfl⟩
    · cases hx
    · cases hx

/-- DEFAULTS reproduced by the reader (schema evolution): a value written by the emitted `Write` of a
struct definition `sdw`, read by the emitted `Read` of a definition `sdr` declaring the same fields and
more (none of the extra ones required) — so the stream OMITS every extra field `g`: the read succeeds,
consumes exactly the encoding, the common fields keep their values, and `g` is in the state the
constructor `New<T>()` gave it: a required/default-requiredness `g` holds its default, an optional `g`
is unset, and in both cases `Get<G>()` returns the declared default. `tr`, `rest` are arbitrary, so
this is every nested read too (a struct inside a struct, list, set or map is read by the same code). -/
theorem c02_default_reproduced (d : Defs) (n : Nat) (tw tr : Ty) (nw nr : String) (sdw sdr : StructDef)
    (fs : List (Int × Val)) (es rest : List Event)
    (hrw : resolve d tw = .struct nw) (hsw : lookupStruct d nw = some sdw)
    (hrr : resolve d tr = .struct nr) (hsr : lookupStruct d nr = some sdr)
    (hkind : sdr.kind = sdw.kind) (hnu : sdw.kind ≠ .union)
    (hsub : ∀ f ∈ sdw.fields, f ∈ sdr.fields) (hndr : (sdr.fields.map (·.id)).Nodup)
    (hreqr : ∀ f ∈ sdr.fields, f.req = .required → f ∈ sdw.fields)
    (hwt : WT d (n + 1) tw (.struct fs)) (henc : encV d (n + 1) tw (.struct fs) = .ok es) :
    decV d (n + 1) tr (es ++ rest) = .ok (.struct (normFields sdr fs), rest) ∧
    (∀ f ∈ sdw.fields, lookupVal (normFields sdr fs) f.id = lookupVal fs f.id) ∧
    (∀ g ∈ sdr.fields, g.id ∉ sdw.fields.map (·.id) →
       lookupVal (normFields sdr fs) g.id = (if g.req = .optional then none else g.dflt) ∧
       getField (normFields sdr fs) g = g.dflt) :=
  default_reproduced d n tw tr nw nr sdw sdr fs es rest hrw hsw hrr hsr hkind hnu hsub hndr hreqr hwt henc

/-- Whatever arrives, the state `Read` leaves is the constructor state updated by the fields that
arrived and normalised by `IsSet<F>()`: a field of the result is listed iff it arrived set
(`readState`: an optional non-pointer field that arrived WITH its default value is unset; a
non-optional field that did not arrive holds its default). -/
theorem c02_read_state (d : Defs) (n : Nat) (t : Ty) (nm : String) (sd : StructDef)
    (es r : List Event) (v : Val) (hres : resolve d t = .struct nm) (hsd : lookupStruct d nm = some sd)
    (hnd : (sd.fields.map (·.id)).Nodup) (hdec : decV d (n + 1) t es = .ok (v, r)) :
    ∃ acc fs', v = .struct fs' ∧ ∀ f ∈ sd.fields, lookupVal fs' f.id = readState sd acc f := by
  unfold decV at hdec
  simp only [hres] at hdec
  split at hdec
  all_goals (try (rename_i heq; cases heq; done))
  all_goals (try (cases hdec; done))
  rename_i nm' name r0 heq
  cases heq
  simp only [hsd] at hdec
  split at hdec
  · rename_i fs r' _
    split at hdec
    · cases hdec
    · split at hdec
      · cases hdec
      · cases hdec
        exact ⟨fs, _, rfl, fun f hf => lookup_normFields sd fs hnd f hf⟩
  · cases hdec
  · cases hdec
  · cases hdec

/-- A union with no field or with two or more fields set is refused by `Write`. -/
theorem c02_union_write_exactly_one (d : Defs) (n : Nat) (t : Ty) (nm : String) (sd : StructDef)
    (fs : List (Int × Val)) (hres : resolve d t = .struct nm) (hsd : lookupStruct d nm = some sd)
    (hu : sd.kind = .union) (hbad : (sd.fields.filter (isSetIn sd fs)).length ≠ 1) :
    encV d (n + 1) t (.struct fs) = .err .invalidData := by
  unfold encV
  simp only [hres, hsd]
  rw [if_pos ⟨hu, hbad⟩]

/-- "Exactly one field for a union", at ANY DEPTH. A value that contains — at a position reachable through
list / set / map elements and through the struct fields the emitted `Write` writes: nested in a struct,
exception, union, args / result struct, or container — a union with no field or with two or more fields
set (`HasBadUnion`) is never written: `Write` does not succeed on it, whatever else the value looks like;
and when the value is otherwise what the emitted Go types can hold (`WTU`: well-typed apart from the
union counts) the outcome is exactly the error INVALID_DATA — no panic, no other error. -/
theorem c02_write_rejects_bad_union (d : Defs) (n : Nat) (t : Ty) (v : Val) (hb : HasBadUnion d n t v) :
    (∀ es, encV d n t v ≠ .ok es) ∧ (WTU d n t v → encV d n t v = .err .invalidData) := by
  refine ⟨fun es => enc_bad_union_not_ok d n t v es hb, fun hw => ?_⟩
  rcases enc_okOrInvalid d n t v hw with ⟨es, hes⟩ | he
  · exact absurd hes (enc_bad_union_not_ok d n t v es hb)
  · exact he

/-- Every well-typed value is well-typed apart from the union counts, so the two cases are exhaustive on
what the harness builds: `Write` succeeds on the well-formed values (`enc_total`) and returns
INVALID_DATA on those with a bad union somewhere. -/
theorem c02_wt_is_wtu (d : Defs) (n : Nat) (t : Ty) (v : Val) (h : WT d n t v) : WTU d n t v :=
  WT.toWTU d n t v h

/-- Whatever the stream, when `Read` of a struct-like succeeds every required field has been
read and a union holds exactly one set field (`acc` = the fields that arrived; set = arrived and,
for a non-pointer field with a default, different from it) — i.e. a stream in which a required
field is missing (or a union's field count is not one) is rejected. -/
theorem c02_read_complete (d : Defs) (n : Nat) (t : Ty) (nm : String) (sd : StructDef)
    (es r : List Event) (v : Val) (hres : resolve d t = .struct nm) (hsd : lookupStruct d nm = some sd)
    (hdec : decV d (n + 1) t es = .ok (v, r)) :
    ∃ fs, v = .struct (normFields sd fs) ∧
      (∀ f ∈ sd.fields, f.req = .required → sd.kind ≠ .union → (lookupVal fs f.id).isSome) ∧
      (sd.kind = .union → (sd.fields.filter (isSetIn sd fs)).length = 1) := by
  unfold decV at hdec
  simp only [hres] at hdec
  split at hdec
  all_goals (try (rename_i heq; cases heq; done))
  all_goals (try (cases hdec; done))
  rename_i nm' name r0 heq
  cases heq
  simp only [hsd] at hdec
  split at hdec
  · rename_i fs r' _
    split at hdec
    · cases hdec
    · rename_i hany
      split at hdec
      · cases hdec
      · rename_i hun
        cases hdec
        refine ⟨fs, rfl, ?_, ?_⟩
        · intro f hf hr hk
          simp only [Bool.not_eq_true, List.any_eq_false, decide_eq_true_eq, not_and] at hany
          have := hany f hf hr hk
          cases hl : lookupVal fs f.id with
          | none => simp [hl] at this
          | some x => rfl
        · intro hk
          cases Nat.decEq (sd.fields.filter (isSetIn sd fs)).length 1 with
          | isTrue h => exact h
          | isFalse h => exact absurd ⟨hk, h⟩ hun
  · cases hdec
  · cases hdec
  · cases hdec

/-- Unknown fields are skipped: at any point of the emitted field loop (`acc` = whatever has been
read so far), a field whose id the struct does not declare — carrying ANY well-typed value `u` of ANY
type of ANY definitions table `d'` (the sender's schema, unknown to the reader) — is consumed and
leaves the loop exactly where it would be without it. -/
theorem c02_skip_unknown (d d' : Defs) (n : Nat) (sd : StructDef) (fuel : Nat) (nm : String) (uid : Int)
    (tu : Ty) (u : Val) (body rest : List Event) (acc : List (Int × Val))
    (hunk : sd.fields.find? (·.id = uid) = none)
    (hwt : WT d' (n + 1) tu u) (henc : encV d' (n + 1) tu u = .ok body) :
    decFields (decV d n) (skip (n + 1)) sd (fuel + 1) (.fb nm (wireOf d' tu) uid :: (body ++ .fe :: rest)) acc
      = decFields (decV d n) (skip (n + 1)) sd fuel rest acc :=
  decFields_skip_unknown _ _ sd fuel nm _ uid body rest acc hunk (skip_enc d' (n + 1) tu u body _ hwt henc)

/-- Enums are written as I32, strings and binaries as STRING, through any typedef: the wire type
is a function of the resolved type only. -/
theorem c02_wire_type_of_resolved (d : Defs) (t t' : Ty) (h : resolve d t = resolve d t') :
    wireOf d t = wireOf d t' := by
  unfold wireOf; rw [h]

/-! Non-vacuity: a program with a typedef chain, an enum, optional fields, nested containers and
DEFAULTS (`Inner.n` optional `= 5`, `Inner.k` default requiredness `= 7`, `Outer.c` optional enum
`= 5`; `InnerV1` is an older version of `Inner` without `n` and `k`); a well-typed value; the emitted
writer succeeds on it (so `c02_roundtrip` applies). -/
def exDefs : Defs :=
  { typedefs := [("m/Id", .i64), ("m/Ids", .list (.typedef "m/Id"))],
    enums := [("m/Color", [1, 5, 6])],
    structs := [⟨.struct, "m/Inner", "Inner", [⟨1, .required, "name", .string, none⟩, ⟨2, .optional, "n", .i32, some (.int 5)⟩,
                   ⟨3, .default, "k", .i32, some (.int 7)⟩]⟩,
                ⟨.struct, "m/InnerV1", "Inner", [⟨1, .required, "name", .string, none⟩]⟩,
                ⟨.struct, "m/Outer", "Outer", [⟨1, .required, "ids", .typedef "m/Ids", none⟩,
                   ⟨3, .default, "m", .map .string (.list (.struct "m/Inner")), none⟩,
                   ⟨8, .optional, "c", .enum "m/Color", some (.int 5)⟩]⟩] }

def exVal : Val :=
  .struct [(1, .list [.int 7, .int (-1)]), (3, .map [(.bytes [107], .list [.struct [(1, .bytes [97]), (2, .int 6), (3, .int 9)]])])]

example : (encV exDefs 8 (.struct "m/Outer") exVal).isOk = true := by decide +kernel

example : WT exDefs 8 (.struct "m/Outer") exVal := by
  simp [WT, exDefs, exVal, resolve, resolveN, lookupTypedef, lookupStruct, normFields, readState, isSetVal, cmpDflt,
    Val.scalar, goEq, Val.beq, lookupVal]

/-- `Inner.n = 5` (its default): `IsSetN()` is false and the field is not written — the same calls as
for the value that does not list it; `n = 6` is written. -/
example : encV exDefs 8 (.struct "m/Inner") (.struct [(1, .bytes [97]), (2, .int 5), (3, .int 9)])
    = encV exDefs 8 (.struct "m/Inner") (.struct [(1, .bytes [97]), (3, .int 9)]) := by decide +kernel

example : encV exDefs 8 (.struct "m/Inner") (.struct [(1, .bytes [97]), (2, .int 6), (3, .int 9)])
    = .ok [.sb "Inner", .fb "name" 11 1, .str false [97], .fe, .fb "n" 8 2, .i32 6, .fe, .fb "k" 8 3, .i32 9, .fe, .fs, .se] := by
  decide +kernel

/-- `c02_default_reproduced` applies (writer `InnerV1`, reader `Inner`): the stream omits `n` and `k`;
the reader leaves `k = 7` (listed) and `n` unset (the Go field holds 5). Also inside a list inside a
map inside `Outer`: the nested read is the same code. -/
example : ∃ es, encV exDefs 8 (.struct "m/InnerV1") (.struct [(1, .bytes [97])]) = .ok es ∧
    WT exDefs 8 (.struct "m/InnerV1") (.struct [(1, .bytes [97])]) ∧
    decV exDefs 8 (.struct "m/Inner") es = .ok (.struct [(1, .bytes [97]), (3, .int 7)], []) := by
  refine ⟨_, rfl, ?_, ?_⟩
  · simp [WT, exDefs, resolve, resolveN, lookupStruct, normFields, readState, isSetVal, cmpDflt, lookupVal]
  · decide +kernel

example : decV exDefs 8 (.struct "m/Outer")
    [.sb "Outer", .fb "ids" 15 1, .lb 10 0, .le, .fe,
      .fb "m" 13 3, .mb 11 15 1, .str false [107], .lb 12 1, .sb "Inner", .fb "name" 11 1, .str false [97], .fe,
        .fb "n" 8 2, .i32 5, .fe, .fs, .se, .le, .me, .fe,
      .fb "c" 8 8, .i32 5, .fe, .fs, .se]
    = .ok (.struct [(1, .list []), (3, .map [(.bytes [107], .list [.struct [(1, .bytes [97]), (3, .int 7)]])])], []) := by
  decide +kernel

/-! Non-vacuity of `c02_write_rejects_bad_union`: a union with two fields set inside a list inside a
struct, and an empty union as a struct field of an exception. -/
def exDefsU : Defs :=
  { typedefs := [], enums := [],
    structs := [⟨.union, "m/U", "U", [⟨1, .optional, "a", .i32, none⟩, ⟨2, .optional, "b", .string, none⟩]⟩,
                ⟨.struct, "m/H", "H", [⟨1, .default, "l", .list (.struct "m/U"), none⟩, ⟨2, .default, "seq", .i32, none⟩]⟩,
                ⟨.exception, "m/X", "X", [⟨1, .default, "u", .struct "m/U", none⟩]⟩] }

def exBadVal : Val := .struct [(1, .list [.struct [(1, .int 3)], .struct [(1, .int 3), (2, .bytes [120])]]), (2, .int 3)]

example : HasBadUnion exDefsU 8 (.struct "m/H") exBadVal ∧ WTU exDefsU 8 (.struct "m/H") exBadVal := by
  constructor
  · simp [HasBadUnion, exDefsU, exBadVal, resolve, resolveN, lookupStruct, lookupVal, isSetIn, isSetVal, cmpDflt]
  · simp [WTU, exDefsU, exBadVal, resolve, resolveN, lookupStruct, lookupVal]

example : encV exDefsU 8 (.struct "m/H") exBadVal = .err .invalidData := by decide

example : HasBadUnion exDefsU 8 (.struct "m/X") (.struct [(1, .struct [])]) := by
  simp [HasBadUnion, exDefsU, resolve, resolveN, lookupStruct, lookupVal, isSetIn, isSetVal, cmpDflt]

/-! ## Down to the bytes: the binary and the compact protocol

`Event` = one TProtocol WRITE call, `Call` = one READ call, `callOf e` = the read call that consumes
what the write call `e` produced (the emitted `Read` mirrors the emitted `Write` call for call; it
is the kind check of the harness's replaying protocol). `binWrite`/`binRead` and
`cmpWrite`/`cmpRead` model Apache Thrift Go v0.19.0's `TBinaryProtocol` / `TCompactProtocol` in
their default configuration. Integers are Go's int8/16/32/64: two's complement, explicit ranges. -/

/-- Go's fixed-width conversions round-trip on the range of the signed type (8, 16, 32, 64 bits). -/
theorem c02_twos_complement_roundtrip :
    (∀ z : Int, -128 ≤ z ∧ z < 128 → toS8 (toU8 z) = z) ∧
    (∀ z : Int, -32768 ≤ z ∧ z < 32768 → toS16 (toU16 z) = z) ∧
    (∀ z : Int, -2147483648 ≤ z ∧ z < 2147483648 → toI32 (toU32 z) = z) ∧
    (∀ z : Int, -9223372036854775808 ≤ z ∧ z < 9223372036854775808 → toS64 (toU64 z) = z) := by
  refine ⟨fun z h => toS8_toU8 z h, fun z h => ?_, fun z h => ?_, fun z h => ?_⟩
  · simp only [toS16, toU16]; omega
  · simp only [toI32, toU32]; omega
  · simp only [toS64, toU64]; omega

/-- `binary.BigEndian.PutUintN` then `UintN`: the `k` big-endian bytes of `n` denote `n mod 256^k`
(all `k`: 2, 4 and 8 are the ones used). -/
theorem c02_bigendian_roundtrip (k n : Nat) : beNat (beBytes k n) = n % 256 ^ k ∧ (beBytes k n).length = k :=
  ⟨beNat_beBytes k n, beBytes_length k n⟩

/-- Binary protocol, one call: every Read* method applied to the bytes the mirrored Write* method
produced (followed by anything) returns what was written — field header = type byte + i16 id,
stop = 0, integers big-endian two's complement, double = the 8 bytes of its IEEE bits,
string/binary = i32 length + bytes, list/set = element type + i32 size, map = key type + value
type + i32 size, bool = one byte, struct begin/end = nothing — and leaves what followed. -/
theorem c02_binary_read_write (e : Event) (rest : Bytes) (h : BinFits e) :
    binRead (callOf e) (binWrite e ++ rest) = .ok (binErase e, rest) :=
  binRead_binWrite e rest h

/-- What the protocols do not put on the wire is never looked at by the emitted `Read`: struct and
field names, the key/value types announced by an empty map. -/
theorem c02_read_ignores_unsent (d : Defs) (n : Nat) (t : Ty) (es : List Event) :
    decV d n t (es.map forget) = mapR (decV d n t es) :=
  decV_forget d n t es

/-- BINARY PROTOCOL ROUND TRIP. For every definitions table, type and well-typed value within the
depth budget whose write calls fit Go's parameter types and `MaxMessageSize`: the bytes that the
emitted `Write` puts on the transport through the binary protocol, read through the binary protocol
with the calls the emitted `Read` makes, give back the written calls (names excepted) and exactly
the bytes that followed, and the emitted `Read` turns them into the value that was written,
consuming all of them. -/
theorem c02_binary_roundtrip (d : Defs) (n : Nat) (t : Ty) (v : Val) (es : List Event) (rest : Bytes)
    (hwt : WT d n t v) (henc : encV d n t v = .ok es) (hfit : ∀ e ∈ es, BinFits e) :
    binReads (es.map callOf) (binEnc es ++ rest) = .ok (es.map binErase, rest) ∧
      decV d n t (es.map binErase) = .ok (v, []) :=
  binary_roundtrip d n t v es rest hwt henc hfit

/-- Zigzag (`int32ToZigzag`/`zigzagToInt32`, and the 64-bit pair): decoding the encoding gives the
number back, and the encoding of an int32 / int64 fits 32 / 64 bits. -/
theorem c02_zigzag_roundtrip (z : Int) :
    unzigzag (zigzag z) = z ∧
    (-2147483648 ≤ z ∧ z < 2147483648 → zigzag z < 4294967296) ∧
    (-9223372036854775808 ≤ z ∧ z < 9223372036854775808 → zigzag z < 18446744073709551616) :=
  ⟨zigzag_unzigzag z, zigzag_lt32 z, zigzag_lt64 z⟩

/-- Varint: for EVERY `n` (no bound on the number of bytes), the read loop started at any shift and
accumulator on the bytes `writeVarint` produced, followed by anything, adds `n·2^shift` and stops
exactly at what followed; so `readVarint64` returns every `n < 2^64` and `readVarint32` every
`n < 2^32`. (Induction on `n / 128`: one step per byte.) -/
theorem c02_varint_roundtrip (n : Nat) (rest : Bytes) :
    (∀ shift acc, uvarintDec (uvarint n ++ rest) shift acc = .ok (acc + n * 2 ^ shift, rest)) ∧
    (n < 18446744073709551616 → readVarint64 (uvarint n ++ rest) = .ok (n, rest)) ∧
    (n < 4294967296 → readVarint32 (uvarint n ++ rest) = .ok (n, rest)) :=
  ⟨uvarintDec_uvarint n rest, readVarint64_uvarint n rest, readVarint32_uvarint n rest⟩

/-- The arithmetic reading of the Go bit operations is itself proved where it matters most:
`int32ToZigzag`'s `(n << 1) ^ (n >> 31)` (arithmetic shift) on 32-bit vectors is `zigzag n` for every
int32 `n`; the varint loop's `n & 0x7F`, `(n & 0x7F) | 0x80`, `n >> 7` are `n % 128`, `n % 128 + 128`,
`n / 128` for every `n`. -/
theorem c02_zigzag_varint_bitops :
    (∀ z : Int, -2147483648 ≤ z ∧ z < 2147483648 → (zigzag32bv (BitVec.ofInt 32 z)).toNat = zigzag z) ∧
    (∀ n : Nat, n &&& 127 = n % 128 ∧ (n &&& 127) ||| 128 = n % 128 + 128 ∧ n >>> 7 = n / 128) :=
  ⟨zigzag32bv_eq, varint_bitops⟩

/-- Compact field header: whatever the previous field id of the struct (`r.last`), both forms — the
one-byte `delta<<4 | type` when `0 < id - last ≤ 15`, and `type` followed by the zigzag-varint id
otherwise (larger gap, descending or equal id) — are decoded to the type of the nibble and the id,
the id becomes the reader's previous id, and a bool nibble (1 = true, 2 = false) is kept for the
`ReadBool` that follows. -/
theorem c02_compact_field_header_roundtrip (r : CR) (nib tt : Nat) (id : Int) (rest : Bytes)
    (hl : InR16 r.last) (hid : InR16 id) (hn0 : nib ≠ 0) (hn : nib < 16) (htt : ttypeOf nib = some tt) :
    cmpRead r .fieldBegin (cmpFieldHdr r.last nib id ++ rest) =
      .ok (.fb "" tt id, rest, ⟨r.stack, id, if nib = 1 ∨ nib = 2 then some (nib = 1) else r.bool⟩) :=
  cmpRead_fieldHdr r nib tt id rest hl hid hn0 hn htt

/-- Compact protocol, one call, with the writer's and the reader's states in step (`CRel`): the read
call returns what the mirrored write call was given — zigzag varints for i16/i32/i64, list/set
header with the size in the high nibble (or 15 and a varint), map header = varint size and a
key/value type byte (a single 0 for the empty map), string = varint length + bytes, double = 8 bytes
LITTLE endian, struct begin/end = push/pop of the previous field id — leaves what followed, and the
states are in step again. (The header of a bool field is the next theorem.) -/
theorem c02_compact_read_write (w w' : CW) (r : CR) (e : Event) (bs rest : Bytes) (hrel : CRel w r)
    (hfit : CmpFits e) (hnb : ∀ nm id, e ≠ .fb nm 2 id) (hw : cmpWrite w e = .ok (bs, w')) :
    ∃ r', cmpRead r (callOf e) (bs ++ rest) = .ok (cmpErase e, rest, r') ∧ CRel w' r' :=
  cmp_step w w' r e bs rest hrel hfit hnb hw

/-- Compact protocol, bool field: `WriteFieldBegin(BOOL)` writes nothing, `WriteBool` writes the
header with the value folded into the type nibble; `ReadFieldBegin` decodes it as a BOOL field and
`ReadBool` returns the value without touching the input. -/
theorem c02_compact_bool_field (w : CW) (r : CR) (id : Int) (b : Bool) (rest : Bytes) (hrel : CRel w r)
    (hid : InR16 id) :
    ∃ r1 r2, cmpRead r .fieldBegin (cmpFieldHdr w.last (if b then 1 else 2) id ++ rest) = .ok (.fb "" 2 id, rest, r1) ∧
      cmpRead r1 .bool rest = .ok (.bool b, rest, r2) ∧ CRel { w with last := id, pend := none } r2 :=
  cmp_step_boolfield w r id b rest hrel hid

/-- COMPACT PROTOCOL ROUND TRIP (full: structs, bool fields, nested containers). For every
definitions table, type and well-typed value within the depth budget whose write calls fit
(`CmpOK`: Go's parameter types, `MaxMessageSize`, real TTypes, a BOOL field holds a bool;
`cmpBalanced`: struct ends match struct begins): the stateful compact writer succeeds on the calls
of the emitted `Write`; its bytes, read from the initial reader state with the calls the emitted
`Read` makes, give back the written calls (minus names and the types of empty maps) and exactly the
bytes that followed; and the emitted `Read` turns them into the value that was written. -/
theorem c02_compact_roundtrip (d : Defs) (n : Nat) (t : Ty) (v : Val) (es : List Event)
    (hwt : WT d n t v) (henc : encV d n t v = .ok es) (hok : CmpOK es) (hbal : cmpBalanced 0 es = true) :
    ∃ bs w', cmpEnc CW.init es = .ok (bs, w') ∧
      ∀ rest : Bytes, ∃ r', cmpReads CR.init (es.map callOf) (bs ++ rest) = .ok (es.map cmpErase, rest, r') ∧
        decV d n t (es.map cmpErase) = .ok (v, []) :=
  compact_roundtrip d n t v es hwt henc hok hbal

/-- The byte-level hypotheses are not extra assumptions about the emitted code: for every well-typed
value that FITS (`Fits`: integers within their declared widths, enum values within int32, IEEE
bits within 64 bits, string lengths and container sizes within `MaxMessageSize`, declared field ids
within int16) the calls of the emitted `Write` fit the binary protocol, have the shape the compact
protocol needs (a BOOL field holds exactly one bool, field types are real TTypes, struct ends
match struct begins). -/
theorem c02_write_calls_fit (d : Defs) (n : Nat) (t : Ty) (v : Val) (es : List Event)
    (hwt : WT d n t v) (hfit : Fits d n t v) (henc : encV d n t v = .ok es) :
    (∀ e ∈ es, BinFits e) ∧ CmpOK es ∧ cmpBalanced 0 es = true :=
  (encV_chunk d n t v es hwt hfit henc).hyps

/-- BINARY, value level: for every definitions table, type and well-typed value that fits, the
emitted `Write` succeeds and its bytes through the binary protocol (followed by anything) are read
back — by the protocol reads the emitted `Read` makes, then by the emitted `Read` — to the value. -/
theorem c02_binary_roundtrip_values (d : Defs) (n : Nat) (t : Ty) (v : Val) (rest : Bytes)
    (hwt : WT d n t v) (hfit : Fits d n t v) :
    ∃ es, encV d n t v = .ok es ∧
      binReads (es.map callOf) (binEnc es ++ rest) = .ok (es.map binErase, rest) ∧
      decV d n t (es.map binErase) = .ok (v, []) := by
  obtain ⟨es, henc⟩ := enc_total d n t v hwt
  exact ⟨es, henc, binary_roundtrip d n t v es rest hwt henc (encV_chunk d n t v es hwt hfit henc).hyps.1⟩

/-- COMPACT, value level (full): likewise through the stateful compact protocol, from the initial
writer and reader states. -/
theorem c02_compact_roundtrip_values (d : Defs) (n : Nat) (t : Ty) (v : Val)
    (hwt : WT d n t v) (hfit : Fits d n t v) :
    ∃ es bs w', encV d n t v = .ok es ∧ cmpEnc CW.init es = .ok (bs, w') ∧
      ∀ rest : Bytes, ∃ r', cmpReads CR.init (es.map callOf) (bs ++ rest) = .ok (es.map cmpErase, rest, r') ∧
        decV d n t (es.map cmpErase) = .ok (v, []) := by
  obtain ⟨es, henc⟩ := enc_total d n t v hwt
  have h := (encV_chunk d n t v es hwt hfit henc).hyps
  obtain ⟨bs, w', hb, hr⟩ := compact_roundtrip d n t v es hwt henc h.2.1 h.2.2
  exact ⟨es, bs, w', henc, hb, hr⟩

/-! Non-vacuity of the byte-level hypotheses: the calls the emitted `Write` makes for `exVal`, and
for a value with bool fields, an id gap > 15, a descending id, an i64 extreme and an empty map. -/
def exDefs2 : Defs :=
  { typedefs := [], enums := [],
    structs := [⟨.struct, "m/W", "W", [⟨1, .default, "a", .bool, none⟩, ⟨17, .default, "b", .bool, none⟩, ⟨40, .default, "s", .string, none⟩,
                   ⟨39, .optional, "l", .i64, none⟩, ⟨300, .optional, "m", .map .string (.list .i16), none⟩, ⟨301, .optional, "bs", .list .bool, none⟩]⟩] }

def exVal2 : Val :=
  .struct [(1, .bool true), (17, .bool false), (40, .bytes [104, 105]), (39, .int (-9223372036854775808)),
           (300, .map []), (301, .list [.bool true, .bool false])]

def exEvents : List Event :=
  [.sb "Outer", .fb "ids" 15 1, .lb 10 2, .i64 7, .i64 (-1), .le, .fe,
   .fb "m" 13 3, .mb 11 15 1, .str false [107], .lb 12 1,
     .sb "Inner", .fb "name" 11 1, .str false [97], .fe, .fb "n" 8 2, .i32 6, .fe, .fb "k" 8 3, .i32 9, .fe, .fs, .se,
   .le, .me, .fe, .fs, .se]

example : ∃ es, encV exDefs 8 (.struct "m/Outer") exVal = .ok es ∧ (∀ e ∈ es, BinFits e) ∧ CmpOK es ∧ cmpBalanced 0 es = true := by
  refine ⟨exEvents, by decide +kernel, ?_, ?_, ?_⟩ <;> decide

example : ∃ es, encV exDefs2 8 (.struct "m/W") exVal2 = .ok es ∧ (∀ e ∈ es, BinFits e) ∧ CmpOK es ∧ cmpBalanced 0 es = true := by
  refine ⟨_, rfl, ?_, ?_, ?_⟩ <;> decide

example : WT exDefs2 8 (.struct "m/W") exVal2 := by
  simp [WT, exDefs2, exVal2, resolve, resolveN, lookupStruct, normFields, readState, isSetVal, cmpDflt, lookupVal]

example : Fits exDefs2 8 (.struct "m/W") exVal2 := by
  simp [Fits, exDefs2, exVal2, resolve, resolveN, lookupStruct, lookupVal, maxMessageSize]

example : Fits exDefs 8 (.struct "m/Outer") exVal := by
  simp [Fits, exDefs, exVal, resolve, resolveN, lookupTypedef, lookupStruct, lookupVal, maxMessageSize]

end FV.C02
