/-
C05 — No received byte sequence can crash or wedge a Frugal process.

  "For every byte sequence a peer can deliver, as a framed message on a socket,
  a NATS or STOMP message or an HTTP body, every receiving entry point (client
  response path, server request path, subscriber path) either handles it or
  rejects it with an error; it never panics and never blocks forever.
  Message-oriented receivers (NATS, STOMP, HTTP, server workers) keep serving
  later well-formed messages, and a connection-oriented receiver does at most
  close that one connection and report the cause."

The models keep Go's slice-expression semantics (`FV.slice`, `FV.sliceFrom`:
out of range ⇒ the explicit outcome `Res.panic`), so "never panics" is a real
statement about index arithmetic, not an artefact of totalisation. Termination
("never blocks forever" for these loops) is Lean's termination proof of
`readPairs` (measure `end − i`; it needs the negative-length rejection) and the
structural recursion of everything else: every function below is total.
-/
import FV.Model.Headers
import FV.Model.Registry0
import FV.Model.Receivers
import FV.Proofs.Headers
import FV.Model.Receivers2
import FV.Proofs.Receivers2
import FV.Proofs.Receivers2Framed
import FV.Model.Receivers3
import FV.Proofs.Receivers3
import FV.Model.Receivers4
import FV.Proofs.Receivers4
import FV.Model.Receivers5
import FV.Proofs.Receivers5
import FV.Generated.Locks

namespace FV.C05
open FV

/-- Client response path, frame variant: `getHeadersFromFrame` never panics. -/
theorem c05_no_panic_frame (bs : Bytes) : ∀ p, headersFromFrame bs ≠ .panic p :=
  headersFromFrame_no_panic bs

/-- Server request / subscriber path: `readHeader` on a stream never panics. -/
theorem c05_no_panic_stream (bs : Bytes) : ∀ p, unmarshalStream bs ≠ .panic p :=
  unmarshalStream_no_panic bs

/-- `readPairs` itself, for any window inside the buffer and any accumulator. -/
theorem c05_no_panic_readPairs (buf : Bytes) (i e : Int) (acc : Hdrs) (h0 : 0 ≤ i) (he : e ≤ buf.length) :
    ∀ p, readPairs buf i e acc ≠ .panic p :=
  readPairs_no_panic buf i e acc h0 he

theorem c05_no_panic_addHeaders (bs : Bytes) (adds : Hdrs) : ∀ p, addHeadersToFrame bs adds ≠ .panic p :=
  addHeadersToFrame_no_panic bs adds

/-- `fRegistryImpl.Execute` (header parse, op id parse, unregistered ⇒ nil). -/
theorem c05_no_panic_execute (bs : Bytes) : ∀ p, registryExecuteEmpty bs ≠ .panic p :=
  registryExecuteEmpty_no_panic bs

/-- `fBaseTransport.ExecuteFrame` (NATS client handler path): strips the frame size. -/
theorem c05_no_panic_executeFrame (bs : Bytes) : ∀ p, executeFrameEmpty bs ≠ .panic p :=
  executeFrameEmpty_no_panic bs

/-- `fNatsServer.processFrame`. -/
theorem c05_no_panic_processFrame (bs : Bytes) : ∀ p, natsServerProcessFrame bs ≠ .panic p :=
  natsServerProcessFrame_no_panic bs

/-- HTTP server request path (`NewFrugalHandlerFunc`): never panics, always answers with a status. -/
theorem c05_no_panic_http (bs : Bytes) : ∀ p, httpHandle bs ≠ .panic p := by
  intro p
  unfold httpHandle
  split
  · intro h; cases h
  · split
    · intro h; cases h
    · intro h; cases h
    · rename_i q hq; exact absurd hq (readRequestHeaderClass_no_panic _ q)

/-- Every outcome of every modelled receiver is `ok` or an error return. -/
theorem c05_handled_or_rejected (bs : Bytes) :
    (headersFromFrame bs).isPanic = false ∧ (unmarshalStream bs).isPanic = false ∧
    (executeFrameEmpty bs).isPanic = false ∧ (natsServerProcessFrame bs).isPanic = false := by
  refine ⟨?_, ?_, ?_, ?_⟩
  · cases h : headersFromFrame bs <;> simp [Res.isPanic]; exact absurd h (c05_no_panic_frame bs _)
  · cases h : unmarshalStream bs <;> simp [Res.isPanic]; exact absurd h (c05_no_panic_stream bs _)
  · cases h : executeFrameEmpty bs <;> simp [Res.isPanic]; exact absurd h (c05_no_panic_executeFrame bs _)
  · cases h : natsServerProcessFrame bs <;> simp [Res.isPanic]; exact absurd h (c05_no_panic_processFrame bs _)

theorem worker_alive (w : Worker) (ms : List Bytes) (h : w.alive = true) : (w.recvAll ms).alive = true := by
  induction ms generalizing w with
  | nil => simpa [Worker.recvAll]
  | cons m t ih =>
    simp only [Worker.recvAll, List.foldl_cons]
    apply ih
    unfold Worker.recv
    simp only [h]
    split
    · simp at *
    · split <;> simp [h]

/-- Message-oriented receiver (NATS subscriber worker): after ANY sequence of received
byte strings the worker is still alive and delivers the next well-formed message. -/
theorem c05_worker_keeps_serving (ms : List Bytes) (w : Bytes) (hw : 4 ≤ w.length) :
    ((Worker.init.recvAll ms).recv w).alive = true ∧
    ((Worker.init.recvAll ms).recv w).delivered = (Worker.init.recvAll ms).delivered + 1 := by
  have ha := worker_alive Worker.init ms rfl
  unfold Worker.recv
  simp only [ha]
  have : ¬ w.length < 4 := by omega
  simp [this]

/-- The stateless message receivers (NATS server worker / client handler) have no state to
corrupt: the outcome for a message is a function of that message alone, whatever came before. -/
theorem c05_stateless_receivers (garbage : List Bytes) (w : Bytes) :
    (garbage.map natsServerProcessFrame, natsServerProcessFrame w).2 = natsServerProcessFrame w ∧
    (garbage.map executeFrameEmpty, executeFrameEmpty w).2 = executeFrameEmpty w := ⟨rfl, rfl⟩

/-! Non-vacuity / witnesses of the defects repaired (these inputs panicked before the fix). -/
example : headersFromFrame [0, 0, 0, 0, 1, 9] = .err .invalidData := by
  simp [headersFromFrame, unmarshalHeadersFromFrame, rd32, toI32, readPairs]
example : unmarshalStream [0, 255, 255, 255, 255] = .err .invalidData := by
  simp [unmarshalStream, rd32, toI32]
example : executeFrameEmpty [1, 2] = .err .invalidData := by simp [executeFrameEmpty]
example : natsServerProcessFrame [] = .err .invalidData := by simp [natsServerProcessFrame]

end FV.C05

/-! ## Second part — connection-oriented receivers, the STOMP subscriber

Models: `FV.Model.Receivers2`. The framed transport's reads (`TFramedTransport.Read` under `io.ReadFull`), the
adapter transport's read loop, `FSimpleServer.accept`, STOMP `processMessages`. The loops carry a fuel
argument and answer `Res.panic .fuel` when it runs out, so each `c05_no_panic_…` below is also the statement
that the loop terminates on every byte stream ("never blocks forever": the only way the real loop waits is in
a read of the connection, which the peer's END_OF_FILE or a local `Close()` ends). -/
namespace FV.C05
open FV FV.Recv2

/-- `io.ReadFull` over a `TFramedTransport`, any pending frame state, any stream, any length asked for. -/
theorem c05_no_panic_framedRead (t : FT) (n : Nat) : ∀ p, t.readFull n ≠ .panic p :=
  readFull_no_panic t n

/-- (a) Client response path on a socket: the adapter transport's read loop, for EVERY byte stream of the
peer (size prefixes of 0, cut off, above `maxLength`, larger than what follows; any bodies; any number of
frames) neither panics nor runs forever. -/
theorem c05_no_panic_adapterReadLoop (s : Bytes) : ∀ p, adapterRecv s ≠ .panic p :=
  adapterRecv_no_panic s

/-- … and the worst it does is close its own connection, publishing one value on `Closed()`. -/
theorem c05_adapter_worst_is_close (s : Bytes) : ∃ e : LoopEnd, adapterRecv s = .ok e :=
  adapterRecv_closes s

/-- (b) Server request path on a socket: `FSimpleServer.accept`, for EVERY byte stream of the client. -/
theorem c05_no_panic_simpleServerAccept (s : Bytes) : ∀ p, accept s ≠ .panic p :=
  accept_no_panic s

/-- … and the worst it does is give up that client, returning the cause. -/
theorem c05_accept_worst_is_return (s : Bytes) : ∃ e : AcceptEnd, accept s = .ok e :=
  accept_returns s

/-- The request header read off a framed transport (`readHeader` with frame boundaries in play). -/
theorem c05_no_panic_readHeaderFramed (t : FT) : ∀ p, readHeaderF t ≠ .panic p :=
  readHeaderF_no_panic t

/-- Connection-oriented receivers (adapter read loop, simple server): bytes arriving on connection `i` of a
process with any number of connections never crash the process, leave every other connection exactly as it
was, and close connection `i` at most once, appending the receiver's cause to what its owner has seen; a
connection that is closed already is not touched. -/
theorem c05_connection_receiver_closes_once (i : Nat) (s : Bytes) (y : Sys) (hy : y.crashed = false) :
    ∀ recv, (recv = adapterCause ∨ recv = acceptCause) →
    (recvOn recv i s y).crashed = false ∧
    (∀ j, j ≠ i → (recvOn recv i s y).conns[j]? = y.conns[j]?) ∧
    (∀ c, y.conns[i]? = some c →
      (c.isOpen = false → (recvOn recv i s y).conns[i]? = some c) ∧
      (c.isOpen = true → ∃ cause, recv s = .ok cause ∧
        (recvOn recv i s y).conns[i]? = some ⟨false, c.causes ++ [cause]⟩)) := by
  intro recv hrecv
  have hr : ∀ s, ∃ c, recv s = .ok c := by
    rcases hrecv with h | h <;> subst h
    · exact adapterCause_ok
    · exact acceptCause_ok
  obtain ⟨h1, _, h3, h4⟩ := recvOn_spec recv hr i s y hy
  exact ⟨h1, h3, h4⟩

/-- Over any history of deliveries to any connections, starting from fresh ones: the process has not
crashed, an open connection has published nothing, a closed one exactly one cause. -/
theorem c05_connections_one_cause_each (n : Nat) (ds : List (Nat × Bytes)) :
    ∀ recv, (recv = adapterCause ∨ recv = acceptCause) →
    let y := deliverAll recv ⟨false, List.replicate n Conn.fresh⟩ ds
    y.crashed = false ∧ ∀ c ∈ y.conns, (c.isOpen = true → c.causes = []) ∧ (c.isOpen = false → c.causes.length = 1) := by
  intro recv hrecv
  have hr : ∀ s, ∃ c, recv s = .ok c := by
    rcases hrecv with h | h <;> subst h
    · exact adapterCause_ok
    · exact acceptCause_ok
  apply deliverAll_inv recv hr ds
  refine ⟨rfl, ?_⟩
  intro c hc
  have := List.eq_of_mem_replicate hc
  subst this
  exact ⟨fun _ => rfl, fun h => by cases h⟩

/-- (c) Subscriber path over STOMP: `processMessages` never panics on any sequence of message bodies,
whatever the callback answers, and is still alive afterwards. -/
theorem c05_no_panic_stomp (cb : Bytes → Bool) (ms : List Bytes) :
    ∃ w, Stomp.recvAll cb Stomp.init ms = .ok w ∧ w.alive = true := by
  obtain ⟨w, h, ha⟩ := stomp_recvAll_total cb ms Stomp.init
  exact ⟨w, h, by rw [ha]; rfl⟩

/-- Message-oriented receiver (STOMP subscriber): after ANY sequence of bodies the next well-formed
message (at least the 4-byte prefix, accepted by the callback) is delivered and acknowledged. -/
theorem c05_stomp_keeps_serving (cb : Bytes → Bool) (ms : List Bytes) (m : Bytes)
    (h4 : 4 ≤ m.length) (hcb : cb (m.drop 4) = true) :
    ∃ w, Stomp.recvAll cb Stomp.init ms = .ok w ∧
      Stomp.recv cb w m = .ok { w with delivered := w.delivered + 1, acked := w.acked + 1 } := by
  obtain ⟨w, h, ha⟩ := stomp_recvAll_total cb ms Stomp.init
  exact ⟨w, h, stomp_recv_wellformed cb w m (by rw [ha]; rfl) h4 hcb⟩

end FV.C05

/-! ## Third part — the generic client path (`FStandardClient.processReply`), model `FV.Model.Receivers3` -/
namespace FV.C05
open FV FV.Recv3

/-- Thrift's binary `ReadMessageBegin` (both envelope forms) on any bytes: an envelope or an error. -/
theorem c05_no_panic_messageBegin (bs : Bytes) : ∀ p, binMessageBegin bs ≠ .panic p :=
  binMessageBegin_no_panic bs

/-- (d) Client response path, generic part: for EVERY reply byte string and every method name
`processReply` neither panics nor fails to classify the reply: it ends in one of the six stages
(header error, envelope error, wrong method name, exception, invalid message type, result read). -/
theorem c05_no_panic_processReply (method bs : Bytes) : ∀ p, processReply method bs ≠ .panic p := by
  intro p h
  obtain ⟨o, ho⟩ := processReply_total method bs
  rw [ho] at h
  cases h

/-- Whatever a reply carries, the response headers it adds to the caller's context never include
`_opid`: a reply cannot re-label the call it answers. -/
theorem c05_reply_cannot_set_opid (method bs : Bytes) (o : ReplyOutcome) (h : processReply method bs = .ok o) :
    ∀ kv ∈ o.added, kv.1 ≠ opIdHeader :=
  processReply_keeps_opid method bs o h

/-- Garbage is an error: the result struct is only read from a reply whose header block parses and whose
envelope is a REPLY (type 2) message for this very method; every other byte string ends in a stage that
returns an error to the caller. -/
theorem c05_reply_accepted_only_if_wellformed (method bs : Bytes) (o : ReplyOutcome)
    (h : processReply method bs = .ok o) (hs : o.stage = .reply) :
    ∃ hd rest name r2, unmarshalStream bs = .ok (hd, rest) ∧ binMessageBegin rest = .ok (name, 2, r2) ∧ name = method :=
  processReply_reply_stage method bs o h hs

/-- The client path keeps no state between replies: the stage of a reply is a function of that reply alone. -/
theorem c05_client_stateless (garbage : List Bytes) (method w : Bytes) :
    (garbage.map (processReply method), processReply method w).2 = processReply method w := rfl

end FV.C05

/-! ## The adapter read loop: what the published cause means; valid traffic; agreement with C15's model -/
namespace FV.C05
open FV FV.Recv2

/-- The read loop of this file (Go's partial operations explicit, fuel) and the read loop of C15's model
(`FV.Framed.readAll`: whole frames of the stream, where the stream ended) agree on EVERY byte stream:
same number of frames handed to the registry, and the value published on `Closed()` is nil exactly
when C15's model calls the close clean. -/
theorem c05_adapter_agrees_with_framed_model (s : Bytes) :
    ∃ e, adapterRecv s = .ok e ∧ e.delivered = (Framed.readAll s true).1 ∧
      causeClass e.cause = (Framed.readAll s true).2 :=
  adapterRecv_refines_framed s

/-- "… and report the cause": the adapter publishes nil only if the registry accepted every whole frame of
the stream and no size prefix was refused; whenever it closes the connection because of what the peer
sent, the value on `Closed()` is that error. (END_OF_FILE — the peer hanging up, also in the middle of a
frame — is the one close that is not the receiver's doing; it is published as nil.) -/
theorem c05_adapter_cause_reported (s : Bytes) (e : LoopEnd) (h : adapterRecv s = .ok e) :
    e.cause = none ↔ ((Framed.deliver (Framed.deframe s).1).2 = true ∧ (Framed.deframe s).2 ≠ .badSize) := by
  obtain ⟨e', he, _, hc⟩ := adapterLoop_refines (s.length + 1) s 0 (by omega)
  have : e = e' := by
    unfold adapterRecv at h
    rw [he] at h
    cases h; rfl
  subst this
  exact hc

/-- Valid traffic is served: frames that fit `maxLength` and that the registry accepts are delivered one by
one, and the peer's hang-up closes the transport with cause nil. (A connection that received garbage is
gone; the next connection starts from this same initial state — the read loop has no other.) -/
theorem c05_adapter_serves_valid_traffic (fs : List Bytes)
    (hfs : ∀ f ∈ fs, f.length ≤ maxFrame ∧ (registryExecuteEmpty f).isOk = true) :
    adapterRecv (Framed.encode fs) = .ok ⟨none, fs.length⟩ :=
  adapterRecv_wellformed fs hfs

/-! Non-vacuity: concrete inputs through the models. -/
example : adapterRecv [0, 0, 0] = .ok ⟨none, 0⟩ := by decide
/-- The hypothesis of `c05_adapter_serves_valid_traffic` is met by a real frame (headers `_opid: 1`). -/
example : ∃ f : Bytes, f.length ≤ maxFrame ∧ (registryExecuteEmpty f).isOk = true :=
  ⟨[0, 0,0,0,14, 0,0,0,5, 95,111,112,105,100, 0,0,0,1, 49], by simp [maxFrame], by
    simp [registryExecuteEmpty, frameOpId, headersFromFrame, unmarshalHeadersFromFrame, rd32, toI32, readPairs, slice,
      Hdrs.set, Hdrs.get?, opIdHeader, parseU64, digitsVal, Res.isOk]⟩
example : (Recv3.processReply [112] [9]).isOk = true := by decide
example : Stomp.recvAll (fun p => p.head? == some 0) Stomp.init [[1], [], [0, 0, 0, 1, 0]] = .ok ⟨true, 1, 1⟩ := by decide

end FV.C05

/-! ## Fourth part — the HTTP client response path (`fHTTPTransport.Request` + `FStandardClient.Call`/`Oneway`),
model `FV.Model.Receivers4`. The model starts from the status code and what `base64.StdEncoding` made of the
body. -/
namespace FV.C05
open FV FV.Recv4

/-- `fHTTPTransport.Request` on every status and every body: an error, `(nil, nil)` or reply bytes. -/
theorem c05_no_panic_httpRequest (status : Nat) (body : B64) : ∀ p, httpRequest status body ≠ .panic p :=
  httpRequest_no_panic status body

/-- (e) Client response path over HTTP: for EVERY status code and EVERY body, `FStandardClient.Call` returns
the transport's error or ends in a stage of `processReply` — never a panic (in particular not the nil
dereference of the code before the repair, see the counterexample below). -/
theorem c05_http_call_total (method : Bytes) (status : Nat) (body : B64) :
    (∃ e, httpCall true method status body = .req e) ∨ (∃ o, httpCall true method status body = .reply o) :=
  httpCall_total method status body

/-- `Oneway` over HTTP: nil or the transport's error, for every status and body. -/
theorem c05_http_oneway_total (status : Nat) (body : B64) : ∃ r, httpOneway status body = .ok r :=
  httpOneway_total status body

/-- The 4 zero bytes a server sends for a one-way, received for a TWO-WAY call, are an error (INVALID_DATA). -/
theorem c05_http_zero_frame_is_error (method : Bytes) (status : Nat) (b : Bytes)
    (h1 : status ≠ 413) (h2 : status < 300) (hl : b.length = 4) (hz : rd32 b = 0) :
    httpCall true method status (.decoded b) = .req .invalidData := by
  have := (httpRequest_nil status (.decoded b)).mpr ⟨h1, h2, b, rfl, hl, hz⟩
  unfold httpCall
  rw [this]
  rfl

/-- Before the repair (`guarded = false`: `Call` handed the nil transport to `processReply`) the same response
is a nil-pointer panic in the caller's goroutine: the statement of C05 was false of that code. -/
theorem c05_http_zero_frame_unfixed_counterexample (method : Bytes) :
    httpCall false method 200 (.decoded [0, 0, 0, 0]) = .nilDeref := by
  have h : httpRequest 200 (.decoded [0, 0, 0, 0]) = .nilTransport :=
    (httpRequest_nil 200 (.decoded [0, 0, 0, 0])).mpr ⟨by omega, by omega, [0, 0, 0, 0], rfl, rfl, rfl⟩
  unfold httpCall
  rw [h]
  rfl

/-- Composition with the generic client path: when the transport hands back reply bytes — a response below
300, not 413, base64 of more than 4 bytes — `Call` is exactly `processReply` on the bytes behind the first
four (their value is never compared with the length: modelled as it is), with all that is proved of it:
no panic, `_opid` never set, accepted only if a REPLY for the method. -/
theorem c05_http_call_composes (method : Bytes) (status : Nat) (b : Bytes)
    (h1 : status ≠ 413) (h2 : status < 300) (hl : 4 < b.length) :
    ∃ o, Recv3.processReply method (b.drop 4) = .ok o ∧ httpCall true method status (.decoded b) = .reply o := by
  have ht := (httpRequest_transport status (.decoded b) (b.drop 4)).mpr ⟨h1, h2, b, rfl, hl, rfl⟩
  obtain ⟨o, ho⟩ := Recv3.processReply_total method (b.drop 4)
  refine ⟨o, ho, ?_⟩
  unfold httpCall
  rw [ht]
  dsimp only
  rw [ho]

/-- Everything that is not such a response is an error for a two-way call, and no reply is read from it. -/
theorem c05_http_call_rejects_the_rest (method : Bytes) (status : Nat) (body : B64)
    (h : ¬ (status ≠ 413 ∧ status < 300 ∧ ∃ b, body = .decoded b ∧ 4 < b.length)) :
    ∃ e, httpCall true method status body = .req e := by
  unfold httpCall
  split
  · exact ⟨_, rfl⟩
  · rename_i p hp; exact absurd hp (httpRequest_no_panic _ _ p)
  · exact ⟨_, rfl⟩
  · rename_i r hr
    obtain ⟨a, b, bb, hb, hl, _⟩ := (httpRequest_transport status body r).mp hr
    exact absurd ⟨a, b, bb, hb, hl⟩ h

/-- The HTTP client path keeps no state between responses. -/
theorem c05_http_client_stateless (garbage : List (Nat × B64)) (method : Bytes) (st : Nat) (w : B64) :
    (garbage.map (fun g => httpCall true method g.1 g.2), httpCall true method st w).2 = httpCall true method st w := rfl

example : httpCall true [112] 200 (.decoded [0, 0, 0, 0]) = .req .invalidData :=
  c05_http_zero_frame_is_error [112] 200 [0, 0, 0, 0] (by omega) (by omega) rfl rfl
example : httpCall true [112] 413 .invalid = .req .tooLarge := rfl
example : httpOneway 500 (.decoded [0, 0, 0, 0]) = .ok (some .transport) := rfl

/-- **Lock discipline behind the model's atomic steps** (registry, adapter lifecycle lock, framed reader, processor write mutex, NATS server send mutex, subscriber open mutex), decided by the kernel on facts
REGENERATED from lib/go's source on every check (harness/locks → FV/Generated/Locks.lean): no function
calls, while it holds one of these mutexes, anything that (transitively) acquires the same mutex, no
lexical re-lock, and every path out of a function releases what the function locked. This is what makes a
critical section ONE step of the model and rules out the self-deadlocks (a second RLock behind a queued
writer, SendError under SendReply's lock) and leaked locks that would wedge every later request. -/
theorem c05_lock_discipline :
    FV.Locks.ok [1, 2, 3, 5, 6, 7] FV.Generated.Locks.mutexTags FV.Generated.Locks.facts = true := by decide +kernel

end FV.C05

/-! ## Fifth part — the SIZE of echoed header values: the reply step of a server worker, model `FV.Model.Receivers5`.
A peer can size `_cid` / `_opid` so that the request fits the transport while the response headers alone
pass the server's output limit. -/
namespace FV.C05
open FV FV.Recv5

/-- The worker's reply step ends after at most TWO write attempts (the reply, and one RESPONSE_TOO_LARGE
exception), whatever the sizes of the header block and of every other write and whatever the limit:
`sendError` ignores the results of its writes and so never re-enters `trapError`. (`replyStep` is a
composition of two folds over finite lists: its totality is Lean's termination check.) -/
theorem c05_reply_step_at_most_two_attempts (limit : Nat) (sc : Scenario) (primary fallback : List (List Nat)) :
    (replyStep limit sc primary fallback).attempts ≤ 2 := by
  unfold replyStep
  cases sc <;> dsimp only
  · split <;> simp
  · simp
  · split <;> simp

/-- Whatever was received, what the worker publishes fits the output limit. -/
theorem c05_reply_step_within_limit (limit : Nat) (hl : 4 ≤ limit) (sc : Scenario) (primary fallback : List (List Nat))
    (n : Nat) (h : published (replyStep limit sc primary fallback) = some n) : n ≤ limit := by
  have hlen : (replyStep limit sc primary fallback).len ≤ limit := by
    unfold replyStep
    cases sc <;> dsimp only
    · split
      · rename_i m hm; exact checked_le limit (by omega) primary.flatten 4 m hl hm
      · exact unchecked_le limit hl fallback 4 hl
    · exact unchecked_le limit hl primary 4 hl
    · split
      · rename_i m hm; exact checked_le limit (by omega) primary.flatten 4 m hl hm
      · exact hl
  unfold published at h
  split at h
  · cases h
  · cases h; exact hlen

/-- The code as it is, stated: when the response header block alone passes the limit (`h + 4 > limit`), a
valid call is answered by the RESPONSE_TOO_LARGE exception WITHOUT its header block (that write fails too and
is ignored), and an unknown method by nothing at all (the error goes to the worker's log). The peer cannot
correlate either; the server has rejected the request with an error and goes on. -/
theorem c05_reply_step_header_overflow (limit h : Nat) (rest exc : List (List Nat)) (hl : limit > 0) (ho : h + 4 > limit) :
    replyStep limit .reply ([h] :: rest) ([h] :: exc) = ⟨2, unchecked limit 4 exc, false⟩ ∧
    published (replyStep limit .unknown ([h] :: rest) []) = none := by
  have hfl : ([h] :: rest).flatten = h :: rest.flatten := by simp
  constructor
  · unfold replyStep
    dsimp only
    rw [hfl, checked_head_overflow limit h _ hl ho, unchecked_head_overflow limit h exc hl ho]
  · unfold replyStep
    dsimp only
    rw [hfl, checked_head_overflow limit h _ hl ho]
    simp [published]

/-- Why the structure matters: a `sendError` that handed its failed writes back to `trapError` (NOT the code)
would, for exactly those requests, never finish — no amount of fuel lets it return. -/
theorem c05_recursive_sendError_would_diverge (limit h : Nat) (exc : List Nat) (hl : limit > 0) (ho : h + 4 > limit) :
    ∀ fuel, sendErrorRec limit (h :: exc) fuel = none :=
  sendErrorRec_diverges limit (h :: exc) (checked_head_overflow limit h exc hl ho)

/-- The reply step keeps no state: what is published for a request is a function of that request alone. -/
theorem c05_reply_step_stateless (limit : Nat) (before : List (Scenario × List (List Nat) × List (List Nat))) (sc : Scenario) (p f : List (List Nat)) :
    (before.map (fun x => replyStep limit x.1 x.2.1 x.2.2), replyStep limit sc p f).2 = replyStep limit sc p f := rfl

example : replyStep 1048576 .reply [[1048575], [4, 8]] [[1048575], [4, 30]] = ⟨2, 38, false⟩ := by decide
example : published (replyStep 1048576 .reply [[40], [4, 8]] [[40], [4, 30]]) = some 56 := by decide
/-- a protocol call stops at its first failed write: the 30 bytes behind the failed 4 are not written -/
example : replyStep 1048576 .error [[1048570], [4, 30], [7]] [] = ⟨1, 11, false⟩ := by decide
example : httpReply 64 .reply [[100], [4, 8]] [] = (413, none) := by decide

/-- **Fields are written under their lock** (regenerated from lib/go on every check): no method writes a field
of a mutex-holding struct (the framed reader's state) while no mutex of that struct is write-held — by assignment, `++`, `delete` or an
atomic store — unless the site is one of the hand-classified set-up / single-owner sites of
`known/locks_unguarded_expected.txt`. The atomic-step models read and write such state in ONE critical section;
a value computed from a read under the lock and stored after it was released (a lazily filled cache) is a lost
update the models cannot exhibit and the race detector does not see. -/
theorem c05_fields_written_under_lock :
    FV.Locks.writesGuarded [3] FV.Generated.Locks.unguardedUnexpected = true := by decide +kernel

end FV.C05

/-! ## Sixth part — size fields of the HTTP layer itself (Content-Length, chunk sizes) chosen by the peer and
inconsistent with what it sends. Model: `Framing`, `delivered`, `httpCallEnvelope` in `FV.Model.Receivers4`. -/
namespace FV.C05
open FV FV.Recv4

/-- The outcome of a call depends only on the status and the bytes actually RECEIVED, never on a length the
peer announced: two responses (any Content-Length, any chunk-size lines, any bytes sent) from which the same
bytes are delivered end the call the same way. -/
theorem c05_http_outcome_ignores_announced_length (dec : Bytes → B64) (guarded : Bool) (method : Bytes) (status : Nat)
    (fr1 fr2 : Framing) (sent1 sent2 : Bytes) (h : delivered status fr1 sent1 = delivered status fr2 sent2) :
    httpCallEnvelope dec guarded method status fr1 sent1 = httpCallEnvelope dec guarded method status fr2 sent2 := by
  unfold httpCallEnvelope
  rw [h]

/-- In particular: once the body that was sent has arrived whole under a truthful Content-Length, announcing
anything larger instead — 2^50, 2^62, max int64 — only turns the outcome into the transport's error (the body
"ends early"); it is never a panic, and the announced number appears nowhere in the result. -/
theorem c05_http_announced_above_sent_is_an_error (dec : Bytes → B64) (method : Bytes) (status a : Nat) (sent : Bytes)
    (h204 : status ≠ 204 ∧ status ≠ 304) (ha : sent.length < a) :
    httpCallEnvelope dec true method status (.length a) sent = .req (if status = 413 then .tooLarge else .transport) := by
  have hd : delivered status (.length a) sent = none := by
    unfold delivered
    rw [if_neg (by omega)]
    dsimp only
    rw [if_neg (by omega)]
  unfold httpCallEnvelope httpReceived
  rw [hd]
  split <;> rfl

/-- … and a Content-Length at or below what was sent delivers exactly that prefix: the call is the call on
those bytes. -/
theorem c05_http_announced_within_sent (dec : Bytes → B64) (guarded : Bool) (method : Bytes) (status a : Nat) (sent : Bytes)
    (h204 : status ≠ 204 ∧ status ≠ 304) (h413 : status ≠ 413) (ha : a ≤ sent.length) :
    httpCallEnvelope dec guarded method status (.length a) sent = httpCall guarded method status (dec (sent.take a)) := by
  have hd : delivered status (.length a) sent = some (sent.take a) := by
    unfold delivered
    rw [if_neg (by omega)]
    dsimp only
    rw [if_pos ha]
  unfold httpCallEnvelope httpReceived
  rw [hd, if_neg h413]

/-- Every envelope — any status, any announced sizes, any bytes, whatever base64 makes of them — ends in the
transport's error or in a stage of `processReply`: never a panic. -/
theorem c05_http_envelope_total (dec : Bytes → B64) (method : Bytes) (status : Nat) (fr : Framing) (sent : Bytes) :
    (∃ e, httpCallEnvelope dec true method status fr sent = .req e) ∨
    (∃ o, httpCallEnvelope dec true method status fr sent = .reply o) :=
  httpReceived_total dec method status _

/-- Why it matters that nothing is sized by the announcement: a `makeRequest` that grew its buffer to the
announced Content-Length first (NOT the code) panics in the caller's goroutine on a 12-byte response that
announces 2^50 bytes, where the code returns the transport's error. -/
theorem c05_http_presized_variant_panics (dec : Bytes → B64) (method sent : Bytes) (hs : sent.length < 1125899906842624) :
    httpCallPresized dec true method 200 (.length 1125899906842624) sent = .panic .overflow ∧
    httpCallEnvelope dec true method 200 (.length 1125899906842624) sent = .req .transport := by
  constructor
  · unfold httpCallPresized
    dsimp only
    rw [if_pos ⟨by omega, by unfold maxAlloc; omega⟩]
  · have := c05_http_announced_above_sent_is_an_error dec method 200 1125899906842624 sent ⟨by omega, by omega⟩ hs
    rw [this]
    rfl

example : delivered 200 (.length 9223372036854775807) [65, 65] = none := by decide
example : delivered 200 (.length 1) [65, 66] = some [65] := by decide
example : delivered 200 (.chunked [(2, 2), (1, 1)] true) [65, 66, 67] = some [65, 66, 67] := by decide
example : delivered 200 (.chunked [(4611686018427387904, 2)] true) [65, 66] = none := by decide

end FV.C05
