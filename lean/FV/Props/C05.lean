import FV.Model.Headers
namespace FV.C05
theorem c05_empty : headersFromFrame [] = .err .invalidData := rfl
end FV.C05
