/-
C05 — No received byte sequence can crash or wedge a Frugal process.

  "For every byte sequence a peer can deliver, as a framed message on a socket,
  a NATS or STOMP message or an HTTP body, every receiving entry point (client
  response path, server request path, subscriber path) either handles it or
  rejects it with an error; it never panics and never blocks forever.
  Message-oriented receivers (NATS, STOMP, HTTP, server workers) keep serving
  later well-formed messages, and a connection-oriented receiver does at most
  close that one connection and report the cause."

The models keep Go's slice-expression semantics (`FV.slice`, `FV.sliceFrom`:
out of range ⇒ the explicit outcome `Res.panic`), so "never panics" is a real
statement about index arithmetic, not an artefact of totalisation. Termination
("never blocks forever" for these loops) is Lean's termination proof of
`readPairs` (measure `end − i`; it needs the negative-length rejection) and the
structural recursion of everything else: every function below is total.
-/
import FV.Model.Headers
import FV.Model.Registry0
import FV.Model.Receivers
import FV.Proofs.Headers

namespace FV.C05
open FV

/-- Client response path, frame variant: `getHeadersFromFrame` never panics. -/
theorem c05_no_panic_frame (bs : Bytes) : ∀ p, headersFromFrame bs ≠ .panic p :=
  headersFromFrame_no_panic bs

/-- Server request / subscriber path: `readHeader` on a stream never panics. -/
theorem c05_no_panic_stream (bs : Bytes) : ∀ p, unmarshalStream bs ≠ .panic p :=
  unmarshalStream_no_panic bs

/-- `readPairs` itself, for any window inside the buffer and any accumulator. -/
theorem c05_no_panic_readPairs (buf : Bytes) (i e : Int) (acc : Hdrs) (h0 : 0 ≤ i) (he : e ≤ buf.length) :
    ∀ p, readPairs buf i e acc ≠ .panic p :=
  readPairs_no_panic buf i e acc h0 he

theorem c05_no_panic_addHeaders (bs : Bytes) (adds : Hdrs) : ∀ p, addHeadersToFrame bs adds ≠ .panic p :=
  addHeadersToFrame_no_panic bs adds

/-- `fRegistryImpl.Execute` (header parse, op id parse, unregistered ⇒ nil). -/
theorem c05_no_panic_execute (bs : Bytes) : ∀ p, registryExecuteEmpty bs ≠ .panic p :=
  registryExecuteEmpty_no_panic bs

/-- `fBaseTransport.ExecuteFrame` (NATS client handler path): strips the frame size. -/
theorem c05_no_panic_executeFrame (bs : Bytes) : ∀ p, executeFrameEmpty bs ≠ .panic p :=
  executeFrameEmpty_no_panic bs

/-- `fNatsServer.processFrame`. -/
theorem c05_no_panic_processFrame (bs : Bytes) : ∀ p, natsServerProcessFrame bs ≠ .panic p :=
  natsServerProcessFrame_no_panic bs

/-- HTTP server request path (`NewFrugalHandlerFunc`): never panics, always answers with a status. -/
theorem c05_no_panic_http (bs : Bytes) : ∀ p, httpHandle bs ≠ .panic p := by
  intro p
  unfold httpHandle
  split
  · intro h; cases h
  · split
    · intro h; cases h
    · intro h; cases h
    · rename_i q hq; exact absurd hq (readRequestHeaderClass_no_panic _ q)

/-- Every outcome of every modelled receiver is `ok` or an error return. -/
theorem c05_handled_or_rejected (bs : Bytes) :
    (headersFromFrame bs).isPanic = false ∧ (unmarshalStream bs).isPanic = false ∧
    (executeFrameEmpty bs).isPanic = false ∧ (natsServerProcessFrame bs).isPanic = false := by
  refine ⟨?_, ?_, ?_, ?_⟩
  · cases h : headersFromFrame bs <;> simp [Res.isPanic]; exact absurd h (c05_no_panic_frame bs _)
  · cases h : unmarshalStream bs <;> simp [Res.isPanic]; exact absurd h (c05_no_panic_stream bs _)
  · cases h : executeFrameEmpty bs <;> simp [Res.isPanic]; exact absurd h (c05_no_panic_executeFrame bs _)
  · cases h : natsServerProcessFrame bs <;> simp [Res.isPanic]; exact absurd h (c05_no_panic_processFrame bs _)

theorem worker_alive (w : Worker) (ms : List Bytes) (h : w.alive = true) : (w.recvAll ms).alive = true := by
  induction ms generalizing w with
  | nil => simpa [Worker.recvAll]
  | cons m t ih =>
    simp only [Worker.recvAll, List.foldl_cons]
    apply ih
    unfold Worker.recv
    simp only [h]
    split
    · simp at *
    · split <;> simp [h]

/-- Message-oriented receiver (NATS subscriber worker): after ANY sequence of received
byte strings the worker is still alive and delivers the next well-formed message. -/
theorem c05_worker_keeps_serving (ms : List Bytes) (w : Bytes) (hw : 4 ≤ w.length) :
    ((Worker.init.recvAll ms).recv w).alive = true ∧
    ((Worker.init.recvAll ms).recv w).delivered = (Worker.init.recvAll ms).delivered + 1 := by
  have ha := worker_alive Worker.init ms rfl
  unfold Worker.recv
  simp only [ha]
  have : ¬ w.length < 4 := by omega
  simp [this]

/-- The stateless message receivers (NATS server worker / client handler) have no state to
corrupt: the outcome for a message is a function of that message alone, whatever came before. -/
theorem c05_stateless_receivers (garbage : List Bytes) (w : Bytes) :
    (garbage.map natsServerProcessFrame, natsServerProcessFrame w).2 = natsServerProcessFrame w ∧
    (garbage.map executeFrameEmpty, executeFrameEmpty w).2 = executeFrameEmpty w := ⟨rfl, rfl⟩

/-! Non-vacuity / witnesses of the defects repaired (these inputs panicked before the fix). -/
example : headersFromFrame [0, 0, 0, 0, 1, 9] = .err .invalidData := by
  simp [headersFromFrame, unmarshalHeadersFromFrame, rd32, toI32, readPairs]
example : unmarshalStream [0, 255, 255, 255, 255] = .err .invalidData := by
  simp [unmarshalStream, rd32, toI32]
example : executeFrameEmpty [1, 2] = .err .invalidData := by simp [executeFrameEmpty]
example : natsServerProcessFrame [] = .err .invalidData := by simp [natsServerProcessFrame]

end FV.C05
