/-
C07 — pub/sub delivers each message once, intact, and isolates bad messages.

  "Every valid message published on a topic is delivered to each subscriber on that topic
  exactly once, with payload and publisher headers intact, in publish order for a
  single-worker subscriber (a permutation for n workers); messages on other topics are never
  delivered; a malformed message is discarded without affecting the delivery of later
  messages; after Unsubscribe returns no handler is invoked for a message published
  afterwards, and Unsubscribe always returns."

READING (DESIGN.md §7 C07): "exactly once" is about a subscriber that stays subscribed. Both
transports stop their workers on a quit signal that races the queue, so a message still queued
when Unsubscribe is called may be dropped: for those the statement is "at most once, in order"
(`c07_inflight_at_most_once`).

Model: FV.Model.PubSub (publisher = FContext headers + `_topic_<var>` headers + envelope + emitted
Write; subscriber = broker FIFO → work queue → workers → emitted callback: length check, header
read (C04 codec), op-name check, emitted Read (C02 model), handler; life cycle as a transition
system over ALL schedules; go-stomp's hand-over for "Unsubscribe returns"). The broker contract
(per-topic FIFO, at most once, nothing after the acknowledged unsubscribe) is ASSUMED.
-/
import FV.Model.PubSub
import FV.Proofs.PubSub
import FV.Proofs.Context
import FV.Generated.Locks

namespace FV.C07
open FV FV.Thrift FV.PubSub

/-! ### The published sequence, at specification level -/

/-- One publish, classified independently of the pipeline. -/
inductive Msg where
  | valid (sz : Nat) (h : Hdrs) (v : Val)   -- the emitted publisher of THIS operation, on the subscriber's topic
  | malformed (p : Packet)                  -- anything on the topic that is not deliverable
  | foreign (t : Topic) (p : Packet)        -- anything on another topic

/-- Hypotheses per class. `malformed`: the pipeline rejects it without a panic — shown below
(`c07_malformed_classes`) to contain short messages, undecodable / opid-less headers, missing or
foreign envelopes for EVERY byte string. -/
def Msg.WF (c : SubCfg) (topic : Topic) : Msg → Prop
  | .valid _ h v => HdrsOK h ∧ WT c.d c.fuel c.ty v
  | .malformed p => deliver c p = none ∧ (handle c p).isCrash = false
  | .foreign t _ => t ≠ topic

/-- What reaches the broker. -/
def Msg.pubs (c : SubCfg) (topic : Topic) : Msg → List Published
  | .valid sz h v => match publishPkt c sz h v with
    | .ok p => [⟨topic, p⟩]
    | _ => []
  | .malformed p => [⟨topic, p⟩]
  | .foreign t p => [⟨t, p⟩]

def pubsOf (c : SubCfg) (topic : Topic) (msgs : List Msg) : List Published := msgs.flatMap (Msg.pubs c topic)

/-- `validOnTopic`: the handler invocation a published message is owed. -/
def Msg.expected : Msg → Option Delivery
  | .valid _ h v => some ⟨h, v⟩
  | _ => none

theorem brokerDeliver_append (topic : Topic) (a b : List Published) :
    brokerDeliver topic (a ++ b) = brokerDeliver topic a ++ brokerDeliver topic b := by
  simp [brokerDeliver, List.filter_append]

/-- Per message: what the broker hands over is handled without a panic and yields exactly the
owed delivery (payload through `FV.Thrift.roundtrip`, headers through the C04 round trip). -/
theorem msg_handled (c : SubCfg) (topic : Topic) (m : Msg) (hwf : m.WF c topic) :
    (brokerDeliver topic (m.pubs c topic)).filterMap (deliver c) = m.expected.toList ∧
    ∀ p ∈ brokerDeliver topic (m.pubs c topic), (handle c p).isCrash = false := by
  cases m with
  | valid sz h v =>
    obtain ⟨hh, hwt⟩ := hwf
    obtain ⟨p, hp⟩ := publishPkt_total c sz h v hwt
    have hd := handle_published c sz h v p hh hwt hp
    simp only [Msg.pubs, hp, brokerDeliver, List.filter_cons, decide_true, if_true, List.filter_nil,
      List.map_cons, List.map_nil, Msg.expected, Option.toList]
    refine ⟨?_, ?_⟩
    · simp [deliver, hd, Outcome.delivery?]
    · intro q hq
      simp only [List.mem_singleton] at hq
      rw [hq, hd]; rfl
  | malformed p =>
    obtain ⟨hn, hc⟩ := hwf
    simp only [Msg.pubs, brokerDeliver, List.filter_cons, decide_true, if_true, List.filter_nil,
      List.map_cons, List.map_nil, Msg.expected, Option.toList]
    refine ⟨by simp [hn], ?_⟩
    intro q hq
    simp only [List.mem_singleton] at hq
    rw [hq]; exact hc
  | foreign t p =>
    have hne : ¬ t = topic := hwf
    simp [Msg.pubs, brokerDeliver, hne, Msg.expected]

theorem msgs_handled (c : SubCfg) (topic : Topic) (msgs : List Msg) (hwf : ∀ m ∈ msgs, m.WF c topic) :
    (brokerDeliver topic (pubsOf c topic msgs)).filterMap (deliver c) = msgs.filterMap Msg.expected ∧
    ∀ p ∈ brokerDeliver topic (pubsOf c topic msgs), (handle c p).isCrash = false := by
  induction msgs with
  | nil => simp [pubsOf, brokerDeliver]
  | cons m t ih =>
    have h1 := msg_handled c topic m (hwf m (List.mem_cons_self))
    have h2 := ih (fun x hx => hwf x (List.mem_cons_of_mem _ hx))
    have e : pubsOf c topic (m :: t) = m.pubs c topic ++ pubsOf c topic t := by simp [pubsOf]
    rw [e, brokerDeliver_append, List.filterMap_append, h1.1, h2.1]
    refine ⟨?_, ?_⟩
    · cases hm : m.expected <;> simp [hm]
    · intro p hp
      rw [List.mem_append] at hp
      cases hp with
      | inl h => exact h1.2 p h
      | inr h => exact h2.2 p h

/-! ### The property -/

/-- ONE WORKER, subscriber stays subscribed: for every list of publishes (valid / malformed /
foreign topic, any payload values of the declared type, any header maps) the handler
invocation list is exactly the valid on-topic messages, once each, in publish order, with the
published payload and header map; the worker is still alive. -/
theorem c07_exactly_once_in_order (c : SubCfg) (topic : Topic) (msgs : List Msg)
    (hwf : ∀ m ∈ msgs, m.WF c topic) :
    (run1 c topic (pubsOf c topic msgs)).log = msgs.filterMap Msg.expected ∧
    (run1 c topic (pubsOf c topic msgs)).alive = true := by
  have h := msgs_handled c topic msgs hwf
  have r := recvAll_log c (brokerDeliver topic (pubsOf c topic msgs)) WState.init rfl h.2
  unfold run1
  refine ⟨?_, r.1⟩
  rw [r.2, h.1]
  rfl

/-- n WORKERS: however the queue is split among the workers (`took`: what each worker took, the
queue being an interleaving of these) and however their handler invocations interleave, the
invocation list is a PERMUTATION of the valid on-topic messages: each exactly once. -/
theorem c07_exactly_once_perm (c : SubCfg) (topic : Topic) (msgs : List Msg)
    (hwf : ∀ m ∈ msgs, m.WF c topic) (took : List (List Packet)) (log : List Delivery)
    (hsplit : Merge took (brokerDeliver topic (pubsOf c topic msgs)))
    (hlog : Merge (took.map fun qs => (WState.init.recvAll c qs).log) log) :
    log.Perm (msgs.filterMap Msg.expected) := by
  have h := msgs_handled c topic msgs hwf
  have hq := merge_perm _ _ hsplit          -- queue ~ took.flatten
  -- every worker's log is the filterMap of what it took
  have hw : (took.map fun qs => (WState.init.recvAll c qs).log) = took.map (List.filterMap (deliver c)) := by
    apply List.map_congr_left
    intro qs hqs
    have hc : ∀ p ∈ qs, (handle c p).isCrash = false := by
      intro p hp
      apply h.2 p
      exact (hq.mem_iff).mpr (List.mem_flatten.mpr ⟨qs, hqs, hp⟩)
    have := (recvAll_log c qs WState.init rfl hc).2
    rw [this]; rfl
  have hl := merge_perm _ _ hlog
  rw [hw, flatten_map_filterMap] at hl
  have hp : (took.flatten.filterMap (deliver c)).Perm ((brokerDeliver topic (pubsOf c topic msgs)).filterMap (deliver c)) :=
    (hq.symm).filterMap _
  rw [h.1] at hp
  exact hl.trans hp

/-- A malformed message changes no other delivery: for ARBITRARY packets before and after it (no
classification needed, only that none of them panics), inserting a message the pipeline rejects
leaves the handler invocation list unchanged and the worker alive — later valid messages are
still delivered. (False before /repo 2c23f24 for the NATS worker: `return` on a short message.) -/
theorem c07_bad_message_isolated (c : SubCfg) (pre post : List Packet) (bad : Packet)
    (hpre : ∀ p ∈ pre, (handle c p).isCrash = false) (hpost : ∀ p ∈ post, (handle c p).isCrash = false)
    (hbad : deliver c bad = none ∧ (handle c bad).isCrash = false) :
    (WState.init.recvAll c (pre ++ bad :: post)).log = (WState.init.recvAll c (pre ++ post)).log ∧
    (WState.init.recvAll c (pre ++ bad :: post)).alive = true := by
  have h1 : ∀ p ∈ pre ++ bad :: post, (handle c p).isCrash = false := by
    intro p hp
    rw [List.mem_append, List.mem_cons] at hp
    rcases hp with h | h | h
    · exact hpre p h
    · rw [h]; exact hbad.2
    · exact hpost p h
  have h2 : ∀ p ∈ pre ++ post, (handle c p).isCrash = false := by
    intro p hp
    rw [List.mem_append] at hp
    rcases hp with h | h
    · exact hpre p h
    · exact hpost p h
  have r1 := recvAll_log c _ WState.init rfl h1
  have r2 := recvAll_log c _ WState.init rfl h2
  refine ⟨?_, r1.1⟩
  rw [r1.2, r2.2]
  simp [List.filterMap_append, hbad.1]

/-- NO CAPACITY. After ANY number of rejected messages (`bads`: a list of any length, each one rejected
by the pipeline — short, undecodable, foreign operation, unreadable payload — in any mix), preceded by any
traffic, the next good message is delivered: the log grows by exactly its delivery and the worker is
alive. The model has no counter, queue bound or slot that rejected messages could exhaust; the code must
have none either — tied by the long cases of suite c07rt (more rejected messages of each kind, more
messages in total and more Subscribe/Unsubscribe cycles than twice every channel capacity found in the
source of lib/go and of the stomp client). -/
theorem c07_any_number_rejected_then_delivered (c : SubCfg) (pre bads : List Packet) (good : Packet)
    (dl : Delivery)
    (hpre : ∀ p ∈ pre, (handle c p).isCrash = false)
    (hbad : ∀ p ∈ bads, deliver c p = none ∧ (handle c p).isCrash = false)
    (hgood : handle c good = .delivered dl) :
    (WState.init.recvAll c (pre ++ bads ++ [good])).log = (WState.init.recvAll c pre).log ++ [dl] ∧
    (WState.init.recvAll c (pre ++ bads ++ [good])).alive = true ∧
    (∀ n (bad : Packet), deliver c bad = none ∧ (handle c bad).isCrash = false →
      (WState.init.recvAll c (pre ++ List.replicate n bad ++ [good])).log = (WState.init.recvAll c pre).log ++ [dl]) := by
  have key : ∀ (bs : List Packet), (∀ p ∈ bs, deliver c p = none ∧ (handle c p).isCrash = false) →
      (WState.init.recvAll c (pre ++ bs ++ [good])).log = (WState.init.recvAll c pre).log ++ [dl] ∧
      (WState.init.recvAll c (pre ++ bs ++ [good])).alive = true := by
    intro bs hbs
    have hg : (handle c good).isCrash = false := by rw [hgood]; rfl
    have hall : ∀ p ∈ pre ++ bs ++ [good], (handle c p).isCrash = false := by
      intro p hp
      simp only [List.mem_append, List.mem_singleton] at hp
      rcases hp with (h | h) | h
      · exact hpre p h
      · exact (hbs p h).2
      · rw [h]; exact hg
    have r1 := recvAll_log c _ WState.init rfl hall
    have r2 := recvAll_log c pre WState.init rfl hpre
    refine ⟨?_, r1.1⟩
    rw [r1.2, r2.2]
    have hb : bs.filterMap (deliver c) = [] := by
      apply List.filterMap_eq_nil_iff.mpr
      intro p hp
      exact (hbs p hp).1
    simp [List.filterMap_append, hb, deliver_some c good dl hgood]
  refine ⟨(key bads hbad).1, (key bads hbad).2, ?_⟩
  intro n bad hb
  exact (key (List.replicate n bad) (fun p hp => by rw [List.eq_of_mem_replicate hp]; exact hb)).1

/-- The classes of malformed messages, for EVERY byte string `data`: shorter than the frame-size
prefix; header block that does not decode (any error of the C04 reader — it never panics, C05);
no `_opid`; nothing / garbage after the header block; an envelope naming another operation.
None of them is delivered and none of them panics. -/
theorem c07_malformed_classes (c : SubCfg) (data : Bytes) (tail : Tail) :
    (data.length < 4 → deliver c ⟨data, tail⟩ = none ∧ (handle c ⟨data, tail⟩).isCrash = false) ∧
    ((∀ h r, unmarshalStream (data.drop 4) ≠ .ok (h, r)) →
        deliver c ⟨data, tail⟩ = none ∧ (handle c ⟨data, tail⟩).isCrash = false) ∧
    ((∀ name es, tail = .msg name es → name ≠ c.op) →
        deliver c ⟨data, tail⟩ = none ∧ (handle c ⟨data, tail⟩).isCrash = false) := by
  refine ⟨?_, ?_, ?_⟩
  · intro hl
    simp [deliver, handle, hl, Outcome.delivery?, Outcome.isCrash]
  · intro hu
    unfold deliver handle
    by_cases hl : data.length < 4
    · simp [hl, Outcome.delivery?, Outcome.isCrash]
    · simp only [hl, if_false]
      unfold callback
      cases hs : unmarshalStream (List.drop 4 data) with
      | ok x => exact absurd hs (hu x.1 x.2)
      | err e => simp [Outcome.delivery?, Outcome.isCrash]
      | panic q => exact absurd hs (unmarshalStream_no_panic _ q)
  · intro ht
    unfold deliver handle
    by_cases hl : data.length < 4
    · simp [hl, Outcome.delivery?, Outcome.isCrash]
    · simp only [hl, if_false]
      unfold callback
      cases hs : unmarshalStream (List.drop 4 data) with
      | ok x =>
        simp only []
        by_cases ho : (x.1.get? opIdHeader).isNone = true
        · simp [ho, Outcome.delivery?, Outcome.isCrash]
        · simp only [ho]
          cases tail with
          | garbage => simp [Outcome.delivery?, Outcome.isCrash]
          | msg name es =>
            have := ht name es rfl
            simp [this, Outcome.delivery?, Outcome.isCrash]
      | err e => simp [Outcome.delivery?, Outcome.isCrash]
      | panic q => exact absurd hs (unmarshalStream_no_panic _ q)

/-- Messages on other topics are never delivered: a publish on a foreign topic does not change
the subscription's state at all (any state, any packet), and removing all foreign publishes from
a published sequence changes nothing the single worker does. -/
theorem c07_foreign_topic_never (c : SubCfg) (topic : Topic) :
    (∀ (s : St) (m : Published), m.topic ≠ topic → step c topic s (.publish m) = some s) ∧
    (∀ (pre post : List Published) (m : Published), m.topic ≠ topic →
        run1 c topic (pre ++ m :: post) = run1 c topic (pre ++ post)) := by
  refine ⟨?_, ?_⟩
  · intro s m hne
    simp [step, hne]
  · intro pre post m hne
    unfold run1
    rw [brokerDeliver_append, brokerDeliver_append]
    congr 2
    simp [brokerDeliver, hne]

/-- What a subscription on `topic` can observe of a global schedule: its own steps and the publishes
on its own topic. -/
def visibleTo (topic : Topic) (as : List Act) : List Act :=
  as.filter fun a => match a with
    | .publish m => decide (m.topic = topic)
    | _ => true

/-- SEVERAL SUBSCRIPTIONS (one provider, one factory): each subscription is its own instance of the
model, so a system of subscriptions is a product of independent instances. For the instance on
`topic`, from ANY state and under ANY schedule, the run is the run over what is visible to it:
publishes on other subscriptions' topics (and anything else foreign) can be removed, added or
reordered among themselves without changing its state — handler invocations, queue, liveness.
Consequently two global schedules that agree on what is visible to A give A the same result,
whatever the traffic on B's topic. (The tie for this is the `pm` lines: 2–4 real subscriptions made
from one FScopeProvider, compared per subscription with independent instances.) -/
theorem c07_subscribers_independent (c : SubCfg) (topic : Topic) :
    (∀ (as : List Act) (s : St), run c topic s as = run c topic s (visibleTo topic as)) ∧
    (∀ (as bs : List Act) (s : St), visibleTo topic as = visibleTo topic bs →
        run c topic s as = run c topic s bs) := by
  have h1 : ∀ (as : List Act) (s : St), run c topic s as = run c topic s (visibleTo topic as) := by
    intro as
    induction as with
    | nil => intro s; rfl
    | cons a t ih =>
      intro s
      cases a with
      | publish m =>
        by_cases hm : m.topic = topic
        · have : visibleTo topic (Act.publish m :: t) = Act.publish m :: visibleTo topic t := by
            simp [visibleTo, hm]
          rw [this]
          simp only [run]
          cases step c topic s (Act.publish m) with
          | none => rfl
          | some s1 => exact ih s1
        · have : visibleTo topic (Act.publish m :: t) = visibleTo topic t := by
            simp [visibleTo, hm]
          rw [this]
          simp only [run]
          rw [(c07_foreign_topic_never c topic).1 s m hm]
          exact ih s
      | work =>
        have : visibleTo topic (Act.work :: t) = Act.work :: visibleTo topic t := by simp [visibleTo]
        rw [this]
        simp only [run]
        cases step c topic s Act.work with
        | none => rfl
        | some s1 => exact ih s1
      | unsubscribe =>
        have : visibleTo topic (Act.unsubscribe :: t) = Act.unsubscribe :: visibleTo topic t := by simp [visibleTo]
        rw [this]
        simp only [run]
        cases step c topic s Act.unsubscribe with
        | none => rfl
        | some s1 => exact ih s1
      | abandon =>
        have : visibleTo topic (Act.abandon :: t) = Act.abandon :: visibleTo topic t := by simp [visibleTo]
        rw [this]
        simp only [run]
        cases step c topic s Act.abandon with
        | none => rfl
        | some s1 => exact ih s1
  refine ⟨h1, ?_⟩
  intro as bs s h
  rw [h1 as s, h1 bs s, h]

/-- EVERY schedule (publishes, worker steps, Unsubscribe, workers quitting — in any order, any
number of each): the handler invocation list is a sub-list (same order, nothing twice, nothing
invented) of the deliveries owed for what was published on the topic BEFORE the first
Unsubscribe. In particular no handler is ever invoked for a message published after Unsubscribe
returned, whatever `bs` contains. -/
theorem c07_no_delivery_after_unsubscribe (c : SubCfg) (topic : Topic) (as bs : List Act) (s : St)
    (h : run c topic St.init (as ++ Act.unsubscribe :: bs) = some s) :
    s.w.log.Sublist ((brokerDeliver topic (pubsBeforeUnsub as)).filterMap (deliver c)) ∧
    s.unsubReturned = true := by
  refine ⟨?_, ?_⟩
  case refine_2 =>
    rw [run_append] at h
    cases h1 : run c topic St.init as with
    | none => rw [h1] at h; cases h
    | some s1 =>
      rw [h1] at h
      simp only [Option.bind, run, step] at h
      exact run_unsubReturned c topic bs _ s h rfl
  obtain ⟨e, n, hl, ha, hsub, _⟩ := run_ext c topic _ St.init s h
  have hacc := run_accepted c topic _ St.init s h rfl
  rw [pubsBeforeUnsub_append_unsub] at hacc
  simp only [St.init, List.nil_append, WState.init, List.filterMap_nil] at hl ha hsub hacc
  rw [hl]
  have : n = brokerDeliver topic (pubsBeforeUnsub as) := by rw [← ha, hacc]
  rw [this] at hsub
  exact (List.sublist_append_left e _).trans hsub

/-- Messages still queued when Unsubscribe is called (`s1.queue`, after any schedule `as`): what is
delivered from then on (`ext`), under any later schedule, is a sub-list of the deliveries owed for
exactly those queued messages — each at most once, in order, and nothing else. -/
theorem c07_inflight_at_most_once (c : SubCfg) (topic : Topic) (as bs : List Act) (s1 s2 : St)
    (h1 : run c topic St.init as = some s1)
    (h2 : run c topic s1 (Act.unsubscribe :: bs) = some s2) :
    ∃ ext, s2.w.log = s1.w.log ++ ext ∧ ext.Sublist (s1.queue.filterMap (deliver c)) := by
  simp only [run, step] at h2
  obtain ⟨e, n, hl, _, hsub, hn⟩ := run_ext c topic bs _ s2 h2
  have hn' := hn rfl
  rw [hn'] at hsub
  simp only [List.filterMap_nil, List.append_nil] at hsub hl
  exact ⟨e, hl, (List.sublist_append_left e _).trans hsub⟩

/-- A subscriber that stays subscribed, EVERY schedule of publishes and worker steps in which no
message panics: at every moment `log ++ (owed for what is still queued)` is exactly what is owed
for everything published on the topic so far — so whenever the queue is empty every valid message
has been delivered exactly once, in order (the schedule-level form of `c07_exactly_once_in_order`). -/
theorem c07_exactly_once_any_schedule (c : SubCfg) (topic : Topic) (as : List Act) (s : St)
    (hno : ∀ a ∈ as, a ≠ Act.unsubscribe ∧ a ≠ Act.abandon)
    (hcrash : ∀ a ∈ as, ∀ m, a = Act.publish m → (handle c m.pkt).isCrash = false)
    (h : run c topic St.init as = some s) :
    s.w.log ++ s.queue.filterMap (deliver c) = s.accepted.filterMap (deliver c) ∧ s.w.alive = true := by
  -- generalised over the start state
  have gen : ∀ (as : List Act) (s0 s : St),
      (∀ a ∈ as, a ≠ Act.unsubscribe ∧ a ≠ Act.abandon) →
      (∀ a ∈ as, ∀ m, a = Act.publish m → (handle c m.pkt).isCrash = false) →
      (s0.w.log ++ s0.queue.filterMap (deliver c) = s0.accepted.filterMap (deliver c) ∧ s0.w.alive = true ∧
        ∀ p ∈ s0.queue, (handle c p).isCrash = false) →
      run c topic s0 as = some s →
      (s.w.log ++ s.queue.filterMap (deliver c) = s.accepted.filterMap (deliver c) ∧ s.w.alive = true) := by
    intro as
    induction as with
    | nil => intro s0 s _ _ hi hr; simp only [run] at hr; cases hr; exact ⟨hi.1, hi.2.1⟩
    | cons a t ih =>
      intro s0 s hno hcr hi hr
      simp only [run] at hr
      cases hs : step c topic s0 a with
      | none => rw [hs] at hr; cases hr
      | some s1 =>
        rw [hs] at hr
        apply ih s1 s (fun x hx => hno x (List.mem_cons_of_mem _ hx)) (fun x hx => hcr x (List.mem_cons_of_mem _ hx)) _ hr
        obtain ⟨hinv, hal, hq⟩ := hi
        cases a with
        | publish m =>
          simp only [step] at hs
          by_cases hc : s0.subscribed ∧ m.topic = topic
          · rw [if_pos hc] at hs
            cases hs
            refine ⟨?_, hal, ?_⟩
            · simp only [List.filterMap_append]
              rw [← List.append_assoc, hinv]
            · intro p hp
              rw [List.mem_append, List.mem_singleton] at hp
              rcases hp with h | h
              · exact hq p h
              · rw [h]; exact hcr _ (List.mem_cons_self) m rfl
          · rw [if_neg hc] at hs
            cases hs
            exact ⟨hinv, hal, hq⟩
        | work =>
          simp only [step] at hs
          cases hqq : s0.queue with
          | nil => rw [hqq] at hs; cases hs
          | cons p q =>
            rw [hqq] at hs
            cases hs
            have hpc := hq p (by rw [hqq]; exact List.mem_cons_self)
            have r := recv_log c s0.w p hal hpc
            refine ⟨?_, r.1, fun x hx => hq x (by rw [hqq]; exact List.mem_cons_of_mem _ hx)⟩
            simp only []
            rw [r.2, ← hinv, hqq, List.append_assoc]
            congr 1
            cases hd : deliver c p <;> simp [hd]
        | unsubscribe => exact absurd rfl (hno _ (List.mem_cons_self)).1
        | abandon => exact absurd rfl (hno _ (List.mem_cons_self)).2
  exact gen as St.init s hno hcrash ⟨rfl, rfl, fun _ hp => by cases hp⟩ h

/-- Publisher side: the handler sees a `_topic_<var>` header equal to the value of every prefix
variable (variable names distinct), and every context header whose name is not a `_topic_` one
unchanged — `pubHeaders` is the map that `c07_exactly_once_in_order` shows the handler receives. -/
theorem c07_topic_headers (ctxReq : Hdrs) (vars : List (Bytes × Bytes))
    (hnd : (vars.map (·.1)).Nodup) :
    (∀ nv ∈ vars, (pubHeaders ctxReq vars).get? (topicHeaderPrefix ++ nv.1) = some nv.2) ∧
    (∀ k, k ∉ vars.map (fun nv => topicHeaderPrefix ++ nv.1) → (pubHeaders ctxReq vars).get? k = ctxReq.get? k) := by
  have hnd' : (Hdrs.keys (vars.map fun nv => (topicHeaderPrefix ++ nv.1, nv.2))).Nodup := by
    simp only [Hdrs.keys, List.map_map]
    have : ((fun (kv : Bytes × Bytes) => kv.1) ∘ fun (nv : Bytes × Bytes) => (topicHeaderPrefix ++ nv.1, nv.2)) =
        (fun b => topicHeaderPrefix ++ b) ∘ (fun (nv : Bytes × Bytes) => nv.1) := rfl
    rw [this, ← List.map_map]
    exact nodup_map_inj _ (fun a b hab => List.append_cancel_left hab) _ hnd
  refine ⟨?_, ?_⟩
  · intro nv hm
    unfold pubHeaders
    apply Hdrs.get?_setAll_mem _ _ _ hnd'
    exact List.mem_map.mpr ⟨nv, hm, rfl⟩
  · intro k hk
    unfold pubHeaders
    apply Hdrs.get?_setAll_not_mem
    simpa [Hdrs.keys, List.map_map] using hk

/-- `Unsubscribe` RETURNS (STOMP, order as fixed by /repo 40fab6b: broker-side unsubscribe first, the
loop keeps draining `sub.C`): with ANY number `k` of messages in flight before the RECEIPT and any
channel capacity ≥ 1, in every state reachable under any schedule some step is enabled until the
RECEIPT has been processed (no deadlock), and every step strictly decreases the measure
`2·|frames| + |sub.C|` — every maximal run reaches `closed`, i.e. go-stomp's
`Subscription.Unsubscribe` and with it frugal's `Unsubscribe` return. -/
theorem c07_unsubscribe_returns (cap k : Nat) (hcap : 1 ≤ cap) (as : List SAct) (s : Stomp)
    (h : srun (Stomp.waiting cap k false) as = some s) :
    (s.closed = false → ∃ a s', sstep s a = some s') ∧
    (∀ a s', sstep s a = some s' → s'.mu < s.mu) := by
  have hg := good_run as _ s (good_waiting cap k hcap) h
  exact ⟨good_progress s hg, fun a s' hs => sstep_mu s s' a hs⟩

/-- The order before the fix (`close(stopC)` first: nobody drains `sub.C`): with more messages in
flight than `sub.C` holds the system reaches a state that is not closed and has NO enabled step —
`Unsubscribe` never returns (DESIGN §8 row 17; capacity 1, two messages in flight as the smallest
witness; the real capacity is 16, the replayed witness has 40). -/
theorem c07_unsubscribe_stopfirst_counterexample :
    ∃ s, srun (Stomp.waiting 1 2 true) [.handOver] = some s ∧ s.closed = false ∧
      ∀ a, sstep s a = none := by
  refine ⟨⟨1, [true, false], 1, false, false⟩, by decide, rfl, ?_⟩
  intro a
  cases a <;> decide

/-! ### Non-vacuity -/

/-- A definitions table with one struct, a well-typed payload, a publisher header map. -/
def exDefs : Defs := ⟨[], [], [⟨.struct, "m/Event", "Event", [⟨1, .default, "id", .i64, none⟩, ⟨2, .optional, "msg", .string, none⟩]⟩]⟩
def exCfg : SubCfg := ⟨exDefs, 8, "EventCreated", .struct "m/Event"⟩
def exVal : Val := .struct [(1, .int 7), (2, .bytes [104, 105])]
def exHdrs : Hdrs := [(cidHeader, [99]), (opIdHeader, [52, 50]), ([107], [118])]

example : WT exCfg.d exCfg.fuel exCfg.ty exVal := by
  simp [WT, exCfg, exDefs, exVal, resolve, resolveN, lookupStruct, normFields, readState, isSetVal, cmpDflt, lookupVal]

example : HdrsOK exHdrs := ⟨by decide, by show 5 + calcSize exHdrs < 2147483648; decide, by decide⟩

/-- The hypotheses of the main theorems are met by a mixed sequence: valid, short, foreign, valid. -/
example : ∀ m ∈ [Msg.valid 0 exHdrs exVal, .malformed ⟨[1, 2], .garbage⟩, .foreign [120] ⟨[], .garbage⟩,
    .malformed ⟨[0, 0, 0, 0, 9], .garbage⟩], m.WF exCfg [116] := by
  intro m hm
  simp only [List.mem_cons, List.mem_nil_iff, or_false] at hm
  rcases hm with h | h | h | h <;> subst h
  · exact ⟨⟨by decide, by show 5 + calcSize exHdrs < 2147483648; decide, by decide⟩, by
      simp [WT, exCfg, exDefs, exVal, resolve, resolveN, lookupStruct, normFields, readState, isSetVal, cmpDflt, lookupVal]⟩
  · exact (c07_malformed_classes exCfg [1, 2] .garbage).1 (by decide)
  · show ([120] : Bytes) ≠ [116]; decide
  · exact (c07_malformed_classes exCfg [0, 0, 0, 0, 9] .garbage).2.2 (by intro n es h; cases h)

/-- A schedule in which Unsubscribe races two queued messages is a run of the model. -/
example : (run exCfg [116] St.init [.publish ⟨[116], ⟨[1], .garbage⟩⟩, .publish ⟨[116], ⟨[], .garbage⟩⟩,
    .work, .unsubscribe, .publish ⟨[116], ⟨[2], .garbage⟩⟩, .abandon]).isSome = true := by
  simp [run, step, St.init]

/-- The fixed order reaches `closed` from 3 messages in flight with capacity 2. -/
example : (srun (Stomp.waiting 2 3 false) [.handOver, .handOver, .drain, .handOver, .receipt]).map (·.closed) = some true := by
  decide

/-- **Lock discipline behind the model's atomic steps** (subscriber open mutex), decided by the kernel on facts
REGENERATED from lib/go's source on every check (harness/locks → FV/Generated/Locks.lean): no function
calls, while it holds one of these mutexes, anything that (transitively) acquires the same mutex, no
lexical re-lock, and every path out of a function releases what the function locked. This is what makes a
critical section ONE step of the model and rules out the self-deadlocks (a second RLock behind a queued
writer, SendError under SendReply's lock) and leaked locks that would wedge every later request. -/
theorem c07_lock_discipline :
    FV.Locks.ok [7] FV.Generated.Locks.mutexTags FV.Generated.Locks.facts = true := by decide +kernel

/-- **Fields are written under their lock** (regenerated from lib/go on every check): no method writes a field
of a mutex-holding struct (the subscriber transports' open state) while no mutex of that struct is write-held — by assignment, `++`, `delete` or an
atomic store — unless the site is one of the hand-classified set-up / single-owner sites of
`known/locks_unguarded_expected.txt`. The atomic-step models read and write such state in ONE critical section;
a value computed from a read under the lock and stored after it was released (a lazily filled cache) is a lost
update the models cannot exhibit and the race detector does not see. -/
theorem c07_fields_written_under_lock :
    FV.Locks.writesGuarded [7] FV.Generated.Locks.unguardedUnexpected = true := by decide +kernel

end FV.C07
