/-
C15 — Transport failure is detected, reported once and recoverable, repeatedly.

  "For every point at which the underlying byte stream can end or fail (between frames, inside a
  frame, on write or flush) and every history of open, failure, reopen and close, the client
  transport ends up closed, publishes exactly one close cause (nil only for a clean close),
  notifies its monitor every time, and reopens successfully as often as the monitor policy
  allows, with at most the configured number of attempts and waits never above the configured
  maximum. Open, Close and IsOpen never deadlock and report ALREADY_OPEN and NOT_OPEN
  consistently."

Model: `FV.Adapter` (adapter_transport.go as a transition system, one action per statement group
between blocking points; `Reachable` = reachable by ANY action list from `init true`, the repaired
code) and `FV.Monitor` (transport_monitor.go). "nil only for a clean close" is read as the code's own
classification (`Closer.cause`): nil for `Close()` and for END_OF_FILE — an EOF inside a frame is
END_OF_FILE too — the error otherwise. `init false` is the code before the first repair (one shared
closeSignal), `init true false` the code before the second (IsOpen always asks the underlying
transport, holding the read lock; over a thrift.TSocket that call waits for the read loop's
pending Read); the `…_before_fix` theorems replay the defects on them.
-/
import FV.Model.Adapter
import FV.Model.Monitor
import FV.Proofs.Adapter
import FV.Proofs.AdapterProgress
import FV.Proofs.Monitor
import FV.Model.Flapping
import FV.Proofs.Flapping
import FV.Model.Framed
import FV.Proofs.Framed
import FV.Model.NatsClient
import FV.Proofs.NatsClient
import FV.Generated.Locks

namespace FV.C15
open FV FV.Adapter FV.Monitor

/-- No deadlock, user side: in every reachable state every `Open`/`Close`/`IsOpen` call in progress
can take its next step, or the goroutine holding the mutex can (and that step releases the mutex).
Nobody waits on `closeSignal` while holding the mutex. -/
theorem c15_no_deadlock {s : Sys} (hr : Reachable s) (i : Nat) (c : Call)
    (hc : s.calls[i]? = some c) (hp : ∀ r, c.pc ≠ .done r) :
    (step s (.callStep i true)).isSome = true ∨
    ∃ p, s.mu = some p ∧ (step s p.act).isSome = true ∧ ∀ s', step s p.act = some s' → s'.mu = none := by
  have h := inv_reachable hr
  cases hmu : s.mu with
  | none => exact Or.inl (call_enabled_of_free h hmu i c hc hp)
  | some p =>
    refine Or.inr ⟨p, rfl, holder_enabled h p hmu, ?_⟩
    intro s' hs'
    have ho := h.muOpen (by simp [hmu])
    have hz := curSig_zero h ho
    cases p with
    | call j =>
      have := h.muCall j hmu
      simp [Pid.act, step, this, hz, closeSignalCap] at hs'; subst hs'; simp
    | loop k =>
      obtain ⟨w, hw⟩ := h.muLoop k hmu
      have hw' : s.incs[k]?.map Inc.loop = some (.atSignal w) := hw
      simp [Pid.act, step, hw', hz, closeSignalCap] at hs'; subst hs'; simp

/-- No deadlock, read-loop side: a read loop that is closing the transport is never stuck either. -/
theorem c15_no_deadlock_loops {s : Sys} (hr : Reachable s) (k : Nat)
    (hk : (∃ ev, s.loopPc k = some (.onerror ev)) ∨ (∃ w, s.loopPc k = some (.closing w)) ∨
          (∃ w, s.loopPc k = some (.atSignal w))) :
    (step s (.loopStep k)).isSome = true ∨ ∃ p, s.mu = some p ∧ (step s p.act).isSome = true := by
  have h := inv_reachable hr
  cases hmu : s.mu with
  | some p => exact Or.inr ⟨p, rfl, holder_enabled h p hmu⟩
  | none =>
    left
    rcases hk with ⟨ev, hev⟩ | ⟨w, hw⟩ | ⟨w, hw⟩
    · have hev' : s.incs[k]?.map Inc.loop = some (.onerror ev) := hev
      simp only [step, hev']; split <;> simp
    · have hw' : s.incs[k]?.map Inc.loop = some (.closing w) := hw
      simp only [step, hw', hmu]; simp; split <;> simp
    · have := h.loopAt k w hw; simp [hmu] at this

/-- `Open` on an open transport reports ALREADY_OPEN, `Close` on a closed one NOT_OPEN, and
neither changes the life-cycle state (any state, mutex free). -/
theorem c15_states_consistent (s : Sys) (i : Nat) (b : Bool) (hmu : s.mu = none) :
    (s.calls[i]? = some ⟨.open, .start⟩ → s.isOpen = true →
        step s (.callStep i b) = some (setCall s i (.done .alreadyOpen))) ∧
    (s.calls[i]? = some ⟨.close, .start⟩ → s.isOpen = false →
        step s (.callStep i b) = some (setCall s i (.done .notOpen))) := by
  refine ⟨?_, ?_⟩ <;> intro hc <;> simp [step, hc, hmu] <;> intro ho <;> simp [ho]

/-- `IsOpen` reports the state in ONE step, in every reachable state with the mutex free: it never
enters the underlying transport's `IsOpen()` (which over a thrift.TSocket waits for the read loop's
pending Read), because the read loop of an open incarnation has never returned. -/
theorem c15_isopen_never_asks_underlying {s : Sys} (hr : Reachable s) (i : Nat) (b : Bool) (hmu : s.mu = none)
    (hc : s.calls[i]? = some ⟨.isOpen, .start⟩) :
    step s (.callStep i b) = some (setCall s i (.done (.bool s.isOpen))) := by
  have h := inv_reachable hr
  have hg := guarded_reachable hr
  have hnot : ¬ (s.isOpen = true ∧ s.incs[s.incs.length - 1]?.map Inc.loop = some .done) := by
    intro ⟨ho, hd⟩
    obtain ⟨ic, hic, _⟩ := h.openInc ho
    exact h.loopDone s.cur hd ⟨ho, cur_lt_of_some hic⟩
  have hcond : (s.isOpen && (if s.guarded = true then
      decide (s.incs[s.incs.length - 1]?.map Inc.loop = some .done) else true)) = false := by
    rw [hg]; simp only [if_true]
    cases ho : s.isOpen
    · simp
    · simp only [Bool.true_and, decide_eq_false_iff_not]
      intro hd; exact hnot ⟨ho, hd⟩
  simp only [step, hc, hmu, hcond]; simp

/-- … and conversely `Open` returns nil only on a closed transport and then it is open;
`Close` starts closing only an open transport. -/
theorem c15_states_consistent_ok (s s' : Sys) (i : Nat) (b : Bool) (hs : step s (.callStep i b) = some s') :
    (s.calls[i]? = some ⟨.open, .start⟩ → s'.calls[i]? = some ⟨.open, .done .ok⟩ →
        s.isOpen = false ∧ s'.isOpen = true ∧ s'.incs.length = s.incs.length + 1) ∧
    (s.calls[i]? = some ⟨.close, .start⟩ → s'.calls[i]? = some ⟨.close, .atSignal⟩ → s.isOpen = true) := by
  constructor
  · intro hc hc'
    simp only [step, hc] at hs
    split at hs
    · cases hs
    · split at hs
      · cases hs; simp [hc] at hc'
      · split at hs
        · cases hs; simp [hc] at hc'
        · rename_i ho _; cases hs; simp at ho ⊢; exact ho
  · intro hc hc'
    simp only [step, hc] at hs
    split at hs
    · cases hs
    · split at hs
      · cases hs; simp [hc] at hc'
      · rename_i ho; simpa using ho

/-- Exactly one value per incarnation: between an `Open` that returned nil and the next, the
incarnation's `Closed()` channel carries nothing while it is the open one, and exactly one value —
the cause of whoever closed it — and is closed, as soon as it is not. Never more than one. -/
theorem c15_one_cause_per_incarnation {s : Sys} (hr : Reachable s) (k : Nat) (i : Inc) (hi : s.incs[k]? = some i) :
    (s.openAt k → i.chan = [] ∧ i.chanClosed = false ∧ i.closedBy = none) ∧
    (¬ s.openAt k → ∃ w, i.closedBy = some w ∧ i.chan = [w.cause] ∧ i.chanClosed = true) ∧
    i.chan.length ≤ 1 := by
  have h := inv_reachable hr
  have a : s.openAt k → i.chan = [] ∧ i.chanClosed = false ∧ i.closedBy = none := by
    intro ⟨ho, hk⟩
    obtain ⟨ic, hic, _, h2, h3, h4⟩ := h.openInc ho
    have : k = s.cur := by unfold Sys.cur; omega
    subst this; rw [hic] at hi; cases hi; exact ⟨h2, h3, h4⟩
  refine ⟨a, h.closedInc k i hi, ?_⟩
  by_cases ho : s.openAt k
  · simp [(a ho).1]
  · obtain ⟨w, _, hc, _⟩ := h.closedInc k i hi ho; simp [hc]

/-- The published value is nil iff the close was requested by `Close()` or the stream ended with EOF. -/
theorem c15_cause_classification (w : Closer) : w.cause = .clean ↔ (w = .user ∨ w = .peerEof) := by
  cases w <;> simp [Closer.cause]

/-- The read loop classifies END_OF_FILE as a clean close and everything else as a failure; at
the open incarnation the `select` on closeSignal never finds a token, so the failure is never
swallowed: the loop goes on to `close()`. -/
theorem c15_failure_not_swallowed {s : Sys} (hr : Reachable s) (k : Nat) (ev : Ev)
    (ho : s.openAt k) (hk : s.loopPc k = some (.onerror ev)) :
    step s (.loopStep k) = some (setLoop s k (.closing (if ev = .eof then .peerEof else .failure))) := by
  have h := inv_reachable hr
  have hk' : s.incs[k]?.map Inc.loop = some (.onerror ev) := hk
  have hz : ¬ s.sigOf k > 0 := fun hp => sigOf_pos_not_open h k hp ho
  simp [step, hk', hz]

/-- Reopen works again (safety): in every reachable state — after any number of closes and
reopens — a read loop that has returned belongs to an incarnation that is closed and has published
exactly one cause. No read loop ever returns leaving its transport "open". -/
theorem c15_reopen_again {s : Sys} (hr : Reachable s) (k : Nat) (hd : s.loopPc k = some .done) :
    ¬ s.openAt k ∧ ∃ i w, s.incs[k]? = some i ∧ i.closedBy = some w ∧ i.chan = [w.cause] ∧ i.chanClosed = true := by
  have h := inv_reachable hr
  have hno := h.loopDone k hd
  refine ⟨hno, ?_⟩
  simp only [Sys.loopPc] at hd
  cases hi : s.incs[k]? with
  | none => simp [hi] at hd
  | some i =>
    obtain ⟨w, a, b, c⟩ := h.closedInc k i hi hno
    exact ⟨i, w, rfl, a, b, c⟩

/-- Failure is detected (progress): from every reachable state in which the read loop of ANY
incarnation has seen its read fail, at most 4 steps of that loop and of the goroutine holding the
mutex (no step of the environment, no new call) bring the loop to its end, with its incarnation
closed, exactly one cause published and `isOpen = false` for it. -/
theorem c15_failure_detected {s : Sys} (hr : Reachable s) (k : Nat)
    (hk : (∃ ev, s.loopPc k = some (.onerror ev)) ∨ (∃ w, s.loopPc k = some (.closing w)) ∨
          (∃ w, s.loopPc k = some (.atSignal w))) :
    ∃ as s', as.length ≤ 4 ∧ (∀ a ∈ as, a = .loopStep k ∨ ∃ p, s.mu = some p ∧ a = p.act) ∧
      run s as = some s' ∧ s'.loopPc k = some .done ∧ ¬ s'.openAt k ∧
      ∃ i w, s'.incs[k]? = some i ∧ i.closedBy = some w ∧ i.chan = [w.cause] ∧ i.chanClosed = true := by
  obtain ⟨as0, hr0⟩ := hr
  have h := inv_reachable ⟨as0, hr0⟩
  obtain ⟨as, s', hl, hown, hrun, hd⟩ := loop_finishes h (guarded_reachable ⟨as0, hr0⟩) k hk
  have hr' : Reachable s' := ⟨as0 ++ as, by rw [run_append, hr0]; exact hrun⟩
  obtain ⟨a, b⟩ := c15_reopen_again hr' k hd
  exact ⟨as, s', hl, hown, hrun, hd, a, b⟩

/-- Monitor notified: a step that closes an open transport whose monitor channel is empty (the
runner has taken the previous notification) puts exactly one value into the monitor channel, and
it is the value published on `Closed()`.
PARTIAL: the code's send is non-blocking on a capacity-1 channel; with an unreceived notification
still in the channel the new one is dropped (`c15_monitor_full_channel_counterexample`) — this needs
two closes (hence an `Open` by someone other than the runner in between) while the runner is busy. -/
theorem c15_monitor_notified_partial {s s' : Sys} {a : Action} (hr : Reachable s) (hs : step s a = some s')
    (ho : s.isOpen = true) (hc : s'.isOpen = false) (hm : s.mon = some []) :
    ∃ w, s'.mon = some [w.cause] ∧ s'.monSent = s.monSent + 1 ∧ s'.monDropped = s.monDropped ∧
      ∃ i, s'.incs[s.cur]? = some i ∧ i.closedBy = some w ∧ i.chan = [w.cause] := by
  have h := inv_reachable hr
  obtain ⟨w, e1, e2, e3, e4⟩ := closing_step hs ho hc
  obtain ⟨m1, m2, m3⟩ := doClose_mon_empty s h.fresh w hm
  refine ⟨w, by rw [e1, m1], by rw [e2, m2], by rw [e3, m3], ?_⟩
  obtain ⟨ic, hic, _, h2, _, h4⟩ := h.openInc ho
  have := e4 s.cur
  rw [doClose_incs s w h.fresh, hic] at this
  cases hi : s'.incs[s.cur]? with
  | none => simp [hi] at this
  | some i =>
    simp [hi, closeInc, publish, wake, h2, h4, closeChanCap] at this
    refine ⟨i, rfl, ?_, ?_⟩
    · rw [this.1]; split <;> simp [h4]
    · rw [this.2]; split <;> simp [h2]

/-- Accounting for all closes: every close either sent its value or found the channel full, and
the channel never holds more than its capacity; sent = received + buffered. -/
theorem c15_monitor_accounting {s : Sys} (hr : Reachable s) :
    s.monSent = s.monLog.length + (s.mon.getD []).length ∧ ∀ buf, s.mon = some buf → buf.length ≤ monitorChanCap := by
  have h := inv_reachable hr
  exact ⟨h.monCount, h.monBuf⟩

/-- The monitor statement at full strength is false of the code: second close while the first
notification is still unreceived — dropped. -/
theorem c15_monitor_full_channel_counterexample :
    (run (init true) [.setMonitor, .invoke .open, .callStep 0 true, .read 0 .err, .loopStep 0, .loopStep 0, .loopStep 0,
      .invoke .open, .callStep 1 true, .read 1 .err, .loopStep 1, .loopStep 1, .loopStep 1]).map
      (fun s => (s.monSent, s.monDropped, s.mon)) = some (1, 1, some [.dirty]) := by
  decide

/-- Closing a closed channel panics in Go; the model never gets there. -/
theorem c15_no_panic {s : Sys} (hr : Reachable s) : s.panicked = false := (inv_reachable hr).noPanic

/-- Before the repair (one shared closeSignal): peer EOF, reopen, `Close()` — the closer holds the
mutex and its send on closeSignal is blocked for good; `IsOpen` is blocked behind it. -/
theorem c15_counterexample_before_fix_deadlock :
    ∃ s, run (init false) [.invoke .open, .callStep 0 true, .read 0 .eof, .loopStep 0, .loopStep 0, .loopStep 0,
        .invoke .open, .callStep 1 true, .invoke .close, .callStep 2 true, .invoke .isOpen] = some s ∧
      s.mu = some (.call 2) ∧ step s (.callStep 2 true) = none ∧ step s (.callStep 3 true) = none := by
  refine ⟨_, rfl, ?_, ?_, ?_⟩ <;> decide

/-- Before the second repair (`guarded = false`), over a transport whose `IsOpen()` waits for a
pending Read (thrift.TSocket), silent peer: `IsOpen` takes the read lock, enters the underlying
`IsOpen()` and stays there while the read loop is blocked in Read; `Close()` cannot take the lock.
Only the peer (a `read` action) can release them. -/
theorem c15_counterexample_before_fix_isopen_deadlock :
    ∃ s, run (init true false) [.invoke .open, .callStep 0 true, .invoke .isOpen, .callStep 1 true, .invoke .close] = some s ∧
      s.mu = some (.call 1) ∧ step s (.callStep 1 true) = none ∧ step s (.callStep 2 true) = none ∧
      s.loopPc 0 = some .reading := by
  refine ⟨_, rfl, ?_, ?_, ?_, ?_⟩ <;> decide

/-- Before the repair: read error, reopen, read error — the second loop finds the stale token and
returns; the transport stays open with nothing published. -/
theorem c15_counterexample_before_fix_swallowed :
    ∃ s, run (init false) [.invoke .open, .callStep 0 true, .read 0 .err, .loopStep 0, .loopStep 0, .loopStep 0,
        .invoke .open, .callStep 1 true, .read 1 .err, .loopStep 1] = some s ∧
      s.loopPc 1 = some .done ∧ s.isOpen = true ∧ (s.incs[1]?.map Inc.chan) = some [] := by
  refine ⟨_, rfl, ?_, ?_, ?_⟩ <;> decide

/-- BaseFTransportMonitor: after an unclean close the runner calls `Open` at most
`MaxReopenAttempts` times, whatever the outcomes of those calls. -/
theorem c15_attempts_bounded (m : Base) (outs : List Bool) :
    attempts (handleClose m.policy false outs) ≤ m.maxReopenAttempts := by
  unfold handleClose
  simp only [Bool.false_eq_true, if_false]
  have hp : m.policy.onClosedUncleanly = (decide (m.maxReopenAttempts > 0), m.initialWait) := rfl
  rw [hp]
  by_cases h : m.maxReopenAttempts > 0
  · simp only [h, decide_true, if_true]
    have := attemptReopen_attempts m outs m.initialWait 0 h
    simp only [attempts, List.filter_cons, List.length_cons] at this ⊢
    simpa using this
  · simp [h, attempts]

/-- Every wait of the runner is at most `MaxWait`, provided `InitialWait ≤ MaxWait`
(int64 wrap of the doubling included). -/
theorem c15_waits_bounded (m : Base) (outs : List Bool) (h : m.initialWait ≤ m.maxWait) :
    ∀ w ∈ sleeps (handleClose m.policy false outs), w ≤ m.maxWait := by
  unfold handleClose
  simp only [Bool.false_eq_true, if_false]
  intro w hw
  simp only [sleeps] at hw
  split at hw
  · exact attemptReopen_sleeps m outs _ 0 h w hw
  · simp [sleeps] at hw

/-- The budget is per outage ("reopens successfully as often as the monitor policy allows"): for ANY
sequence of unclean closes handled by one runner in which outage i needs k_i failing `Open`s before
one succeeds, k_i < MaxReopenAttempts, EVERY outage ends reopened and the runner never returns —
failed attempts of earlier, healed outages are not charged to a later one. -/
theorem c15_budget_per_outage (m : Base) (ks : List Nat) (h : ∀ k ∈ ks, k < m.maxReopenAttempts) :
    (runner m.policy (ks.map fun k => (false, outageOuts k []))).count .reopenSucceeded = ks.length ∧
    MEv.terminated ∉ runner m.policy (ks.map fun k => (false, outageOuts k [])) :=
  runner_budget_per_outage m ks h

/-- … and within one outage the runner keeps trying until it succeeds: exactly k+1 attempts, one success,
for every k < MaxReopenAttempts (the lower bound that goes with `c15_attempts_bounded`); with exactly
MaxReopenAttempts failures it gives up after MaxReopenAttempts attempts. -/
theorem c15_keeps_trying (m : Base) (k : Nat) (rest : List Bool) (h : k < m.maxReopenAttempts) :
    (handleClose m.policy false (outageOuts k rest)).count .reopenSucceeded = 1 ∧
    endsRunner (handleClose m.policy false (outageOuts k rest)) = false ∧
    attempts (handleClose m.policy false (outageOuts k rest)) = k + 1 :=
  handleClose_reopens m k rest h

/-- Every outage starts afresh: the first wait is InitialWait and the attempt counter starts at 0
(`handleClose` calls `attemptReopen` with the policy's initial wait and 0 previous attempts). -/
theorem c15_outage_starts_afresh (m : Base) (outs : List Bool) (h : m.maxReopenAttempts > 0) :
    handleClose m.policy false outs =
      .closedUncleanly true m.initialWait :: attemptReopen m.policy outs m.initialWait 0 := by
  have hp : m.policy.onClosedUncleanly = (decide (m.maxReopenAttempts > 0), m.initialWait) := rfl
  simp [handleClose, hp, h]

/-- A counter that survives from one outage to the next (the runner entering `attemptReopen` with the
1 failure of an earlier, healed outage) makes the runner give up an outage the policy allows it to
heal: MaxReopenAttempts 2, one failing attempt — with the counter at 0 it reopens, at 1 it stops. -/
theorem c15_lifetime_counter_counterexample :
    MEv.reopenSucceeded ∈ attemptReopen (Base.policy ⟨2, 0, 0⟩) (outageOuts 1 []) 0 0 ∧
    MEv.terminated ∈ attemptReopen (Base.policy ⟨2, 0, 0⟩) (outageOuts 1 []) 0 1 ∧
    MEv.reopenSucceeded ∉ attemptReopen (Base.policy ⟨2, 0, 0⟩) (outageOuts 1 []) 0 1 := by
  decide

/-- Monitors are independent: with several transports, each with its own monitor value whose
fields the application may rewrite at any time, the runner trace of transport `i` over ANY
interleaving of outages and policy changes of all transports is exactly what monitor `i` alone
would do on its own outages and its own policy changes — nothing done to another monitor shows.
(Trivial in the model, where instances are separate values; the tie `c15multi` checks it of the
code, where `NewDefaultFTransportMonitor()` must hand out a fresh value each time.) -/
theorem c15_monitors_independent (ms : List Inst) (as : List MAct) (i : Nat) (m : Inst) (hm : ms[i]? = some m) :
    (multiRun ms as).filterMap (fun e => if e.1 = i then some e.2 else none) = singleRun m as i :=
  multi_independent ms as i m hm

/-! ### A flapping peer (`FV.Flapping`: the runner as the consumer of the monitor channel) -/

/-- One report per failure under flapping: for EVERY script of the runner's Opens (refused /
accepted-and-dies-at-once / healthy, any mix, any length), EVERY policy and EVERY interleaving of
environment failures and runner handlings in which only the monitor reopens the transport: the
number of close reports the runner has handled plus the (at most one) cause still waiting in its
channel equals the number of actual failures of an open transport — no report without a failure
(`reports ≤ failures`), no second report for one failure, no failure lost (`dropped = 0`); a waiting
cause has a live runner to take it; once the channel is empty `reports = failures` exactly. -/
theorem c15_flapping_one_report_per_failure (p : Policy) (script : List Flapping.Outcome) (acts : List Flapping.Act)
    (hn : ∀ a ∈ acts, a ≠ .appOpen) :
    let s := Flapping.run p (Flapping.init script) acts
    s.failures = s.reports + s.chan ∧ s.chan ≤ 1 ∧ s.dropped = 0 ∧ s.reports ≤ s.failures ∧
    (s.chan = 1 → s.alive = true ∧ s.isOpen = false) ∧ (s.chan = 0 → s.reports = s.failures) := by
  have hf := Flapping.finv_run p (Flapping.finv_init script) acts
  have hm := Flapping.minv_run p (Flapping.finv_init script) (Flapping.minv_init script) acts hn
  have h1 := hf.account
  have h2 := hf.cap
  have h3 := hm.noDrop
  refine ⟨by omega, h2, h3, by omega, ?_, by intro h; omega⟩
  intro hc
  constructor
  · cases ha : (Flapping.run p (Flapping.init script) acts).alive with
    | true => rfl
    | false => have := (hm.deadClosed ha).2; omega
  · cases ho : (Flapping.run p (Flapping.init script) acts).isOpen with
    | false => rfl
    | true => have := hm.openEmpty ho; omega

/-- … and with the application reopening the transport itself at any time: every failure is
accounted for — reported, waiting, or (only then possible) found the capacity-1 channel full. -/
theorem c15_flapping_report_accounting (p : Policy) (script : List Flapping.Outcome) (acts : List Flapping.Act) :
    let s := Flapping.run p (Flapping.init script) acts
    s.failures = s.reports + s.chan + s.dropped ∧ s.chan ≤ 1 :=
  ⟨(Flapping.finv_run p (Flapping.finv_init script) acts).account, (Flapping.finv_run p (Flapping.finv_init script) acts).cap⟩

/-- The runner is alive whenever the transport is open and was (re)opened by the monitor: in every
reachable state (any script, any policy, any interleaving, application reopens included) such a
transport still has its runner, and the channel is empty — the next failure will be taken. -/
theorem c15_runner_alive_while_open (p : Policy) (script : List Flapping.Outcome) (acts : List Flapping.Act) :
    let s := Flapping.run p (Flapping.init script) acts
    s.isOpen = true → s.byMonitor = true → s.alive = true ∧ s.chan = 0 := by
  intro s ho hb
  have hf := Flapping.finv_run p (Flapping.finv_init script) acts
  exact ⟨hf.aliveOpen ho hb, hf.openEmpty ho hb⟩

/-- The excluded configuration: with `InitialWait > MaxWait` the first wait exceeds `MaxWait`. -/
theorem c15_waits_counterexample :
    ∃ w ∈ sleeps (handleClose (Base.policy ⟨3, 5, 2⟩) false [true]), w > (2 : Int) := by
  refine ⟨5, ?_, by decide⟩
  simp [handleClose, Base.policy, Base.onClosedUncleanly, attemptReopen, sleeps]


/-- Cut anywhere: for every list of well-formed frames (each at most `maxLength` bytes, each accepted
by `registry.Execute`) and every byte offset `k` at which the inbound stream is cut, the frames
delivered are exactly those wholly inside the first `k` bytes, and then the transport closes once:
with nil if the stream ended with EOF — also when the cut falls inside a size prefix or a frame body,
because that EOF reaches the read loop typed END_OF_FILE (the code's classification) — and with
the error if the read failed. -/
theorem c15_cut_anywhere (fs : List Bytes) (hlen : ∀ f ∈ fs, f.length ≤ Framed.maxLength)
    (hex : ∀ f ∈ fs, (registryExecuteEmpty f).isOk = true) (k : Nat) (hk : k ≤ (Framed.encode fs).length)
    (eofAfter : Bool) :
    Framed.readAll ((Framed.encode fs).take k) eofAfter =
      (Framed.wholeBefore fs k, if eofAfter then Cause.clean else Cause.dirty) := by
  obtain ⟨h1, h2⟩ := Framed.deframe_cut fs hlen k hk
  have hd := Framed.deliver_all_ok (fs.take (Framed.wholeBefore fs k))
    (fun f hf => hex f (List.mem_of_mem_take hf))
  have hl : (fs.take (Framed.wholeBefore fs k)).length = Framed.wholeBefore fs k := by
    rw [List.length_take]; exact Nat.min_eq_left (Framed.wholeBefore_le fs k)
  unfold Framed.readAll
  simp only [h1, hd, hl]
  simp [h2]
  cases eofAfter <;> simp

/-- A frame that `registry.Execute` rejects closes the transport with the error, after the frames before it. -/
theorem c15_garbage_frame_closes (good : List Bytes) (bad : Bytes) (rest : List Bytes)
    (hex : ∀ f ∈ good, (registryExecuteEmpty f).isOk = true) (hbad : (registryExecuteEmpty bad).isOk = false) :
    Framed.deliver (good ++ bad :: rest) = (good.length, false) := by
  induction good with
  | nil => simp [Framed.deliver, hbad]
  | cons f t ih =>
    have := ih (fun g hg => hex g (by simp [hg]))
    simp [Framed.deliver, hex f (by simp), this]

/-! ### The NATS client transport (`FV.NatsClient`: nats_transport.go + fBaseTransport) -/

/-- No send on a closed channel: in every reachable state of the NATS client transport — any
history of Open / Close / IsOpen / Request, connection closed by the application, broker going
away and coming back, closes repeated, Close after a failed Close — `fBaseTransport.Close` has
never written to or closed an already closed `Closed()` channel (which would panic). -/
theorem c15_nats_no_send_on_closed_channel {s : NatsClient.Sys} (hr : NatsClient.Reachable s) : s.panicked = false :=
  (NatsClient.ninv_reachable hr).noPanic

/-- Exactly one cause per incarnation: the channel of the open incarnation carries nothing and is
open; every other incarnation's channel carries exactly one value (nil: the only cause this
transport publishes) and is closed. -/
theorem c15_nats_one_cause_per_incarnation {s : NatsClient.Sys} (hr : NatsClient.Reachable s) (k : Nat)
    (i : NatsClient.Inc) (hi : s.incs[k]? = some i) :
    (s.openAt k → i.sent = 0 ∧ i.chanClosed = false) ∧ (¬ s.openAt k → i.sent = 1 ∧ i.chanClosed = true) ∧ i.sent ≤ 1 := by
  have h := (NatsClient.ninv_reachable hr).each k i hi
  unfold NatsClient.Sys.openAt
  by_cases ho : s.sub = true ∧ k + 1 = s.incs.length
  · simp only [ho, and_self, if_true] at h; exact ⟨fun _ => h, fun hn => absurd ho hn, by omega⟩
  · simp only [ho, if_false] at h; exact ⟨fun hn => absurd hn ho, fun _ => h, by omega⟩

/-- A failed `Close` (Unsubscribe fails: connection closed for good) publishes nothing and changes
nothing; so does a `Close` of a closed transport (which returns nil: this transport's `Close` is
idempotent rather than NOT_OPEN). -/
theorem c15_nats_failed_close_publishes_nothing (s : NatsClient.Sys) :
    ((NatsClient.step s .close).2 ≠ .ok → (NatsClient.step s .close).1 = s) ∧
    (s.sub = false → NatsClient.step s .close = (s, .ok)) := by
  constructor
  · simp only [NatsClient.step]; split
    · simp
    · split <;> simp
  · intro h; simp [NatsClient.step, h]

/-- ALREADY_OPEN / NOT_OPEN are reported consistently: `Open` answers ALREADY_OPEN only on an open
(subscribed) transport and nil only on a closed one; `Request` answers NOT_OPEN exactly when
`IsOpen` is false. -/
theorem c15_nats_states_consistent (s : NatsClient.Sys) :
    ((NatsClient.step s .open).2 = .alreadyOpen → s.sub = true) ∧
    ((NatsClient.step s .open).2 = .ok → s.sub = false ∧ (NatsClient.step s .open).1.sub = true) ∧
    ((NatsClient.step s .request).2 = .notOpen ↔ s.isOpen = false) ∧
    (NatsClient.step s .isOpen).2 = .bool s.isOpen := by
  refine ⟨?_, ?_, ?_, rfl⟩
  · simp only [NatsClient.step]; split
    · simp
    · split <;> simp_all
  · simp only [NatsClient.step]; split
    · simp
    · split <;> simp_all
  · simp only [NatsClient.step]; cases s.isOpen <;> simp

/-- Reopen works after a clean close: on a connected connection, `Close` of an open transport
followed by `Open` succeeds and starts a new incarnation — any number of times. -/
theorem c15_nats_reopen_again {s : NatsClient.Sys} (hr : NatsClient.Reachable s) (hc : s.conn = .connected)
    (hs : s.sub = true) :
    (NatsClient.step s .close).2 = .ok ∧
    (NatsClient.step (NatsClient.step s .close).1 .open).2 = .ok ∧
    (NatsClient.step (NatsClient.step s .close).1 .open).1.incs.length = s.incs.length + 1 := by
  have hne := (NatsClient.ninv_reachable hr).subInc hs
  obtain ⟨l, x, hl⟩ : ∃ l x, s.incs = l ++ [x] := ⟨s.incs.dropLast, s.incs.getLast hne, (List.dropLast_concat_getLast hne).symm⟩
  have hlast : s.incs.getLast? = some x := by rw [hl]; simp
  simp only [NatsClient.step, hs, hc, NatsClient.baseClose, hlast]
  simp
  split <;> simp [hl]

/-! Non-vacuity: the hypotheses are met by non-trivial reachable states. -/

/-- two failures in a row with a reopen in between, on the repaired code: both detected -/
example : (run (init true) [.invoke .open, .callStep 0 true, .read 0 .err, .loopStep 0, .loopStep 0, .loopStep 0,
    .invoke .open, .callStep 1 true, .read 1 .err, .loopStep 1, .loopStep 1, .loopStep 1]).map
    (fun s => (s.isOpen, s.incs.map Inc.chan, s.incs.map Inc.loop)) =
    some (false, [[.dirty], [.dirty]], [.done, .done]) := by decide

/-- a reachable state with a closer holding the mutex and another call waiting -/
example : ∃ s, Reachable s ∧ s.mu = some (.call 1) ∧ s.calls[2]? = some ⟨.isOpen, .start⟩ :=
  ⟨_, ⟨[.invoke .open, .callStep 0 true, .invoke .close, .callStep 1 true, .invoke .isOpen], rfl⟩, by decide, by decide⟩

/-- a reachable state in which a failing loop of the open incarnation is at the select -/
example : ∃ s, Reachable s ∧ s.openAt 1 ∧ s.loopPc 1 = some (.onerror .eof) :=
  ⟨_, ⟨[.invoke .open, .callStep 0 true, .invoke .close, .callStep 1 true, .callStep 1 true, .loopStep 0,
        .invoke .open, .callStep 2 true, .read 1 .eof], rfl⟩, by decide, by decide⟩

/-- a 2-byte frame then a cut inside the second frame's body: one frame delivered -/
example : Framed.deframe ((Framed.encode [[1, 2], [3, 4, 5]]).take 11) = ([[1, 2]], .cutBody) := by
  simp [Framed.encode, be32, Framed.deframe, rd32, Framed.maxLength]

/-- NATS client transport: open, connection closed for good, Close fails twice, nothing published -/
example : (NatsClient.run NatsClient.init [.open, .connClose, .close, .close]).incs = [⟨0, false⟩] ∧
    (NatsClient.run NatsClient.init [.open, .close, .open, .brokerDown, .close, .brokerUp, .open]).incs =
      [⟨1, true⟩, ⟨1, true⟩, ⟨0, false⟩] := by decide

/-- a flapping script: failure, two connections that die at once, a healthy one, a later failure, healed:
four failures, four reports, transport open by the monitor, runner alive -/
example : (fun s : Flapping.Sys => (s.failures, s.reports, s.chan, s.dropped, s.isOpen, s.byMonitor, s.alive))
    (Flapping.run (Base.policy ⟨3, 0, 0⟩) (Flapping.init [.flap, .flap, .healthy, .refused, .healthy])
      [.fail, .handle, .handle, .handle, .fail, .handle]) = (4, 4, 0, 0, true, true, true) := by decide

example : attempts (handleClose (Base.policy ⟨2, 1, 4⟩) false [false, false, true]) = 2 := by decide
example : sleeps (handleClose (Base.policy ⟨3, 1, 3⟩) false [false, false, true]) = [1, 2, 3] := by decide

/-- **Lock discipline behind the model's atomic steps** (registry, adapter lifecycle lock, framed reader),
decided by the kernel on facts REGENERATED from lib/go's source on every check (harness/locks →
FV/Generated/Locks.lean): no function calls, while it holds one of these mutexes, anything that
(transitively) acquires the same mutex, no lexical re-lock, and every path out of a function releases
what the function locked — the part of "Open, Close and IsOpen never deadlock" that is a property of
the source text rather than of a schedule. -/
theorem c15_lock_discipline :
    FV.Locks.ok [1, 2, 3] FV.Generated.Locks.mutexTags FV.Generated.Locks.facts = true := by decide +kernel

/-- **No lock-order cycle** among the mutexes of lib/go (all tags): `m → m'` when some function acquires `m'`,
itself or through callees, while it holds `m`; no mutex reaches itself — the two-lock deadlock is excluded on
the regenerated facts (today the only edges lead to the logger's mutex). -/
theorem c15_lock_order_acyclic :
    FV.Locks.acyclic [1, 2, 3, 4, 5, 6, 7, 8] FV.Generated.Locks.mutexTags FV.Generated.Locks.facts = true := by
  decide +kernel

/-- **Constructors return fresh values** (regenerated from lib/go on every check): no function named `New…` returns
(the address of) a package-level variable — a monitor obtained from `NewDefaultFTransportMonitor()` and customised
through its exported fields is this caller's own; the static half of `c15_monitors_independent`. -/
theorem c15_constructors_return_fresh_values : FV.Generated.Locks.sharedCtors = [] := by decide

/-- **Fields are written under their lock** (regenerated from lib/go on every check): no method writes a field
of a mutex-holding struct (the adapter transport's lifecycle state) while no mutex of that struct is write-held — by assignment, `++`, `delete` or an
atomic store — unless the site is one of the hand-classified set-up / single-owner sites of
`known/locks_unguarded_expected.txt`. The atomic-step models read and write such state in ONE critical section;
a value computed from a read under the lock and stored after it was released (a lazily filled cache) is a lost
update the models cannot exhibit and the race detector does not see. -/
theorem c15_fields_written_under_lock :
    FV.Locks.writesGuarded [2] FV.Generated.Locks.unguardedUnexpected = true := by decide +kernel

/-- **Locks held across calls are released by defer** (regenerated from lib/go on every check): no function calls
anything while it holds a mutex that only a hand-written `Unlock` releases, except the hand-classified callees that
cannot panic (`manual:` lines of `known/locks_unguarded_expected.txt`). The models release a mutex on EVERY exit of
a critical section, a panic included — the servers recover panics of user-supplied code and keep serving, so a
hand-released mutex would stay locked and every later request behind it would go unanswered. -/
theorem c15_locks_released_by_defer :
    FV.Locks.releasedByDefer [2] FV.Generated.Locks.manualUnexpected = true := by decide +kernel

end FV.C15
