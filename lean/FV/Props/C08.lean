/-
C08 — Publisher and subscriber agree on the topic, in every target language.

  "For every scope, operation, prefix (static tokens and variables), variable values and
  topic delimiter option, the topic a generated publisher publishes on equals the topic
  the generated subscriber of the same operation subscribes to, consists of the prefix
  with its variables substituted, the scope name and the operation name joined by the
  topic delimiter, and is the same string in the Go, Java, Dart and Python outputs."

Model: FV/Model/Topic.lean (`tmpl`, `eval`, `spec`).  The topic adopted as the spec is

    [ <prefix tokens, variables substituted, joined by "." as written> <delim> ] <Scope> <delim> <op>

(no leading delimiter without a prefix; "." inside the prefix is IDL syntax and is not
replaced by `-delim`: all four generators paste the prefix string as written; the scope name
is capitalised, which three of four generators do and which changes nothing when the name is
capitalised already).

The statements quantify over ALL scopes (names, token lists of any length), operations,
variable values and delimiters.  Three classes are recorded findings of the real generators
(KNOWN_FINDINGS.txt), appear below as hypotheses of the `…_partial` theorems and have a
`…_counterexample` each:
  * `isTitled sc.name` for Python (Python pastes the scope name as written),
  * `safeTokens l sc` (inside `SafeScope`, with a plain delimiter): static prefix tokens are
    pasted into format strings / string literals. The class is EXACT per language and per
    "has variables" (`hazard`): Go/Java `"` `\` always and `%` only with variables; Python `'` `\`
    always and `{` `}` only with variables; Dart `'` `\` `$` always and `%` only with variables;
    everything else — e.g. `%` in a variable-free prefix — is covered by the theorems
    (`c08_novar_prefix_verbatim_partial`, `c08_percent_without_variables`). `PlainScope`
    (`plainTokens`: none of these characters) implies `SafeScope l` for every `l`,
  * `dartSafe sc.pfx delim` for Dart: `$user` followed by a delimiter such as "__" is read by
    Dart as the identifier `user__`.
`c08_go_delim_unfixed_counterexample` keeps the witness of the defect repaired in the Go
generator (literal "." between scope and operation).
-/
import FV.Model.Topic
import FV.Proofs.Topic

namespace FV.C08
open FV FV.Topic

/-- Publisher topic = subscriber topic: every language, scope (any prefix, plain or not),
operation, variable values and delimiter — no hypothesis. -/
theorem c08_pub_eq_sub (l : Lang) (sc : Scope) (vals : List Str) (delim op : Str) :
    evalTopic l .pub sc vals delim op = evalTopic l .sub sc vals delim op := by
  cases l <;> rfl

/-- The templates themselves coincide (not only their values). -/
theorem c08_pub_tmpl_eq_sub_tmpl (l : Lang) (sc : Scope) (delim : Str) :
    tmpl l .pub sc delim = tmpl l .sub sc delim := by
  cases l <;> rfl

/-- The variables the compiler extracts from the prefix STRING with the regular expression
`{\w*}` are exactly the `{…}` tokens made of word characters, in order; the identifier check
then accepts or rejects that list. -/
theorem c08_prefix_vars (ts : List Tok) (h : ∀ t ∈ ts, t.wf = true) :
    scanVars (prefixString ts) = ts.filterMap Tok.varName ∧
    extractVars (prefixString ts) =
      (if (ts.filterMap Tok.varName).all identOk then some (ts.filterMap Tok.varName) else none) := by
  have := scanVars_prefixString ts h
  simp only [varNames] at this
  exact ⟨this, by simp only [extractVars, this]⟩

/-- `ScopePrefix.Template(repl)` replaces exactly those tokens and nothing else. -/
theorem c08_prefix_template (repl : Str) (ts : List Tok) (h : ∀ t ∈ ts, t.wf = true) :
    templateStr repl (prefixString ts) = render repl ts :=
  templateStr_prefixString repl ts h

/-- The side conditions on a language: the recorded findings. -/
def LangOk (l : Lang) (sc : Scope) (delim : Str) : Prop :=
  (l.isPython = true → isTitled sc.name = true) ∧
  (l = .dart → dartSafe sc.pfx delim = true ∧ sc.vars.Nodup ∧ sc.vars.all identOk = true)

theorem c08_topic_eval_partial (l : Lang) (r : Role) (sc : Scope) (vals : List Str) (delim op : Str)
    (h : SafeScope l sc delim)
    (hd : l = .dart → dartSafe sc.pfx delim = true ∧ sc.vars.Nodup ∧ sc.vars.all identOk = true) :
    evalTopic l r sc vals delim op =
      some (specWith (if l.isPython then sc.name else title sc.name) sc vals delim op) := by
  have key : ∀ (tail : Template) (nm : Str),
      eval ⟨vals, delim, op, sc.name⟩ tail = some (nm ++ (delim ++ op)) →
      eval ⟨vals, delim, op, sc.name⟩ (prefixTmpl l sc delim) = some (prefixVal sc vals delim) →
      eval ⟨vals, delim, op, sc.name⟩ (prefixTmpl l sc delim ++ tail) = some (specWith nm sc vals delim op) := by
    intro tail nm ht hp
    rw [eval_append _ _ _ _ hp, ht]
    simp [specWith, prefixVal]
  have hpre : eval ⟨vals, delim, op, sc.name⟩ (prefixTmpl l sc delim) = some (prefixVal sc vals delim) := by
    cases l with
    | go => exact prefixPct_eval .go (Or.inl rfl) _ sc delim h
    | java => exact prefixPct_eval .java (Or.inr rfl) _ sc delim h
    | dart => exact prefixDart_eval _ sc delim h (hd rfl).2.1 (hd rfl).2.2 (hd rfl).1
    | py => exact prefixPy_eval .py rfl _ sc delim h
    | pyAsyncio => exact prefixPy_eval .pyAsyncio rfl _ sc delim h
    | pyTornado => exact prefixPy_eval .pyTornado rfl _ sc delim h
  unfold evalTopic tmpl
  apply key _ _ _ hpre
  cases l <;> cases r <;> simp [pubTopic, subTopic, eval, evalSeg, Lang.isPython]

/-- Every language's topic is the spec string.  PARTIAL: hypotheses = the complements of the
three recorded findings (plain static tokens and delimiter; for Python a capitalised scope
name; for Dart no variable glued to an identifier-like delimiter, distinct variable names that
passed the parser's identifier check). -/
theorem c08_matches_spec_partial (l : Lang) (r : Role) (sc : Scope) (vals : List Str) (delim op : Str)
    (h : SafeScope l sc delim) (hl : LangOk l sc delim) :
    evalTopic l r sc vals delim op = some (spec sc vals delim op) := by
  rw [c08_topic_eval_partial l r sc vals delim op h hl.2]
  cases hp : l.isPython with
  | false => rfl
  | true =>
    have := hl.1 hp
    simp only [isTitled, beq_iff_eq] at this
    simp [spec, this]

/-- All languages (and both roles) give the same string.  PARTIAL: same hypotheses. -/
theorem c08_languages_agree_partial (l₁ l₂ : Lang) (r₁ r₂ : Role) (sc : Scope) (vals : List Str)
    (delim op : Str) (s₁ : SafeScope l₁ sc delim) (s₂ : SafeScope l₂ sc delim)
    (h₁ : LangOk l₁ sc delim) (h₂ : LangOk l₂ sc delim) :
    evalTopic l₁ r₁ sc vals delim op = evalTopic l₂ r₂ sc vals delim op := by
  rw [c08_matches_spec_partial l₁ r₁ sc vals delim op s₁ h₁, c08_matches_spec_partial l₂ r₂ sc vals delim op s₂ h₂]

/-- Go, Java and Dart agree with each other and with the spec whatever the capitalisation of
the scope name. PARTIAL: plain tokens / delimiter, the Dart side condition. -/
theorem c08_go_java_dart_agree_partial (sc : Scope) (vals : List Str) (delim op : Str) (r : Role)
    (hg : SafeScope .go sc delim) (hj : SafeScope .java sc delim) (hs : SafeScope .dart sc delim)
    (hd : dartSafe sc.pfx delim = true ∧ sc.vars.Nodup ∧ sc.vars.all identOk = true) :
    evalTopic .go r sc vals delim op = some (spec sc vals delim op) ∧
    evalTopic .java r sc vals delim op = some (spec sc vals delim op) ∧
    evalTopic .dart r sc vals delim op = some (spec sc vals delim op) := by
  refine ⟨?_, ?_, ?_⟩
  · exact c08_matches_spec_partial .go r sc vals delim op hg ⟨by simp [Lang.isPython], by simp⟩
  · exact c08_matches_spec_partial .java r sc vals delim op hj ⟨by simp [Lang.isPython], by simp⟩
  · exact c08_matches_spec_partial .dart r sc vals delim op hs ⟨by simp [Lang.isPython], fun _ => hd⟩

/-- Python (vanilla, asyncio, tornado) always produces the as-written reading of the spec:
prefix and delimiters are right, only the capitalisation differs.  PARTIAL: plain tokens. -/
theorem c08_python_matches_raw_partial (l : Lang) (hl : l.isPython = true) (r : Role) (sc : Scope)
    (vals : List Str) (delim op : Str) (h : SafeScope l sc delim) :
    evalTopic l r sc vals delim op = some (specRaw sc vals delim op) := by
  rw [c08_topic_eval_partial l r sc vals delim op h (by cases l <;> simp [Lang.isPython] at hl <;> simp)]
  simp [hl, specRaw]

def opEC : Str := ['E','v','e','n','t','C','r','e','a','t','e','d']

/-- The language-independent hypothesis (no format / quoting character in any static token)
implies the exact per-language one. -/
theorem c08_plain_is_safe (sc : Scope) (delim : Str) (h : PlainScope sc delim) (l : Lang) :
    SafeScope l sc delim := h.safe' l

/-- A prefix WITHOUT variables is pasted as it is written, in every language: the topic is the
prefix string, the delimiter, the scope name, the delimiter, the operation. The only characters
that matter on this path are the quote of the target's string literal and the backslash (and `$`
for Dart) — in particular `%`, `{`, `}` are plain text (the seeded change C08-m6 breaks exactly
this for Dart). PARTIAL: `SafeScope` = the exact class of the recorded finding; Python as written. -/
theorem c08_novar_prefix_verbatim_partial (l : Lang) (r : Role) (sc : Scope) (vals : List Str)
    (delim op : Str) (h : SafeScope l sc delim) (hv : sc.vars = []) :
    evalTopic l r sc vals delim op =
      some ((if sc.pfx = [] then [] else sc.pfxStr ++ delim) ++
            ((if l.isPython then sc.name else title sc.name) ++ (delim ++ op))) := by
  have hd : l = .dart → dartSafe sc.pfx delim = true ∧ sc.vars.Nodup ∧ sc.vars.all identOk = true := by
    intro _
    have hall := novars_all sc.pfx (by rw [← vars_eq sc h.wf]; exact hv)
    refine ⟨?_, by simp [hv], by simp [hv]⟩
    have : lastIsVar sc.pfx = false := by
      generalize sc.pfx = ts at hall
      induction ts with
      | nil => rfl
      | cons t ts ih =>
        cases ts with
        | nil => simpa [lastIsVar] using hall t (by simp)
        | cons u us => simpa [lastIsVar] using ih (fun x hx => hall x (by simp [hx]))
    simp [dartSafe, this]
  rw [c08_topic_eval_partial l r sc vals delim op h hd]
  have hall := novars_all sc.pfx (by rw [← vars_eq sc h.wf]; exact hv)
  simp only [specWith, (novars_prefix [] vals sc.pfx hall).2, Scope.pfxStr]

/-- the witness of the seeded change C08-m6: `scope Events prefix load%50.stats` -/
def pctScope : Scope := ⟨['E','v','e','n','t','s'], [.word ['l','o','a','d','%','5','0'], .word ['s','t','a','t','s']]⟩

/-- `%` in a static token of a variable-free prefix is NOT in the finding's class: every language
(Dart included) gives `load%50.stats.Events.EventCreated`, although `plainTokens` fails. -/
theorem c08_percent_without_variables :
    plainTokens pctScope.pfx = false ∧ (∀ l, SafeScope l pctScope ['.']) ∧
    ∀ l r, evalTopic l r pctScope [] ['.'] opEC =
      some (['l','o','a','d','%','5','0','.','s','t','a','t','s','.','E','v','e','n','t','s','.'] ++ opEC) := by
  refine ⟨by decide, ?_, ?_⟩
  · intro l; cases l <;> exact ⟨by decide, by decide, by decide⟩
  · intro l r; cases l <;> cases r <;> decide

/-! ### From the public API inwards: arguments, parameters, forwarding -/

/-- Forwarding is the identity: for every entry point of every language (Go `Publish<Op>`,
`Subscribe<Op>`, `Subscribe<Op>Errorable`; Java `publish<Op>`, `subscribe<Op>`,
`subscribe<Op>Throwable`; Dart, Python publish / subscribe) the values that reach the format
arguments of the prefix expression are the arguments of the call, in order. Hypotheses: the
variable names are distinct (otherwise the emitted Go does not even compile) and one argument
per variable. -/
theorem c08_forwarding_identity (l : Lang) (e : Entry) (sc : Scope) (args : List Str)
    (hnd : sc.vars.Nodup) (hl : args.length = sc.vars.length) :
    reachVals l e sc.vars args = args :=
  reachVals_identity l e sc.vars args hnd hl

/-- Conversely (the reason the harness calls every entry point with pairwise different values): a
forwarding call that lists the declared names in any other way — permuted, one repeated, one
replaced by another — hands the callee a different value list. -/
theorem c08_forwarding_change_detected (vars vals fwd : List Str) (hnd : vars.Nodup) (hv : vals.Nodup)
    (hl : vals.length = vars.length) (hf : fwd.length = vars.length) (hmem : ∀ n ∈ fwd, n ∈ vars)
    (hne : fwd ≠ vars) : runChain [⟨vars, fwd⟩] vals ≠ vals := by
  intro h
  exact hne (forwarding_detected vars vals fwd hnd hv hl hf hmem (by simpa [runChain] using h))

/-- Entry points of one language agree: publisher entry = every subscriber entry. -/
theorem c08_entry_pub_eq_sub (l : Lang) (e : Entry) (sc : Scope) (args : List Str) (delim op : Str)
    (hnd : sc.vars.Nodup) (hl : args.length = sc.vars.length) :
    entryTopic l .pub sc args delim op = entryTopic l e sc args delim op := by
  unfold entryTopic
  rw [reachVals_identity l .pub sc.vars args hnd hl, reachVals_identity l e sc.vars args hnd hl]
  have := c08_pub_tmpl_eq_sub_tmpl l sc delim
  cases e <;> simp [Entry.role, this]

/-- topic(entry point, args) = spec(args) for every entry point of every language. PARTIAL: the
hypotheses of `c08_matches_spec_partial` (recorded findings) plus distinct variable names. -/
theorem c08_entry_matches_spec_partial (l : Lang) (e : Entry) (sc : Scope) (args : List Str)
    (delim op : Str) (h : SafeScope l sc delim) (hl : LangOk l sc delim)
    (hnd : sc.vars.Nodup) (hlen : args.length = sc.vars.length) :
    entryTopic l e sc args delim op = some (spec sc args delim op) := by
  unfold entryTopic
  rw [reachVals_identity l e sc.vars args hnd hlen]
  exact c08_matches_spec_partial l e.role sc args delim op h hl

/-- the seeded change C08-m3 in model terms: Go `Subscribe<Op>` forwarding `tenant, region` -/
theorem c08_forwarding_swap_counterexample :
    runChain [⟨[['r'], ['t']], [['t'], ['r']]⟩] [['e','m','e','a'], ['a','c','m','e']]
      = [['a','c','m','e'], ['e','m','e','a']] := by decide

/-! ### Counterexamples: the recorded findings and the repaired defect, on their witnesses -/

def evScope : Scope := ⟨['e','v','e','n','t','s'], []⟩

/-- known/c08_python_scope_title.frugal: `scope events`: Python `events.EventCreated`,
Go `Events.EventCreated`. -/
theorem c08_python_title_counterexample :
    evalTopic .pyTornado .pub evScope [] ['.'] opEC ≠ evalTopic .go .pub evScope [] ['.'] opEC ∧
    evalTopic .pyTornado .pub evScope [] ['.'] opEC = some (['e','v','e','n','t','s','.'] ++ opEC) ∧
    evalTopic .go .pub evScope [] ['.'] opEC = some (['E','v','e','n','t','s','.'] ++ opEC) := by
  decide

def fmtScope : Scope := ⟨['E','v','e','n','t','s'], [.word ['a','%','d'], .braced ['u','s','e','r']]⟩
def bill : Str := ['b','i','l','l']

/-- known/c08_prefix_format_chars.frugal: `prefix a%d.{user}`: no target reads the pasted
prefix as text and one variable, although the tokens are grammatical. -/
theorem c08_format_chars_counterexample :
    (∀ t ∈ fmtScope.pfx, t.wf = true) ∧ plainTokens fmtScope.pfx = false ∧
    safeTokens .go fmtScope = false ∧ safeTokens .java fmtScope = false ∧ safeTokens .dart fmtScope = false ∧
    -- … and Python, whose format uses braces, is outside the class and right:
    safeTokens .pyTornado fmtScope = true ∧
    evalTopic .pyTornado .pub fmtScope [bill] ['.'] opEC = some (spec fmtScope [bill] ['.'] opEC) ∧
    evalTopic .go .pub fmtScope [bill] ['.'] opEC = none ∧
    evalTopic .java .sub fmtScope [bill] ['.'] opEC = none ∧
    evalTopic .dart .pub fmtScope [bill] ['.'] opEC = none ∧
    tmpl .go .pub fmtScope ['.'] =
      [.lit ['a'], .bad, .lit ['.'], .var 1, .lit ['.'], .scopeName true, .lit ['.'], .op] := by
  decide

def glueScope : Scope := ⟨['E','v','e','n','t','s'], [.word ['f','o','o'], .braced ['u','s','e','r']]⟩

/-- known/c08_dart_variable_glued.frugal: `prefix foo.{user}` with `-delim __`: Dart reads
`'foo.$user__'` as the undefined identifier `user__`; Go is fine. -/
theorem c08_dart_glue_counterexample :
    PlainScope glueScope ['_','_'] ∧ dartSafe glueScope.pfx ['_','_'] = false ∧
    evalTopic .dart .pub glueScope [bill] ['_','_'] opEC = none ∧
    evalTopic .go .pub glueScope [bill] ['_','_'] opEC = some (spec glueScope [bill] ['_','_'] opEC) := by
  refine ⟨⟨by decide, by decide, by decide⟩, by decide, by decide, by decide⟩

/-- The defect repaired in the Go generator: with the literal "." the Go topic for `-delim /`
was `Events.EventCreated`, the spec (and Java, Dart) `Events/EventCreated`. -/
theorem c08_go_delim_unfixed_counterexample :
    eval ⟨[], ['/'], opEC, ['E','v','e','n','t','s']⟩ (tmplGoUnfixed ⟨['E','v','e','n','t','s'], []⟩ ['/'])
      ≠ some (spec ⟨['E','v','e','n','t','s'], []⟩ [] ['/'] opEC) ∧
    evalTopic .go .pub ⟨['E','v','e','n','t','s'], []⟩ [] ['/'] opEC
      = some (spec ⟨['E','v','e','n','t','s'], []⟩ [] ['/'] opEC) := by
  decide

/-! ### Non-vacuity: the hypotheses hold of non-trivial scopes; the README's examples -/

def readme : Scope := ⟨['E','v','e','n','t','s'], [.word ['f','o','o'], .braced ['u','s','e','r']]⟩

example : PlainScope readme ['.'] ∧ LangOk .dart readme ['.'] ∧ LangOk .pyAsyncio readme ['.'] :=
  ⟨⟨by decide, by decide, by decide⟩, ⟨by decide, fun _ => ⟨by decide, by decide, by decide⟩⟩,
   ⟨by decide, by decide⟩⟩

/-- README: `scope Events prefix foo.{user}` with user = "bill" → `foo.bill.Events.EventCreated`. -/
example : spec readme [bill] ['.'] opEC =
    ['f','o','o','.','b','i','l','l','.','E','v','e','n','t','s','.'] ++ opEC := by decide

/-- README: no prefix → `<scope>.<operation>`, no leading delimiter. -/
example : spec ⟨['E','v','e','n','t','s'], []⟩ [] ['.'] opEC = ['E','v','e','n','t','s','.'] ++ opEC := by decide

/-- a three-token prefix with two variables, delimiter "/" : the hypotheses are satisfiable and
the theorem's conclusion is the expected concrete string in every language -/
def big : Scope := ⟨['S','t'], [.braced ['a','b'], .word ['x','-','1'], .braced ['c','d','_','e']]⟩
example : PlainScope big ['/'] ∧ LangOk .dart big ['/'] := 
  ⟨⟨by decide, by decide, by decide⟩, ⟨by decide, fun _ => ⟨by decide, by decide, by decide⟩⟩⟩
example : evalTopic .dart .sub big [['1'], ['2']] ['/'] ['o'] = some ['1','.','x','-','1','.','2','/','S','t','/','o'] := by
  decide
example : c08_prefix_vars big.pfx (by decide) = c08_prefix_vars big.pfx (by decide) := rfl
example : scanVars (prefixString big.pfx) = [['a','b'], ['c','d','_','e']] := by decide
example : big.vars.Nodup ∧ entryTopic .go .sub big [['1'], ['2']] ['/'] ['o'] = some (spec big [['1'], ['2']] ['/'] ['o']) := by
  refine ⟨by decide, by decide⟩

end FV.C08
