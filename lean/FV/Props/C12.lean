/-
C12 — Size limits are enforced exactly and reported, never silently.

  "For every message and every configured size limit, a request or publish whose
  framed size exceeds the transport's limit is not transmitted and fails with a
  REQUEST_TOO_LARGE transport error, a response that exceeds the server-side or
  client-requested limit reaches the caller as a RESPONSE_TOO_LARGE error rather
  than a timeout or truncated data, and a message within the limit is never
  rejected. After an oversize failure the same client and server keep working for
  subsequent messages."

An encoder (Thrift protocol + generated struct code) is the list of operations it
performs on its transport: `Write`, `WriteByte`, `WriteString` (binary and compact
protocols use the latter two on a TRichTransport). The theorems quantify over every
limit and every such list; `opsSize ops` is the unframed size of the message,
`4 + opsSize ops` its framed size. The model describes the code after the three
repairs recorded in KNOWN_FINDINGS.txt (WriteByte/WriteString checked, limits 1..3,
writeHeader keeps the error type).
-/
import FV.Model.OutBuf
import FV.Proofs.OutBuf

namespace FV.C12
open FV OutBuf

/-- Write operations only (an encoder never calls `Reset`). -/
def Writes (ops : List Op) : Prop := ∀ o ∈ ops, o.isWrite = true

/-- The framed size of a message exceeds a limit (0 = unbounded). -/
def Over (limit : Nat) (ops : List Op) : Prop := 0 < limit ∧ limit < 4 + opsSize ops

instance (limit : Nat) (ops : List Op) : Decidable (Over limit ops) := by unfold Over; infer_instance

/-- **Buffer exactness.** For every limit and every non-empty sequence of writes of any of
the three kinds: `prepareMessage` fails — with the too-large error — exactly when a limit is
set and the framed size exceeds it; otherwise it returns exactly the size prefix followed by
the written bytes in order. (For the empty sequence nothing is ever checked; with a limit of
at least 4, or none, the statement holds for it too: `c12_buffer_exact_nil`.) -/
theorem c12_buffer_exact (limit : Nat) (ops : List Op) (hw : Writes ops) (hne : ops ≠ []) :
    (prepare limit ops = .err .tooLarge ↔ Over limit ops) ∧
    (¬ Over limit ops → prepare limit ops = .ok (be32 (opsSize ops) ++ opsPayload ops)) := by
  unfold Over
  by_cases hov : 0 < limit ∧ limit < 4 + opsSize ops
  · simp [prepare_of_over limit ops hw hne hov, hov]
  · simp [prepare_of_fits limit ops hw hov, hov]

theorem c12_buffer_exact_nil (limit : Nat) (h : limit = 0 ∨ 4 ≤ limit) :
    ¬ Over limit [] ∧ prepare limit [] = .ok (be32 0) := by
  refine ⟨by unfold Over; simp [opsSize]; omega, ?_⟩
  simp [prepare, runStop, bytes, len, OutBuf.new, framePlaceholder]

/-- The buffer never holds more than the limit, whatever is done to it — any mix of the
three writes and `Reset`, continuing after failures: `Bytes()` is at most `limit` long
(at most the 4-byte placeholder for the degenerate limits 1..3). -/
theorem c12_never_exceeds (limit : Nat) (ops : List Op) (hl : 0 < limit) :
    ((OutBuf.new limit).runAll ops).1.bytes.length ≤ max limit 4 := by
  rw [bytes_length _ (runAll_len_ge ops _ (by simp [new_len]))]
  exact runAll_bounded ops (OutBuf.new limit) hl (by simp only [new_len]; show 4 ≤ max limit 4; omega)

/-- Whether a write is rejected depends on sizes alone: the `{limit, len}` buffer is the
exact projection of the byte buffer, for every operation sequence (also with `Reset`s and
after failures), so the server-side and call-level statements below, made on sizes, are
statements about the byte buffer. -/
theorem c12_sizes_only (b : OutBuf) (ops : List Op) :
    ((b.runStop ops).1.abs, (b.runStop ops).2) = b.abs.runStop ops ∧
    ((b.runAll ops).1.abs, (b.runAll ops).2) = b.abs.runAll ops :=
  ⟨runStop_abs ops b, runAll_abs ops b⟩

/-- `prepareMessage` on sizes agrees with `prepareMessage` on bytes. -/
theorem c12_prepare_sizes (limit : Nat) (ops : List Op) (hw : Writes ops) :
    (prepare limit ops = .err .tooLarge ↔ prepareLen limit ops = .err .tooLarge) ∧
    (∀ d, prepare limit ops = .ok d → prepareLen limit ops = .ok d.length) := by
  by_cases hov : 0 < limit ∧ limit < 4 + opsSize ops
  · by_cases hne : ops = []
    · subst hne
      simp [prepare, prepareLen, runStop, LBuf.runStop, bytes, len, OutBuf.new, LBuf.new, framePlaceholder, be32]
    · simp [prepare_of_over limit ops hw hne hov, prepareLen_of_over limit ops hw hne hov]
  · simp only [prepare_of_fits limit ops hw hov, prepareLen_of_fits limit ops hw hov]
    refine ⟨by simp, ?_⟩
    intro d hd
    injection hd with hd
    rw [← hd]
    simp only [be32, List.length_append, List.length_cons, List.length_nil, ← opsSize_eq]

/-- A transport whose own check is "framed size greater than `L`" with `L` also the limit
given to the client's buffer (0 = unbounded). -/
def Transport.HasLimit (t : Transport) (L : Nat) : Prop :=
  t.bufLimit = L ∧ ∀ n, t.rejects n = decide (0 < L ∧ L < n)

theorem nats_hasLimit : Transport.HasLimit natsTransport natsMaxMessageSize := by
  refine ⟨rfl, fun n => ?_⟩
  exact decide_eq_decide.mpr (by unfold natsMaxMessageSize; omega)
theorem natsPublisher_hasLimit : Transport.HasLimit natsPublisher natsMaxMessageSize := by
  refine ⟨rfl, fun n => ?_⟩
  exact decide_eq_decide.mpr (by unfold natsMaxMessageSize; omega)
theorem http_hasLimit (q : Nat) (hq : q ≤ int64Max) : Transport.HasLimit (httpTransport q) q :=
  ⟨rfl, fun n => decide_eq_decide.mpr (by omega)⟩
theorem limit_hasLimit (q : Nat) : Transport.HasLimit (limitTransport q) q := ⟨rfl, fun _ => rfl⟩
theorem stomp_hasLimit (q : Nat) : Transport.HasLimit (stompPublisher q) q := ⟨rfl, fun _ => rfl⟩

/-- Request side, generic in the transport. -/
theorem request_exact_of_hasLimit (t : Transport) (L : Nat) (ht : Transport.HasLimit t L)
    (ops : List Op) (hw : Writes ops) (hne : ops ≠ []) :
    (Over L ops → request t ops = .rejected .requestTooLarge) ∧
    (¬ Over L ops → request t ops = .wire (be32 (opsSize ops) ++ opsPayload ops)) := by
  unfold Over
  constructor
  · intro hov
    simp only [request, ht.1, prepare_of_over L ops hw hne hov]
  · intro hov
    have : ¬ (0 < L ∧ L < (be32 (opsSize ops) ++ opsPayload ops).length) := by
      simp only [be32, List.length_append, List.length_cons, List.length_nil, ← opsSize_eq]
      omega
    simp only [request, ht.1, prepare_of_fits L ops hw hov, ht.2, decide_eq_true_eq, if_neg this]

/-- **Request-side exactness**, for `Request`/`Oneway` over NATS and HTTP and `Publish` over
NATS and STOMP: a message whose framed size exceeds the transport's limit is not handed to
the wire and the caller gets REQUEST_TOO_LARGE; a message within the limit (or with no
limit) is handed to the wire exactly — size prefix, then the encoder's bytes in order. -/
theorem c12_request_exact (ops : List Op) (hw : Writes ops) (hne : ops ≠ []) (q : Nat) (hq : q ≤ int64Max) :
    (∀ t L, (t, L) ∈ [(natsTransport, natsMaxMessageSize), (natsPublisher, natsMaxMessageSize),
                      (httpTransport q, q), (stompPublisher q, q)] →
      (Over L ops → request t ops = .rejected .requestTooLarge) ∧
      (¬ Over L ops → request t ops = .wire (be32 (opsSize ops) ++ opsPayload ops))) := by
  intro t L hmem
  simp only [List.mem_cons, Prod.mk.injEq, List.mem_nil_iff, or_false] at hmem
  rcases hmem with ⟨rfl, rfl⟩ | ⟨rfl, rfl⟩ | ⟨rfl, rfl⟩ | ⟨rfl, rfl⟩
  · exact request_exact_of_hasLimit _ _ nats_hasLimit ops hw hne
  · exact request_exact_of_hasLimit _ _ natsPublisher_hasLimit ops hw hne
  · exact request_exact_of_hasLimit _ _ (http_hasLimit _ hq) ops hw hne
  · exact request_exact_of_hasLimit _ _ (stomp_hasLimit _) ops hw hne

/-- Request side on sizes (what `callVia` uses). -/
theorem requestLen_exact (t : Transport) (L : Nat) (ht : Transport.HasLimit t L)
    (ops : List Op) (hw : Writes ops) (hne : ops ≠ []) :
    (Over L ops → requestLen t ops = none) ∧ (¬ Over L ops → requestLen t ops = some (4 + opsSize ops)) := by
  unfold Over
  constructor
  · intro hov
    simp only [requestLen, ht.1, prepareLen_of_over L ops hw hne hov]
  · intro hov
    simp only [requestLen, ht.1, prepareLen_of_fits L ops hw hov, ht.2]
    simp [hov]

/-- **Oneway and Publish** (`FStandardClient.Oneway`, `FStandardClient.Publish`): over every
transport an oversize message is not handed to the wire and the caller gets
REQUEST_TOO_LARGE; a message within the limit is handed over and the call returns nil. -/
theorem c12_oneway_publish_exact (ops : List Op) (hw : Writes ops) (hne : ops ≠ []) (q : Nat) (hq : q ≤ int64Max) :
    (∀ t L, (t, L) ∈ [(natsTransport, natsMaxMessageSize), (natsPublisher, natsMaxMessageSize),
                      (httpTransport q, q), (stompPublisher q, q)] →
      (Over L ops → sendOnly t ops = ⟨false, some .requestTooLarge⟩) ∧
      (¬ Over L ops → sendOnly t ops = ⟨true, none⟩)) := by
  intro t L hmem
  have key : ∀ t L, Transport.HasLimit t L →
      (Over L ops → sendOnly t ops = ⟨false, some .requestTooLarge⟩) ∧
      (¬ Over L ops → sendOnly t ops = ⟨true, none⟩) := by
    intro t L ht
    have h := requestLen_exact t L ht ops hw hne
    constructor <;> intro hov
    · simp only [sendOnly, h.1 hov]
    · simp only [sendOnly, h.2 hov]
  simp only [List.mem_cons, Prod.mk.injEq, List.mem_nil_iff, or_false] at hmem
  rcases hmem with ⟨rfl, rfl⟩ | ⟨rfl, rfl⟩ | ⟨rfl, rfl⟩ | ⟨rfl, rfl⟩
  · exact key _ _ nats_hasLimit
  · exact key _ _ natsPublisher_hasLimit
  · exact key _ _ (http_hasLimit _ hq)
  · exact key _ _ (stomp_hasLimit _)

/-- All steps of the error reply are write operations. -/
def SegWrites (segs : List (List Op)) : Prop := ∀ s ∈ segs, Writes s

def segsSize : List (List Op) → Nat
  | [] => 0
  | s :: t => opsSize s + segsSize t

theorem sendError_fits (segs : List (List Op)) : ∀ (b : LBuf), SegWrites segs →
    ¬ (0 < b.limit ∧ b.limit < segsSize segs + b.len) →
    sendError b segs = ({ b with len := b.len + segsSize segs }, false) := by
  induction segs with
  | nil => intro b _ _; simp [sendError, segsSize]
  | cons s t ih =>
    intro b hw hfit
    simp only [segsSize] at hfit
    have h1 := LBuf.runStop_ok s b (hw s (by simp)) (by omega)
    have h2 := ih { b with len := b.len + opsSize s } (fun x hx => hw x (by simp [hx])) (by simp only; omega)
    simp only [sendError, h1, h2, segsSize]
    simp; omega

/-- **A too-large response is reported.** Server with output limit `r` (NATS: 1 MiB): if
the request goes through, the framed reply exceeds `r`, and the error reply fits `r`, the
caller gets transport exception RESPONSE_TOO_LARGE (101) — not a timeout, not a truncated
or oversize reply, wherever in the reply the excess is written and by whichever write path. -/
theorem c12_response_reported (t : Transport) (L r : Nat) (ht : Transport.HasLimit t L)
    (req rep : List Op) (errp : List (List Op))
    (hq : Writes req) (hqne : req ≠ []) (hreq : ¬ Over L req)
    (hp : Writes rep) (hpne : rep ≠ []) (hover : Over r rep)
    (he : SegWrites errp) (hefit : 4 + segsSize errp ≤ r) (hepos : 0 < segsSize errp) :
    callVia t r req rep errp = ⟨true, some .responseTooLarge⟩ := by
  unfold callVia
  rw [(requestLen_exact t L ht req hq hqne).2 hreq]
  have h1 := LBuf.reply_over r rep hp hpne hover
  have h2 := sendError_fits errp (LBuf.new r) he (by show ¬ (0 < r ∧ r < segsSize errp + 4); omega)
  simp only [sendReply, h1, h2, if_true]
  have : 4 < 4 + segsSize errp := by omega
  simp [LBuf.hasWriteData, LBuf.new, processReply, appResponseTooLarge, this]

/-- The same for the real NATS pair (`fNatsTransport` + `fNatsServer`, both 1 MiB). -/
theorem c12_response_reported_nats (req rep : List Op) (errp : List (List Op))
    (hq : Writes req) (hqne : req ≠ []) (hreq : ¬ Over natsMaxMessageSize req)
    (hp : Writes rep) (hpne : rep ≠ []) (hover : Over natsMaxMessageSize rep)
    (he : SegWrites errp) (hefit : 4 + segsSize errp ≤ natsMaxMessageSize) (hepos : 0 < segsSize errp) :
    callNats req rep errp = ⟨true, some .responseTooLarge⟩ := by
  unfold callNats
  rw [c12_response_reported natsTransport _ _ nats_hasLimit req rep errp hq hqne hreq hp hpne hover he hefit hepos]

/-- The assumption "the error reply fits" is needed, and bites with oversize response
HEADERS: when the response header alone exceeds the server's limit, `SendReply` fails on it,
`sendError` fails on it again and then writes the rest of the error reply without a header;
over NATS that reply cannot be routed to its caller, who times out (observed end to end on
the real fNatsServer / fNatsTransport by suite `c12e2e`); over a transport that hands the
reply to the caller directly the caller gets a protocol error. Neither is 101. -/
theorem c12_response_headers_over_limit_counterexample (req rest : List Op) (hdr : Op) (tail : List (List Op))
    (hq : Writes req) (hqne : req ≠ []) (hreq : ¬ Over natsMaxMessageSize req)
    (hh : hdr.isWrite = true) (hbig : natsMaxMessageSize < 4 + hdr.size)
    (ht : SegWrites tail) (htfit : 4 + segsSize tail ≤ natsMaxMessageSize) (htpos : 0 < segsSize tail) :
    callVia natsTransport natsMaxMessageSize req (hdr :: rest) ([hdr] :: tail) = ⟨true, some .other⟩ ∧
    callNats req (hdr :: rest) ([hdr] :: tail) = ⟨true, some .timedOut⟩ := by
  have hpos : 0 < natsMaxMessageSize := by unfold natsMaxMessageSize; omega
  have hfail : (LBuf.new natsMaxMessageSize).apply hdr = (LBuf.new natsMaxMessageSize, true) := by
    rw [LBuf.apply_write _ hdr hh, if_pos (by show 0 < natsMaxMessageSize ∧ natsMaxMessageSize < hdr.size + 4; omega)]
    rfl
  have h2 := sendError_fits tail (LBuf.new natsMaxMessageSize) ht
    (by show ¬ (0 < natsMaxMessageSize ∧ natsMaxMessageSize < segsSize tail + 4); omega)
  have hv : callVia natsTransport natsMaxMessageSize req (hdr :: rest) ([hdr] :: tail) = ⟨true, some .other⟩ := by
    unfold callVia
    rw [(requestLen_exact natsTransport _ nats_hasLimit req hq hqne).2 hreq]
    simp only [sendReply, LBuf.runStop, sendError, hfail, h2, if_true, Bool.true_or]
    have : 4 < 4 + segsSize tail := by omega
    simp [LBuf.hasWriteData, LBuf.new, processReply, this]
  exact ⟨hv, by unfold callNats; rw [hv]⟩

/-- HTTP, for every limit value the handler's `int64` can hold (`q, r ≤ MaxInt64`; 0 = none):
the client-requested limit `r` travels as a decimal header, is parsed back exactly, and is
compared by the handler with the *unframed* reply; over it, the caller gets
RESPONSE_TOO_LARGE (413 → 101); otherwise the reply. -/
theorem c12_response_reported_http (q r : Nat) (req rep : List Op) (hq : q ≤ int64Max) (hr : r ≤ int64Max)
    (hw : Writes req) (hqne : req ≠ []) (hreq : ¬ Over q req) :
    (0 < r ∧ r < opsSize rep → callHttp q r req rep = ⟨true, some .responseTooLarge⟩) ∧
    (¬ (0 < r ∧ r < opsSize rep) → callHttp q r req rep = ⟨true, none⟩) := by
  unfold callHttp
  rw [(requestLen_exact _ q (http_hasLimit q hq) req hw hqne).2 hreq, handlerStatus_limit r _ hr]
  constructor <;> intro h <;> simp [h]

/-- The handler reads back exactly the limit the client formatted, for every value up to
`MaxInt64`; above it `ParseInt` reports a range error. -/
theorem c12_limit_header_roundtrip (n : Nat) :
    parseInt64 (formatUint n) = if n ≤ int64Max then some (n : Int) else none := by
  rw [parseInt64_formatUint]; simp [inInt64]

/-- Known finding `limit-above-int64` (KNOWN_FINDINGS.txt): the client's limits are `uint`;
a response limit above `MaxInt64` is answered 400 by the handler for EVERY call (the caller
gets an UNKNOWN transport exception although the reply is within the limit), and a request
limit above `MaxInt64` turns negative in `len(data) > int(limit)`: every request is rejected
as REQUEST_TOO_LARGE. -/
theorem c12_limit_above_int64_counterexample (q r : Nat) (req rep : List Op)
    (hw : Writes req) (hqne : req ≠ []) :
    (q ≤ int64Max → ¬ Over q req → int64Max < r → callHttp q r req rep = ⟨true, some .other⟩) ∧
    (int64Max < q → callHttp q r req rep = ⟨false, some .requestTooLarge⟩) := by
  constructor
  · intro hq hreq hr
    unfold callHttp
    rw [(requestLen_exact _ q (http_hasLimit q hq) req hw hqne).2 hreq, handlerStatus_above_int64 r _ hr]
    rfl
  · intro hq
    have h0 : 0 < q := by unfold int64Max at hq; omega
    unfold callHttp requestLen
    by_cases hov : 0 < q ∧ q < 4 + opsSize req
    · simp [httpTransport, prepareLen_of_over q req hw hqne hov]
    · simp [httpTransport, prepareLen_of_fits q req hw hov, h0, hq]

/-- **Never spurious.** A request within the request limit and a reply within the server's
limit (or no limits): the request is transmitted and the caller gets the result. -/
theorem c12_never_spurious (t : Transport) (L r : Nat) (ht : Transport.HasLimit t L)
    (req rep : List Op) (errp : List (List Op))
    (hq : Writes req) (hqne : req ≠ []) (hreq : ¬ Over L req)
    (hp : Writes rep) (hrep : ¬ Over r rep) (hpos : 0 < opsSize rep) :
    callVia t r req rep errp = ⟨true, none⟩ := by
  unfold callVia
  rw [(requestLen_exact t L ht req hq hqne).2 hreq]
  have h1 := LBuf.reply_fits r rep hp hrep
  simp only [sendReply, h1]
  have : 4 < 4 + opsSize rep := by omega
  simp [LBuf.hasWriteData, processReply, this]

/-- `Reset()` restores the initial state. -/
theorem c12_reset_initial (b : OutBuf) : b.reset = OutBuf.new b.limit := rfl

/-- **Keeps working.** An operation that fails leaves the buffer in its initial state
(placeholder only, same limit), and so does an encoder run that stops on a failure; what is
written next behaves exactly as on a fresh buffer. (Client and server make a fresh buffer per
message anyway: `prepare`, `callVia` are functions of the message alone.) -/
theorem c12_keeps_working (b : OutBuf) (ops next : List Op) (hfail : (b.runStop ops).2 = true) :
    (b.runStop ops).1 = OutBuf.new b.limit ∧
    (b.runStop ops).1.runStop next = (OutBuf.new b.limit).runStop next ∧
    (b.runStop ops).1.runAll next = (OutBuf.new b.limit).runAll next := by
  have key : ∀ (ops : List Op) (b : OutBuf), (b.runStop ops).2 = true → (b.runStop ops).1 = OutBuf.new b.limit := by
    intro ops
    induction ops with
    | nil => intro b h; simp [runStop] at h
    | cons o t ih =>
      intro b h
      simp only [runStop] at h ⊢
      by_cases hf : (b.apply o).2 = true
      · simp only [hf, if_true]
        cases ho : o.isWrite
        · cases o <;> simp [Op.isWrite] at ho
          simp [apply] at hf
        · rw [apply_write b o ho] at hf ⊢
          split at hf
          · rename_i hc; rw [if_pos hc]; rfl
          · simp at hf
      · simp only [hf] at h ⊢
        have hlim : (b.apply o).1.limit = b.limit := by
          cases ho : o.isWrite
          · cases o <;> simp [Op.isWrite] at ho
            rfl
          · rw [apply_write b o ho]; split <;> rfl
        have := ih (b.apply o).1 (by simpa using h)
        rw [hlim] at this
        simpa using this
  have h := key ops b hfail
  rw [h]
  exact ⟨rfl, rfl, rfl⟩

/-- `Reset` in the middle of a sequence: whatever was written before it (without a failure)
is forgotten; the rest behaves as on a fresh buffer. With `c12_buffer_exact` this gives
exactness for every sequence of `write | writeByte | writeString | reset`: only the writes
after the last `Reset` count. -/
theorem c12_reset_restarts (b : OutBuf) (pre post : List Op) (h : (b.runStop pre).2 = false) :
    b.runStop (pre ++ Op.reset :: post) = (OutBuf.new b.limit).runStop post := by
  rw [runStop_append pre _ b h]
  simp only [runStop, apply_reset]
  have : (b.runStop pre).1.reset = OutBuf.new b.limit := by
    rw [c12_reset_initial, runStop_limit]
  simp [this]

/-- **Every exit of `Request` leaves no registration** (the NATS `Request` shape: size check
between `Register` and `PublishRequest`): whatever the size, whether or not a reply arrives,
the registry after the call is the registry before it. -/
theorem c12_no_registration_left (L : Nat) (reg : List Nat) (opid size : Nat) (replied : Bool) :
    (regRequest L reg opid size replied).1 = reg ∧ (regOneway L reg size).1 = reg := by
  constructor
  · unfold regRequest
    split
    · rfl
    · split
      · rfl
      · split <;> simp
  · unfold regOneway
    split
    · rfl
    · split <;> rfl

/-- **Follow-ups keep working**: in any sequence of requests and oneways on one transport,
with any reuse of FContexts (same op id again, a clone, a fresh one), after any number of
oversize rejections: every step leaves the registry empty, an oversize message is rejected
with REQUEST_TOO_LARGE and a message within the limit is never rejected. -/
theorem c12_followups_work (L : Nat) (steps : List SeqStep) (hs : ∀ st ∈ steps, st.size ≠ 4) :
    runSeq L [] steps = steps.map (fun st =>
      (if 0 < L ∧ L < st.size then some CallErr.requestTooLarge else none, 0)) := by
  induction steps with
  | nil => rfl
  | cons st t ih =>
    have h4 : st.size ≠ 4 := hs st (by simp)
    have hreg : (if st.oneway then regOneway L [] st.size else regRequest L [] st.opid st.size true).1 = [] := by
      split
      · exact (c12_no_registration_left L [] st.opid st.size true).2
      · exact (c12_no_registration_left L [] st.opid st.size true).1
    have hres : (if st.oneway then regOneway L [] st.size else regRequest L [] st.opid st.size true).2 =
        (if 0 < L ∧ L < st.size then some CallErr.requestTooLarge else none) := by
      split
      · unfold regOneway; rw [if_neg h4]; split <;> rfl
      · unfold regRequest; rw [if_neg h4]; simp only [List.not_mem_nil, if_false]; split <;> rfl
    simp only [runSeq, List.map_cons]
    rw [hreg, hres, ih (fun x hx => hs x (by simp [hx]))]
    simp

/-- Known finding `json-sticky-writer` (KNOWN_FINDINGS.txt), on a concrete witness: the
hypothesis of `c12_response_reported` that the error reply's writes reach the buffer fails
for a buffered encoder whose `Flush` failed (TJSONProtocol keeps the error in its
`bufio.Writer`): only the response header, written directly to the transport, arrives. The
caller then gets a protocol error, not 101 — although every size hypothesis holds. -/
theorem c12_response_sticky_encoder_counterexample :
    let hdr := Op.write (List.replicate 36 0)
    let rep := [hdr, Op.write (List.replicate 220 0)]
    Over 150 rep ∧ 4 + 36 + 70 ≤ 150 ∧
    (sendReplySticky (LBuf.new 150) rep hdr).1.hasWriteData = true ∧
    processReply (sendReplySticky (LBuf.new 150) rep hdr).2 = some .other := by
  intro hdr rep
  have hs : hdr.size = 36 := by simp only [hdr, Op.size, Op.payload, List.length_replicate]
  have hsz : opsSize rep = 256 := by simp only [rep, opsSize, Op.size, Op.payload, hdr, List.length_replicate]
  have hw : ∀ o ∈ rep, o.isWrite = true := by
    intro o ho; simp [rep, hdr] at ho; rcases ho with rfl | rfl <;> rfl
  have h1 := LBuf.reply_over 150 rep hw (by simp [rep]) (by omega)
  refine ⟨by unfold Over; omega, by omega, ?_, ?_⟩
  · simp only [sendReplySticky, h1, if_true, LBuf.apply_write _ hdr rfl, hs]
    simp [LBuf.new, LBuf.hasWriteData]
  · simp only [sendReplySticky, h1, if_true, processReply]

/-! Non-vacuity: the hypotheses are met by non-trivial values, and the repaired witnesses. -/

/-- `WriteString` last, one byte over (silently accepted before the repair). -/
example : prepare 4 [.writeString [1]] = .err .tooLarge := by
  simp [prepare, runStop, OutBuf.apply, writeString, put, tooLarge, OutBuf.new, len, framePlaceholder, failed]
example : prepare 5 [.writeByte 7] = .ok [0, 0, 0, 1, 7] := by
  simp [prepare, runStop, OutBuf.apply, writeByte, put, tooLarge, OutBuf.new, len, framePlaceholder, failed, bytes, be32]
/-- Limits 1..3 (stack overflow before the repair): every write is rejected. -/
example : prepare 2 [.write []] = .err .tooLarge := by
  simp [prepare, runStop, OutBuf.apply, write, put, tooLarge, OutBuf.new, len, framePlaceholder, failed]
example : Writes [.write [1, 2], .writeByte 3, .writeString [4]] ∧ Over 7 [.write [1, 2], .writeByte 3, .writeString [4]]
    ∧ ¬ Over 8 [.write [1, 2], .writeByte 3, .writeString [4]] := by
  refine ⟨?_, ?_, ?_⟩
  · intro o ho; simp at ho; rcases ho with rfl | rfl | rfl <;> rfl
  · simp [Over, opsSize, Op.size, Op.payload]
  · simp [Over, opsSize, Op.size, Op.payload]
example : SegWrites [[.write [0, 1]], [], [.writeString [5]]] ∧ segsSize [[.write [0, 1]], [], [.writeString [5]]] = 3 := by
  refine ⟨?_, by simp [segsSize, opsSize, Op.size, Op.payload]⟩
  intro s hs o ho
  simp at hs
  rcases hs with rfl | rfl | rfl <;> simp at ho <;> subst ho <;> rfl

end FV.C12
