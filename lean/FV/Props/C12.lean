/-
C12 — Size limits are enforced exactly and reported, never silently. (first theorems)
-/
import FV.Model.OutBuf

namespace FV.C12
open FV

theorem c12_reset_initial (b : OutBuf) : b.reset = OutBuf.new b.limit := rfl

end FV.C12
