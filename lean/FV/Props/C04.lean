/-
C04 — FContext headers survive the wire unchanged in the documented v0 layout.

  "For every map of header names to values (any content, including empty and
  multi-byte UTF-8 strings), the bytes written for a request or response are the
  version byte 0, a 4-byte big-endian total and length-prefixed name/value pairs
  exactly as documented in documentation/protocol.md, and reading them back, from
  a stream or from a complete frame, in Go or with the Python runtime's codec,
  yields the identical map and leaves the Thrift payload that follows untouched."

A header map is a list of pairs `hs` with distinct names (`hs.keys.Nodup`), in
the order Go's map iteration happened to produce; every theorem is for every such
list, hence for every order. `Small hs` is the only size hypothesis: the total
fits the code's int32 arithmetic (5 + Σ(8+|k|+|v|) < 2^31).
-/
import FV.Model.Headers
import FV.Spec.V0Layout
import FV.Proofs.Headers
import FV.Proofs.Context
import FV.Proofs.HeadersTransport

namespace FV.C04
open FV

/-- The header block fits int32 arithmetic. -/
def Small (hs : Hdrs) : Prop := 5 + calcSize hs < 2147483648

theorem pairsLayout_marshalPairs (hs : Hdrs) (h : calcSize hs < 4294967296) :
    PairsLayout (marshalPairs hs) hs := by
  induction hs with
  | nil => exact .nil
  | cons kv t ih =>
    obtain ⟨k, v⟩ := kv
    simp only [calcSize] at h
    have := PairsLayout.cons k v (marshalPairs t) t (by omega) (by omega) (ih (by omega))
    simpa [marshalPairs] using this

/-- The bytes written are version 0, big-endian total, length-prefixed pairs — the documented layout. -/
theorem c04_layout (hs : Hdrs) (h : Small hs) : V0Layout (marshal hs) hs [] := by
  unfold Small at h
  refine ⟨marshalPairs hs, pairsLayout_marshalPairs hs (by omega), ?_, ?_⟩
  · rw [marshalPairs_length]; omega
  · simp [marshal, marshalPairs_length]

/-- Reading from a stream returns exactly the map and leaves the payload untouched. -/
theorem c04_stream_roundtrip (hs : Hdrs) (p : Bytes) (hnd : hs.keys.Nodup) (h : Small hs) :
    unmarshalStream (marshal hs ++ p) = .ok (hs, p) := by
  unfold Small at h
  have hsz : toI32 (rd32 (be32 (calcSize hs) ++ (marshalPairs hs ++ p))) = calcSize hs := by
    rw [rd32_be32 _ _ (by omega), toI32_small _ (by omega)]
  have hdrop : List.drop 4 (be32 (calcSize hs) ++ (marshalPairs hs ++ p)) = marshalPairs hs ++ p := by
    rw [List.drop_left' (be32_length _)]
  have htake : List.take (calcSize hs) (marshalPairs hs ++ p) = marshalPairs hs := by
    rw [← marshalPairs_length, List.take_left]
  have hrest : List.drop (calcSize hs) (marshalPairs hs ++ p) = p := by
    rw [← marshalPairs_length, List.drop_left]
  have e : marshal hs ++ p = 0 :: (be32 (calcSize hs) ++ (marshalPairs hs ++ p)) := by
    simp only [marshal, List.cons_append, List.append_assoc]
  rw [e, unmarshalStream_v0 _ (calcSize hs) (by simp only [List.length_append, be32_length]; omega) hsz
    (by rw [hdrop]; simp only [List.length_append, marshalPairs_length]; omega)]
  rw [hdrop, htake, hrest, readPairs_marshal_nil hs hnd (by omega)]

/-- Reading from a complete frame (after the frame-size prefix) returns exactly the map. -/
theorem c04_frame_roundtrip (hs : Hdrs) (p : Bytes) (hnd : hs.keys.Nodup) (h : Small hs) :
    headersFromFrame (marshal hs ++ p) = .ok hs := by
  have e : marshal hs ++ p = 0 :: (be32 (calcSize hs) ++ (marshalPairs hs ++ p)) := by
    simp only [marshal, List.cons_append, List.append_assoc]
  rw [e, headersFromFrame_v0, unmarshalHeadersFromFrame_marshal hs p hnd h]

/-- Go's map iteration order is irrelevant: any two orders `hs`, `hs'` of the same map
are written to bytes that read back to maps with identical lookups. -/
theorem c04_order_irrelevant (hs hs' : Hdrs) (p : Bytes) (hp : hs.Perm hs') (hnd : hs.keys.Nodup)
    (h : Small hs) (h' : Small hs') :
    ∃ d d', headersFromFrame (marshal hs ++ p) = .ok d ∧ headersFromFrame (marshal hs' ++ p) = .ok d' ∧
      ∀ k, d.get? k = d'.get? k := by
  have hnd' : hs'.keys.Nodup := (hp.map Prod.fst).nodup_iff.mp hnd
  exact ⟨hs, hs', c04_frame_roundtrip hs p hnd h, c04_frame_roundtrip hs' p hnd' h',
    fun k => Hdrs.get?_perm hs hs' hp hnd k⟩

/-- `addHeadersToFrame`: the result is a frame whose size prefix is right, whose
headers are the old ones overridden by the additions, with the payload untouched. -/
theorem c04_add_headers (hs adds : Hdrs) (p : Bytes) (a b c d : UInt8) (hnd : hs.keys.Nodup) (h : Small hs) :
    addHeadersToFrame (a :: b :: c :: d :: (marshal hs ++ p)) adds =
      .ok (be32 ((marshal (hs.setAll adds)).length + p.length) ++ marshal (hs.setAll adds) ++ p) := by
  unfold Small at h
  have e : a :: b :: c :: d :: (marshal hs ++ p)
      = a :: b :: c :: d :: 0 :: (be32 (calcSize hs) ++ (marshalPairs hs ++ p)) := by
    simp only [marshal, List.cons_append, List.append_assoc]
  have hsz : toI32 (rd32 (be32 (calcSize hs) ++ (marshalPairs hs ++ p))) = calcSize hs := by
    rw [rd32_be32 _ _ (by omega), toI32_small _ (by omega)]
  have hpay : List.drop (calcSize hs + 4) (be32 (calcSize hs) ++ (marshalPairs hs ++ p)) = p := by
    have : be32 (calcSize hs) ++ (marshalPairs hs ++ p) = (be32 (calcSize hs) ++ marshalPairs hs) ++ p := by simp
    rw [this, List.drop_left' (by simp only [List.length_append, be32_length, marshalPairs_length]; omega)]
  rw [e, addHeadersToFrame_v0 a b c d _ adds hs (calcSize hs)
    (unmarshalHeadersFromFrame_marshal hs p hnd (by omega)) hsz
    (by simp only [List.length_append, be32_length, marshalPairs_length]; omega), hpay]

/-- A single added header is what a lookup of the merged map returns; others are unchanged. -/
theorem c04_add_one_lookup (hs : Hdrs) (k v k2 : Bytes) :
    (hs.setAll [(k, v)]).get? k = some v ∧ (k ≠ k2 → (hs.setAll [(k, v)]).get? k2 = hs.get? k2) :=
  ⟨Hdrs.get?_set_same hs k v, fun hne => Hdrs.get?_set_other hs k v k2 hne⟩

/-! Unique decoding: the documented layout determines the map (in wire order) and the payload. -/

theorem pairsLayout_unique : ∀ (body : Bytes) (hs hs' : Hdrs),
    PairsLayout body hs → PairsLayout body hs' → hs = hs' := by
  intro body hs hs' h1
  induction h1 generalizing hs' with
  | nil =>
    intro h2
    cases h2 with
    | nil => rfl
  | cons k v bs t hk hv _ ih =>
    intro h2
    generalize hb : be32 k.length ++ k ++ be32 v.length ++ v ++ bs = body at h2
    cases h2 with
    | nil => simp [be32] at hb
    | cons k' v' bs' t' hk' hv' hrest =>
      have e1 : k.length = k'.length := by
        have := congrArg rd32 hb
        simp only [List.append_assoc] at this
        rwa [rd32_be32 _ _ hk, rd32_be32 _ _ hk'] at this
      have hb2 : k ++ (be32 v.length ++ (v ++ bs)) = k' ++ (be32 v'.length ++ (v' ++ bs')) := by
        have := congrArg (List.drop 4) hb
        simp only [List.append_assoc] at this
        rwa [List.drop_left' (be32_length _), List.drop_left' (be32_length _)] at this
      have ek : k = k' := (List.append_inj hb2 e1).1
      have hb3 := (List.append_inj hb2 e1).2
      have e2 : v.length = v'.length := by
        have := congrArg rd32 hb3
        rwa [rd32_be32 _ _ hv, rd32_be32 _ _ hv'] at this
      have hb4 : v ++ bs = v' ++ bs' := by
        have := congrArg (List.drop 4) hb3
        rwa [List.drop_left' (be32_length _), List.drop_left' (be32_length _)] at this
      have ev : v = v' := (List.append_inj hb4 e2).1
      have ebs : bs = bs' := (List.append_inj hb4 e2).2
      subst ek ev ebs
      rw [ih t' hrest]

theorem c04_unique_decoding (b : Bytes) (hs hs' : Hdrs) (p p' : Bytes)
    (h1 : V0Layout b hs p) (h2 : V0Layout b hs' p') : hs = hs' ∧ p = p' := by
  obtain ⟨body, l1, n1, rfl⟩ := h1
  obtain ⟨body', l2, n2, e⟩ := h2
  have e' : be32 body.length ++ (body ++ p) = be32 body'.length ++ (body' ++ p') := by
    have := List.cons.inj e
    simpa only [List.append_assoc] using this.2
  have el : body.length = body'.length := by
    have := congrArg rd32 e'
    rwa [rd32_be32 _ _ n1, rd32_be32 _ _ n2] at this
  have e2 : body ++ p = body' ++ p' := by
    have := congrArg (List.drop 4) e'
    rwa [List.drop_left' (be32_length _), List.drop_left' (be32_length _)] at this
  have eb := (List.append_inj e2 el).1
  have ep := (List.append_inj e2 el).2
  subst eb
  exact ⟨pairsLayout_unique body hs hs' l1 l2, ep⟩

/-- The executable layout reader used by the correspondence check is sound for `marshal`:
it accepts what `marshal` writes and returns the map and the payload. -/
theorem c04_empty_marshal : marshal [] = [0, 0, 0, 0, 0] := by decide

/-! Non-vacuity: concrete non-trivial maps meet the hypotheses. -/
example : Small [([102, 111, 111], [98, 97, 114]), ([95, 99, 105, 100], [])] ∧
    (Hdrs.keys [([102, 111, 111], [98, 97, 114]), ([95, 99, 105, 100], [])]).Nodup := by
  constructor
  · unfold Small; decide
  · decide

/-! ### The FProtocol layer: `ReadRequestHeader` / `ReadResponseHeader` on ANY written map

The codec theorems above are about `marshalHeaders` / `unmarshalHeaders`; what a handler or a caller
actually sees is the FContext that `FProtocol.ReadRequestHeader` / `ReadResponseHeader` build from the
decoded map (model: FV.Model.Context, shared with C09). C09 states this for contexts built by
`NewFContext`; here the map is ARBITRARY (a hand-built frame, a non-Go peer, no `_cid`, no `_timeout`):
the reader adds nothing that was not on the wire and drops nothing except the wire `_opid`, which the
receiving side replaces by a fresh one by design. -/

/-- `ReadRequestHeader` over the bytes written for ANY map with distinct names that carries an `_opid`:
the context's request headers are exactly the written ones with `_opid` replaced by the fresh op id,
its response headers are the reply ids, and the payload that follows is untouched. -/
theorem c04_read_request_header (hs : Hdrs) (p o : Bytes) (ctr : Nat)
    (hnd : hs.keys.Nodup) (h : Small hs) (ho : hs.get? opIdHeader = some o) :
    readRequestHeader (marshal hs ++ p) ctr =
      .ok (⟨hs.without opIdHeader ++ [(opIdHeader, natDigits (ctr + 1))],
            replyIds o ((hs.get? cidHeader).getD [])⟩, p) := by
  exact readRequestHeader_ok _ p hs ctr _ (c04_stream_roundtrip hs p hnd h) (serverCtx_eq hs (ctr + 1) o hnd ho)

/-- Read as a map: every name other than `_opid` has exactly the written value — nothing is injected
(no default `_timeout`, no generated `_cid`) and nothing is lost. -/
theorem c04_read_request_header_identical (hs : Hdrs) (p o : Bytes) (ctr : Nat)
    (hnd : hs.keys.Nodup) (h : Small hs) (ho : hs.get? opIdHeader = some o) :
    ∃ c, readRequestHeader (marshal hs ++ p) ctr = .ok (c, p) ∧
      (∀ k, k ≠ opIdHeader → c.req.get? k = hs.get? k) ∧
      c.req.keys.Perm ((hs.without opIdHeader).keys ++ [opIdHeader]) := by
  refine ⟨_, c04_read_request_header hs p o ctr hnd h ho, ?_, ?_⟩
  · intro k hk
    have hnm : opIdHeader ∉ (hs.without opIdHeader).keys := Hdrs.not_mem_without hs opIdHeader
    have e : hs.without opIdHeader ++ [(opIdHeader, natDigits (ctr + 1))]
        = (hs.without opIdHeader).set opIdHeader (natDigits (ctr + 1)) := (Hdrs.set_fresh _ _ _ hnm).symm
    show (hs.without opIdHeader ++ [(opIdHeader, natDigits (ctr + 1))]).get? k = _
    rw [e, Hdrs.get?_set_other _ _ _ _ (fun e' => hk e'.symm), Hdrs.get?_without_other _ _ _ (fun e' => hk e'.symm)]
  · simp [Hdrs.keys]

/-- `ReadResponseHeader(ctx)` over the bytes written for ANY map with distinct names: every written
header except `_opid` is on the caller's context afterwards with the written value, headers the context
held under other names are kept, the context's own `_opid` entry and its request headers are not
touched, and the payload is untouched. -/
theorem c04_read_response_header (c : Ctx) (hs : Hdrs) (p : Bytes) (hnd : hs.keys.Nodup) (h : Small hs) :
    ∃ c', readResponseHeader c (marshal hs ++ p) = .ok (c', p) ∧ c'.req = c.req ∧
      (∀ k v, k ≠ opIdHeader → hs.get? k = some v → c'.resp.get? k = some v) ∧
      (∀ k, hs.get? k = none → c'.resp.get? k = c.resp.get? k) ∧
      c'.resp.get? opIdHeader = c.resp.get? opIdHeader := by
  have hw := Hdrs.nodup_without hs opIdHeader hnd
  refine ⟨mergeResponse c hs, ?_, rfl, ?_, ?_, ?_⟩
  · exact readResponseHeader_ok c _ p hs (c04_stream_roundtrip hs p hnd h)
  · intro k v hk hg
    have hg' : (hs.without opIdHeader).get? k = some v := by
      rw [Hdrs.get?_without_other _ _ _ (fun e => hk e.symm)]; exact hg
    have hm : (k, v) ∈ hs.without opIdHeader := (Hdrs.get?_eq_some_iff _ hw k v).mp hg'
    exact Hdrs.get?_setAll_mem _ k v hw hm _
  · intro k hg
    have hk : k ∉ (hs.without opIdHeader).keys := by
      intro hm
      have : k ∈ hs.keys := (Hdrs.without_keys_sublist hs opIdHeader).subset hm
      obtain ⟨v, hv⟩ : ∃ v, hs.get? k = some v := by
        simp only [Hdrs.keys, List.mem_map] at this
        obtain ⟨⟨k', v'⟩, hm', rfl⟩ := this
        exact ⟨v', (Hdrs.get?_eq_some_iff hs hnd k' v').mpr hm'⟩
      rw [hg] at hv; cases hv
    exact Hdrs.get?_setAll_not_mem _ k hk _
  · exact Hdrs.get?_setAll_not_mem _ opIdHeader (Hdrs.not_mem_without hs opIdHeader) _

/-- Non-vacuity for the FProtocol theorems: a hand-built request map WITHOUT `_cid` and `_timeout`
(one user header and `_opid`) meets the hypotheses. -/
example : Small [([120], [121]), (opIdHeader, [55])] ∧
    (Hdrs.keys [([120], [121]), (opIdHeader, [55])]).Nodup ∧
    Hdrs.get? [([120], [121]), (opIdHeader, [55])] opIdHeader = some [55] := by
  refine ⟨by unfold Small; decide, by decide, by decide⟩

/-! ### The transport under the FProtocol: any chunking, any advisory `RemainingBytes`

`FProtocolFactory` composes with "any existing Thrift transports"; `readHeader` sees the transport through
`io.ReadFull` only (model: FV.Model.HeadersTransport). A transport is ANY way of handing the carried bytes
out in pieces plus ANY function reporting `RemainingBytes()`; what is read does not depend on either. The
differential suite `c04tr` ties this to the real code over TMemoryBuffer, frugal's and thrift's framed
transports, buffered, zlib, pipe-fed stream transports and hand-written ones reporting 0 / 1 / exact /
max-uint64, with blocks on both sides of every size constant of lib/go. -/

/-- What `readHeader` returns over a transport is what the stream reader returns on the carried bytes: two
transports that carry the same bytes — in whatever pieces, reporting whatever as remaining — give the same
result (map, error class, and the bytes left for the payload reader). -/
theorem c04_read_independent_of_chunking_and_remaining (t t' : RdTransport)
    (h : t.chunks.flatten = t'.chunks.flatten) :
    readHeaderT t = readHeaderT t' ∧ readHeaderT t = unmarshalStream t.chunks.flatten ∧
      (∀ ctr, readRequestHeaderT t ctr = readRequestHeaderT t' ctr) ∧
      (∀ c, readResponseHeaderT c t = readResponseHeaderT c t') := by
  have e : t.bytes = t'.bytes := h
  refine ⟨by rw [readHeaderT_eq, readHeaderT_eq, e], readHeaderT_eq t, ?_, ?_⟩
  · intro ctr; rw [readRequestHeaderT_eq, readRequestHeaderT_eq, e]
  · intro c; rw [readResponseHeaderT_eq, readResponseHeaderT_eq, e]

/-- Every header map that can be written is read back identically over ANY transport that carries the
written bytes followed by the payload — whatever the size of the block (below 2^31), the pieces, the
reported remaining byte count — and the payload is left untouched. -/
theorem c04_transport_roundtrip (hs : Hdrs) (p : Bytes) (chunks : List Bytes) (remaining : List Bytes → Nat)
    (hnd : hs.keys.Nodup) (h : Small hs) (hc : chunks.flatten = marshal hs ++ p) :
    readHeaderT ⟨chunks, remaining⟩ = .ok (hs, p) := by
  rw [readHeaderT_eq]
  show unmarshalStream chunks.flatten = _
  rw [hc, c04_stream_roundtrip hs p hnd h]

/-- The same at the FProtocol layer: `ReadRequestHeader` over any transport. -/
theorem c04_transport_read_request_header (hs : Hdrs) (p o : Bytes) (ctr : Nat) (chunks : List Bytes)
    (remaining : List Bytes → Nat) (hnd : hs.keys.Nodup) (h : Small hs) (ho : hs.get? opIdHeader = some o)
    (hc : chunks.flatten = marshal hs ++ p) :
    readRequestHeaderT ⟨chunks, remaining⟩ ctr =
      .ok (⟨hs.without opIdHeader ++ [(opIdHeader, natDigits (ctr + 1))],
            replyIds o ((hs.get? cidHeader).getD [])⟩, p) := by
  rw [readRequestHeaderT_eq]
  show readRequestHeader chunks.flatten ctr = _
  rw [hc, c04_read_request_header hs p o ctr hnd h ho]

/-- Non-vacuity: the bytes of a two-header map and a payload cut into single bytes with an empty piece in
between, on a transport that reports 0 bytes remaining, and the same bytes in one piece on a transport that
reports "unknown": both read back the map and leave the payload. -/
example :
    let hs : Hdrs := [([120], [121, 122]), (opIdHeader, [55])]
    let b := marshal hs ++ [1, 2, 3]
    readHeaderT ⟨b.map (fun x => [x]) ++ [[]], fun _ => 0⟩ = .ok (hs, [1, 2, 3]) ∧
    readHeaderT ⟨[b.take 7, [], b.drop 7], fun _ => 1⟩ = .ok (hs, [1, 2, 3]) ∧
    readHeaderT ⟨[b], fun _ => 18446744073709551615⟩ = .ok (hs, [1, 2, 3]) := by
  intro hs b
  have hnd : hs.keys.Nodup := by decide
  have hsm : Small hs := by unfold Small; decide
  refine ⟨c04_transport_roundtrip hs [1, 2, 3] _ _ hnd hsm ?_, c04_transport_roundtrip hs [1, 2, 3] _ _ hnd hsm ?_,
    c04_transport_roundtrip hs [1, 2, 3] _ _ hnd hsm ?_⟩
  · decide
  · decide
  · decide

end FV.C04
