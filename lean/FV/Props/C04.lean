import FV.Model.Headers
import FV.Spec.V0Layout
namespace FV.C04
theorem c04_empty_marshal : marshal [] = [0, 0, 0, 0, 0] := by decide
end FV.C04
