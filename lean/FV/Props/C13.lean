/-
C13 — Every call returns within its FContext timeout.

  "For every positive timeout and every peer behaviour (never answering,
  answering late, stalling writes), Request and Oneway on every transport return
  no later than the timeout plus a small scheduling allowance, report TIMED_OUT
  when no response arrived in time, and leave no registration behind."

What is a theorem here is the LOGICAL half: in no reachable state of the
correlation model — whatever the reader, the send goroutine (started with `go`,
so its blocking is not the caller's), other callers or the peer did — is a
started call without an enabled step of its own; in the `select` the timeout arm
is always enabled; a call returns after at most three own steps; every return
path unregisters. The real-time half (an enabled goroutine runs within the
scheduling allowance; timers fire on time) is runtime behaviour the model cannot
exhibit — it is measured against the real transports by the correspondence
harness, not proved (PARTIAL, see DESIGN §7 C13).
-/
import FV.Model.Registry
import FV.Proofs.Registry
import FV.Generated.Params
import FV.Generated.Locks
import FV.Proofs.Context
import FV.Proofs.Locks

namespace FV.C13
open FV.Reg

/-- While a call waits in its `select`, the timeout arm is enabled — no state of the reader,
of the registry lock, of any channel or of any other caller can disable it. -/
theorem c13_timeout_always_enabled (s : Sys) (i : Nat) (c : Caller)
    (hc : s.callers[i]? = some c) (hw : c.pc = .waiting) : (step s (.timeout i)).isSome := by
  simp [step, hc, hw]

/-- A call that has not returned always has an enabled step of its own (it is never stuck
behind another goroutine). -/
theorem c13_never_stuck (s : Sys) (i : Nat) (c : Caller) (hc : s.callers[i]? = some c)
    (hnd : ∀ o, c.pc ≠ .done o) :
    (step s (.register i)).isSome ∨ (step s (.timeout i)).isSome ∨ (step s (.unregister i)).isSome := by
  cases hp : c.pc with
  | new =>
    left
    simp only [step, hc, hp]
    split
    · rename_i h; exact absurd rfl h
    · split <;> rfl
  | waiting => right; left; simp [step, hc, hp]
  | leaving o => right; right; simp [step, hc, hp]
  | done o => exact absurd hp (hnd o)

/-- From the `select`, timing out and returning takes exactly two own steps, and the outcome
is TIMED_OUT. -/
theorem c13_timeout_returns (s : Sys) (i : Nat) (c : Caller) (hc : s.callers[i]? = some c)
    (hw : c.pc = .waiting) :
    ∃ s1 s2 c2, step s (.timeout i) = some s1 ∧ step s1 (.unregister i) = some s2 ∧
      s2.callers[i]? = some c2 ∧ c2.pc = .done .timedOut := by
  refine ⟨{ s with callers := updCaller s.callers i (fun c => c.setPc (.leaving .timedOut)) },
    { s with callers := updCaller (updCaller s.callers i (fun c => c.setPc (.leaving .timedOut))) i (fun c => c.setPc (.done .timedOut)),
             registry := s.registry.filter (fun e => e.1 ≠ c.opid) },
    (c.setPc (.leaving .timedOut)).setPc (.done .timedOut), ?_, ?_, ?_, rfl⟩
  · simp [step, hc, hw]
  · simp only [step, get_upd, if_true, hc, Option.map_some, setPc_pc, setPc_opid]; rfl
  · simp [get_upd, hc]

/-- A successful outcome requires a delivered frame: `recv` is enabled only on a non-empty
channel; so a caller whose channel stayed empty can only leave through timeout or send error. -/
theorem c13_no_frame_no_success (s : Sys) (i : Nat) (c : Caller) (hc : s.callers[i]? = some c)
    (hempty : c.buf = []) : step s (.recv i) = none := by
  simp only [step, hc]
  split
  · rfl
  · simp [hempty]

/-- Every return path leaves no registration behind (distinct op ids). -/
theorem c13_no_registration_left (cap : Nat) (b : Bool) (os : List OpId) (hnd : os.Nodup) (s : Sys)
    (hr : Reachable cap b os s) (i : Nat) (c : Caller) (o : Outcome)
    (hc : s.callers[i]? = some c) (hd : c.pc = .done o) : ∀ j, (c.opid, j) ∉ s.registry := by
  intro j hm
  obtain ⟨cj, hcj, ho, ha⟩ := (reachable_rinv hr).reg c.opid j hm
  have hnd' : (s.callers.map (·.opid)).Nodup := by rw [(reachable_params hr).1]; exact hnd
  have e := opid_inj s.callers hnd' j i cj c hcj hc ho
  subst e
  rw [hc] at hcj; cases hcj
  rw [hd] at ha
  rcases ha with ha | ⟨_, ha⟩ <;> cases ha

/-- The adapter transport runs `send` in its own goroutine, so a write or flush that blocks
does not keep the caller out of its `select` (regenerated from adapter_transport.go). -/
theorem c13_code_send_async : FV.Params.adapterSendInGoroutine = true := by decide

/-- `Unregister` is deferred in both `Request` implementations, so it runs on every return path. -/
theorem c13_code_unregister_deferred :
    FV.Params.adapterUnregisterDeferred = true ∧ FV.Params.natsUnregisterDeferred = true := by decide

/-! Non-vacuity: a silent peer; the call times out and unregisters. -/
example : ∃ s, run (init 1 false [5]) [.register 0, .timeout 0, .unregister 0] = some s ∧
    s.callers = [⟨5, .done .timedOut, []⟩] ∧ s.registry = [] := ⟨_, rfl, by decide, by decide⟩

/-- **Lock discipline behind the model's atomic steps** (registry, adapter lifecycle lock, framed reader), decided by the kernel on facts
REGENERATED from lib/go's source on every check (harness/locks → FV/Generated/Locks.lean): no function
calls, while it holds one of these mutexes, anything that (transitively) acquires the same mutex, no
lexical re-lock, and every path out of a function releases what the function locked. This is what makes a
critical section ONE step of the model and rules out the self-deadlocks (a second RLock behind a queued
writer, SendError under SendReply's lock) and leaked locks that would wedge every later request. -/
theorem c13_lock_discipline :
    FV.Locks.ok [1, 2, 3] FV.Generated.Locks.mutexTags FV.Generated.Locks.facts = true := by decide +kernel

/-- **No lifecycle lock on the call path**: Request and Oneway of the adapter, NATS and HTTP client transports
acquire — on every resolved call path, facts regenerated from lib/go on every check — no mutex tagged as
the adapter's lifecycle lock. That lock is held by Open / Close across the underlying transport's Open /
Close, which can stall in the network for arbitrarily long (a monitor's reconnect hanging in connect): a call
that had to take it would return arbitrarily later than its FContext timeout. -/
theorem c13_calls_take_no_lifecycle_lock :
    FV.Locks.rootsAvoid [2] FV.Generated.Locks.mutexTags FV.Generated.Locks.facts FV.Generated.Locks.callRoots = true := by
  decide +kernel

/-- …stated over call paths (`FV.Locks.rootsAvoid_sound`). -/
theorem c13_no_lifecycle_lock_on_any_call_path {f h : Nat} (hf : f ∈ FV.Generated.Locks.callRoots)
    (hr : FV.Locks.Reach FV.Generated.Locks.facts f h) {fnh : FV.Locks.Fn}
    (hh : FV.Generated.Locks.facts[h]? = some fnh) {m : Nat} (hm : m ∈ fnh.acquires)
    (hlt : m < FV.Generated.Locks.mutexTags.length) :
    [2].contains (FV.Generated.Locks.mutexTags.getD m 0) = false :=
  FV.Locks.rootsAvoid_sound _ _ _ _ c13_calls_take_no_lifecycle_lock hf hr hh hm hlt

/-- **Every positive timeout is a deadline**: for every positive `time.Duration` (int64 nanoseconds), what
`SetTimeout` writes into the `_timeout` header is read back by `Timeout()` as a POSITIVE duration — so
`ToContext`, which installs a deadline exactly when `Timeout() > 0`, never turns a positive timeout into "no
deadline" (before fix "SetTimeout rounds a positive sub-millisecond timeout up" a timeout below 1 ms was
written as 0 and an adapter Request against a silent peer never returned: `c13_tiny_timeout_unfixed_counterexample`). -/
theorem c13_positive_timeout_is_a_deadline (ns : Int) (h : 0 < ns) (hhi : ns < 9223372036854775808) :
    0 < FV.decodeTimeout (FV.encodeTimeout ns) := by
  unfold FV.encodeTimeout
  split
  · rw [FV.decodeTimeout_formatInt 1 (by decide) (by decide)]; decide
  · rename_i hn
    have hne : Int.tdiv ns FV.nsPerMs ≠ 0 := fun e => hn ⟨h, e⟩
    have hpos : 0 ≤ Int.tdiv ns FV.nsPerMs := Int.tdiv_nonneg (by omega) (by decide)
    have hle : Int.tdiv ns FV.nsPerMs * 1000000 ≤ ns := by
      have h1 := Int.tdiv_mul_le ns (b := FV.nsPerMs) (by decide)
      simp only [FV.nsPerMs] at h1 ⊢
      have h2 : (0 : Int) ≤ ns := by omega
      simp only [h2, if_true] at h1
      omega
    rw [FV.decodeTimeout_formatInt _ (by omega) (by omega)]
    omega

/-- The truncating encoding the code had before the fix: 500 µs was written as "0", which `Timeout()`
reads as 0 — no deadline. -/
theorem c13_tiny_timeout_unfixed_counterexample :
    FV.decodeTimeout (FV.formatInt (Int.tdiv 500000 FV.nsPerMs)) = 0 := by
  rw [show Int.tdiv 500000 FV.nsPerMs = 0 by decide, FV.decodeTimeout_formatInt 0 (by decide) (by decide)]; rfl

end FV.C13
