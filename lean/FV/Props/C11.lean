/-
C11 — The compiler is total: valid IDL yields valid code, bad input a diagnostic.

  "For every valid IDL program and every target (go, java, dart, py, py:asyncio, py:tornado,
  json, html) with any supported option set, compilation exits successfully and every emitted
  file is well-formed source for its target (the Go output type-checks against the runtime).
  For every other input text the compiler terminates promptly with a non-zero exit status and
  an error message, never with a runtime panic, a stack overflow or a hang."

What is proved here (model: FV/Model/Compile.lean — the shared front end and the Go casing
path, with Go's run-time checks kept as explicit `panic` outcomes; specification:
FV/Spec/Compile.lean — `Valid`, `ValidProg`, written over the syntax without calling a validator):
* valid ⇒ ok: `c11_valid_front_ok` (file), `c11_valid_program_ok` (program: includes first);
  conversely `c11_validated_is_valid`, `c11_front_ok_main_valid`: `validate` returns nil EXACTLY
  on the valid files (so `Valid` is decidable).
* invalid ⇒ diagnosed: `c11_invalid_diagnosed` (¬Valid ⇒ `validate = err`, never a panic),
  kind by kind in `c11_invalid_kinds_diagnosed` and `c11_include_kinds_diagnosed`.
* the command line (`main.go`): `c11_cli_iff` (exit 0 exactly when every file compiles and
  `-gen` is accepted), `c11_cli_first` (stops at the first failing file).
* never a stack overflow / a panic: `c11_underlying_terminates`, `c11_no_stack_overflow`,
  `c11_cyclic_typedef_rejected`, `c11_casing_total`, `c11_gen_param_total`.
What is not: `Valid` is what `validate` is responsible for, not all of Thrift validity (duplicate
type/constant/field names, constant VALUES that do not fit their type, unknown `extends`, duplicate
ids in `throws` are checked by nothing — `c11_unknown_extends_accepted_counterexample`, finding
`unchecked-semantic-errors`); constant-value generation and the generator bodies are censused, not
modelled; well-formedness of the emitted files is checked by external parsers on samples only
(`level_note` in bin/props_d/c11.py).
-/
import FV.Model.Compile
import FV.Proofs.Compile
import FV.Spec.Compile
import FV.Proofs.CompileF
import FV.Spec.ConstValue
import FV.Proofs.CompileG
import FV.Generated.Census11

namespace FV.C11
open FV FV.Compile

/-- The Go generator's casing helpers never reach a panic outcome, for EVERY identifier string
(any list of characters: empty, only underscores, empty `_`-separated words in any position). -/
theorem c11_casing_total (s svc : Name) :
    (∃ r, snakeToCamel s = .ok r) ∧ (∃ r, title s = .ok r) ∧ (∃ r, titleServiceName s svc = .ok r) :=
  ⟨snakeToCamel_isOk s, titleServiceName_isOk s [], titleServiceName_isOk s svc⟩

/-- `UnderlyingType` terminates on every validated file, for EVERY type it may be asked about
(declared or not, qualified or not): the recursion depth is at most the number of typedefs the
file can see plus one. (`validateFile ctx = ok` is `(*Frugal).validate` returning nil.) -/
theorem c11_underlying_terminates (ctx : Ctx) (h : validateFile ctx = .ok ()) (t : Ty) (fuel : Nat)
    (hf : typedefLimit ctx + 2 ≤ fuel) : ∃ r, underlying ctx fuel t = .ok r :=
  underlying_ok_of_validated ((validateFile_ok_iff ctx).mp h).typedefs t fuel hf

/-- … hence the stack overflow (a fatal error `recover` cannot catch) is unreachable after
validation. -/
theorem c11_no_stack_overflow (ctx : Ctx) (h : validateFile ctx = .ok ()) (t : Ty) (fuel : Nat)
    (hf : typedefLimit ctx + 2 ≤ fuel) : underlying ctx fuel t ≠ .panic .stackOverflow := by
  obtain ⟨r, hr⟩ := c11_underlying_terminates ctx h t fuel hf
  rw [hr]; intro hc; cases hc

/-- Every typedef cycle is rejected. A cycle (of any length, through includes or not) is a
non-empty list of types each of which resolves in one hop to a member of the list. The typedef
check then returns an error (never a panic), and so `validate` does not return nil. -/
theorem c11_cyclic_typedef_rejected (ctx : Ctx) (cyc : List Ty) (hne : cyc ≠ [])
    (hstep : ∀ t ∈ cyc, ∃ t' ∈ cyc, typedefTarget ctx t = some t') :
    (∃ e, validateTypedefs ctx = .err e) ∧ validateFile ctx ≠ .ok () := by
  obtain ⟨t0, h0⟩ := List.exists_mem_of_ne_nil cyc hne
  have hr := validateTypedefs_rejects_closed ctx (· ∈ cyc)
    (fun t ht => by obtain ⟨t', hm, hs⟩ := hstep t ht; exact ⟨t', hs, hm⟩) t0 h0
  refine ⟨hr, fun hv => ?_⟩
  obtain ⟨e, he⟩ := hr
  rw [((validateFile_ok_iff ctx).mp hv).typedefs] at he
  cases he

/-- `-gen` parsing (`CleanGenParam`) never panics, whatever the string: `s[1]` is only evaluated
after `strings.Contains(gen, ":")` resp. `len(s) != 1`. -/
theorem c11_gen_param_total (gen : Name) : ∀ p, cleanGenParam gen ≠ .panic p :=
  cleanGenParam_not_panic gen

/-- The two helpers that CAN panic do so only outside what the grammar produces: the empty name
(`LowercaseFirstLetter`) — an `Identifier` has at least one character. -/
theorem c11_lowerFirst_total_on_identifiers (s : Name) (h : s ≠ []) : ∃ r, lowerFirst s = .ok r :=
  lowerFirst_isOk s h

/-- valid ⇒ ok, file level. `Valid` (FV/Spec/Compile.lean) is the declarative specification,
written over the syntax without calling any validator. A valid file passes `validate`, and on it
no modelled panic site of the Go generation path is reachable: every declared identifier goes
through `title` and every used type through `UnderlyingType` without a panic outcome. -/
theorem c11_valid_front_ok (ctx : Ctx) (h : Valid ctx) :
    validateFile ctx = .ok () ∧ goPath ctx = .ok () ∧ (∀ n ∈ ctx.self.declaredNames, ∃ r, title n = .ok r) ∧
    (∀ t ∈ ctx.self.usedTypes, ∃ r, underlying ctx (typedefLimit ctx + 2) t = .ok r) :=
  have hv := (valid_iff_validateFile ctx).mp h
  ⟨hv, goPath_ok_of_validated ctx hv, fun n _ => titleServiceName_isOk n [],
   fun t _ => c11_underlying_terminates ctx hv t _ (Nat.le_refl _)⟩

/-- … and conversely: what `validate` accepts is valid (the specification is not weaker than the
validator). Together: `validate` returns nil EXACTLY on the valid files. -/
theorem c11_validated_is_valid (ctx : Ctx) : validateFile ctx = .ok () ↔ Valid ctx :=
  (valid_iff_validateFile ctx).symm

/-- valid ⇒ ok, program level: distinct file names, includes that resolve and are acyclic (files
listed so that each only includes later ones), every file valid ⇒ the whole front end
(`parseFrugal`: includes first, then `validate`) returns nil and the Go path of the main file
reaches no modelled panic site. -/
theorem c11_valid_program_ok (f : File) (rest : Prog) (vp : ValidProg (f :: rest)) : compileGo (f :: rest) = .ok () := by
  have h1 := front_ok_of_validProg _ vp
  have h2 := (c11_valid_front_ok _ (vp.files f List.mem_cons_self)).2.1
  show (front (f :: rest) >>= fun _ => goPath (ctxOf (f :: rest) f)) = .ok ()
  rw [h1]; exact h2

/-- … and what the front end accepts has a valid main file. -/
theorem c11_front_ok_main_valid (f : File) (rest : Prog) (h : front (f :: rest) = .ok ()) :
    ∃ g, findFile (f :: rest) (f.name ++ frugalExt) = some g ∧ Valid (ctxOf (f :: rest) g) :=
  front_ok_main_valid f rest h

/-- `validate` returns nil exactly when each of its ten parts does (first error wins, in the
order of the code): the reading of `validate` the diagnosed-kinds theorem below is stated on. -/
theorem c11_validate_parts (ctx : Ctx) : validateFile ctx = .ok () ↔ FileChecks ctx :=
  validateFile_ok_iff ctx

/-- invalid ⇒ diagnosed. A file that is not `Valid` — whose declarations have names, as the
grammar guarantees — makes `validate` return an ERROR: not nil, and not a panic. -/
theorem c11_invalid_diagnosed (ctx : Ctx) (hn : NamesNonEmpty ctx.self) (h : ¬ Valid ctx) :
    ∃ e, validateFile ctx = .err e :=
  validateFile_err_of_not_valid ctx hn h

/-- The invalidity kinds `validate` is responsible for, one by one: each ⇒ `validate = err`. -/
theorem c11_invalid_kinds_diagnosed (ctx : Ctx) (hn : NamesNonEmpty ctx.self) :
    -- a type that does not resolve: typedef target, struct-like field, return, argument, throws,
    -- scope operation, constant
    ((∃ td ∈ ctx.self.typedefs, ¬ Resolves ctx td.ty) → ∃ e, validateFile ctx = .err e) ∧
    ((∃ s ∈ ctx.self.structs, ∃ fl ∈ s.fields, ¬ Resolves ctx fl.ty) → ∃ e, validateFile ctx = .err e) ∧
    ((∃ s ∈ ctx.self.services, ∃ m ∈ s.methods, ∃ t, m.ret = some t ∧ ¬ Resolves ctx t) → ∃ e, validateFile ctx = .err e) ∧
    ((∃ s ∈ ctx.self.services, ∃ m ∈ s.methods, ∃ a ∈ m.args, ¬ Resolves ctx a.ty) → ∃ e, validateFile ctx = .err e) ∧
    ((∃ s ∈ ctx.self.services, ∃ m ∈ s.methods, ∃ a ∈ m.excs, ¬ Resolves ctx a.ty) → ∃ e, validateFile ctx = .err e) ∧
    ((∃ s ∈ ctx.self.scopes, ∃ o ∈ s.ops, ¬ Resolves ctx o.ty) → ∃ e, validateFile ctx = .err e) ∧
    ((∃ c ∈ ctx.self.consts, ¬ Resolves ctx c.ty) → ∃ e, validateFile ctx = .err e) ∧
    -- a constant that refers to an identifier that does not resolve
    ((∃ c ∈ ctx.self.consts, ∃ id, c.ref = some id ∧ ¬ RefResolves ctx id) → ∃ e, validateFile ctx = .err e) ∧
    -- duplicate (or only-first-letter-case-different) service / method / scope / operation names
    (¬ (ctx.self.services.map (nameKey ·.name)).Nodup → ∃ e, validateFile ctx = .err e) ∧
    ((∃ s ∈ ctx.self.services, ¬ (s.methods.map (nameKey ·.name)).Nodup) → ∃ e, validateFile ctx = .err e) ∧
    (¬ (ctx.self.scopes.map (nameKey ·.name)).Nodup → ∃ e, validateFile ctx = .err e) ∧
    ((∃ s ∈ ctx.self.scopes, ¬ (s.ops.map (nameKey ·.name)).Nodup) → ∃ e, validateFile ctx = .err e) ∧
    -- duplicate field ids in a struct-like, duplicate argument ids
    ((∃ s ∈ ctx.self.structs, ¬ (s.fields.map (·.id)).Nodup) → ∃ e, validateFile ctx = .err e) ∧
    ((∃ s ∈ ctx.self.services, ∃ m ∈ s.methods, ¬ (m.args.map (·.id)).Nodup) → ∃ e, validateFile ctx = .err e) ∧
    -- a oneway method with a result or with throws
    ((∃ s ∈ ctx.self.services, ∃ m ∈ s.methods, m.oneway = true ∧ (m.ret ≠ none ∨ m.excs ≠ [])) → ∃ e, validateFile ctx = .err e) ∧
    -- the same file included twice, `vendor` on a `*` namespace, a typedef cycle
    (¬ (ctx.self.includes.map includeDeclName).Nodup → ∃ e, validateFile ctx = .err e) ∧
    (ctx.self.vendorWild = true → ∃ e, validateFile ctx = .err e) ∧
    (¬ TypedefsAcyclic ctx → ∃ e, validateFile ctx = .err e) := by
  have d := c11_invalid_diagnosed ctx hn
  refine ⟨?_, ?_, ?_, ?_, ?_, ?_, ?_, ?_, ?_, ?_, ?_, ?_, ?_, ?_, ?_, ?_, ?_, ?_⟩
  · rintro ⟨td, hm, hr⟩; exact d fun v => hr (v.typedefs td hm)
  · rintro ⟨s, hs, fl, hf, hr⟩; exact d fun v => hr ((v.structs s hs).1 fl hf)
  · rintro ⟨s, hs, m, hm, t, ht, hr⟩; exact d fun v => hr ((v.methods s hs m hm).ret t ht)
  · rintro ⟨s, hs, m, hm, a, ha, hr⟩; exact d fun v => hr ((v.methods s hs m hm).args a ha)
  · rintro ⟨s, hs, m, hm, a, ha, hr⟩; exact d fun v => hr ((v.methods s hs m hm).excs a ha)
  · rintro ⟨s, hs, o, ho, hr⟩; exact d fun v => hr (v.ops s hs o ho)
  · rintro ⟨c, hc, hr⟩; exact d fun v => hr (v.consts c hc).1
  · rintro ⟨c, hc, id, hi, hr⟩; exact d fun v => hr ((v.consts c hc).2 id hi)
  · intro hr; exact d fun v => hr v.serviceNames.2
  · rintro ⟨s, hs, hr⟩; exact d fun v => hr (v.methodNames s hs).2
  · intro hr; exact d fun v => hr v.scopeNames.2
  · rintro ⟨s, hs, hr⟩; exact d fun v => hr (v.opNames s hs).2
  · rintro ⟨s, hs, hr⟩; exact d fun v => hr (v.structs s hs).2
  · rintro ⟨s, hs, m, hm, hr⟩; exact d fun v => hr (v.methods s hs m hm).argIds
  · rintro ⟨s, hs, m, hm, ho, hr⟩
    exact d fun v => by
      obtain ⟨h1, h2⟩ := (v.methods s hs m hm).oneway ho
      rcases hr with hr | hr
      · exact hr h2
      · exact hr h1
  · intro hr; exact d fun v => hr v.includes
  · intro hr; exact d fun v => by rw [v.vendor] at hr; cases hr
  · intro hr; exact d fun v => hr v.acyclic

/-- The include kinds are diagnosed by `parseFrugal`'s traversal (the include is the next one
to be loaded): a missing file, a name that ends in neither `.thrift` nor `.frugal`, and an
include of a file that is being loaded (circular) are errors. -/
theorem c11_include_kinds_diagnosed (p : Prog) (n : Nat) (vis : List Name) (v : Name) (vs : List Name) :
    ((hasSuffix v thriftExt || hasSuffix v frugalExt) = false → loadIncludes p n vis (v :: vs) = .err .badIncludeName) ∧
    ((hasSuffix v thriftExt || hasSuffix v frugalExt) = true → findFile p v = none →
      loadIncludes p (n + 1) vis (v :: vs) = .err .missingInclude) ∧
    (∀ f, findFile p v = some f → vis.contains f.name = true → load p (n + 1) vis v = .err .circularInclude) :=
  ⟨loadIncludes_badName p n vis v vs, loadIncludes_missing p n vis v vs, fun f => load_circular p n vis v f⟩

/-- NOT diagnosed (stated on a witness, as the code is): `extends` of a service that does not
exist passes `validate` — nothing in frugal checks it (finding `unchecked-semantic-errors`), which
is why `Valid` does not mention `extends`. -/
theorem c11_unknown_extends_accepted_counterexample :
    validateFile { self := { name := "prog".toList,
                             services := [⟨"Orphan".toList, some "NoSuchService".toList, []⟩] },
                   incs := [] } = .ok () := by decide

/-- Constants too: a constant value (or field default) that FITS its declared type — `Fits`,
FV/Spec/ConstValue.lean: literals of the right base type, lists/sets/maps of fitting values,
an enum number, a struct literal whose keys are strings and whose values fit the fields they
name, an identifier that names an existing constant or enum value — goes through the Go
generator's `generateConstantValue` without a panic: every type assertion `value.(T)` finds the
dynamic type it asserts, `ContextFromIdentifier` / `FindStruct` / `KeyToString` find their
target (fuel = nesting depth of the value suffices). Nothing in frugal VALIDATES that a value
fits (finding `unchecked-semantic-errors`): for a value that does not, the model — like the
code — panics (`example`s below), which main.go reports as `Failed to generate`. -/
theorem c11_fitting_constant_generates (ctx : Ctx) (t : Ty) (v : Val) (h : Fits ctx t v) :
    ∃ n, ∀ fuel, n ≤ fuel → genConst ctx fuel t v = .ok () :=
  genConst_ok_of_fits ctx h

/-- The command line (`main.go`): the exit status is 0 EXACTLY when there is at least one input
file, `-gen` is given and accepted, and EVERY file compiles; otherwise it is 1 (never another
value). -/
theorem c11_cli_iff (gen : Option Name) (fs : List FileVerdict) :
    ((cliMain gen fs).exit = 0 ↔ fs ≠ [] ∧ (∃ g, gen = some g ∧ genAccepted g = true) ∧ ∀ f ∈ fs, f = .valid) ∧
    ((cliMain gen fs).exit = 0 ∨ (cliMain gen fs).exit = 1) := by
  unfold cliMain
  by_cases hf : fs = []
  · simp [hf]
  · cases gen with
    | none => simp [hf]
    | some g =>
      simp only [hf, if_false, ne_eq, not_false_eq_true, true_and, Option.some.injEq, exists_eq_left']
      refine ⟨?_, cliLoop_exit_le_one _ _⟩
      rw [cliLoop_exit_zero_iff]
      by_cases hg : genAccepted g = true
      · simp [hg]
      · simp only [hg, if_false, Bool.false_eq_true, false_and, iff_false, List.mem_map, forall_exists_index, and_imp,
          forall_apply_eq_imp_iff₂]
        cases fs with
        | nil => exact absurd rfl hf
        | cons f rest => intro h; exact absurd (h f List.mem_cons_self) (by decide)

/-- … and the loop stops at the first file that fails: the files before it are compiled, it is
the last one `Compile` is called on, none after it; if every file compiles all are compiled. -/
theorem c11_cli_first (g : Name) (hg : genAccepted g = true) (pre post : List FileVerdict)
    (hpre : ∀ f ∈ pre, f = .valid) :
    cliMain (some g) (pre ++ .invalid :: post) = { exit := 1, compiled := pre.length + 1 } ∧
    (pre ≠ [] → cliMain (some g) pre = { exit := 0, compiled := pre.length }) := by
  constructor
  · unfold cliMain
    have : pre ++ FileVerdict.invalid :: post ≠ [] := by simp
    simp only [this, if_false, hg, if_true, List.map_id']
    have := cliLoop_first_invalid pre post 0 hpre
    simpa using this
  · intro hne
    unfold cliMain
    simp only [hne, if_false, hg, if_true, List.map_id']
    have := cliLoop_all_valid pre 0 hpre
    simpa using this

/-- The census of syntactically partial operations of `main.go` and `compiler/**`
(regenerated from the source on every check) has no unclassified site: each is mapped to the
model clause that covers it or to the reason it is guarded / unreachable
(`known/c11_census_expected.json`). A new, changed or vanished site fails the `generate` step. -/
theorem c11_census_classified :
    FV.Generated.Census11.sites.all (fun s => decide (0 < s.2.2 ∧ s.2.2 ≤ FV.Generated.Census11.classes.length)) = true := by
  decide

/-! ### Non-vacuity -/

def exCyclic : Ctx :=
  { self := { name := "prog".toList,
              typedefs := [⟨"A".toList, .named "B".toList⟩, ⟨"B".toList, .named "A".toList⟩] },
    incs := [] }

def exChain : Ctx :=
  { self := { name := "prog".toList,
              typedefs := [⟨"a".toList, .named "i64".toList⟩, ⟨"b".toList, .named "a".toList⟩,
                           ⟨"c".toList, .list (.named "b".toList)⟩],
              structs := [⟨.struct, "foo__bar".toList, [⟨1, "_x".toList, .named "c".toList⟩]⟩] },
    incs := [] }

-- the witness of the fixed stack overflow is a cycle in the sense of the theorem, and is rejected
example : (∃ e, validateTypedefs exCyclic = .err e) ∧ validateFile exCyclic ≠ .ok () :=
  c11_cyclic_typedef_rejected exCyclic [.named "A".toList, .named "B".toList] (by simp) (by
    intro t ht
    simp at ht
    rcases ht with rfl | rfl
    · exact ⟨.named "B".toList, by simp, by decide⟩
    · exact ⟨.named "A".toList, by simp, by decide⟩)
example : validateTypedefs exCyclic = .err .typedefCycle := by decide
-- the specification is satisfiable by a non-trivial file (and decidable)
example : Valid exChain := by decide
example : ¬ Valid exCyclic := by decide
example : ValidProg [exChain.self] where
  nonempty := by simp
  distinct := by simp
  includes := ⟨fun v hv => by simp [exChain] at hv, trivial⟩
  files := by
    intro f hf
    have : f = exChain.self := by simpa using hf
    subst this
    decide
-- a non-trivial file validates; resolution follows the chain; the casing helpers handle empty words
example : validateFile exChain = .ok () := by decide
example : underlying exChain (typedefLimit exChain + 2) (.named "b".toList) = .ok (.named "i64".toList) := by decide
example : snakeToCamel "foo__bar".toList = .ok "FooBar".toList := by decide
example : snakeToCamel "_x".toList = .ok "X".toList := by decide
example : title "user_id".toList = .ok "UserID".toList := by decide
-- constants: a fitting struct literal generates; a string constant given a number is the type assertion failing
example : genConst exChain 5 (.named "foo__bar".toList) (.map [(.str "_x".toList, .list [.int 1, .int 2])]) = .ok () := by decide
example : Fits exChain (.named "a".toList) (.int 5) :=
  .base (n := "i64".toList) (by unfold Underlies; decide) (by decide) (by unfold BaseFits; decide)
example : genConst exChain 5 (.named "string".toList) (.int 5) = .panic .typeAssert := by decide
example : genConst exChain 5 (.named "i32".toList) (.ident "no_such".toList) = .panic .explicit := by decide
-- the command line: a bad file that is not the last one still makes the exit status 1, and nothing after it is compiled
example : cliMain (some "go".toList) [.valid, .invalid, .valid] = { exit := 1, compiled := 2 } := by decide
example : cliMain (some "go:async".toList) [.valid, .valid] = { exit := 0, compiled := 2 } := by decide
example : cliMain (some "cobol".toList) [.valid] = { exit := 1, compiled := 1 } := by decide
example : cliMain none [.valid] = { exit := 1, compiled := 0 } := by decide
example : lowerFirst [] = .panic .index := by decide
example : includeNameToReference "..".toList = .panic .index := by decide

end FV.C11
