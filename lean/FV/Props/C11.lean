/-
C11 — The compiler is total: valid IDL yields valid code, bad input a diagnostic.

  "For every valid IDL program and every target (go, java, dart, py, py:asyncio, py:tornado,
  json, html) with any supported option set, compilation exits successfully and every emitted
  file is well-formed source for its target (the Go output type-checks against the runtime).
  For every other input text the compiler terminates promptly with a non-zero exit status and
  an error message, never with a runtime panic, a stack overflow or a hang."

What is proved here (model: FV/Model/Compile.lean, the shared front end and the Go casing
path, with Go's run-time checks kept as explicit `panic` outcomes) and what is not:
see the end of this file and `level_note` in bin/props_d/c11.py.
-/
import FV.Model.Compile
import FV.Proofs.Compile

namespace FV.C11
open FV FV.Compile

/-- The Go generator's casing helpers never reach a panic outcome, for EVERY identifier string
(any list of characters: empty, only underscores, empty `_`-separated words in any position). -/
theorem c11_casing_total (s svc : Name) :
    (∃ r, snakeToCamel s = .ok r) ∧ (∃ r, title s = .ok r) ∧ (∃ r, titleServiceName s svc = .ok r) :=
  ⟨snakeToCamel_isOk s, titleServiceName_isOk s [], titleServiceName_isOk s svc⟩

end FV.C11
