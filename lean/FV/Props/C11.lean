/-
C11 — The compiler is total: valid IDL yields valid code, bad input a diagnostic.

  "For every valid IDL program and every target (go, java, dart, py, py:asyncio, py:tornado,
  json, html) with any supported option set, compilation exits successfully and every emitted
  file is well-formed source for its target (the Go output type-checks against the runtime).
  For every other input text the compiler terminates promptly with a non-zero exit status and
  an error message, never with a runtime panic, a stack overflow or a hang."

What is proved here (model: FV/Model/Compile.lean, the shared front end and the Go casing
path, with Go's run-time checks kept as explicit `panic` outcomes) and what is not:
see the end of this file and `level_note` in bin/props_d/c11.py.
-/
import FV.Model.Compile
import FV.Proofs.Compile
import FV.Generated.Census11

namespace FV.C11
open FV FV.Compile

/-- The Go generator's casing helpers never reach a panic outcome, for EVERY identifier string
(any list of characters: empty, only underscores, empty `_`-separated words in any position). -/
theorem c11_casing_total (s svc : Name) :
    (∃ r, snakeToCamel s = .ok r) ∧ (∃ r, title s = .ok r) ∧ (∃ r, titleServiceName s svc = .ok r) :=
  ⟨snakeToCamel_isOk s, titleServiceName_isOk s [], titleServiceName_isOk s svc⟩

/-- `UnderlyingType` terminates on every validated file, for EVERY type it may be asked about
(declared or not, qualified or not): the recursion depth is at most the number of typedefs the
file can see plus one. (`validateFile ctx = ok` is `(*Frugal).validate` returning nil.) -/
theorem c11_underlying_terminates (ctx : Ctx) (h : validateFile ctx = .ok ()) (t : Ty) (fuel : Nat)
    (hf : typedefLimit ctx + 2 ≤ fuel) : ∃ r, underlying ctx fuel t = .ok r :=
  underlying_ok_of_validated ((validateFile_ok_iff ctx).mp h).typedefs t fuel hf

/-- … hence the stack overflow (a fatal error `recover` cannot catch) is unreachable after
validation. -/
theorem c11_no_stack_overflow (ctx : Ctx) (h : validateFile ctx = .ok ()) (t : Ty) (fuel : Nat)
    (hf : typedefLimit ctx + 2 ≤ fuel) : underlying ctx fuel t ≠ .panic .stackOverflow := by
  obtain ⟨r, hr⟩ := c11_underlying_terminates ctx h t fuel hf
  rw [hr]; intro hc; cases hc

/-- Every typedef cycle is rejected. A cycle (of any length, through includes or not) is a
non-empty list of types each of which resolves in one hop to a member of the list. The typedef
check then returns an error (never a panic), and so `validate` does not return nil. -/
theorem c11_cyclic_typedef_rejected (ctx : Ctx) (cyc : List Ty) (hne : cyc ≠ [])
    (hstep : ∀ t ∈ cyc, ∃ t' ∈ cyc, typedefTarget ctx t = some t') :
    (∃ e, validateTypedefs ctx = .err e) ∧ validateFile ctx ≠ .ok () := by
  obtain ⟨t0, h0⟩ := List.exists_mem_of_ne_nil cyc hne
  have hr := validateTypedefs_rejects_closed ctx (· ∈ cyc)
    (fun t ht => by obtain ⟨t', hm, hs⟩ := hstep t ht; exact ⟨t', hs, hm⟩) t0 h0
  refine ⟨hr, fun hv => ?_⟩
  obtain ⟨e, he⟩ := hr
  rw [((validateFile_ok_iff ctx).mp hv).typedefs] at he
  cases he

/-- `-gen` parsing (`CleanGenParam`) never panics, whatever the string: `s[1]` is only evaluated
after `strings.Contains(gen, ":")` resp. `len(s) != 1`. -/
theorem c11_gen_param_total (gen : Name) : ∀ p, cleanGenParam gen ≠ .panic p :=
  cleanGenParam_not_panic gen

/-- The two helpers that CAN panic do so only outside what the grammar produces: the empty name
(`LowercaseFirstLetter`) — an `Identifier` has at least one character. -/
theorem c11_lowerFirst_total_on_identifiers (s : Name) (h : s ≠ []) : ∃ r, lowerFirst s = .ok r :=
  lowerFirst_isOk s h

/-- PARTIAL (named plainly): `valid ⇒ ok` for the modelled Go path, with `valid` taken as
"`validate` returned nil" (`validateFile ctx = ok`). On every validated file no modelled panic
site of the Go generation path is reachable: every declared identifier goes through `title`
and every used type through `UnderlyingType` without a panic outcome.
MISSING for the full `c11_valid_front_ok`: a declarative `Valid : Prog → Prop` written
independently of `validate` with `Valid p → front p = ok`; the harness checks that direction on
every generated valid program instead (op `val`: real verdict `ok`, model verdict `ok`). -/
theorem c11_valid_front_ok_partial (ctx : Ctx) (h : validateFile ctx = .ok ()) :
    goPath ctx = .ok () ∧ (∀ n ∈ ctx.self.declaredNames, ∃ r, title n = .ok r) ∧
    (∀ t ∈ ctx.self.usedTypes, ∃ r, underlying ctx (typedefLimit ctx + 2) t = .ok r) :=
  ⟨goPath_ok_of_validated ctx h, fun n _ => titleServiceName_isOk n [],
   fun t _ => c11_underlying_terminates ctx h t _ (Nat.le_refl _)⟩

/-- `validate` returns nil exactly when each of its ten parts does (first error wins, in the
order of the code): the reading of `validate` the diagnosed-kinds theorem below is stated on. -/
theorem c11_validate_parts (ctx : Ctx) : validateFile ctx = .ok () ↔ FileChecks ctx :=
  validateFile_ok_iff ctx

/-- PARTIAL (named plainly): invalid ⇒ not accepted, for the invalidity kinds `validate` is
responsible for that are about TYPES RESOLVING and TYPEDEFS: a typedef of an unknown type, a
struct-like field / return / argument / throws / scope-operation of a type that does not resolve
make `validate` fail. MISSING: the duplicate-name, duplicate-id, oneway and include kinds as Lean
theorems (the model implements them and the harness compares the model's error CLASS with the
real one on injected invalidities of every checked kind, op `val`), and "fails" strengthened to
"returns an error, never a panic" for the whole of `validate` (proved here for the typedef part:
`c11_cyclic_typedef_rejected`). -/
theorem c11_invalid_diagnosed_partial (ctx : Ctx) :
    ((∃ td ∈ ctx.self.typedefs, isValidType ctx td.ty = false) → validateFile ctx ≠ .ok ()) ∧
    ((∃ s ∈ ctx.self.scopes, ∃ o ∈ s.ops, isValidType ctx o.ty = false) → validateFile ctx ≠ .ok ()) := by
  refine ⟨?_, ?_⟩
  · rintro ⟨td, hm, hinv⟩ hv
    have ht := ((validateFile_ok_iff ctx).mp hv).typedefs
    unfold validateTypedefs at ht
    obtain ⟨⟨⟩, h1, _⟩ := CRes.bind_ok_inv ht
    have := guardV_ok (firstErr_ok h1 td hm)
    rw [hinv] at this; cases this
  · rintro ⟨s, hs, o, ho, hinv⟩ hv
    have ht := ((validateFile_ok_iff ctx).mp hv).scopes
    unfold validateScopes at ht
    have := guardV_ok (firstErr_ok (firstErr_ok ht s hs) o ho)
    rw [hinv] at this; cases this

/-- The census of syntactically partial operations of `main.go` and `compiler/**`
(regenerated from the source on every check) has no unclassified site: each is mapped to the
model clause that covers it or to the reason it is guarded / unreachable
(`known/c11_census_expected.json`). A new, changed or vanished site fails the `generate` step. -/
theorem c11_census_classified :
    FV.Generated.Census11.sites.all (fun s => decide (0 < s.2.2 ∧ s.2.2 ≤ FV.Generated.Census11.classes.length)) = true := by
  decide

/-! ### Non-vacuity -/

def exCyclic : Ctx :=
  { self := { name := "prog".toList,
              typedefs := [⟨"A".toList, .named "B".toList⟩, ⟨"B".toList, .named "A".toList⟩] },
    incs := [] }

def exChain : Ctx :=
  { self := { name := "prog".toList,
              typedefs := [⟨"a".toList, .named "i64".toList⟩, ⟨"b".toList, .named "a".toList⟩,
                           ⟨"c".toList, .list (.named "b".toList)⟩],
              structs := [⟨.struct, "foo__bar".toList, [⟨1, "_x".toList, .named "c".toList⟩]⟩] },
    incs := [] }

-- the witness of the fixed stack overflow is a cycle in the sense of the theorem, and is rejected
example : (∃ e, validateTypedefs exCyclic = .err e) ∧ validateFile exCyclic ≠ .ok () :=
  c11_cyclic_typedef_rejected exCyclic [.named "A".toList, .named "B".toList] (by simp) (by
    intro t ht
    simp at ht
    rcases ht with rfl | rfl
    · exact ⟨.named "B".toList, by simp, by decide⟩
    · exact ⟨.named "A".toList, by simp, by decide⟩)
example : validateTypedefs exCyclic = .err .typedefCycle := by decide
-- a non-trivial file validates; resolution follows the chain; the casing helpers handle empty words
example : validateFile exChain = .ok () := by decide
example : underlying exChain (typedefLimit exChain + 2) (.named "b".toList) = .ok (.named "i64".toList) := by decide
example : snakeToCamel "foo__bar".toList = .ok "FooBar".toList := by decide
example : snakeToCamel "_x".toList = .ok "X".toList := by decide
example : title "user_id".toList = .ok "UserID".toList := by decide
example : lowerFirst [] = .panic .index := by decide
example : includeNameToReference "..".toList = .panic .index := by decide

end FV.C11
