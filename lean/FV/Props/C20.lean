/-
C20 — NATS server shutdown drains: accepted requests answered, none lost or duplicated.

  "For every worker count, queue length and arrival pattern, every request the NATS server
  received before Stop was called is processed exactly once and its reply is published before
  Serve returns, requests arriving after Stop has returned are not processed, and both Stop and
  Serve return (no deadlock) even when the work queue is full."

Model: `FV.NS.step` (FV/Model/NatsServer.lean) — broker side of the subscription, the nats.go
subscriptions — one per SUBJECT, each with its pending FIFO and its own callback goroutine — and the barrier, `workC` of capacity q, w workers,
the program counters of `Serve` and `Stop`. "For all schedules and arrival patterns" is "for all
action lists": `Reachable w q k s` is `∃ as, run (init w q k) as = some s` (w workers, queue length q, k subjects), where the adversary's
actions (`arrive m` for any fresh request id m while the broker still has the subscription,
`stopCall`) may appear anywhere.

Hypotheses: w ≥ 1 where stated (`c20_w0_counterexample` shows why), `Stop` is called at most once
and after `Serve` started (the initial state is `Serve` subscribed with its workers started; the
model's `stopCall` is enabled once); nats.go and the broker follow the contract stated in the model
file. A connection fault (`fault`: connection closed by the application, broker gone, link stalled
beyond the flush timeout) may happen at any point; after it the drain step may fail (`drainFail`).
What the property demands then: everything the server had TAKEN OVER (the handler reached its send
to the work queue) is processed exactly once and its reply handed to the connection before `Serve`
returns, `Stop` and `Serve` return, nothing is processed twice, no send on the closed queue; what
only the broker or nats.go had (in flight, pending) may be lost with the connection, and "nothing
accepted after `Stop` returned" is claimed when the drain was not disturbed. The workers' reply path
is modelled down to the processor's write mutex (lock / write / oversize → error reply / unlock).
-/
import FV.Model.NatsServer
import FV.Proofs.NatsServer
import FV.Generated.Locks

namespace FV.C20
open FV.NS


/-- No request is processed twice — in every reachable state, for every worker count (also 0),
queue length, number of subjects, arrival sequence, schedule, with or without a connection fault.
Neither is a reply published twice, and nothing is processed that did not arrive. -/
theorem c20_at_most_once (w q k : Nat) (s : Sys) (hr : Reachable w q k s) (m : Msg) :
    s.processed.count m ≤ 1 ∧ s.replied.count m ≤ s.processed.count m ∧
    (m ∈ s.processed → m ∈ s.arrived) := by
  have hi := reachable_sinv hr
  have h1 := hi.cnt m
  have h2 := hi.nodup m
  have h3 := hi.proc m
  simp only [loc, List.count_append] at h1
  refine ⟨by omega, by omega, ?_⟩
  intro hm
  have : 0 < s.processed.count m := List.count_pos_iff.mpr hm
  exact List.count_pos_iff.mp (by omega)

/-- State form of exactly-once: when `Serve` has returned, every request the server took over — on
ANY subject (a handler reached its send to the work queue) — has been processed exactly once and
its reply handed to the connection exactly once, and nothing is left with a handler, in `workC` or
in a worker — with or without a connection fault. Without a fault this covers EVERY request the
broker ever accepted for any of the subscriptions: nothing is in flight, pending or dropped. -/
theorem c20_exactly_once_all (w q k : Nat) (hw : 1 ≤ w) (s : Sys) (hr : Reachable w q k s)
    (hret : s.serve = .returned) :
    (∀ m ∈ s.handed, s.processed.count m = 1 ∧ s.replied.count m = 1) ∧
    (∀ sb ∈ s.subs, sb.cb = .idle) ∧ s.workC = [] ∧ (∀ x ∈ s.workers, x = .exited) ∧
    (s.faulty = false → (∀ sb ∈ s.subs, sb.inflight = [] ∧ sb.pending = []) ∧ s.dropped = [] ∧
      ∀ m ∈ s.arrived, s.processed.count m = 1 ∧ s.replied.count m = 1) := by
  have hi := reachable_sinv hr
  have hlen := (reachable_params hr).1
  have hrank : rank s.serve = 7 := by rw [hret]; rfl
  have hcl : s.closed = true := hi.clo.mpr (by omega)
  have hcb := hi.cidle hcl
  have hall := hi.ret hret
  have hex : Wk.exited ∈ s.workers := by
    cases hws : s.workers with
    | nil => rw [hws] at hlen; simp at hlen; omega
    | cons a t =>
      have := hall a (by rw [hws]; exact List.mem_cons_self)
      rw [this]; exact List.mem_cons_self
  have hq := (hi.ex hex).2
  have hbusy : busyList s.workers = [] := busy_all_exited _ hall
  have hcbs : flat subCb s.subs = [] := flat_subCb_idle _ hcb
  have key : ∀ m, 0 < s.handed.count m → s.processed.count m = 1 ∧ s.replied.count m = 1 := by
    intro m h4
    have h1 := hi.cnt m
    have h2 := hi.nodup m
    have h3 := hi.proc m
    have h5 := hi.hcnt m
    simp only [loc, held, hcbs, hq, hbusy, List.count_append, List.count_nil] at h1 h3 h5
    omega
  refine ⟨fun m hm => key m (List.count_pos_iff.mpr hm), hcb, hq, hall, ?_⟩
  intro hf
  have hinf := hi.infl hf (by omega)
  have hpend := hi.pend hf (by omega)
  have hdrp := hi.drp hf
  have hempty : flat subAll s.subs = [] :=
    flat_subAll_empty _ (fun sb hsb => ⟨hinf sb hsb, (hpend sb hsb).1, (hpend sb hsb).2⟩)
  refine ⟨fun sb hsb => ⟨hinf sb hsb, (hpend sb hsb).1⟩, hdrp, ?_⟩
  intro m hm
  apply key
  have h1 := hi.cnt m
  have h5 := hi.hcnt m
  have h4 : 0 < s.arrived.count m := List.count_pos_iff.mpr hm
  simp only [loc, held, hempty, hcbs, hdrp, List.count_append, List.count_nil] at h1 h5
  omega

/-- The property as stated: take ANY run in which `Stop` is called at some point (`as₁`, then
`stopCall`, then `as₂`, with arbitrary arrivals on any subject, scheduling and possibly a connection
fault before or after). If `Serve` has returned at the end, every request the server had taken over
when `Stop` was called has been processed exactly once and its reply handed to the connection
exactly once; and if no fault happened, so has every request the broker had accepted — on any
subject — when `Stop` was called. -/
theorem c20_exactly_once (w q k : Nat) (hw : 1 ≤ w) (as₁ as₂ : List Action) (s₁ s₂ s : Sys)
    (h₁ : run (init w q k) as₁ = some s₁) (hstop : step s₁ .stopCall = some s₂) (h₂ : run s₂ as₂ = some s)
    (hret : s.serve = .returned) :
    (∀ m ∈ s₁.handed, s.processed.count m = 1 ∧ s.replied.count m = 1) ∧
    (s.faulty = false → ∀ m ∈ s₁.arrived, s.processed.count m = 1 ∧ s.replied.count m = 1) := by
  have hr₁ : Reachable w q k s₁ := ⟨as₁, h₁⟩
  have hr : Reachable w q k s := reachable_run (reachable_step hr₁ hstop) h₂
  have hall := c20_exactly_once_all w q k hw s hr hret
  constructor
  · intro m hm
    exact hall.1 m ((run_mono h₂).2.2.2.1 m ((step_mono hstop).2.2.2.1 m hm))
  · intro hf m hm
    exact (hall.2.2.2.2 hf).2.2 m ((run_mono h₂).2.2.1 m ((step_mono hstop).2.2.1 m hm))

/-- Nothing that arrives after `Stop` returned is processed: once `Stop` has its result after an
undisturbed drain (no fault so far: `Stop` returns nil) the broker has processed the UNSUBs — no
arrival is accepted on any subject in that state or in any later one, whatever happens later, so
the set of accepted requests is frozen, and only accepted requests are ever processed. -/
theorem c20_none_after_stop (w q k : Nat) (s : Sys) (hr : Reachable w q k s)
    (hst : s.stop = .gotResult ∨ s.stop = .returned) (hnf : s.faulty = false)
    (as : List Action) (s' : Sys) (h : run s as = some s') :
    (∀ j m, step s' (.arrive j m) = none) ∧ s'.arrived = s.arrived ∧ (∀ m ∈ s'.processed, m ∈ s.arrived) := by
  have hi := reachable_sinv hr
  have hinact : s.active = false := by
    cases hact : s.active with
    | false => rfl
    | true =>
      have hlt := (hi.act hnf).mp hact
      by_cases h0 : rank s.serve = 0
      · have := hi.st0 h0; rcases this with h | h <;> rcases hst with h' | h' <;> rw [h] at h' <;> cases h'
      · have := hi.st1 (by omega) (by omega); rcases hst with h' | h' <;> rw [this] at h' <;> cases h'
  have hkeep : ∀ (as : List Action) (t t' : Sys), t.active = false → run t as = some t' →
      t'.arrived = t.arrived ∧ t'.active = false := by
    intro as
    induction as with
    | nil => intro t t' ht h; simp [run] at h; rw [← h]; exact ⟨rfl, ht⟩
    | cons a as ih =>
      intro t t' ht h
      simp only [run] at h
      split at h
      · rename_i t1 h1
        have e1 : t1.arrived = t.arrived := by
          cases a <;> simp only [step] at h1 <;> (repeat' split at h1) <;> cases h1 <;> simp_all
        have e2 := (step_mono h1).2.2.2.2 ht
        have := ih t1 t' e2 h
        exact ⟨this.1.trans e1, this.2⟩
      · cases h
  have hk := hkeep as s s' hinact h
  have hr' : Reachable w q k s' := reachable_run hr h
  refine ⟨?_, hk.1, ?_⟩
  · intro j m; simp only [step]; split <;> simp [hk.2]
  · intro m hm
    rw [← hk.1]
    exact (c20_at_most_once w q k s' hr' m).2.2 hm

/-- `close(workC)` never happens under a send, with or without a connection fault: Serve closes
only when NO handler — of any subscription — is inside its send (`sendMu`), and once `workC` is
closed no handler enters it (`cbStart` turns the request away), so the panic flag is never set and
`handlerEnqueue` is not enabled for any subscription in any reachable closed state. Without a fault
nothing is even left to turn away: the close happens with nothing pending or in flight anywhere. -/
theorem c20_no_send_on_closed (w q k : Nat) (s : Sys) (hr : Reachable w q k s) :
    s.panicked = false ∧
    (s.closed = true → (∀ sb ∈ s.subs, sb.cb = .idle) ∧ ∀ j, step s (.handlerEnqueue j) = none) ∧
    (∀ s', step s .closeWorkC = some s' → ∀ sb ∈ s.subs, sb.cb = .idle) ∧
    (s.faulty = false → s.closed = true →
      (∀ sb ∈ s.subs, sb.pending = [] ∧ sb.inflight = []) ∧ s.active = false ∧ s.dropped = []) := by
  have hi := reachable_sinv hr
  refine ⟨hi.pan, ?_, ?_, ?_⟩
  · intro hc
    have h := hi.cidle hc
    refine ⟨h, ?_⟩
    intro j
    simp only [step]
    split
    · rename_i sb hsb
      have := h sb (List.mem_of_getElem? hsb)
      simp [this]
    · rfl
  · intro s' hs
    simp only [step] at hs
    split at hs
    · rename_i h
      have := h.2 hi.gd
      intro sb hsb
      have := List.all_eq_true.mp this sb hsb
      simpa using this
    · cases hs
  · intro hf hc
    have h5 := hi.clo.mp hc
    refine ⟨fun sb hsb => ⟨(hi.pend hf (by omega) sb hsb).1, hi.infl hf (by omega) sb hsb⟩, ?_, hi.drp hf⟩
    cases hact : s.active with
    | false => rfl
    | true => have := (hi.act hf).mp hact; omega

/-- No deadlock: in every reachable state in which `Stop` has been called and `Serve` or `Stop`
has not returned yet, some action of the system itself (not an arrival, not a fault, not the user)
is enabled — for every w ≥ 1, every q and every number of subjects, with or without a connection
fault, in particular with the queue full and handlers of several subscriptions blocked in their
callbacks (then a worker can move: `workC` is closed only after every handler is out of its send),
and with workers queueing for the write mutex (its holder can always move). -/
theorem c20_no_deadlock (w q k : Nat) (hw : 1 ≤ w) (s : Sys) (hr : Reachable w q k s)
    (hcalled : s.stop ≠ .notCalled) (hnot : ¬ (s.serve = .returned ∧ s.stop = .returned)) :
    ∃ a, a.isSystem = true ∧ (step s a).isSome = true :=
  progress s (reachable_sinv hr) (reachable_params hr).2.2.2.1 (by rw [(reachable_params hr).1]; exact hw) hcalled hnot

/-- The write mutex is released on every path: whenever a worker carries a request (handler
running, waiting for the mutex, holding it in any of its three states, publishing), some worker
step is enabled — its own, or that of the holder it waits for. -/
theorem c20_write_mutex_never_wedges (w q k : Nat) (s : Sys) (hr : Reachable w q k s) (i : Nat) (u : Wk)
    (hu : s.workers[i]? = some u) (h1 : u ≠ .idle) (h2 : u ≠ .exited) :
    ∃ a, a.isWorker = true ∧ (step s a).isSome = true := by
  obtain ⟨a, ha, _, hen⟩ := worker_progress s (reachable_sinv hr) (reachable_params hr).2.2.2.1 i u hu h1 h2
  exact ⟨a, ha, hen⟩

/-- Every worker eventually returns to idle: in a reachable state in which no worker step is
enabled any more, every worker is at the head of its loop (idle) or has exited. (Worker steps
strictly decrease `mu`, so this state is reached after finitely many of them.) -/
theorem c20_workers_return_to_idle (w q k : Nat) (s : Sys) (hr : Reachable w q k s)
    (hmax : ∀ a, a.isWorker = true → step s a = none) :
    ∀ (i : Nat) (u : Wk), s.workers[i]? = some u → u = .idle ∨ u = .exited := by
  intro i u hu
  by_cases h1 : u = .idle
  · exact Or.inl h1
  · by_cases h2 : u = .exited
    · exact Or.inr h2
    · obtain ⟨a, ha, hen⟩ := c20_write_mutex_never_wedges w q k s hr i u hu h1 h2
      rw [hmax a ha] at hen; cases hen

/-- Stop's drain waits for the barrier of EVERY subscription, whatever the high watermark: the model
has no timeout on the barrier wait (the watermark only makes the code log a warning) — the ONLY way
`Serve` leaves the wait is the barrier firing, which needs the pending queue of every subject empty
and every callback goroutine idle, or, after a connection fault, the drain step failing. No builder
option (watermark, queue group, event handlers) is a parameter of `step`; worker count, queue length
and the number of subjects are, and all theorems are quantified over them. -/
theorem c20_only_barrier_ends_wait (s s' : Sys) (a : Action) (hs : step s a = some s') (hlo : s.lastOnly = false)
    (hw : s.serve = .barrierWait) (hl : s'.serve ≠ .barrierWait) :
    (a = .barrierFires ∧ ∀ sb ∈ s.subs, sb.pending = [] ∧ sb.cb = .idle) ∨ (a = .drainFail ∧ s.faulty = true) := by
  cases a <;> simp only [step] at hs <;> (repeat' split at hs) <;> cases hs <;>
    simp_all [drained, Sub.quiet, List.all_eq_true]

/-- State form: when `Stop` has its result and no fault has happened (Stop returns nil), nothing is
pending in ANY subscription, in flight at the broker, or with a handler, however long that took:
every request the broker had accepted, on whatever subject, is in the work queue, with a worker, or
answered. -/
theorem c20_drain_waits_for_barrier (w q k : Nat) (s : Sys) (hr : Reachable w q k s)
    (hst : s.stop = .gotResult ∨ s.stop = .returned) (hnf : s.faulty = false) :
    (∀ sb ∈ s.subs, sb.pending = [] ∧ sb.inflight = [] ∧ sb.cb = .idle) ∧ s.dropped = [] ∧
    ∀ m ∈ s.arrived, m ∈ s.workC ∨ m ∈ busyList s.workers ∨ m ∈ s.replied := by
  have hi := reachable_sinv hr
  have h4 : 4 < rank s.serve := by
    by_cases h0 : rank s.serve = 0
    · have := hi.st0 h0; rcases this with h | h <;> rcases hst with h' | h' <;> rw [h] at h' <;> cases h'
    · by_cases h5 : rank s.serve < 5
      · have := hi.st1 (by omega) h5; rcases hst with h' | h' <;> rw [this] at h' <;> cases h'
      · omega
  have hp := hi.pend hnf (by omega)
  have hin := hi.infl hnf (by omega)
  have hd := hi.drp hnf
  have hempty : flat subAll s.subs = [] :=
    flat_subAll_empty _ (fun sb hsb => ⟨hin sb hsb, (hp sb hsb).1, (hp sb hsb).2⟩)
  refine ⟨fun sb hsb => ⟨(hp sb hsb).1, hin sb hsb, (hp sb hsb).2⟩, hd, ?_⟩
  intro m hm
  have h1 := hi.cnt m
  have h2 : 0 < s.arrived.count m := List.count_pos_iff.mpr hm
  simp only [loc, hempty, hd, List.count_append, List.count_nil] at h1
  by_cases ha : 0 < s.workC.count m
  · exact Or.inl (List.count_pos_iff.mp ha)
  · by_cases hb : 0 < (busyList s.workers).count m
    · exact Or.inr (Or.inl (List.count_pos_iff.mp hb))
    · exact Or.inr (Or.inr (List.count_pos_iff.mp (by omega)))

/-- Termination measure: `mu` strictly decreases with EVERY action other than an arrival (so in
particular with every action after `drainStart`, where arrivals are disabled). -/
theorem c20_measure_decreases (s s' : Sys) (a : Action) (hs : step s a = some s') (ha : ∀ j m, a ≠ .arrive j m) :
    mu s' < mu s :=
  mu_decreases hs ha

/-- Once the broker no longer has the subscriptions (after `drainStart`) every run, under every
schedule, has at most `mu s` steps. -/
theorem c20_runs_bounded (s : Sys) (hdr : s.active = false)
    (as : List Action) (s' : Sys) (h : run s as = some s') : as.length + mu s' ≤ mu s := by
  induction as generalizing s with
  | nil => simp [run] at h; rw [h]; simp
  | cons a as ih =>
    simp only [run] at h
    split at h
    · rename_i s1 h1
      have hna : ∀ j m, a ≠ .arrive j m := by
        intro j m hm; subst hm
        simp only [step] at h1
        split at h1
        · simp [hdr] at h1
        · cases h1
      have hdec := mu_decreases h1 hna
      have := ih s1 ((step_mono h1).2.2.2.2 hdr) h
      simp only [List.length_cons]; omega
    · cases h

/-- Every maximal run ends with `Serve` and `Stop` returned: a state reached after `Stop` was
called in which no action of the system is enabled has both returned. -/
theorem c20_maximal_runs_end (w q k : Nat) (hw : 1 ≤ w) (s : Sys) (hr : Reachable w q k s)
    (hcalled : s.stop ≠ .notCalled) (hmax : ∀ a, a.isSystem = true → step s a = none) :
    s.serve = .returned ∧ s.stop = .returned := by
  by_cases hnot : s.serve = .returned ∧ s.stop = .returned
  · exact hnot
  · obtain ⟨a, ha, hen⟩ := c20_no_deadlock w q k hw s hr hcalled hnot
    rw [hmax a ha] at hen; cases hen

/-- From every reachable state after `Stop` was called there IS a run of the system alone at whose
end `Serve` and `Stop` have returned. -/
theorem c20_can_finish (w q k : Nat) (hw : 1 ≤ w) (s : Sys) (hr : Reachable w q k s) (hcalled : s.stop ≠ .notCalled) :
    ∃ as s', (∀ a ∈ as, a.isSystem = true) ∧ run s as = some s' ∧ s'.serve = .returned ∧ s'.stop = .returned := by
  generalize hn : mu s = n
  induction n using Nat.strongRecOn generalizing s with
  | _ n ih =>
    by_cases hnot : s.serve = .returned ∧ s.stop = .returned
    · exact ⟨[], s, by simp, rfl, hnot.1, hnot.2⟩
    · obtain ⟨a, ha, hen⟩ := c20_no_deadlock w q k hw s hr hcalled hnot
      obtain ⟨s1, h1⟩ := Option.isSome_iff_exists.mp hen
      have hna : ∀ j m, a ≠ .arrive j m := by intro j m hm; subst hm; cases ha
      have hdec := mu_decreases h1 hna
      have hcalled1 : s1.stop ≠ .notCalled := by
        intro h0
        have := (step_mono h1).2.1
        rw [h0] at this
        cases hx : s.stop <;> rw [hx] at this <;> simp [stopRank] at this
        exact hcalled hx
      obtain ⟨as, s', hsys, hrun, hfin⟩ := ih (mu s1) (by omega) s1 (reachable_step hr h1) hcalled1 rfl
      refine ⟨a :: as, s', ?_, ?_, hfin⟩
      · intro b hb
        rcases List.mem_cons.mp hb with h | h
        · rw [h]; exact ha
        · exact hsys b h
      · simp [run, h1, hrun]

/-- The state the w = 0 configuration gets stuck in. -/
def w0Deadlock : Sys :=
  { q := 1, guarded := true, reentrant := false, lastOnly := false, active := false, faulty := false,
    subs := [⟨[], [], .sending 1⟩], barrier := true, workC := [0], closed := false, workers := [], wmu := none,
    serve := .barrierWait, stop := .waitResult, arrived := [0, 1], handed := [0, 1], processed := [], replied := [],
    dropped := [], panicked := false }

/-- Why w ≥ 1 is a hypothesis: with no worker and a queue of length 1, two accepted requests and a
`Stop` lead to a reachable state in which `Serve` is blocked on the barrier, the handler is
blocked on the full queue, and no action of the system is enabled: a deadlock. (With w ≥ 1 this
is impossible: `c20_no_deadlock`.) -/
theorem c20_w0_counterexample :
    ∃ s, Reachable 0 1 1 s ∧ s.stop ≠ .notCalled ∧ s.serve ≠ .returned ∧ ∀ a, a.isSystem = true → step s a = none := by
  have hrun : run (init 0 1 1) [.arrive 0 0, .arrive 0 1, .deliver 0, .deliver 0, .cbStart 0, .handlerEnqueue 0,
      .callbackDone 0, .cbStart 0, .stopCall, .serveGotQuit, .drainStart, .flushBarrier] = some w0Deadlock := by rfl
  refine ⟨w0Deadlock, ⟨_, hrun⟩, by decide, by decide, ?_⟩
  intro a ha
  cases a <;> first
    | rfl
    | (cases ha; done)
    | (rename_i j; cases j <;> simp [step, w0Deadlock])
    | (rename_i i j; simp [step, w0Deadlock])

/-- The code before fix 2a98083 (`guarded = false`: `close(workC)` without `sendMu`): a connection
fault makes the drain fail while the handler is blocked on the queue; Serve closes `workC` under
it and the handler's send panics. (With `guarded = true` the panic flag is never set:
`c20_no_send_on_closed`.) -/
theorem c20_unguarded_close_counterexample :
    ∃ s, ReachableP false false false 1 0 1 s ∧ s.panicked = true :=
  ⟨_, ⟨[.arrive 0 0, .arrive 0 1, .deliver 0, .deliver 0, .cbStart 0, .workerHandoff 0 0, .callbackDone 0, .cbStart 0,
    .fault, .stopCall, .serveGotQuit, .drainFail, .sendResult, .closeWorkC, .handlerEnqueue 0], rfl⟩, rfl⟩

/-- The state the re-locking mutation gets stuck in (see `c20_reentrant_lock_counterexample`). -/
def reentrantDeadlock : Sys :=
  { q := 1, guarded := true, reentrant := true, lastOnly := false, active := false, faulty := false,
    subs := [⟨[], [], .idle⟩], barrier := false, workC := [], closed := true, workers := [.overflow 0],
    wmu := some 0, serve := .closedQ, stop := .returned, arrived := [0], handed := [0], processed := [0],
    replied := [], dropped := [], panicked := false }

/-- A mutation of the code (`reentrant = true`: `trapError` answers an oversize reply through the
LOCKING `SendError` while `SendReply` holds the write mutex): one oversize reply and a `Stop` lead
to a reachable state in which the worker waits for the mutex it holds, `Serve` waits for the
worker, and no action of the system is enabled. (The code has `reentrant = false`; this is what
`c20_write_mutex_never_wedges` and `c20_no_deadlock` exclude.) -/
theorem c20_reentrant_lock_counterexample :
    ∃ s, ReachableP true true false 1 1 1 s ∧ s.stop ≠ .notCalled ∧ s.serve ≠ .returned ∧
      ∀ a, a.isSystem = true → step s a = none := by
  have hrun : run (initP true true false 1 1 1) [.arrive 0 0, .deliver 0, .cbStart 0, .handlerEnqueue 0, .callbackDone 0,
      .workerTake 0, .workerHandlerDone 0, .workerLock 0, .workerOverflow 0, .stopCall, .serveGotQuit, .drainStart,
      .flushBarrier, .barrierFires, .sendResult, .stopReturn, .closeWorkC] = some reentrantDeadlock := by rfl
  refine ⟨reentrantDeadlock, ⟨_, hrun⟩, by decide, by decide, ?_⟩
  intro a ha
  cases a <;> first
    | rfl
    | (cases ha; done)
    | (rename_i i j; cases i <;> cases j <;> simp [step, reentrantDeadlock]; done)
    | (rename_i i; cases i <;> simp [step, reentrantDeadlock])

/-- A mutation of the code (`lastOnly = true`: the drain waits for the LAST subject's subscription
only — every waiter watching the same loop variable): two subjects, a backlog on the first one, the
last one idle; the "barrier" fires at once, `Stop` returns nil WITHOUT any fault, Serve closes the
queue, and a request the broker had accepted before `Stop` was called is turned away — never
processed, never answered — in a reachable state. (With `lastOnly = false` this cannot happen:
`c20_drain_waits_for_barrier`, `c20_exactly_once`.) -/
theorem c20_last_subject_only_counterexample :
    ∃ s₁ s, run (initP true false true 1 1 2) [.arrive 0 0, .arrive 0 1, .arrive 0 2, .deliver 0, .deliver 0, .deliver 0,
        .cbStart 0, .handlerEnqueue 0, .callbackDone 0, .cbStart 0] = some s₁ ∧ 2 ∈ s₁.arrived ∧
      run s₁ [.stopCall, .serveGotQuit, .drainStart, .flushBarrier, .barrierFires, .sendResult, .stopReturn,
        .workerTake 0, .handlerEnqueue 0, .callbackDone 0, .closeWorkC, .cbStart 0,
        .workerHandlerDone 0, .workerLock 0, .workerWriteOk 0, .workerUnlock 0, .workerReply 0,
        .workerTake 0, .workerHandlerDone 0, .workerLock 0, .workerWriteOk 0, .workerUnlock 0, .workerReply 0,
        .workerExit 0, .serveReturn] = some s ∧
      s.faulty = false ∧ s.serve = .returned ∧ s.stop = .returned ∧ s.dropped = [2] ∧ s.processed = [0, 1] :=
  ⟨_, _, rfl, by decide, rfl, rfl, rfl, rfl, rfl, rfl⟩

/-! Non-vacuity: concrete runs with the queue shorter than the burst. -/

/-- w = 1, q = 1, ONE subject, a burst of three requests, `Stop` called while the handler is blocked on
the full queue with a third request still pending in nats.go: the run ends with `Serve` and `Stop`
returned and all three requests processed and replied (the second one through the oversize path). -/
example : ∃ s, run (init 1 1 1)
    [.arrive 0 0, .arrive 0 1, .arrive 0 2, .deliver 0, .deliver 0, .deliver 0, .cbStart 0, .handlerEnqueue 0, .callbackDone 0,
     .workerTake 0, .cbStart 0, .handlerEnqueue 0, .callbackDone 0, .cbStart 0,      -- worker busy with 0, queue = [1], handler blocked with 2
     .stopCall, .serveGotQuit, .drainStart, .flushBarrier,
     .workerHandlerDone 0, .workerLock 0, .workerWriteOk 0, .workerUnlock 0, .workerReply 0,
     .workerTake 0, .handlerEnqueue 0, .callbackDone 0, .barrierFires, .sendResult, .stopReturn, .closeWorkC,
     .workerHandlerDone 0, .workerLock 0, .workerOverflow 0, .workerErrReply 0, .workerUnlock 0, .workerReply 0,
     .workerTake 0, .workerHandlerDone 0, .workerLock 0, .workerWriteOk 0, .workerUnlock 0, .workerReply 0,
     .workerExit 0, .serveReturn] = some s ∧
    s.serve = .returned ∧ s.stop = .returned ∧ s.processed = [0, 1, 2] ∧ s.replied = [0, 1, 2] :=
  ⟨_, rfl, rfl, rfl, rfl, rfl⟩

/-- TWO subjects with the backlog on the first: two handlers run concurrently (one blocked on the full
queue, one whose request goes straight through), the barrier does NOT fire while the first
subscription still has a request pending although the last one is quiet, and it does once every
subscription is. -/
example : ∃ s, run (init 1 1 2)
    [.arrive 0 0, .arrive 0 1, .arrive 0 2, .arrive 1 3, .deliver 0, .deliver 0, .deliver 0, .deliver 1,
     .cbStart 0, .cbStart 1, .handlerEnqueue 1, .callbackDone 1,       -- both handlers inside; subject 1's request is queued
     .stopCall, .serveGotQuit, .drainStart, .flushBarrier] = some s ∧
    step s .barrierFires = none ∧ step s (.handlerEnqueue 0) = none ∧
    ∃ s', run s [.workerTake 0, .handlerEnqueue 0, .callbackDone 0, .cbStart 0] = some s' ∧
      step s' .barrierFires = none ∧
      ∃ s'', run s' [.workerHandlerDone 0, .workerLock 0, .workerWriteOk 0, .workerUnlock 0, .workerReply 0, .workerTake 0,
        .handlerEnqueue 0, .callbackDone 0, .cbStart 0] = some s'' ∧ (step s'' .barrierFires).isSome = false ∧
        ∃ s3, run s'' [.workerHandlerDone 0, .workerLock 0, .workerWriteOk 0, .workerUnlock 0, .workerReply 0, .workerTake 0,
          .handlerEnqueue 0, .callbackDone 0] = some s3 ∧ (step s3 .barrierFires).isSome = true :=
  ⟨_, rfl, rfl, rfl, _, rfl, rfl, _, rfl, rfl, _, rfl, rfl⟩

/-- A connection fault while the handler is blocked (q = 0, the worker busy): the drain fails, Serve
waits for the handler to get out of its send before it closes the queue, a request whose callback
comes later is turned away; everything the server had taken over is processed exactly once. -/
example : ∃ s, run (init 1 0 1)
    [.arrive 0 0, .arrive 0 1, .arrive 0 2, .deliver 0, .deliver 0, .deliver 0, .cbStart 0, .workerHandoff 0 0, .callbackDone 0,
     .cbStart 0, .fault, .stopCall, .serveGotQuit, .drainFail, .sendResult, .stopReturn] = some s ∧
    step s .closeWorkC = none ∧
    ∃ s', run s [.workerHandlerDone 0, .workerLock 0, .workerWriteOk 0, .workerUnlock 0, .workerReply 0, .workerHandoff 0 0,
      .callbackDone 0, .closeWorkC, .cbStart 0, .workerHandlerDone 0, .workerLock 0, .workerWriteOk 0, .workerUnlock 0,
      .workerReply 0, .workerExit 0, .serveReturn] = some s' ∧
      s'.serve = .returned ∧ s'.handed = [0, 1] ∧ s'.replied = [0, 1] ∧ s'.dropped = [2] ∧ s'.panicked = false :=
  ⟨_, rfl, rfl, _, rfl, rfl, rfl, rfl, rfl, rfl⟩

/-- Two workers queueing for the write mutex: the second one's `Lock` is not enabled while the first
holds it, and is after the first has unlocked. -/
example : ∃ s, run (init 2 2 1)
    [.arrive 0 0, .arrive 0 1, .deliver 0, .deliver 0, .cbStart 0, .handlerEnqueue 0, .callbackDone 0, .cbStart 0,
     .handlerEnqueue 0, .callbackDone 0, .workerTake 0, .workerTake 1, .workerHandlerDone 0, .workerHandlerDone 1,
     .workerLock 1] = some s ∧
    step s (.workerLock 0) = none ∧
    ∃ s', run s [.workerWriteOk 1, .workerUnlock 1] = some s' ∧ (step s' (.workerLock 0)).isSome = true :=
  ⟨_, rfl, rfl, _, rfl, rfl⟩

/-- **Lock discipline behind the model's worker step** (processor write mutex, NATS server send mutex), decided by the
kernel on facts REGENERATED from lib/go's source on every check: no function calls, while it holds one of these
mutexes, anything that (transitively) acquires the same mutex, no lexical re-lock, every path out of a function
releases what it locked — the source-text half of `c20_write_mutex_never_wedges` (the `reentrant = false`
parameter of the model is this fact). -/
theorem c20_lock_discipline :
    FV.Locks.ok [5, 6] FV.Generated.Locks.mutexTags FV.Generated.Locks.facts = true := by decide +kernel

/-- **No goroutine started in a loop shares a loop variable** (regenerated from lib/go on every check; lib/go's go.mod
declares a Go version below 1.22, so a `for`/`range` variable is ONE variable for all iterations): no `go func(){…}()`
inside a loop body uses the loop's own variables or an outer variable assigned in the loop — e.g. a per-subscription
waiter in the drain that would then watch only the last subscription. -/
theorem c20_no_loop_variable_captured : FV.Generated.Locks.loopShares = [] := by decide

/-- **Fields are written under their lock** (regenerated from lib/go on every check): no method writes a field
of a mutex-holding struct (the NATS server's stop flag and send state) while no mutex of that struct is write-held — by assignment, `++`, `delete` or an
atomic store — unless the site is one of the hand-classified set-up / single-owner sites of
`known/locks_unguarded_expected.txt`. The atomic-step models read and write such state in ONE critical section;
a value computed from a read under the lock and stored after it was released (a lazily filled cache) is a lost
update the models cannot exhibit and the race detector does not see. -/
theorem c20_fields_written_under_lock :
    FV.Locks.writesGuarded [6] FV.Generated.Locks.unguardedUnexpected = true := by decide +kernel

/-- **Locks held across calls are released by defer** (regenerated from lib/go on every check): no function calls
anything while it holds a mutex that only a hand-written `Unlock` releases, except the hand-classified callees that
cannot panic (`manual:` lines of `known/locks_unguarded_expected.txt`). The models release a mutex on EVERY exit of
a critical section, a panic included — the servers recover panics of user-supplied code and keep serving, so a
hand-released mutex would stay locked and every later request behind it would go unanswered. -/
theorem c20_locks_released_by_defer :
    FV.Locks.releasedByDefer [6] FV.Generated.Locks.manualUnexpected = true := by decide +kernel

end FV.C20
