/-
C20 — NATS server shutdown drains: accepted requests answered, none lost or duplicated.

  "For every worker count, queue length and arrival pattern, every request the NATS server
  received before Stop was called is processed exactly once and its reply is published before
  Serve returns, requests arriving after Stop has returned are not processed, and both Stop and
  Serve return (no deadlock) even when the work queue is full."

Model: `FV.NS.step` (FV/Model/NatsServer.lean) — broker side of the subscription, the nats.go
subscription (pending FIFO, one callback goroutine, barrier), `workC` of capacity q, w workers,
the program counters of `Serve` and `Stop`. "For all schedules and arrival patterns" is "for all
action lists": `Reachable w q s` is `∃ as, run (init w q) as = some s`, where the adversary's
actions (`arrive m` for any fresh request id m while the broker still has the subscription,
`stopCall`) may appear anywhere.

Hypotheses: w ≥ 1 where stated (`c20_w0_counterexample` shows why), `Stop` is called at most once
and after `Serve` started (the initial state is `Serve` subscribed with its workers started; the
model's `stopCall` is enabled once), healthy connection (no action models an error return of
`Drain`/`Flush`/`Barrier`; nats.go and the broker follow the contract stated in the model file).
-/
import FV.Model.NatsServer
import FV.Proofs.NatsServer

namespace FV.C20
open FV.NS

/-- No request is processed twice — in every reachable state, for every worker count (also 0),
queue length, arrival sequence and schedule. Neither is a reply published twice, and nothing is
processed that did not arrive. -/
theorem c20_at_most_once (w q : Nat) (s : Sys) (hr : Reachable w q s) (m : Msg) :
    s.processed.count m ≤ 1 ∧ s.replied.count m ≤ s.processed.count m ∧
    (m ∈ s.processed → m ∈ s.arrived) := by
  have hi := reachable_sinv hr
  have h1 := hi.cnt m
  have h2 := hi.nodup m
  have h3 := hi.proc m
  simp only [loc, List.count_append] at h1
  refine ⟨by omega, by omega, ?_⟩
  intro hm
  have : 0 < s.processed.count m := List.count_pos_iff.mpr hm
  exact List.count_pos_iff.mp (by omega)

/-- State form of exactly-once: when `Serve` has returned, every request the broker ever accepted
for the subscription has been processed exactly once and its reply published exactly once, and
nothing is left anywhere (in flight, pending, in the callback, in `workC`, in a worker). -/
theorem c20_exactly_once_all (w q : Nat) (hw : 1 ≤ w) (s : Sys) (hr : Reachable w q s)
    (hret : s.serve = .returned) :
    (∀ m ∈ s.arrived, s.processed.count m = 1 ∧ s.replied.count m = 1) ∧
    s.inflight = [] ∧ s.pending = [] ∧ s.cb = .idle ∧ s.workC = [] ∧ (∀ x ∈ s.workers, x = .exited) := by
  have hi := reachable_sinv hr
  have hlen := (reachable_params hr).1
  have hrank : rank s.serve = 7 := by rw [hret]; rfl
  have hinf := hi.infl (by omega)
  have hpend := hi.pend (by omega)
  have hall := hi.ret hret
  have hex : Wk.exited ∈ s.workers := by
    cases hws : s.workers with
    | nil => rw [hws] at hlen; simp at hlen; omega
    | cons a t =>
      have := hall a (by rw [hws]; exact List.mem_cons_self)
      rw [this]; exact List.mem_cons_self
  have hq := (hi.ex hex).2
  have hbusy : busyList s.workers = [] := by
    have : ∀ ws : List Wk, (∀ x ∈ ws, x = .exited) → busyList ws = [] := by
      intro ws
      induction ws with
      | nil => intro _; rfl
      | cons a t ih =>
        intro h
        have ha := h a List.mem_cons_self
        subst ha
        simp [busyList, wkMsgs, ih (fun x hx => h x (List.mem_cons_of_mem _ hx))]
    exact this _ hall
  refine ⟨?_, hinf, hpend.1, hpend.2, hq, hall⟩
  intro m hm
  have h1 := hi.cnt m
  have h2 := hi.nodup m
  have h3 := hi.proc m
  have h4 : 0 < s.arrived.count m := List.count_pos_iff.mpr hm
  simp only [loc, hinf, hpend.1, hpend.2, hq, hbusy, cbMsgs, List.count_append, List.count_nil] at h1 h3
  omega

/-- The property as stated: take ANY run in which `Stop` is called at some point (`as₁`, then
`stopCall`, then `as₂`, with arbitrary arrivals and scheduling before and after). If `Serve` has
returned at the end, every request that had arrived when `Stop` was called has been processed
exactly once and its reply has been published (exactly once). -/
theorem c20_exactly_once (w q : Nat) (hw : 1 ≤ w) (as₁ as₂ : List Action) (s₁ s₂ s : Sys)
    (h₁ : run (init w q) as₁ = some s₁) (hstop : step s₁ .stopCall = some s₂) (h₂ : run s₂ as₂ = some s)
    (hret : s.serve = .returned) :
    ∀ m ∈ s₁.arrived, s.processed.count m = 1 ∧ s.replied.count m = 1 := by
  intro m hm
  have hr₁ : Reachable w q s₁ := ⟨as₁, h₁⟩
  have hr : Reachable w q s := reachable_run (reachable_step hr₁ hstop) h₂
  have hm2 : m ∈ s.arrived := (run_mono h₂).2.2 m ((step_mono hstop).2.2 m hm)
  exact (c20_exactly_once_all w q hw s hr hret).1 m hm2

/-- Nothing that arrives after `Stop` returned is processed: once `Stop` has its result (so in
particular once it has returned) the broker has processed the UNSUB — no arrival is accepted in
that state or in any later one, so the set of accepted requests is frozen, and only accepted
requests are ever processed. -/
theorem c20_none_after_stop (w q : Nat) (s : Sys) (hr : Reachable w q s)
    (hst : s.stop = .gotResult ∨ s.stop = .returned) (as : List Action) (s' : Sys) (h : run s as = some s') :
    (∀ m, step s' (.arrive m) = none) ∧ s'.arrived = s.arrived ∧ (∀ m ∈ s'.processed, m ∈ s.arrived) := by
  have frozen : ∀ (t : Sys), Reachable w q t → (t.stop = .gotResult ∨ t.stop = .returned) → t.active = false := by
    intro t ht hts
    have hi := reachable_sinv ht
    cases hact : t.active with
    | false => rfl
    | true =>
      have hlt := hi.act.mp hact
      by_cases h0 : rank t.serve = 0
      · have := hi.st0 h0; rcases this with h | h <;> rcases hts with h' | h' <;> rw [h] at h' <;> cases h'
      · have := hi.st1 (by omega) (by omega); rcases hts with h' | h' <;> rw [this] at h' <;> cases h'
  have later : ∀ (t : Sys), run s as = some t → (t.stop = .gotResult ∨ t.stop = .returned) := by
    intro t ht
    have := (run_mono ht).2.1
    rcases hst with h0 | h0 <;> rw [h0] at this <;> simp only [stopRank] at this <;>
      cases hts : t.stop <;> rw [hts] at this <;> simp at this ⊢
  -- arrivals are disabled in every state of the run, so `arrived` never changes
  have hkeep : ∀ (as : List Action) (t t' : Sys), Reachable w q t → (t.stop = .gotResult ∨ t.stop = .returned) →
      run t as = some t' → t'.arrived = t.arrived := by
    intro as
    induction as with
    | nil => intro t t' _ _ h; simp [run] at h; rw [h]
    | cons a as ih =>
      intro t t' ht hts h
      simp only [run] at h
      split at h
      · rename_i t1 h1
        have hina := frozen t ht hts
        have hts1 : t1.stop = .gotResult ∨ t1.stop = .returned := by
          have := (step_mono h1).2.1
          rcases hts with h0 | h0 <;> rw [h0] at this <;> simp only [stopRank] at this <;>
            cases hx : t1.stop <;> rw [hx] at this <;> simp at this ⊢
        have e1 : t1.arrived = t.arrived := by
          cases a <;> simp only [step] at h1 <;> (repeat' split at h1) <;> cases h1 <;> simp_all
        rw [ih t1 t' (reachable_step ht h1) hts1 h, e1]
      · cases h
  have hr' := reachable_run hr h
  have hst' := later s' h
  have harr := hkeep as s s' hr hst h
  refine ⟨?_, harr, ?_⟩
  · intro m
    have := frozen s' hr' hst'
    simp [step, this]
  · intro m hm
    rw [← harr]
    exact (c20_at_most_once w q s' hr' m).2.2 hm

/-- `close(workC)` happens only when the callback goroutine is idle with nothing pending and
nothing more can come, so no send on the closed channel is ever attempted: the panic flag is
never set, and once `workC` is closed `handlerEnqueue` is not enabled in any reachable state. -/
theorem c20_no_send_on_closed (w q : Nat) (s : Sys) (hr : Reachable w q s) :
    s.panicked = false ∧
    (s.closed = true → s.cb = .idle ∧ s.pending = [] ∧ s.inflight = [] ∧ s.active = false ∧
      step s .handlerEnqueue = none) ∧
    (∀ s', step s .closeWorkC = some s' → s.cb = .idle ∧ s.pending = [] ∧ s.inflight = [] ∧ s.active = false) := by
  have hi := reachable_sinv hr
  have key : 4 < rank s.serve → s.cb = .idle ∧ s.pending = [] ∧ s.inflight = [] ∧ s.active = false := by
    intro h
    have h1 := hi.pend (by omega)
    have h2 := hi.infl (by omega)
    refine ⟨h1.2, h1.1, h2, ?_⟩
    cases hact : s.active with
    | false => rfl
    | true => have := hi.act.mp hact; omega
  refine ⟨hi.pan, ?_, ?_⟩
  · intro hc
    have h := key (by have := hi.clo.mp hc; omega)
    exact ⟨h.1, h.2.1, h.2.2.1, h.2.2.2, by simp [step, h.1]⟩
  · intro s' hs
    simp only [step] at hs
    split at hs
    · rename_i h; exact key (by rw [h]; simp [rank])
    · cases hs

/-- No deadlock: in every reachable state in which `Stop` has been called and `Serve` or `Stop`
has not returned yet, some action of the system itself (not an arrival, not the user) is enabled —
for every w ≥ 1 and every q, in particular with the queue full and the handler blocked in the
callback (then a worker can move, because `workC` is closed only after the barrier). -/
theorem c20_no_deadlock (w q : Nat) (hw : 1 ≤ w) (s : Sys) (hr : Reachable w q s)
    (hcalled : s.stop ≠ .notCalled) (hnot : ¬ (s.serve = .returned ∧ s.stop = .returned)) :
    ∃ a, a.isSystem = true ∧ (step s a).isSome = true :=
  progress s (reachable_sinv hr) (by rw [(reachable_params hr).1]; exact hw) hcalled hnot

/-- Termination measure: `mu` strictly decreases with EVERY action other than an arrival (so in
particular with every action after `drainStart`, where arrivals are disabled). -/
theorem c20_measure_decreases (s s' : Sys) (a : Action) (hs : step s a = some s') (ha : ∀ m, a ≠ .arrive m) :
    mu s' < mu s :=
  mu_decreases hs ha

/-- After `drainStart` (the broker no longer has the subscription) every run, under every schedule,
has at most `mu s` steps. -/
theorem c20_runs_bounded (w q : Nat) (s : Sys) (hr : Reachable w q s) (hdr : s.active = false)
    (as : List Action) (s' : Sys) (h : run s as = some s') : as.length + mu s' ≤ mu s := by
  induction as generalizing s with
  | nil => simp [run] at h; rw [h]; simp
  | cons a as ih =>
    simp only [run] at h
    split at h
    · rename_i s1 h1
      have hna : ∀ m, a ≠ .arrive m := by
        intro m hm; subst hm; simp [step, hdr] at h1
      have hdec := mu_decreases h1 hna
      have hr1 := reachable_step hr h1
      have hdr1 : s1.active = false := by
        have hi := reachable_sinv hr
        have hi1 := reachable_sinv hr1
        cases hact : s1.active with
        | false => rfl
        | true =>
          have h2 := hi1.act.mp hact
          have h3 := (step_mono h1).1
          have : s.active = true := hi.act.mpr (by omega)
          rw [hdr] at this; cases this
      have := ih s1 hr1 hdr1 h
      simp only [List.length_cons]; omega
    · cases h

/-- Every maximal run ends with `Serve` and `Stop` returned: a state reached after `Stop` was
called in which no action of the system is enabled has both returned. (Together with
`c20_runs_bounded`: after `drainStart` every run can be extended only finitely often, and where it
cannot be extended any more both have returned.) -/
theorem c20_maximal_runs_end (w q : Nat) (hw : 1 ≤ w) (s : Sys) (hr : Reachable w q s)
    (hcalled : s.stop ≠ .notCalled) (hmax : ∀ a, a.isSystem = true → step s a = none) :
    s.serve = .returned ∧ s.stop = .returned := by
  by_cases hnot : s.serve = .returned ∧ s.stop = .returned
  · exact hnot
  · obtain ⟨a, ha, hen⟩ := c20_no_deadlock w q hw s hr hcalled hnot
    rw [hmax a ha] at hen; cases hen

/-- From every reachable state after `Stop` was called there IS a run of the system alone (no
further arrivals needed, none excluded before) at whose end `Serve` and `Stop` have returned. -/
theorem c20_can_finish (w q : Nat) (hw : 1 ≤ w) (s : Sys) (hr : Reachable w q s) (hcalled : s.stop ≠ .notCalled) :
    ∃ as s', (∀ a ∈ as, a.isSystem = true) ∧ run s as = some s' ∧ s'.serve = .returned ∧ s'.stop = .returned := by
  generalize hn : mu s = n
  induction n using Nat.strongRecOn generalizing s with
  | _ n ih =>
    by_cases hnot : s.serve = .returned ∧ s.stop = .returned
    · exact ⟨[], s, by simp, rfl, hnot.1, hnot.2⟩
    · obtain ⟨a, ha, hen⟩ := c20_no_deadlock w q hw s hr hcalled hnot
      obtain ⟨s1, h1⟩ := Option.isSome_iff_exists.mp hen
      have hna : ∀ m, a ≠ .arrive m := by intro m hm; subst hm; cases ha
      have hdec := mu_decreases h1 hna
      have hcalled1 : s1.stop ≠ .notCalled := by
        intro h0
        have := (step_mono h1).2.1
        rw [h0] at this
        cases hx : s.stop <;> rw [hx] at this <;> simp [stopRank] at this
        exact hcalled hx
      obtain ⟨as, s', hsys, hrun, hfin⟩ := ih (mu s1) (by omega) s1 (reachable_step hr h1) hcalled1 rfl
      refine ⟨a :: as, s', ?_, ?_, hfin⟩
      · intro b hb
        rcases List.mem_cons.mp hb with h | h
        · rw [h]; exact ha
        · exact hsys b h
      · simp [run, h1, hrun]

/-- Why w ≥ 1 is a hypothesis: with no worker and a queue of length 1, two accepted requests and a
`Stop` lead to a reachable state in which `Serve` is blocked on the barrier, the handler is
blocked on the full queue, and no action of the system — indeed no action at all except nothing —
is enabled: a deadlock. (With w ≥ 1 this is impossible: `c20_no_deadlock`.) -/
theorem c20_w0_counterexample :
    ∃ s, Reachable 0 1 s ∧ s.stop ≠ .notCalled ∧ s.serve ≠ .returned ∧ ∀ a, step s a = none := by
  refine ⟨_, ⟨[.arrive 0, .arrive 1, .deliver, .deliver, .cbStart, .handlerEnqueue, .callbackDone, .cbStart,
    .stopCall, .serveGotQuit, .drainStart, .flushBarrier], rfl⟩, by decide, by decide, ?_⟩
  intro a
  cases a <;> first | rfl | simp [step]

/-! Non-vacuity: concrete runs with the queue shorter than the burst. -/

/-- w = 1, q = 1, a burst of three requests, `Stop` called while the handler is blocked on the full
queue with a third request still pending in nats.go: the run ends with `Serve` and `Stop` returned
and all three requests processed and replied. -/
example : ∃ s, run (init 1 1)
    [.arrive 0, .arrive 1, .arrive 2, .deliver, .deliver, .deliver, .cbStart, .handlerEnqueue, .callbackDone,
     .workerTake 0, .cbStart, .handlerEnqueue, .callbackDone, .cbStart,      -- worker busy with 0, queue = [1], handler blocked with 2
     .stopCall, .serveGotQuit, .drainStart, .flushBarrier,
     .workerReply 0, .workerTake 0, .handlerEnqueue, .callbackDone, .barrierFires, .sendResult, .stopReturn,
     .closeWorkC, .workerReply 0, .workerTake 0, .workerReply 0, .workerExit 0, .serveReturn] = some s ∧
    s.serve = .returned ∧ s.stop = .returned ∧ s.processed = [0, 1, 2] ∧ s.replied = [0, 1, 2] :=
  ⟨_, rfl, rfl, rfl, rfl, rfl⟩

/-- q = 0 (unbuffered `workC`): the only way through is the direct hand-off to a waiting worker. -/
example : ∃ s, run (init 2 0)
    [.arrive 5, .arrive 3, .deliver, .cbStart, .stopCall, .serveGotQuit, .workerTake 1, .callbackDone, .deliver,
     .drainStart, .flushBarrier, .cbStart, .workerTake 0, .callbackDone, .barrierFires, .sendResult,
     .closeWorkC, .workerReply 0, .workerReply 1, .workerExit 0, .workerExit 1, .serveReturn, .stopReturn] = some s ∧
    s.serve = .returned ∧ s.stop = .returned ∧ s.replied = [3, 5] :=
  ⟨_, rfl, rfl, rfl, rfl⟩

/-- In the blocked situation of the first example the handler's enqueue is indeed disabled (queue
full) and the barrier cannot fire, while a worker step is enabled. -/
example : ∃ s, run (init 1 1)
    [.arrive 0, .arrive 1, .arrive 2, .deliver, .deliver, .deliver, .cbStart, .handlerEnqueue, .callbackDone,
     .workerTake 0, .cbStart, .handlerEnqueue, .callbackDone, .cbStart, .stopCall, .serveGotQuit, .drainStart,
     .flushBarrier] = some s ∧
    step s .handlerEnqueue = none ∧ step s .barrierFires = none ∧ (step s (.workerReply 0)).isSome = true :=
  ⟨_, rfl, rfl, rfl, rfl⟩

end FV.C20
