/-
C16 — Middleware intercepts every call exactly once, in the declared order.

  "For every list of service middleware supplied to a provider, client,
  processor, publisher or subscriber, each RPC, publish and subscriber delivery
  passes through every middleware exactly once, nested in a fixed order
  (later-listed wraps earlier, provider middleware wraps constructor
  middleware), each seeing the arguments the caller passed and the results the
  handler returned, and a change a middleware makes to arguments, results or
  error is exactly what the other side observes."

Model: FV/Model/Middleware.lean (`compose` = the loop of composeMiddleware, a
left fold in list order; `wrap i pre post` = a middleware that calls `next`
exactly once — hypothesis H of the property; `newMethod`, `addMiddleware`,
the generated wiring `ctor ++ provider`, one shared processor map for an
`extends` chain). Vocabulary of the statements: FV/Spec/Middleware.lean.
All statements are for middleware lists of ANY length and arbitrary argument
and result types `α`, `ρ` (`ρ` includes the error return) and arbitrary
rewrites `pre : α → α`, `post : ρ → ρ`.

What the code does (read, modelled, tied by the correspondence suite c16):
* composeMiddleware: `for _, m := range middleware { handler = m(handler) }` —
  the LAST listed middleware is outermost.
* generated client / publisher / subscriber: `append(ctor, provider.GetMiddleware()...)`
  — provider middleware after, hence around, constructor middleware. A generated
  processor has no provider: constructor middleware only.
* `Method.AddMiddleware(m)`: `handler = m(handler)` — outermost of what is there,
  the same as having been listed last. `FBaseProcessor.AddMiddleware` does that to
  every function in the one map an `extends` chain shares.
-/
import FV.Model.Middleware
import FV.Spec.Middleware
import FV.Proofs.Middleware

namespace FV.C16
open FV FV.Mw

variable {α ρ : Type}

/-- The whole observation of one invocation through `n` wrapping middleware:
`enter (n−1) … enter 0, base, exit 0 … exit (n−1)` with the values each one saw
(`enters`/`exits` in Spec/Middleware.lean), and the caller's result. -/
theorem c16_trace (ws : List (W α ρ)) (f : α → ρ) (a : α) :
    (newMethod f (wraps ws)).invoke a =
      (postAll ws (f (preAll ws a)),
       enters 0 ws a ++ [Ev.base (preAll ws a)] ++ exits 0 ws (f (preAll ws a))) := by
  simp [newMethod, Method.invoke, wraps, run_wrapsFrom, baseHandler]

/-- The nesting order alone: later-listed wraps earlier, each label once. -/
theorem c16_trace_order (ws : List (W α ρ)) (f : α → ρ) (a : α) :
    ((newMethod f (wraps ws)).invoke a).2.map Ev.tag =
      (List.range ws.length).reverse.map Tag.enter ++ [Tag.base] ++
      (List.range ws.length).map Tag.exit := by
  rw [c16_trace]
  simp [enters_tags, exits_tags, Ev.tag]

/-- Each middleware is entered exactly once per invocation and left exactly once,
no other label occurs, and the proxied function runs exactly once. -/
theorem c16_exactly_once (ws : List (W α ρ)) (f : α → ρ) (a : α) (i : Nat) :
    let t := ((newMethod f (wraps ws)).invoke a).2
    t.countP (isEnter i) = (if i < ws.length then 1 else 0) ∧
    t.countP (isExit i) = (if i < ws.length then 1 else 0) ∧
    t.countP isBase = 1 := by
  simp only [c16_trace, List.countP_append, count_enter_enters, count_exit_enters,
    count_enter_exits, count_exit_exits, count_base_enters, count_base_exits]
  simp [isEnter, isExit, isBase]

/-- Rewrites compose: the proxied function sees `pre₀ (… (preₙ₋₁ a))` (and nothing
else reaches it), the caller sees `postₙ₋₁ (… (post₀ (f …)))`. -/
theorem c16_rewrites_compose (ws : List (W α ρ)) (f : α → ρ) (a : α) :
    let out := (newMethod f (wraps ws)).invoke a
    out.1 = postAll ws (f (preAll ws a)) ∧
    (∀ x, Ev.base x ∈ out.2 → x = preAll ws a) ∧ Ev.base (preAll ws a) ∈ out.2 := by
  simp only [c16_trace]
  refine ⟨by first | rfl | trivial, ?_, by simp⟩
  intro x hx
  simp only [List.mem_append, List.mem_singleton, Ev.base.injEq, enters, exits, List.mem_map] at hx
  rcases hx with (⟨_, _, h⟩ | h) | ⟨_, _, h⟩
  · cases h
  · exact h
  · cases h

/-- What middleware `i` itself observes: the caller's arguments as rewritten by the
later-listed ones, and the handler's results as rewritten by the earlier-listed ones. -/
theorem c16_each_sees (ws : List (W α ρ)) (f : α → ρ) (a : α) (i : Nat) (hi : i < ws.length) :
    let t := ((newMethod f (wraps ws)).invoke a).2
    Ev.enter i (preAll (ws.drop (i + 1)) a) ∈ t ∧
    Ev.exit i (postAll (ws.take i) (f (preAll ws a))) ∈ t := by
  simp only [c16_trace, enters, exits]
  constructor
  · simp only [List.mem_append, List.mem_map, List.mem_reverse, List.mem_range]
    exact Or.inl (Or.inl ⟨i, hi, by simp⟩)
  · simp only [List.mem_append, List.mem_map, List.mem_range]
    exact Or.inr ⟨i, hi, by simp⟩

/-- Observing middleware (no rewrite) all see the arguments the caller passed and
the results the handler returned, and the caller gets the handler's results. -/
theorem c16_observers_see_original (ws : List (W α ρ)) (f : α → ρ) (a : α)
    (hobs : ∀ w ∈ ws, w.pre = id ∧ w.post = id) :
    (newMethod f (wraps ws)).invoke a =
      (f a, (List.range ws.length).reverse.map (fun i => Ev.enter i a) ++ [Ev.base a] ++
            (List.range ws.length).map (fun i => Ev.exit i (f a))) := by
  have hpre : ∀ (l : List (W α ρ)), (∀ w ∈ l, w ∈ ws) → ∀ x, preAll l x = x := by
    intro l; induction l with
    | nil => intro _ x; rfl
    | cons w t ih =>
      intro hl x
      have := (hobs w (hl w (by simp))).1
      simp only [preAll, List.foldr_cons] at ih ⊢
      rw [ih (fun w hw => hl w (by simp [hw])), this]; rfl
  have hpost : ∀ (l : List (W α ρ)), (∀ w ∈ l, w ∈ ws) → ∀ x, postAll l x = x := by
    intro l; induction l with
    | nil => intro _ x; rfl
    | cons w t ih =>
      intro hl x
      have := (hobs w (hl w (by simp))).2
      simp only [postAll, List.foldl_cons] at ih ⊢
      rw [this, ih (fun w hw => hl w (by simp [hw]))]; rfl
  rw [c16_trace, hpre ws (fun _ h => h), hpost ws (fun _ h => h)]
  simp only [enters, exits, Nat.zero_add]
  congr 2
  · congr 1
    apply List.map_congr_left
    intro i _
    rw [hpre _ (fun w hw => List.mem_of_mem_drop hw)]
  · apply List.map_congr_left
    intro i _
    rw [hpost _ (fun w hw => List.mem_of_mem_take hw)]

/-- Provider middleware wraps constructor middleware — for ARBITRARY middleware
functions: composing with the generated list `ctor ++ provider` is composing the
provider's list around the handler already composed with the constructor's. The
same list is used by generated clients, publishers and subscribers. -/
theorem c16_provider_outermost (f : α → ρ) (ctor prov : List (Middleware α ρ)) :
    (newMethod f (clientWiring ctor prov)).handler = compose (newMethod f ctor).handler prov ∧
    (newMethod f (publisherWiring ctor prov)).handler = compose (newMethod f ctor).handler prov ∧
    (genSubscribe f ctor prov).handler = compose (newMethod f ctor).handler prov := by
  simp [newMethod, genSubscribe, clientWiring, publisherWiring, subscriberWiring, compose_append]

/-- …and what that means for wrapping middleware: the trace of a call through the
generated wiring is the provider's enters (last-listed first), then the complete
trace of the constructor-only method on the provider-rewritten arguments, then the
provider's exits; labels `0 … c−1` are the constructor's, `c …` the provider's. -/
theorem c16_provider_outermost_trace (ctor prov : List (W α ρ)) (f : α → ρ) (a : α) :
    let inner := (newMethod f (wraps ctor)).invoke (preAll prov a)
    (newMethod f (clientWiring (wraps ctor) (wrapsFrom ctor.length prov))).invoke a =
      (postAll prov inner.1,
       enters ctor.length prov a ++ inner.2 ++ exits ctor.length prov inner.1) := by
  simp only [newMethod, Method.invoke, clientWiring, compose_append, run_wrapsFrom]

/-- The generated list is exactly "all constructor middleware, then all provider
middleware" as one labelled list: the theorems above about `wraps` apply to it. -/
theorem c16_wiring_is_one_list (ctor prov : List (W α ρ)) :
    clientWiring (wraps ctor) (wrapsFrom ctor.length prov) = wraps (ctor ++ prov) := by
  simp [clientWiring, wraps, wrapsFrom_append]

/-- `Method.AddMiddleware m` wraps outermost of what is already there (for arbitrary
middleware functions) — exactly as if `m` had been listed last in `NewMethod`;
several calls nest in call order. -/
theorem c16_add_middleware (f : α → ρ) (ms added : List (Middleware α ρ)) (m : Middleware α ρ) :
    ((newMethod f ms).addMiddleware m).handler = m (newMethod f ms).handler ∧
    (newMethod f ms).addMiddleware m = newMethod f (ms ++ [m]) ∧
    (newMethod f ms).addAll added = newMethod f (ms ++ added) := by
  refine ⟨rfl, ?_, addAll_newMethod f ms added⟩
  simp [Method.addMiddleware, newMethod, compose_snoc]

/-- Generated processor of an `extends` chain (root first), constructor middleware
`ctor`, then `AddMiddleware` for each of `added` on the (child) processor: EVERY
function of the chain — the parent's too, they share one FBaseProcessor — is the
proxied function composed with `ctor ++ added`: constructor middleware innermost,
added middleware around it in call order, each exactly once. A name defined at two
levels dispatches to the child's function. Unknown names dispatch to nothing. -/
theorem c16_processor_add_middleware (chain : List (List (Op α ρ)))
    (ctor added : List (Middleware α ρ)) (k : String) :
    ((genProcessor chain ctor).addAll added).find k =
      (lastOp chain.flatten k).map (fun f => newMethod f (ctor ++ added)) := by
  rw [find_addAll, genProcessor_flatten, find_register ctor k chain.flatten [] none (by simp [ProcMap.find])]
  simp [lastOp, Option.map_map, Function.comp_def, addAll_newMethod]

/-- Every method of a generated client — of the service itself and of every service
it extends — and every operation of a generated publisher is composed with
`ctor ++ provider`. -/
theorem c16_client_publisher_methods (chain : List (List (Op α ρ))) (ops : List (Op α ρ))
    (ctor prov : List (Middleware α ρ)) :
    (∀ km ∈ genClient chain ctor prov, ∃ op ∈ chain.flatten, km = (op.1, newMethod op.2 (ctor ++ prov))) ∧
    (∀ km ∈ genPublisher ops ctor prov, ∃ op ∈ ops, km = (op.1, newMethod op.2 (ctor ++ prov))) := by
  refine ⟨fun km h => mem_genClient chain ctor prov km h, ?_⟩
  intro km h
  simp only [genPublisher, List.mem_map] at h
  obtain ⟨op, hop, rfl⟩ := h
  exact ⟨op, hop, rfl⟩

/-- The list a generated subscriber composes with at `Subscribe<Op>` time is the one
it was constructed with, whatever the caller does with its own slice afterwards —
when the constructor appends onto a COPY of the variadic slice (the form the
generator emits since the C16 fix). -/
theorem c16_subscriber_list_stable {τ : Type} (arr : List τ) (k : Nat) (provA provB : List τ) :
    twoSubscribers .copy arr k provA provB = subscriberWiring (arr.take k) provA := by
  simp [twoSubscribers, ctorAppend, SubList.read, subscriberWiring]

/-- With the plain `append(middleware, provider.GetMiddleware()...)` on the variadic
slice (the form emitted before the fix) that is false: a caller slice with spare
capacity is shared, and constructing a second subscriber replaces the FIRST
subscriber's provider middleware (here label 10) by the second's (label 20). -/
theorem c16_subscriber_alias_counterexample :
    twoSubscribers .alias [0, 1, 2, 99] 3 [10] [20] = [0, 1, 2, 20] ∧
    twoSubscribers .alias [0, 1, 2, 99] 3 [10] [20] ≠ subscriberWiring [0, 1, 2] [10] := by
  decide

/-! ### Values: dynamic types and nil-ness travel unchanged -/

/-- The base handler's conversion of the proxied function's return values is the
identity on dynamic values: a concrete-typed value keeps its type — a nil `*T` is a
`*T` — and an interface-typed value (`error`) is what it holds; in particular a
function of declared signature `(R, error)` yields `R` in position 0, nil or not. -/
theorem c16_base_conversion_identity (R : String) (k : VKind) (n : Bool) (p : String) (e : DVal) :
    baseConvert [SVal.concrete R k n p, SVal.iface e] = [DVal.val R k n p, e] ∧
    (DVal.val R k n p).hasType R = true := by
  simp [baseConvert, SVal.toIface, DVal.hasType]

/-- Observing middleware are the identity on Results INCLUDING dynamic types: every
one of them, and the caller, gets exactly the boxed values of what the function returned
(and sees the arguments, with their dynamic types, as the caller passed them). -/
theorem c16_observers_identity_dynamic (ws : List (W (List DVal) (List DVal)))
    (h : List DVal → List SVal) (a : List DVal) (hobs : ∀ w ∈ ws, w.pre = id ∧ w.post = id) :
    (newMethod (baseFnDyn h) (wraps ws)).invoke a =
      (baseConvert (h a),
       (List.range ws.length).reverse.map (fun i => Ev.enter i a) ++ [Ev.base a] ++
       (List.range ws.length).map (fun i => Ev.exit i (baseConvert (h a)))) :=
  c16_observers_see_original ws (baseFnDyn h) a hobs

/-- Well-typed Results never make a generated consumer panic. -/
theorem c16_welltyped_consumed (R : String) (isErr : String → Bool) (ret : List DVal)
    (hw : WellTyped R isErr ret) :
    consumeProcessor R isErr ret ≠ .panic ∧ consumeClient R isErr ret ≠ .panic := by
  obtain ⟨r0, e, rfl, h0, he⟩ := hw
  rcases he with rfl | ⟨t, k, n, p, rfl, ht⟩
  · simp [consumeProcessor, consumeClient, h0]
  · simp [consumeProcessor, consumeClient, h0, ht]

/-- The final consumer — the generated processor's `ret[0].(R)`, the generated client's
`ret[0].(R)` / `ret[1].(error)` — does not panic for ANYTHING a function of the
declared signature `(R, error)` can return (nil pointers, nil slices, typed-nil errors
included), through any number of middleware that observe or replace results by values
of the declared types. -/
theorem c16_consumer_never_panics (R : String) (isErr : String → Bool)
    (ws : List (W α (List DVal))) (h : α → List SVal) (a : α)
    (hsig : ∀ x, ∃ k n p e, h x = [SVal.concrete R k n p, SVal.iface e] ∧
      (e = .untyped ∨ ∃ t k' n' p', e = .val t k' n' p' ∧ isErr t = true))
    (hpres : ∀ w ∈ ws, ∀ r, WellTyped R isErr r → WellTyped R isErr (w.post r)) :
    consumeProcessor R isErr ((newMethod (baseFnDyn h) (wraps ws)).invoke a).1 ≠ .panic ∧
    consumeClient R isErr ((newMethod (baseFnDyn h) (wraps ws)).invoke a).1 ≠ .panic := by
  apply c16_welltyped_consumed
  rw [c16_trace]
  have hbase : ∀ x, WellTyped R isErr (baseFnDyn h x) := by
    intro x
    obtain ⟨k, n, p, e, hx, he⟩ := hsig x
    exact ⟨.val R k n p, e, by simp [baseFnDyn, hx, baseConvert, SVal.toIface], by simp [DVal.hasType], he⟩
  have hfold : ∀ (l : List (W α (List DVal))), (∀ w ∈ l, w ∈ ws) → ∀ r, WellTyped R isErr r →
      WellTyped R isErr (postAll l r) := by
    intro l
    induction l with
    | nil => intro _ r hr; exact hr
    | cons w t ih =>
      intro hl r hr
      simp only [postAll, List.foldl_cons] at ih ⊢
      exact ih (fun w' hw' => hl w' (by simp [hw'])) _ (hpres w (hl w (by simp)) r hr)
  exact hfold ws (fun _ hw => hw) _ (hbase _)

/-- Why the conversion must not "normalise" nil pointers to the untyped nil: a
struct-returning function answering `(nil, nil)` would make the generated processor's
`ret[0].(*T)` panic (with the real conversion it succeeds), and a typed-nil `*Exc`
returned as `error` — an error today, and kept so — would silently become success. -/
theorem c16_nil_normalising_counterexample :
    let isErr := fun t => t == "*Exc"
    let notFound := [SVal.concrete "*T" .ptr true "", SVal.iface .untyped]
    let typedNilErr := [SVal.concrete "*T" .ptr false "{1}", SVal.iface (.val "*Exc" .ptr true "")]
    consumeProcessor "*T" isErr (baseConvert notFound) = .success ∧
    consumeProcessor "*T" isErr (baseConvertNilNorm notFound) = .panic ∧
    consumeProcessor "*T" isErr (baseConvert typedNilErr) = .errPath ∧
    consumeProcessor "*T" isErr (baseConvertNilNorm typedNilErr) = .success := by
  decide

/-! ### The chain is fixed at construction -/

/-- One later step — another construction from the same slice (its `append` may write
into the shared backing array), the caller overwriting or appending, `AddMiddleware` on
ANOTHER object — leaves an existing object's chain as it is. -/
theorem c16_step_keeps_chain (s : Life α ρ) (st : LifeStep α ρ) (i : Nat) (hi : i < s.objs.length)
    (hst : st.addsTo i = false) : (s.step st).objs[i]? = s.objs[i]? ∧ i < (s.step st).objs.length := by
  cases st with
  | construct f al prov => simp [Life.step, List.getElem?_append_left hi]; omega
  | write j m => simp [Life.step, hi]
  | push m => simp [Life.step, hi]
  | add j m =>
    have hj : j ≠ i := by simpa [LifeStep.addsTo] using hst
    simp [Life.step, hj, hi]

/-- The chain of an object is a function of the argument VALUES at construction —
`arr[:k]` as it was then, followed by the provider's list — and no sequence of later
mutations of the caller's array, other constructions or `AddMiddleware` calls on other
objects ever changes it; first use plays no role. -/
theorem c16_chain_fixed_at_construction (s : Life α ρ) (f : α → ρ) (al : Bool)
    (prov : List (Middleware α ρ)) (later : List (LifeStep α ρ))
    (hno : ∀ st ∈ later, st.addsTo s.objs.length = false) :
    ((s.step (.construct f al prov)).run later).objs[s.objs.length]? =
      some (newMethod f (s.arr.take s.k ++ prov)) := by
  have key : ∀ (steps : List (LifeStep α ρ)) (t : Life α ρ) (i : Nat), i < t.objs.length →
      (∀ st ∈ steps, st.addsTo i = false) → (t.run steps).objs[i]? = t.objs[i]? := by
    intro steps
    induction steps with
    | nil => intro t i _ _; rfl
    | cons st tl ih =>
      intro t i hi h
      have h1 := c16_step_keeps_chain t st i hi (h st (by simp))
      simp only [Life.run, List.foldl_cons] at ih ⊢
      rw [ih (t.step st) i h1.2 (fun x hx => h x (by simp [hx])), h1.1]
  rw [key later _ s.objs.length (by simp [Life.step]) hno]
  simp [Life.step]

/-- `AddMiddleware` on the object itself wraps the chain fixed at construction,
whether or not the object has been used before (the model has no "first use"). -/
theorem c16_add_after_construction (s : Life α ρ) (i : Nat) (o : Method α ρ) (m : Middleware α ρ)
    (ho : s.objs[i]? = some o) : (s.step (.add i m)).objs[i]? = some (o.addMiddleware m) := by
  simp [Life.step, ho]

/-! ### Non-vacuity: concrete lists with n ≥ 3, rewriting and observing -/

/-- Tagging behaviours over strings: `pre` appends `a<i>`, `post` appends `r<i>`. -/
def tagW (i : Nat) : W String String := ⟨fun s => s ++ s!"a{i}", fun s => s ++ s!"r{i}"⟩

example :
    (newMethod (fun s => s ++ "|") (wraps [tagW 0, W.observe, tagW 2, tagW 3])).invoke "x" =
      ("xa3a2a0|r0r2r3",
       [.enter 3 "x", .enter 2 "xa3", .enter 1 "xa3a2", .enter 0 "xa3a2", .base "xa3a2a0",
        .exit 0 "xa3a2a0|", .exit 1 "xa3a2a0|r0", .exit 2 "xa3a2a0|r0", .exit 3 "xa3a2a0|r0r2"]) := by
  decide

/-- Provider (labels 2, 3) around constructor (labels 0, 1), then AddMiddleware (label 4). -/
example :
    (((newMethod (fun s => s ++ "|")
        (clientWiring (wraps [tagW 0, tagW 1]) (wrapsFrom 2 [tagW 2, tagW 3]))).addMiddleware
        (wrap 4 (tagW 4).pre (tagW 4).post)).invoke "x").2.map Ev.tag =
      [.enter 4, .enter 3, .enter 2, .enter 1, .enter 0, .base,
       .exit 0, .exit 1, .exit 2, .exit 3, .exit 4] := by
  decide

/-- Values, non-vacuously: a struct-returning function answers `(nil, nil)`; three
middleware — observe, replace the result by another `*T`, replace it by the typed nil —
satisfy the hypotheses of `c16_consumer_never_panics`, and the processor consumer succeeds. -/
example :
    let nilT : DVal := .val "*T" .ptr true ""
    let ws : List (W Unit (List DVal)) :=
      [⟨id, id⟩, ⟨id, fun r => .val "*T" .ptr false "{7}" :: r.drop 1⟩, ⟨id, fun r => nilT :: r.drop 1⟩]
    let h : Unit → List SVal := fun _ => [.concrete "*T" .ptr true "", .iface .untyped]
    ((newMethod (baseFnDyn h) (wraps ws)).invoke ()).1 = [nilT, .untyped] ∧
    consumeProcessor "*T" (fun t => t == "*Exc") ((newMethod (baseFnDyn h) (wraps ws)).invoke ()).1 = .success := by
  decide

/-- Hypothesis H is needed: a middleware that calls `next` twice (retry) makes the
inner middleware run twice. -/
example :
    ((compose (baseHandler (fun s : String => s)) [wrap 0 id id, wrapTwice 1, wrap 2 id id]) "x").2.countP
      (isEnter 0) = 2 := by
  decide

/-- An `extends` chain: parent {ping, get}, child {get, put}; three constructor
middleware, one added afterwards. -/
def chainPm : ProcMap String String :=
  (genProcessor [[("ping", fun s => s ++ "P"), ("get", fun s => s ++ "G")],
                 [("get", fun s => s ++ "g"), ("put", fun s => s ++ "p")]]
    (wraps [tagW 0, tagW 1, tagW 2])).addAll (wrapsFrom 3 [tagW 3])

/-- The parent's function gets all four, in order. -/
example :
    chainPm.invoke "ping" "x" =
      some ("xa3a2a1a0Pr0r1r2r3",
        [.enter 3 "x", .enter 2 "xa3", .enter 1 "xa3a2", .enter 0 "xa3a2a1", .base "xa3a2a1a0",
         .exit 0 "xa3a2a1a0P", .exit 1 "xa3a2a1a0Pr0", .exit 2 "xa3a2a1a0Pr0r1", .exit 3 "xa3a2a1a0Pr0r1r2"]) := by
  decide

/-- `get` is the child's function; an unknown name dispatches to nothing. -/
example : (chainPm.invoke "get" "x").map Prod.fst = some "xa3a2a1a0gr0r1r2r3" ∧
    (chainPm.invoke "nope" "x").isNone = true := by
  decide

end FV.C16
