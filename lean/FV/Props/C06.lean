/-
C06 — The inbound path never stalls: no head-of-line blocking.

  "For every sequence of inbound frames, including duplicated, unsolicited and
  late responses, the client transport keeps consuming and delivering
  subsequent frames, so the response to one in-flight request is delivered
  promptly regardless of what was received before it and regardless of other
  requests being slow, timed out or abandoned."

The reader goroutine's next step is never disabled (`step … ≠ none`), in every
reachable state, for a `dispatch` whose send does not block
(`sendBlocking = false` — tied to the source through `Generated/Params`), and a
fresh response is delivered in two reader steps whatever came before.
-/
import FV.Model.Registry
import FV.Proofs.Registry
import FV.Generated.Params
import FV.Generated.Locks
import FV.Proofs.Locks

namespace FV.C06
open FV.Reg

/-- The reader is never blocked: whatever the callers do or have done, its next action is
enabled — the send when it holds a frame, a lookup of ANY next frame when it is idle. -/
theorem c06_reader_never_blocks (cap : Nat) (os : List OpId) (s : Sys) (hr : Reachable cap false os s) :
    (∀ ch f, s.reader = .lookedUp ch f → (step s .readerSend).isSome) ∧
    (s.reader = .idle → ∀ f, (step s (.readerLookup f)).isSome) := by
  have hb : s.sendBlocking = false := (reachable_params hr).2.2
  constructor
  · intro ch f hrd
    obtain ⟨c, hc, _⟩ := (reachable_rinv hr).rdr ch f hrd
    simp only [step, hrd, hc, hb]
    split <;> simp
  · intro hidle f
    simp only [step, hidle]
    split <;> simp

/-- The code's `dispatch` is the non-blocking one (regenerated from registry.go on every check). -/
theorem c06_code_send_nonblocking : FV.Params.dispatchSendBlocking = false := by decide

/-- The result channels the code creates have room for the response (regenerated from source). -/
theorem c06_code_capacity : 1 ≤ FV.Params.resultChanCapAdapter ∧ 1 ≤ FV.Params.resultChanCapNats := by decide

/-- The number of reader steps per inbound frame is at most 2 (lookup, send), independent of the state:
after a lookup the reader is idle again (frame discarded) or holds the frame; after the send it is idle. -/
theorem c06_bounded_work (s s' : Sys) (f : Frame) (h : step s (.readerLookup f) = some s') :
    s'.reader = .idle ∨ (∃ ch, s'.reader = .lookedUp ch f ∧ ∀ s'', step s' .readerSend = some s'' → s''.reader = .idle) := by
  simp only [step] at h
  split at h
  · split at h
    · rename_i ch _
      cases h
      right
      refine ⟨ch, rfl, ?_⟩
      intro s'' h2
      simp only [step] at h2
      split at h2
      · split at h2
        · cases h2; rfl
        · split at h2
          · cases h2
          · cases h2; rfl
      · cases h2
    · cases h; left; assumption
  · cases h

/-- A fresh response is delivered: for a caller that is waiting with an empty channel, the
frame with its op id ends up in its channel after the reader's two steps — regardless of the
history that led to the state (duplicates, unknown ids, late frames, slow or abandoned callers). -/
theorem c06_fresh_response_delivered (cap : Nat) (os : List OpId) (hnd : os.Nodup) (hcap : 1 ≤ cap)
    (s : Sys) (hr : Reachable cap false os s) (i : Nat) (c : Caller) (t : Nat)
    (hc : s.callers[i]? = some c) (hw : c.pc = .waiting) (hbuf : c.buf = []) (hidle : s.reader = .idle) :
    ∃ s1 s2 c2, step s (.readerLookup ⟨c.opid, t⟩) = some s1 ∧ step s1 .readerSend = some s2 ∧
      s2.callers[i]? = some c2 ∧ c2.buf = [⟨c.opid, t⟩] ∧ c2.pc = .waiting := by
  have hj := reachable_jinv hnd hr
  have hi := reachable_rinv hr
  have hnd' : (s.callers.map (·.opid)).Nodup := by rw [(reachable_params hr).1]; exact hnd
  have hcap' : s.cap = cap := (reachable_params hr).2.1
  have hmem := hj i c hc (Or.inl hw)
  -- the lookup returns exactly caller i
  have hl : lookup s.registry c.opid = some i := by
    cases hl : lookup s.registry c.opid with
    | none => exact absurd hmem (lookup_none hl i)
    | some j =>
      obtain ⟨cj, hcj, ho, _⟩ := hi.reg c.opid j (lookup_some hl)
      rw [opid_inj s.callers hnd' j i cj c hcj hc ho]
  refine ⟨{ s with reader := .lookedUp i ⟨c.opid, t⟩ },
    { s with callers := updCaller s.callers i (fun c' => c'.push ⟨c.opid, t⟩), reader := .idle },
    c.push ⟨c.opid, t⟩, ?_, ?_, ?_, ?_, ?_⟩
  · simp [step, hidle, hl]
  · simp only [step, hc, hbuf, List.length_nil]
    rw [if_pos (by omega)]
  · simp only [get_upd, if_true, hc, Option.map_some]
  · simp [hbuf]
  · simpa using hw

/-- With a blocking send (the code before the fix) the property is false: three frames for one
held registration wedge the reader, and every later response on the transport is lost. -/
theorem c06_counterexample_blocking_send :
    ∃ s, run (init 1 true [7])
      [.register 0, .readerLookup ⟨7, 1⟩, .readerSend, .readerLookup ⟨7, 2⟩] = some s ∧
      step s .readerSend = none ∧ ∀ f, step s (.readerLookup f) = none := by
  refine ⟨_, rfl, by decide, ?_⟩
  intro f; rfl

/-! Non-vacuity of the delivery theorem's hypotheses. -/
example : ∃ s, Reachable 1 false [3, 4] s ∧ s.reader = .idle ∧
    s.callers[1]? = some ⟨4, .waiting, []⟩ :=
  ⟨_, ⟨[.register 0, .register 1, .readerLookup ⟨3, 0⟩, .readerSend, .readerLookup ⟨3, 1⟩, .readerSend], rfl⟩, rfl, rfl⟩

/-- **Lock discipline behind the model's atomic steps** (registry, adapter lifecycle lock, framed reader), decided by the kernel on facts
REGENERATED from lib/go's source on every check (harness/locks → FV/Generated/Locks.lean): no function
calls, while it holds one of these mutexes, anything that (transitively) acquires the same mutex, no
lexical re-lock, and every path out of a function releases what the function locked. This is what makes a
critical section ONE step of the model and rules out the self-deadlocks (a second RLock behind a queued
writer, SendError under SendReply's lock) and leaked locks that would wedge every later request. -/
theorem c06_lock_discipline :
    FV.Locks.ok [1, 2, 3] FV.Generated.Locks.mutexTags FV.Generated.Locks.facts = true := by decide +kernel

/-- What the decided discipline means for EVERY call path of lib/go's (resolved) call graph: a call made under
one of these mutexes never reaches, however deep, a function that acquires the same mutex
(`FV.Locks.closed_sound`: the mask table is closed under calls, so the number of rounds is not trusted). -/
theorem c06_no_nested_lock_on_any_call_path {fn : FV.Locks.Fn} (hfn : fn ∈ FV.Generated.Locks.facts)
    {m g h : Nat} (hheld : (m, g) ∈ fn.heldCalls)
    (hrel : FV.Locks.relevant [1, 2, 3] FV.Generated.Locks.mutexTags m = true)
    (hr : FV.Locks.Reach FV.Generated.Locks.facts g h) {fnh : FV.Locks.Fn}
    (hh : FV.Generated.Locks.facts[h]? = some fnh) : m ∉ fnh.acquires :=
  FV.Locks.ok_no_nested_path _ _ _ c06_lock_discipline hfn hheld hrel hr hh

/-- **No lock-order cycle** among the mutexes of lib/go (all tags): `m → m'` when some function acquires `m'`,
itself or through callees, while it holds `m`; no mutex reaches itself — the two-lock deadlock is excluded on
the regenerated facts (today the only edges lead to the logger's mutex). -/
theorem c06_lock_order_acyclic :
    FV.Locks.acyclic [1, 2, 3, 4, 5, 6, 7, 8] FV.Generated.Locks.mutexTags FV.Generated.Locks.facts = true := by
  decide +kernel

/-- …and what that decision means (`FV.Locks.acyclic_sound`): no mutex of lib/go lies on a cycle of order edges
`m → m'` ("m' is acquired — lexically, or by anything reachable from a call — while m is held"), over every
call path of the recorded call graph. -/
theorem c06_no_lock_order_cycle {m : Nat}
    (hrel : FV.Locks.relevant [1, 2, 3, 4, 5, 6, 7, 8] FV.Generated.Locks.mutexTags m = true) :
    ¬ FV.Locks.Chain FV.Generated.Locks.facts m m :=
  FV.Locks.acyclic_sound _ _ _ c06_lock_order_acyclic hrel

/-- **Fields are written under their lock** (regenerated from lib/go on every check): no method writes a field
of a mutex-holding struct (the registry's channel map) while no mutex of that struct is write-held — by assignment, `++`, `delete` or an
atomic store — unless the site is one of the hand-classified set-up / single-owner sites of
`known/locks_unguarded_expected.txt`. The atomic-step models read and write such state in ONE critical section;
a value computed from a read under the lock and stored after it was released (a lazily filled cache) is a lost
update the models cannot exhibit and the race detector does not see. -/
theorem c06_fields_written_under_lock :
    FV.Locks.writesGuarded [1] FV.Generated.Locks.unguardedUnexpected = true := by decide +kernel

/-- **Locks held across calls are released by defer** (regenerated from lib/go on every check): no function calls
anything while it holds a mutex that only a hand-written `Unlock` releases, except the hand-classified callees that
cannot panic (`manual:` lines of `known/locks_unguarded_expected.txt`). The models release a mutex on EVERY exit of
a critical section, a panic included — the servers recover panics of user-supplied code and keep serving, so a
hand-released mutex would stay locked and every later request behind it would go unanswered. -/
theorem c06_locks_released_by_defer :
    FV.Locks.releasedByDefer [1] FV.Generated.Locks.manualUnexpected = true := by decide +kernel

end FV.C06
