/-
C14 — The server answers every two-way request exactly once with a well-formed reply.

  "For every request frame with decodable headers (known or unknown method,
  well-formed or malformed arguments, handler success, declared exception,
  undeclared error or application exception) the server produces exactly one
  reply frame carrying the request's op id and the appropriate REPLY or EXCEPTION
  message (UNKNOWN_METHOD, PROTOCOL_ERROR, INTERNAL_ERROR or the handler's own
  type), and replies of concurrently processed requests are never interleaved or
  corrupted. A request that names an unknown method or fails in its handler never
  affects later requests on the same connection, and no request of any kind
  affects requests arriving on other connections or as other messages."

Model: `FV.Proc.process` = FBaseProcessor.Process + the emitted per-method processor
function; `FV.Proc.processAll` / `processConn` = a request sequence (on one connection);
`FV.Proc.step` = goroutines writing the chunks of their replies to one output
protocol under `writeMu` (Model/Processor.lean). The theorems quantify over every process
map, every request, every handler outcome, every number of goroutines, every reply content
and every schedule (action list).

What is NOT claimed here (and is not in the statement): a ONEWAY method whose arguments are
unreadable or whose handler fails does get an EXCEPTION message from the emitted code
(`c14_oneway_no_reply_counterexample`); after malformed arguments on a framed shared
connection the unread rest of the frame is not discarded (the isolation sentence names
unknown methods and failing handlers; the correspondence exercises malformed arguments with
one transport per request, and the position-preserving "required field missing" on a shared one).
-/
import FV.Model.Processor
import FV.Proofs.Processor
import FV.Model.Server
import FV.Proofs.Server
import FV.Generated.Locks
import FV.Proofs.Locks

namespace FV.C14
open FV FV.Proc

/-- "A request frame with decodable headers": the header block decodes to `h`, carries the op
id `opid`, and the Thrift message envelope after it is readable. -/
def Decodable (rq : Request) (h : Hdrs) (opid : Bytes) : Prop :=
  rq.hdr = .ok h ∧ h.get? opIdHeader = some opid ∧ rq.envOk = true

/-- Two-way: the method is unknown to the processor, or registered as a non-oneway method.
(The message type the client wrote — CALL or ONEWAY — is not what the server goes by.) -/
def TwoWay (pm : ProcMap) (rq : Request) : Prop :=
  ∀ ms, pm.find? rq.method = some ms → ms.oneway = false

/-- The table of the statement for a healthy output: message kind, exception type and body of THE reply. -/
def expectedHealthy (pm : ProcMap) (rq : Request) (ho : HOutcome) : MsgKind × Int × PayloadTag :=
  match pm.find? rq.method with
  | none => (.exception, exUnknownMethod, .appEx)
  | some ms =>
    if rq.args.readable = false then (.exception, exProtocolError, .appEx) else
    match ho with
    | .success v => (.reply, 0, .success v)
    | .declared f => if f ∈ ms.throws then (.reply, 0, .declared f) else (.exception, exInternalError, .appEx)
    | .appEx t => (.exception, t, .appEx)
    | .other => (.exception, exInternalError, .appEx)

/-- … and on a bounded output buffer that a REPLY does not fit: RESPONSE_TOO_LARGE instead. -/
def expected (pm : ProcMap) (rq : Request) (ho : HOutcome) : MsgKind × Int × PayloadTag :=
  if rq.out = .tooSmall ∧ (expectedHealthy pm rq ho).1 = .reply then (.exception, exResponseTooLarge, .appEx)
  else expectedHealthy pm rq ho

/-- The output can carry an answer: the peer is there, and the message fits — a REPLY that
does not fit a bounded buffer is replaced by the (small) RESPONSE_TOO_LARGE exception, but the
UNKNOWN_METHOD message echoes the method name and has no smaller substitute. -/
def Answerable (pm : ProcMap) (rq : Request) : Prop :=
  rq.out = .healthy ∨ (rq.out = .tooSmall ∧ pm.find? rq.method ≠ none)

/-- Every two-way request with decodable headers — known or unknown method, readable or
unreadable, skippable or unskippable arguments, every handler outcome — gets exactly one
message; it carries the request's op id (and correlation id), the request's method name, and
kind / exception type / body are those of the table. `Process` returns nil (the server loop
goes on to the next request). -/
theorem c14_exactly_one_reply (pm : ProcMap) (rq : Request) (ho : HOutcome) (h : Hdrs) (opid : Bytes)
    (hd : Decodable rq h opid) (h2 : TwoWay pm rq) (hout : Answerable pm rq) :
    ∃ r, (process pm rq ho).1 = [r] ∧ (process pm rq ho).2 = .ok () ∧
      r.opId = opid ∧ r.hdrs.get? opIdHeader = some opid ∧ r.hdrs = respHdrs h opid ∧
      r.method = rq.method ∧ r.seqid = 0 ∧
      (r.kind, r.exType, r.payload) = expected pm rq ho := by
  obtain ⟨hh, ho', he⟩ := hd
  have hget : ∀ (o : Bytes), (respHdrs h o).get? opIdHeader = some o := by
    intro o; simp [respHdrs, Hdrs.get?]
  unfold process expected expectedHealthy
  simp only [hh, ho', he]
  cases hf : pm.find? rq.method with
  | none =>
    have : rq.out = .healthy := by
      rcases hout with h1 | ⟨_, h1⟩
      · exact h1
      · exact absurd hf h1
    simp [this, mkException, hget]
  | some ms =>
    have hw := h2 ms hf
    have hcases : rq.out = .healthy ∨ rq.out = .tooSmall := by
      rcases hout with h1 | ⟨h1, _⟩
      · exact Or.inl h1
      · exact Or.inr h1
    cases hr : rq.args.readable with
    | false => rcases hcases with hc | hc <;> simp [hc, mkException, hget]
    | true =>
      cases ho with
      | success v => rcases hcases with hc | hc <;> simp [hc, methodReply, hw, mkReply, mkException, hget]
      | declared f =>
        by_cases hm : f ∈ ms.throws <;> rcases hcases with hc | hc <;>
          simp [hc, methodReply, hw, hm, mkReply, mkException, hget]
      | appEx t => rcases hcases with hc | hc <;> simp [hc, methodReply, mkException, hget]
      | other => rcases hcases with hc | hc <;> simp [hc, methodReply, mkException, hget]

/-- Oversized reply on a bounded output buffer, spelled out: the caller of a known two-way
method whose REPLY (return value or declared exception) does not fit gets exactly one message,
the RESPONSE_TOO_LARGE exception with its op id — not the REPLY, and nothing besides. -/
theorem c14_too_large_one_exception (pm : ProcMap) (rq : Request) (ho : HOutcome) (ms : MethodSpec) (h : Hdrs) (opid : Bytes)
    (hd : Decodable rq h opid) (hf : pm.find? rq.method = some ms) (hw : ms.oneway = false)
    (hr : rq.args.readable = true) (hout : rq.out = .tooSmall)
    (hrep : (∃ v, ho = .success v) ∨ (∃ f, ho = .declared f ∧ f ∈ ms.throws)) :
    process pm rq ho = ([mkException h opid rq.method exResponseTooLarge], .ok ()) := by
  obtain ⟨hh, ho', he⟩ := hd
  rcases hrep with ⟨v, rfl⟩ | ⟨f, rfl, hm⟩ <;>
    simp [process, methodReply, mkReply, *]

/-- A peer that is gone (a write or the flush of the reply fails) gets nothing, and the error
does not leave `Process` for a known method; for an unknown method it is returned. -/
theorem c14_dead_peer (pm : ProcMap) (rq : Request) (ho : HOutcome) (hout : rq.out = .fails) :
    (process pm rq ho).1 = [] := by
  unfold process
  cases rq.hdr with
  | err e => rfl
  | panic p => rfl
  | ok h =>
    simp only []
    cases h.get? opIdHeader with
    | none => rfl
    | some opid =>
      simp only []
      cases rq.envOk with
      | false => rfl
      | true =>
        simp only [hout]
        cases pm.find? rq.method <;> rfl

/-- The correlation id travels back: the reply has a `_cid` header exactly when the request had
a non-empty one, with that value. -/
theorem c14_reply_correlation_id (h : Hdrs) (opid : Bytes) :
    (respHdrs h opid).get? cidHeader =
      (match h.get? cidHeader with | some c => if c = [] then none else some c | none => none) := by
  have hne : opIdHeader ≠ cidHeader := by decide
  unfold respHdrs
  cases hc : h.get? cidHeader with
  | none => simp [Hdrs.get?, hne]
  | some c => by_cases he : c = [] <;> simp [Hdrs.get?, hne, he]

/-- What the client wrote as message type and sequence id has no influence on the answer. -/
theorem c14_type_and_seqid_ignored (pm : ProcMap) (rq : Request) (ho : HOutcome) (t : Nat) (sq : Int) :
    process pm { rq with msgType := t, seqid := sq } ho = process pm rq ho := rfl

/-- A request whose header block does not decode, has no op id, or whose envelope is
unreadable produces no output at all and `Process` returns the error (the connection-oriented
server closes that connection, the message-oriented ones drop that message). -/
theorem c14_undecodable_no_output (pm : ProcMap) (rq : Request) (ho : HOutcome)
    (hu : (∀ h, rq.hdr ≠ .ok h) ∨ (∃ h, rq.hdr = .ok h ∧ h.get? opIdHeader = none) ∨ rq.envOk = false) :
    (process pm rq ho).1 = [] ∧ (process pm rq ho).2 ≠ .ok () := by
  unfold process
  cases hh : rq.hdr with
  | err e => simp
  | panic p => simp
  | ok h =>
    cases ho' : h.get? opIdHeader with
    | none => simp [ho']
    | some opid =>
      rcases hu with hu | ⟨h', hh', hn⟩ | hu
      · exact absurd hh (hu h)
      · rw [hh] at hh'; cases hh'; rw [ho'] at hn; cases hn
      · simp [ho', hu]

/-- A oneway method that is processed normally (arguments readable, handler succeeds) is not
answered. -/
theorem c14_oneway_no_reply (pm : ProcMap) (rq : Request) (ms : MethodSpec) (v : Bytes) (h : Hdrs) (opid : Bytes)
    (hd : Decodable rq h opid) (hf : pm.find? rq.method = some ms) (hw : ms.oneway = true)
    (hr : rq.args.readable = true) :
    process pm rq (.success v) = ([], .ok ()) := by
  obtain ⟨hh, ho', he⟩ := hd
  cases hout : rq.out <;> simp [process, hh, ho', he, hf, hr, methodReply, hw, hout]

/-- For every handler outcome a oneway request produces at most one message, and if one, an
EXCEPTION carrying the request's op id. -/
theorem c14_oneway_at_most_one (pm : ProcMap) (rq : Request) (ho : HOutcome) (ms : MethodSpec) (h : Hdrs) (opid : Bytes)
    (hd : Decodable rq h opid) (hf : pm.find? rq.method = some ms) (hw : ms.oneway = true) :
    (process pm rq ho).1 = [] ∨
      ∃ r, (process pm rq ho).1 = [r] ∧ r.kind = .exception ∧ r.opId = opid ∧ r.method = rq.method := by
  obtain ⟨hh, ho', he⟩ := hd
  unfold process
  simp only [hh, ho', he, hf]
  cases hr : rq.args.readable with
  | false => cases hout : rq.out <;> simp [mkException]
  | true => cases ho <;> cases hout : rq.out <;> simp [methodReply, hw, mkException]

/-- "A oneway request is never answered" is FALSE of the emitted code: when the handler of a
oneway method fails, `SendError` writes an EXCEPTION message (generator.go, the oneway variant
of generateMethodProcessor keeps the error arm). Not part of the statement of C14, recorded. -/
theorem c14_oneway_no_reply_counterexample :
    ∃ (pm : ProcMap) (rq : Request) (ms : MethodSpec) (h : Hdrs) (opid : Bytes),
      Decodable rq h opid ∧ pm.find? rq.method = some ms ∧ ms.oneway = true ∧ rq.args.readable = true ∧
      (process pm rq .other).1.length = 1 :=
  ⟨[([102], ⟨true, []⟩)], ⟨.ok [(opIdHeader, [49])], true, [102], 4, 0, ⟨true, true⟩, .healthy⟩, ⟨true, []⟩,
    [(opIdHeader, [49])], [49],
    ⟨rfl, by simp [Hdrs.get?], rfl⟩, by simp [ProcMap.find?], rfl, rfl,
    by simp [process, Hdrs.get?, ProcMap.find?, methodReply]⟩

/-- Isolation. In a sequence of requests handled by one processor (same connection or not),
the answer to request `k` is `process` of request `k` and its handler outcome alone: whatever
came before it — unknown methods, failing handlers, anything — and whatever comes after does
not change it. -/
theorem c14_isolation (pm : ProcMap) (pre post : List (Request × HOutcome)) (r : Request × HOutcome) :
    (processAll pm (pre ++ r :: post))[pre.length]? = some (process pm r.1 r.2) := by
  simp [processAll]

/-- Same statement, comparing two histories: the answer to `r` after `pre₁` equals the answer
to `r` after `pre₂` (in particular after no history at all). -/
theorem c14_isolation_histories (pm : ProcMap) (pre₁ pre₂ post₁ post₂ : List (Request × HOutcome))
    (r : Request × HOutcome) :
    (processAll pm (pre₁ ++ r :: post₁))[pre₁.length]? = (processAll pm (pre₂ ++ r :: post₂))[pre₂.length]? := by
  rw [c14_isolation, c14_isolation]

/-- "A request that names an unknown method or fails in its handler never affects later
requests on the same connection", part 1: such a request — decodable, and either an unknown
method whose arguments `Skip` consumes, or a known method whose arguments `Read` consumes —
leaves the connection's input exactly at the next request and lets the server loop go on,
WHATEVER its handler does and (known method) whatever becomes of its reply on the output (success, declared exception, application exception, any error). -/
theorem c14_failures_keep_position (pm : ProcMap) (rq : Request) (ho : HOutcome) (h : Hdrs) (opid : Bytes)
    (hd : Decodable rq h opid)
    (ha : match pm.find? rq.method with
          | none => rq.args.skippable = true ∧ rq.out = .healthy
          | some _ => rq.args.readable = true) :
    positionKept pm rq = true ∧ (process pm rq ho).2 = .ok () := by
  obtain ⟨hh, ho', he⟩ := hd
  unfold positionKept process
  simp only [hh, ho', he]
  cases hf : pm.find? rq.method with
  | none => rw [hf] at ha; simp [ha.1, ha.2]
  | some ms => rw [hf] at ha; cases hout : rq.out <;> simp [ha]

/-- Part 2, on ONE connection (`processConn` = the server's per-connection loop): if every
earlier request on the connection was consumed exactly and handled without a transport-level
error, the answer to the next request is `process` of that request alone. -/
theorem c14_isolation_connection (pm : ProcMap) (pre post : List (Request × HOutcome)) (r : Request × HOutcome)
    (hpre : ∀ q ∈ pre, (process pm q.1 q.2).2 = .ok () ∧ positionKept pm q.1 = true) :
    (processConn pm (pre ++ r :: post))[pre.length]? = some (process pm r.1 r.2) := by
  induction pre with
  | nil =>
    simp only [List.nil_append, List.length_nil, processConn]
    split <;> simp
  | cons q t ih =>
    have hq := hpre q (by simp)
    have ht := ih (fun x hx => hpre x (by simp [hx]))
    simp only [List.cons_append, processConn, hq.1, hq.2, Res.isOk, Bool.and_self, if_true,
      List.length_cons, List.getElem?_cons_succ]
    exact ht

/-- Parts 1 and 2 together: after ANY history of well-formed requests — unknown methods,
handlers that fail in every possible way, oneway calls — the next request on the same
connection gets exactly the answer it would have got alone. -/
theorem c14_isolation_same_connection (pm : ProcMap) (pre post : List (Request × HOutcome)) (r : Request × HOutcome)
    (hpre : ∀ q ∈ pre, ∃ h opid, Decodable q.1 h opid ∧
      (match pm.find? q.1.method with
       | none => q.1.args.skippable = true ∧ q.1.out = .healthy
       | some _ => q.1.args.readable = true)) :
    (processConn pm (pre ++ r :: post))[pre.length]? = some (process pm r.1 r.2) ∧
    (processConn pm [r])[0]? = some (process pm r.1 r.2) := by
  constructor
  · apply c14_isolation_connection
    intro q hq
    obtain ⟨h, opid, hd, ha⟩ := hpre q hq
    have := c14_failures_keep_position pm q.1 q.2 h opid hd ha
    exact ⟨this.2, this.1⟩
  · simp only [processConn]; split <;> simp

/-- Every request of a sequence is answered (or not) on its own: one entry per request. -/
theorem c14_processAll_length (pm : ProcMap) (rs : List (Request × HOutcome)) :
    (processAll pm rs).length = rs.length := by simp [processAll]

/-- No interleaving. For every number of goroutines, every reply content (any chunking) and
every schedule: what the shared output has received is the concatenation of WHOLE replies of
distinct goroutines, followed by a prefix of the reply of the goroutine that holds `writeMu`
right now (nothing if nobody holds it). -/
theorem c14_no_interleaving (n : Nat) (reply : Nat → List Bytes) (acts : List Action) (s : Sys)
    (h : run (Sys.init n reply) acts = some s) :
    ∃ (whole : List Nat) (part : Bytes),
      s.out = (whole.map fun g => (reply g).flatten).flatten ++ part ∧
      whole.Nodup ∧ (∀ g ∈ whole, g < n) ∧
      (match s.holder with
       | none => part = []
       | some g => g ∉ whole ∧ ∃ w, w ≤ (reply g).length ∧ part = ((reply g).take w).flatten) := by
  have hi := inv_run _ _ acts (inv_init n reply) h
  obtain ⟨hn, hr⟩ := run_const _ _ acts h
  simp only [Sys.init] at hn hr
  refine ⟨s.fin, s.partialOut, ?_, hi.fin_nodup, ?_, ?_⟩
  · rw [← hr]; exact hi.out_eq
  · intro g hg
    have hd := (hi.fin_done g).1 hg
    rw [← hn]; exact hi.lt_n g (by rw [hd]; intro hx; cases hx)
  · cases hh : s.holder with
    | none => simp [Sys.partialOut, hh]
    | some g =>
      obtain ⟨w, hw, hle⟩ := hi.holder_holding g hh
      refine ⟨?_, w, ?_, ?_⟩
      · intro hm; have := (hi.fin_done g).1 hm; rw [hw] at this; cases this
      · rw [← hr]; exact hle
      · simp [Sys.partialOut, hh, hw, hr]

/-- When all n goroutines have finished, the output is the concatenation of all n whole
replies, each exactly once, in the order in which the mutex was released. -/
theorem c14_all_done_complete (n : Nat) (reply : Nat → List Bytes) (acts : List Action) (s : Sys)
    (h : run (Sys.init n reply) acts = some s) (hall : ∀ g, g < n → s.st g = .done) :
    s.out = (s.fin.map fun g => (reply g).flatten).flatten ∧ s.fin.Perm (List.range n) := by
  have hi := inv_run _ _ acts (inv_init n reply) h
  obtain ⟨hn, hr⟩ := run_const _ _ acts h
  simp only [Sys.init] at hn hr
  constructor
  · have hp : s.partialOut = [] := by
      unfold Sys.partialOut
      cases hh : s.holder with
      | none => rfl
      | some g =>
        obtain ⟨w, hw, _⟩ := hi.holder_holding g hh
        have hlt := hi.lt_n g (by rw [hw]; intro hx; cases hx)
        rw [hn] at hlt
        rw [hall g hlt] at hw; cases hw
    have := hi.out_eq
    rw [hp, hr] at this
    simpa using this
  · apply (List.perm_ext_iff_of_nodup hi.fin_nodup List.nodup_range).2
    intro g
    rw [List.mem_range, hi.fin_done g]
    constructor
    · intro hd
      have := hi.lt_n g (by rw [hd]; intro hx; cases hx)
      rw [hn] at this; exact this
    · exact hall g

/-- The mutex never wedges the writers: in every reachable state in which some goroutine has
not finished, some action is enabled. -/
theorem c14_no_deadlock (n : Nat) (reply : Nat → List Bytes) (acts : List Action) (s : Sys)
    (h : run (Sys.init n reply) acts = some s) (g : Nat) (hg : g < n) (hnd : s.st g ≠ .done) :
    ∃ a, (step s a).isSome = true := by
  have hi := inv_run _ _ acts (inv_init n reply) h
  obtain ⟨hn, hr⟩ := run_const _ _ acts h
  simp only [Sys.init] at hn hr
  cases hh : s.holder with
  | some g' =>
    obtain ⟨w, hw, hle⟩ := hi.holder_holding g' hh
    by_cases hlt : w < (s.reply g').length
    · refine ⟨.writeChunk g', ?_⟩
      simp [step, hh, hw, List.getElem?_eq_getElem hlt]
    · refine ⟨.unlock g', ?_⟩
      have : w = (s.reply g').length := by omega
      simp [step, hh, hw, this]
  | none =>
    refine ⟨.lock g, ?_⟩
    have hidle : s.st g = .idle := by
      cases hst : s.st g with
      | idle => rfl
      | done => exact absurd hst hnd
      | holding w => have := hi.holding_holder g w hst; rw [hh] at this; cases this
    simp [step, hn, hg, hh, hidle]

/-! ### Non-vacuity -/

/-- A concrete process map and requests of every kind satisfy the hypotheses. -/
def exPm : ProcMap := ProcMap.add (ProcMap.add [] [112] ⟨false, [1]⟩) [102] ⟨true, []⟩
def exHdrs : Hdrs := [(opIdHeader, [52, 50]), (cidHeader, [99])]
def exReq (m : Bytes) (readable : Bool) : Request := ⟨.ok exHdrs, true, m, 1, 7, ⟨readable, readable⟩, .healthy⟩

example : Decodable (exReq [112] true) exHdrs [52, 50] := ⟨rfl, by simp [exHdrs, Hdrs.get?], rfl⟩
example : TwoWay exPm (exReq [112] true) := by
  intro ms h; simp [exPm, exReq, ProcMap.add, ProcMap.find?] at h; rw [← h]
example : TwoWay exPm (exReq [120] false) := by
  intro ms h; simp [exPm, exReq, ProcMap.add, ProcMap.find?] at h
-- known method, success: a REPLY with the op id and the correlation id
example : (process exPm (exReq [112] true) (.success [1])).1 =
    [⟨[52, 50], [(opIdHeader, [52, 50]), (cidHeader, [99])], .reply, 0, [112], 0, .success [1]⟩] := by
  simp [process, exReq, exHdrs, exPm, ProcMap.add, ProcMap.find?, Hdrs.get?, methodReply, mkReply, respHdrs,
    opIdHeader, cidHeader]
-- unknown method with arguments that cannot even be skipped: still answered, UNKNOWN_METHOD
example : ((process exPm (exReq [120] false) .other).1.map fun r => (r.kind, r.exType)) = [(.exception, 1)] := by
  simp [process, exReq, exHdrs, exPm, ProcMap.add, ProcMap.find?, Hdrs.get?, mkException, exUnknownMethod,
    opIdHeader, cidHeader]
-- the REPLY does not fit the bounded output buffer: one RESPONSE_TOO_LARGE exception
example : ((process exPm { exReq [112] true with out := .tooSmall } (.success [1])).1.map fun r => (r.kind, r.exType, r.opId)) =
    [(.exception, 100, [52, 50])] := by
  simp [process, exReq, exHdrs, exPm, ProcMap.add, ProcMap.find?, Hdrs.get?, methodReply, mkReply, mkException,
    exResponseTooLarge, opIdHeader, cidHeader]
example : Answerable exPm { exReq [112] true with out := .tooSmall } :=
  Or.inr ⟨rfl, by simp [exPm, exReq, ProcMap.add, ProcMap.find?]⟩
-- declared exception vs. the same exception from a method that does not declare it
example : ((process exPm (exReq [112] true) (.declared 1)).1.map fun r => (r.kind, r.payload)) = [(.reply, .declared 1)] := by
  simp [process, exReq, exHdrs, exPm, ProcMap.add, ProcMap.find?, Hdrs.get?, methodReply, mkReply, opIdHeader, cidHeader]
example : ((process exPm (exReq [112] true) (.declared 2)).1.map fun r => (r.kind, r.exType)) = [(.exception, 6)] := by
  simp [process, exReq, exHdrs, exPm, ProcMap.add, ProcMap.find?, Hdrs.get?, methodReply, mkException, exInternalError,
    opIdHeader, cidHeader]

-- one connection: unknown method, then a failing handler, then a oneway call, then `ping`:
-- the last one is answered as if it were alone
example : (processConn exPm [(exReq [120] true, .other), (exReq [112] true, .appEx 9), (exReq [102] true, .success []),
      (exReq [112] true, .success [7])])[3]? = some (process exPm (exReq [112] true) (.success [7])) :=
  (c14_isolation_same_connection exPm
    [(exReq [120] true, .other), (exReq [112] true, .appEx 9), (exReq [102] true, .success [])] []
    (exReq [112] true, .success [7]) (by
      intro q hq
      refine ⟨exHdrs, [52, 50], ?_⟩
      simp only [List.mem_cons, List.not_mem_nil, or_false] at hq
      rcases hq with rfl | rfl | rfl <;>
        exact ⟨⟨rfl, by simp [exHdrs, Hdrs.get?], rfl⟩, by simp [exPm, exReq, ProcMap.add, ProcMap.find?]⟩)).1

/-- Two goroutines, replies of two and one chunks; a complete schedule, and one that the mutex
forbids (goroutine 1 writing while goroutine 0 holds the lock is not a run). -/
def exReply : Nat → List Bytes := fun g => if g = 0 then [[1, 2], [3]] else [[9]]
example : (run (Sys.init 2 exReply)
    [.lock 1, .writeChunk 1, .unlock 1, .lock 0, .writeChunk 0, .writeChunk 0, .unlock 0]).map (fun s => (s.out, s.fin)) =
    some ([9, 1, 2, 3], [1, 0]) := by
  simp [run, step, Sys.init, upd, exReply]
example : (run (Sys.init 2 exReply) [.lock 0, .writeChunk 0, .writeChunk 1]).isNone = true := by
  simp [run, step, Sys.init, upd, exReply]
example : (run (Sys.init 2 exReply) [.lock 0, .writeChunk 0, .lock 1]).isNone = true := by
  simp [run, step, Sys.init, upd, exReply]

/-! ### Between the socket and `Process`: framing and the accept loop -/

/-- The frames the server's framed reader recovers do not depend on how the byte stream reaches
it: for EVERY chunking (socket reads, 4096-byte refills of the bufio.Reader, one-byte dribble, a
cut inside a size prefix) the reader fed chunk by chunk yields exactly the frames — and the
unconsumed tail — of the whole stream. -/
theorem c14_frames_chunking_independent (maxLen : Nat) (chunks : List Bytes) :
    Chunked.feedAll maxLen (.pending []) chunks = Chunked.deframe maxLen chunks.flatten :=
  Chunked.frames_chunking_independent maxLen chunks

/-- … so k requests pipelined on a connection, each written as one frame, reach `Process` as
exactly those k frames in order, however the stream is cut, with nothing left over. -/
theorem c14_pipelined_frames_recovered (maxLen : Nat) (fs : List Bytes) (chunks : List Bytes)
    (hl : ∀ f ∈ fs, f.length ≤ maxLen ∧ f.length < 4294967296)
    (hc : chunks.flatten = Chunked.enframe fs) :
    Chunked.feedAll maxLen (.pending []) chunks = (fs, .pending []) := by
  rw [c14_frames_chunking_independent, hc]
  have := Chunked.deframe_enframe maxLen fs [] hl
  simpa [Chunked.deframe_nil] using this

/-- Two chunkings of the same stream give the same frames. -/
theorem c14_frames_same_for_all_chunkings (maxLen : Nat) (c₁ c₂ : List Bytes) (h : c₁.flatten = c₂.flatten) :
    Chunked.feedAll maxLen (.pending []) c₁ = Chunked.feedAll maxLen (.pending []) c₂ := by
  rw [c14_frames_chunking_independent, c14_frames_chunking_independent, h]

/-- "No request of any kind affects requests arriving on other connections", through the accept
loop: with one goroutine per accepted connection, after ANY schedule the state of connection i
(requests still to read, what was answered, whether its loop is still running) is its own
initial state stepped as often as it was scheduled — no other connection's requests enter. -/
theorem c14_connections_independent (pm : ProcMap) (conns : List (List (Request × HOutcome))) (sched : List Nat) (i : Nat) :
    (srvRun pm (conns.map ConnSt.init) sched)[i]? =
      (conns[i]?).map fun rs => iter (connStep pm) (sched.count i) (ConnSt.init rs) := by
  rw [srvRun_conn]; simp [List.getElem?_map, Option.map_map, Function.comp_def]

/-- … and once connection i has been scheduled often enough, what it was answered is
`processConn` of its own requests: the answer sequence it would have got as the only client. -/
theorem c14_connection_served_alone (pm : ProcMap) (conns : List (List (Request × HOutcome))) (sched : List Nat)
    (i : Nat) (rs : List (Request × HOutcome)) (hi : conns[i]? = some rs) (hn : rs.length ≤ sched.count i) :
    ((srvRun pm (conns.map ConnSt.init) sched)[i]?).map (·.out) = some (processConn pm rs) := by
  rw [c14_connections_independent, hi]
  simp [ConnSt.init, iter_conn pm rs [] _ hn]

-- non-vacuity: a stream of two frames cut inside the second size prefix
example : Chunked.feedAll 100 (.pending []) [[0, 0, 0, 2, 7, 8, 0, 0], [0], [1, 9]] = ([[7, 8], [9]], .pending []) :=
  c14_pipelined_frames_recovered 100 [[7, 8], [9]] _ (by simp) (by simp [Chunked.enframe, be32])
-- two connections, the second scheduled first: each is answered as if alone
example : ((srvRun exPm ([[(exReq [120] true, .other)], [(exReq [112] true, .success [7])]].map ConnSt.init) [1, 0, 1])[1]?).map (·.out) =
    some (processConn exPm [(exReq [112] true, .success [7])]) :=
  c14_connection_served_alone exPm _ [1, 0, 1] 1 _ rfl (by decide)

/-! ### Request-scoped state reachable through the FContext (ephemeral properties) -/

/-- What a handler reads back after setting its key is its OWN value, whatever the map held
before: the part of a reply that is built from ephemeral properties is built from the
request's own data. -/
theorem c14_eph_reads_own_value (st : Hdrs) (s : EphScript) :
    (ephRequest st s).1.back = some s.val := by
  simp [ephRequest, hdrs_get_set]

/-- A request that is the first on its protocol (every HTTP request, every NATS message, the
first request of a connection) finds no property: nothing of any other request is visible. -/
theorem c14_eph_fresh_per_protocol (s : EphScript) :
    (ephRequest [] s).1.entry = none ∧ (ephRequest [] s).1.count = 1 := by
  simp [ephRequest, Hdrs.get?, Hdrs.set]

/-- Across connections, for EVERY schedule of the per-connection goroutines: the properties a
connection's handlers see, and its map, are those of its own requests stepped as often as the
connection was scheduled — no other connection's requests enter. -/
theorem c14_eph_connections_independent (conns : List (List EphScript)) (sched : List Nat) (i : Nat) :
    (ephRun (conns.map EphConn.init) sched)[i]? =
      (conns[i]?).map fun c => iter ephStep (sched.count i) (EphConn.init c) := by
  unfold ephRun
  rw [modRun_conn]; simp [List.getElem?_map, Option.map_map, Function.comp_def]

/-- … and once scheduled often enough, what connection i's handlers saw is `ephProtocol` of its
own scripts from an empty map: exactly what they would see as the only client. -/
theorem c14_eph_connection_alone (conns : List (List EphScript)) (sched : List Nat) (i : Nat) (c : List EphScript)
    (hi : conns[i]? = some c) (hn : c.length ≤ sched.count i) :
    ((ephRun (conns.map EphConn.init) sched)[i]?).map (·.seen) = some (ephProtocol [] c).1 := by
  rw [c14_eph_connections_independent, hi]
  simp [EphConn.init, iter_eph c [] [] _ hn]

/-- What the code does WITHIN one connection (stated, not claimed as isolation): requests read
from the same FProtocol share its map, so a later request finds what an earlier one on that
connection left. -/
theorem c14_eph_shared_within_connection (s₁ s₂ : EphScript) (h : s₁.key = s₂.key) :
    ((ephProtocol [] [s₁, s₂]).1.map (·.entry)) = [none, some s₁.val] := by
  simp [ephProtocol, ephRequest, Hdrs.get?, Hdrs.set, h]

-- two connections using the same key, interleaved: each sees only its own values
example : ((ephRun ([[⟨[1], [10]⟩, ⟨[1], [11]⟩], [⟨[1], [20]⟩]].map EphConn.init) [0, 1, 0])[1]?).map (·.seen) =
    some [⟨none, some [20], 1⟩] :=
  c14_eph_connection_alone [[⟨[1], [10]⟩, ⟨[1], [11]⟩], [⟨[1], [20]⟩]] [0, 1, 0] 1 [⟨[1], [20]⟩] rfl (by decide)

/-! ### Panics of user-supplied code and the write mutex -/

/-- After ANY request — whatever its handler returns, and a panic of user code at ANY position
(arguments' Read, middleware before / after, handler, result's Write after any number of
writes) — the write mutex is free, and the request itself did not wait for it. -/
theorem c14_panic_leaves_no_lock_held (pm : ProcMap) (r : MuReq) :
    (serveOne .deferred pm false r).2 = false ∧ (serveOne .deferred pm false r).1 ≠ .blocked := by
  unfold serveOne
  cases r.panicAt with
  | none => simp
  | some p =>
    by_cases h1 : panicReached pm r p = true
    · by_cases h2 : p.underMutex = true <;> simp [h1, h2]
    · simp [h1]

/-- Serving from a free mutex is compositional. -/
theorem c14_serveAll_append (pm : ProcMap) (pre : List MuReq) (post : List MuReq) :
    serveAll .deferred pm false (pre ++ post) = serveAll .deferred pm false pre ++ serveAll .deferred pm false post := by
  induction pre with
  | nil => rfl
  | cons r t ih =>
    simp only [List.cons_append, serveAll, (c14_panic_leaves_no_lock_held pm r).1, ih]

/-- … hence after ANY history on ONE shared processor (other connections, other messages; outcomes ok,
error, panic at any position) a request that does not itself panic gets exactly the answer
`process` gives it alone. -/
theorem c14_after_any_outcome_next_is_answered (pm : ProcMap) (pre post : List MuReq) (r : MuReq)
    (hr : r.panicAt = none) :
    (serveAll .deferred pm false (pre ++ r :: post))[pre.length]? = some (.returned (process pm r.rq r.ho)) := by
  rw [c14_serveAll_append]
  have hl : (serveAll .deferred pm false pre).length = pre.length := by
    induction pre with
    | nil => rfl
    | cons a t ih => simp only [serveAll, (c14_panic_leaves_no_lock_held pm a).1, List.length_cons, ih]
  rw [List.getElem?_append_right (by omega), hl]
  simp [serveAll, serveOne, hr]

/-- Why the release must be deferred: with `Lock(); write; Unlock()` instead, ONE request whose
result panics while being written leaves the mutex locked and the next request waits for ever. -/
theorem c14_manual_unlock_would_wedge :
    serveAll .manual exPm false
      [⟨exReq [112] true, .success [1], some (.resultWrite 2)⟩, ⟨exReq [112] true, .success [2], none⟩] =
      [.panicked, .blocked] := by
  simp [serveAll, serveOne, panicReached, takesMutex, process, methodReply, mkReply, exReq, exHdrs, exPm,
    ProcMap.add, ProcMap.find?, Hdrs.get?, PanicPos.underMutex, opIdHeader, cidHeader]

-- non-vacuity: panics at every position followed by an ordinary request
example : (serveAll .deferred exPm false
      [⟨exReq [112] true, .success [1], some (.resultWrite 2)⟩, ⟨exReq [112] true, .other, some .handler⟩,
       ⟨exReq [112] true, .success [1], some .argsRead⟩, ⟨exReq [112] true, .success [2], none⟩])[3]? =
    some (.returned (process exPm (exReq [112] true) (.success [2]))) :=
  c14_after_any_outcome_next_is_answered exPm
    [⟨exReq [112] true, .success [1], some (.resultWrite 2)⟩, ⟨exReq [112] true, .other, some .handler⟩,
     ⟨exReq [112] true, .success [1], some .argsRead⟩] [] ⟨exReq [112] true, .success [2], none⟩ rfl

/-- **Lock discipline behind the model's atomic steps** (processor write mutex, NATS server send mutex), decided by the kernel on facts
REGENERATED from lib/go's source on every check (harness/locks → FV/Generated/Locks.lean): no function
calls, while it holds one of these mutexes, anything that (transitively) acquires the same mutex, no
lexical re-lock, and every path out of a function releases what the function locked. This is what makes a
critical section ONE step of the model and rules out the self-deadlocks (a second RLock behind a queued
writer, SendError under SendReply's lock) and leaked locks that would wedge every later request. -/
theorem c14_lock_discipline :
    FV.Locks.ok [5, 6] FV.Generated.Locks.mutexTags FV.Generated.Locks.facts = true := by decide +kernel

/-- What the decided discipline means for EVERY call path of lib/go's (resolved) call graph: a call made under
one of these mutexes never reaches, however deep, a function that acquires the same mutex
(`FV.Locks.closed_sound`: the mask table is closed under calls, so the number of rounds is not trusted). -/
theorem c14_no_nested_lock_on_any_call_path {fn : FV.Locks.Fn} (hfn : fn ∈ FV.Generated.Locks.facts)
    {m g h : Nat} (hheld : (m, g) ∈ fn.heldCalls)
    (hrel : FV.Locks.relevant [5, 6] FV.Generated.Locks.mutexTags m = true)
    (hr : FV.Locks.Reach FV.Generated.Locks.facts g h) {fnh : FV.Locks.Fn}
    (hh : FV.Generated.Locks.facts[h]? = some fnh) : m ∉ fnh.acquires :=
  FV.Locks.ok_no_nested_path _ _ _ c14_lock_discipline hfn hheld hrel hr hh

/-- **No goroutine of a loop shares an outer variable** (regenerated from lib/go on every check): no `go func(){…}()`
started inside a `for` body uses a variable that is declared outside the loop and assigned inside it. This is
what makes "one goroutine per accepted connection, each serving ITS connection" (the per-connection model
`FV.Proc.srvRun`, `c14_connections_independent`) a faithful reading of `acceptLoop`. -/
theorem c14_no_loop_shared_goroutine_variable : FV.Generated.Locks.loopShares = [] := by decide

/-- **Fields are written under their lock** (regenerated from lib/go on every check): no method writes a field
of a mutex-holding struct (the processor's shared state) while no mutex of that struct is write-held — by assignment, `++`, `delete` or an
atomic store — unless the site is one of the hand-classified set-up / single-owner sites of
`known/locks_unguarded_expected.txt`. The atomic-step models read and write such state in ONE critical section;
a value computed from a read under the lock and stored after it was released (a lazily filled cache) is a lost
update the models cannot exhibit and the race detector does not see. -/
theorem c14_fields_written_under_lock :
    FV.Locks.writesGuarded [5] FV.Generated.Locks.unguardedUnexpected = true := by decide +kernel

/-- **Locks held across calls are released by defer** (regenerated from lib/go on every check): no function calls
anything while it holds a mutex that only a hand-written `Unlock` releases, except the hand-classified callees that
cannot panic (`manual:` lines of `known/locks_unguarded_expected.txt`). The models release a mutex on EVERY exit of
a critical section, a panic included — the servers recover panics of user-supplied code and keep serving, so a
hand-released mutex would stay locked and every later request behind it would go unanswered. -/
theorem c14_locks_released_by_defer :
    FV.Locks.releasedByDefer [5] FV.Generated.Locks.manualUnexpected = true := by decide +kernel

end FV.C14
