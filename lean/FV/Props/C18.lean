/-
C18 — The IDL audit flags every breaking change and nothing else.

  "For every pair of IDL programs, the audit fails if and only if the new program contains at
  least one of the documented breaking changes relative to the old one (a removed or retyped
  field, argument, method, operation, service, scope or struct; a requiredness change; an added
  required field; a removed enum value; a changed scope prefix; a oneway or extends change; an
  exception-set change on a void method), at whatever position or nesting depth it occurs and
  through typedefs. Identical programs and the documented compatible edits (renames, added
  optional fields, renamed prefix variables, namespace or constant changes) always pass."

Model: `FV.Audit.audit` (`FV/Model/Audit.lean`, follows `compiler/parser/audit.go`).
Catalogue: `FV.Breaking.Breaking` and `FV.Breaking.Compatible` (`FV/Spec/Breaking.lean`),
written without reference to the model; the readings adopted are listed there.
Hypothesis `WF` (`FV/Model/Idl.lean`): unique names per kind, unique field ids, typedefs
acyclic (every type expands within the program's fuel), types resolve. Programs are single
files (no include-qualified typedef chains: known finding shared with C02).
-/
import FV.Model.Audit
import FV.Spec.Breaking
import FV.Proofs.Audit

namespace FV.C18
open FV.Idl FV.Audit FV.Breaking FV.AuditProofs

/-- The audit fails iff the new program contains a documented breaking change. -/
theorem c18_iff {old new : Prog} (ho : WF old) (hn : WF new) :
    (audit old new).any Finding.isError = true ↔ Breaking old new :=
  audit_iff ho hn

/-! Per checker (each checker of `audit.go` against its part of the catalogue). -/

theorem c18_iff_scopes {old new : Prog} (ho : WF old) (hn : WF new) :
    (checkScopes (Ctx.of old new) old.scopes new.scopes).any Finding.isError = true ↔
      ScopesBreaking old new := by
  have ro := wf_resolves ho
  have rn := wf_resolves hn
  obtain ⟨_, _, _, _, _, _, _, nsc, nops, _⟩ := hn
  exact checkScopes_iff nsc nops ro rn

theorem c18_iff_enums {old new : Prog} (hn : WF new) :
    (checkEnums old.enums new.enums).any Finding.isError = true ↔ EnumsBreaking old new := by
  obtain ⟨_, nen, nev, _⟩ := hn
  exact checkEnums_iff nen nev

theorem c18_iff_structs {old new : Prog} (ho : WF old) (hn : WF new) :
    ((checkStructLike (Ctx.of old new) (ofKind .struct old.structs) (ofKind .struct new.structs)
        ++ checkStructLike (Ctx.of old new) (ofKind .exception old.structs) (ofKind .exception new.structs)
        ++ checkStructLike (Ctx.of old new) (ofKind .union old.structs) (ofKind .union new.structs)).any
      Finding.isError = true) ↔ StructsBreaking old new := by
  have ro := wf_resolves ho
  have rn := wf_resolves hn
  obtain ⟨_, _, _, _, ofs, _⟩ := ho
  obtain ⟨_, _, _, nst, nfs, _⟩ := hn
  rw [List.any_append, List.any_append, Bool.or_eq_true, Bool.or_eq_true, or_assoc]
  exact structs_iff nst ofs nfs ro rn

theorem c18_iff_services {old new : Prog} (ho : WF old) (hn : WF new) :
    (checkServices (Ctx.of old new) old.services new.services).any Finding.isError = true ↔
      ServicesBreaking old new := by
  have ro := wf_resolves ho
  have rn := wf_resolves hn
  obtain ⟨_, _, _, _, _, _, osv, _⟩ := ho
  obtain ⟨_, _, _, _, _, nsv, nsv', _⟩ := hn
  exact checkServices_iff nsv (fun s hs => (nsv' s hs).1) (fun s hs => (osv s hs).2)
    (fun s hs => (nsv' s hs).2) ro rn

/-- Fields, arguments and `throws` lists (`checkFields`): ids, requiredness, removal, addition. -/
theorem c18_iff_fields {old new : Prog} {ofs nfs : List Field}
    (ho : fieldsWF ofs) (hn : fieldsWF nfs)
    (ro : ∀ f ∈ ofs, Resolves old f.ty) (rn : ∀ g ∈ nfs, Resolves new g.ty) :
    (checkFields (Ctx.of old new) ofs nfs).any Finding.isError = true ↔
      FieldsBreaking old new ofs nfs :=
  checkFields_iff ho hn ro rn

/-- `checkType` through `UnderlyingType` on both sides: a message iff the two types differ
after expanding all typedefs (old typedefs for the old type, new ones for the new type). -/
theorem c18_iff_types {old new : Prog} {a b : Ty} (ha : Resolves old a) (hb : Resolves new b) :
    (checkType (Ctx.of old new) false (some a) (some b)).any Finding.isError = true ↔
      TypeChanged old new a b :=
  checkType_some ha hb

/-- Any combination of the documented compatible edits passes. -/
theorem c18_compatible_edits {p p' : Prog} (hw : WF p) (hw' : WF p') (hc : Compatible p p') :
    (audit p p').any Finding.isError = false := by
  cases h : (audit p p').any Finding.isError
  · rfl
  · exact absurd ((c18_iff hw hw').mp h) (compatible_not_breaking hw hw' hc)

/-- Identical programs pass. -/
theorem c18_reflexive {p : Prog} (hw : WF p) : (audit p p).any Finding.isError = false :=
  c18_compatible_edits hw hw (compatible_refl hw)

/-! Some of the compatible edits as functions on programs. -/

/-- Namespace and constant changes (added, removed, changed in any way). -/
theorem c18_compatible_namespaces_constants {p : Prog} (ns : List Namespace) (cs : List Const)
    (hw : WF p) (hw' : WF { p with namespaces := ns, consts := cs }) :
    (audit p { p with namespaces := ns, consts := cs }).any Finding.isError = false :=
  c18_compatible_edits hw hw' (show Compatible p p from compatible_refl hw)

/-- Renaming struct/union/exception fields and changing their default values, anywhere at
once: any rewriting `h` of fields that keeps id, type and modifier. -/
theorem c18_compatible_rename_fields {p : Prog} (h : Field → Field)
    (hpres : ∀ f, (h f).id = f.id ∧ (h f).ty = f.ty ∧ (h f).mod = f.mod)
    (hw : WF p)
    (hw' : WF { p with structs := p.structs.map fun s => { s with fields := s.fields.map h } }) :
    (audit p { p with structs := p.structs.map fun s => { s with fields := s.fields.map h } }).any
      Finding.isError = false := by
  refine c18_compatible_edits hw hw' ?_
  obtain ⟨c1, c2, c3, _, c5⟩ := compatible_refl hw
  refine ⟨c1, c2, c3, fun s hs => ?_, c5⟩
  exact ⟨_, List.mem_map_of_mem hs, rfl, rfl, fieldsCompat_map h hpres⟩

/-- Adding a field that is not `required` (optional or default) to one struct. -/
theorem c18_compatible_add_field {p : Prog} (target : StructLike) (g : Field)
    (hg : g.mod ≠ .required) (hw : WF p)
    (hw' : WF { p with structs := p.structs.map fun s =>
                  if s = target then { s with fields := s.fields ++ [g] } else s }) :
    (audit p { p with structs := p.structs.map fun s =>
                  if s = target then { s with fields := s.fields ++ [g] } else s }).any
      Finding.isError = false := by
  refine c18_compatible_edits hw hw' ?_
  obtain ⟨c1, c2, c3, _, c5⟩ := compatible_refl hw
  refine ⟨c1, c2, c3, fun s hs => ⟨_, List.mem_map_of_mem hs, ?_⟩, c5⟩
  by_cases hst : s = target
  · simp only [hst, if_true, true_and]
    refine ⟨fun f hf => ⟨f, List.mem_append_left _ hf, rfl, rfl, Iff.rfl⟩, fun g' hg' hreq => ?_⟩
    rcases List.mem_append.mp hg' with h | h
    · exact ⟨g', h, rfl⟩
    · rw [List.mem_singleton.mp h] at hreq; exact absurd hreq hg
  · simp only [hst, if_false, true_and]
    exact fieldsCompat_refl _

/-- Adding a method to one service. -/
theorem c18_compatible_add_method {p : Prog} (target : Service) (m : Method) (hw : WF p)
    (hw' : WF { p with services := p.services.map fun s =>
                  if s = target then { s with methods := s.methods ++ [m] } else s }) :
    (audit p { p with services := p.services.map fun s =>
                  if s = target then { s with methods := s.methods ++ [m] } else s }).any
      Finding.isError = false := by
  refine c18_compatible_edits hw hw' ?_
  obtain ⟨c1, c2, c3, c4, _⟩ := compatible_refl hw
  refine ⟨c1, c2, c3, c4, fun s hs => ⟨_, List.mem_map_of_mem hs, ?_⟩⟩
  have mc : ∀ x : Method, MethodCompat x x :=
    fun x => ⟨rfl, rfl, fieldsCompat_refl _, fieldsCompat_refl _, fun _ h => h⟩
  by_cases hst : s = target
  · simp only [hst, if_true, true_and]
    exact ⟨Or.inr trivial, fun x hx => ⟨x, List.mem_append_left _ hx, rfl, mc x⟩⟩
  · simp only [hst, if_false, true_and]
    exact ⟨Or.inr trivial, fun x hx => ⟨x, hx, rfl, mc x⟩⟩

/-- Renaming prefix variables of every scope (`h` renames variables, keeps literals). -/
theorem c18_compatible_rename_prefix_variables {p : Prog} (h : Name → Name) (hw : WF p)
    (hw' : WF { p with scopes := p.scopes.map fun s => { s with pfx := s.pfx.map fun
                  | .var n => .var (h n)
                  | .lit t => .lit t } }) :
    (audit p { p with scopes := p.scopes.map fun s => { s with pfx := s.pfx.map fun
                  | .var n => .var (h n)
                  | .lit t => .lit t } }).any Finding.isError = false := by
  refine c18_compatible_edits hw hw' ?_
  obtain ⟨c1, _, c3, c4, c5⟩ := compatible_refl hw
  refine ⟨c1, fun s hs => ⟨_, List.mem_map_of_mem hs, rfl, ?_, fun o ho => ⟨o, ho, rfl, rfl⟩⟩, c3, c4, c5⟩
  generalize s.pfx = l
  induction l with
  | nil => trivial
  | cons a l ih => exact ⟨by cases a <;> simp [tokAgree], ih⟩

/-- A type change nested at any depth inside containers is reported by `checkType`
(induction over the one-hole context `c`; typedefs may occur anywhere on the way). -/
theorem c18_any_depth_types {old new : Prog} (c : TyCtx) {a b : Ty}
    (hra : Resolves old (c.plug a)) (hrb : Resolves new (c.plug b))
    (hab : ∃ x y, ResTo old.typedefs a x ∧ ResTo new.typedefs b y ∧ x ≠ y) :
    (checkType (Ctx.of old new) false (some (c.plug a)) (some (c.plug b))).any Finding.isError = true :=
  (checkType_some hra hrb).mpr (typeChanged_plug c hra hrb hab)

/-- …and makes the whole audit fail: a struct/union/exception field whose type changed at any
depth, in any struct, at any position. -/
theorem c18_any_depth {old new : Prog} (ho : WF old) (hn : WF new)
    {s s' : StructLike} {f g : Field} (hs : s ∈ old.structs) (hs' : s' ∈ new.structs)
    (hk : s'.kind = s.kind) (hname : s'.name = s.name)
    (hf : f ∈ s.fields) (hg : g ∈ s'.fields) (hid : g.id = f.id)
    (c : TyCtx) {a b : Ty} (hfa : f.ty = c.plug a) (hgb : g.ty = c.plug b)
    (hab : ∃ x y, ResTo old.typedefs a x ∧ ResTo new.typedefs b y ∧ x ≠ y) :
    (audit old new).any Finding.isError = true := by
  rw [c18_iff ho hn]
  refine Or.inr (Or.inr (Or.inl ⟨s, hs, Or.inr ⟨s', hs', hk, hname, Or.inl ⟨f, hf, g, hg, hid, Or.inl ?_⟩⟩⟩))
  rw [hfa, hgb]
  exact typeChanged_plug c (hfa ▸ wf_resolves ho _ (mem_allTys_field hs hf))
    (hgb ▸ wf_resolves hn _ (mem_allTys_field hs' hg)) hab

/-- The same for an argument of a method of a service. -/
theorem c18_any_depth_argument {old new : Prog} (ho : WF old) (hn : WF new)
    {s s' : Service} {m m' : Method} {f g : Field} (hs : s ∈ old.services) (hs' : s' ∈ new.services)
    (hname : s'.name = s.name) (hm : m ∈ s.methods) (hm' : m' ∈ s'.methods) (hmn : m'.name = m.name)
    (hf : f ∈ m.args) (hg : g ∈ m'.args) (hid : g.id = f.id)
    (c : TyCtx) {a b : Ty} (hfa : f.ty = c.plug a) (hgb : g.ty = c.plug b)
    (hab : ∃ x y, ResTo old.typedefs a x ∧ ResTo new.typedefs b y ∧ x ≠ y) :
    (audit old new).any Finding.isError = true := by
  rw [c18_iff ho hn]
  refine Or.inr (Or.inr (Or.inr ⟨s, hs, Or.inr ⟨s', hs', hname, Or.inr ⟨m, hm, Or.inr ⟨m', hm', hmn,
    Or.inr (Or.inr (Or.inl (Or.inl ⟨f, hf, g, hg, hid, Or.inl ?_⟩)))⟩⟩⟩⟩))
  rw [hfa, hgb]
  have mem_arg : ∀ (m : Method) f, f ∈ m.args → f.ty ∈ m.tys := by
    intro m f h; simp only [Method.tys, List.mem_append, List.mem_map]; exact Or.inl (Or.inr ⟨f, h, rfl⟩)
  exact typeChanged_plug c (hfa ▸ wf_resolves ho _ (mem_allTys_method hs hm (mem_arg m f hf)))
    (hgb ▸ wf_resolves hn _ (mem_allTys_method hs' hm' (mem_arg m' g hg))) hab

/-! ### Non-vacuity: the hypotheses are satisfiable by non-trivial programs -/

/-- typedef chain `Id → Key → i64`, nested containers, union, exception, service with
`extends`/oneway/throws, scope with a prefix. -/
def exOld : Prog where
  typedefs := [⟨"Key", .base "i64"⟩, ⟨"Id", .named "Key"⟩, ⟨"Index", .map (.named "Id") (.list (.named "Item"))⟩]
  enums := [⟨"Color", [⟨"RED", 0⟩, ⟨"GREEN", 2⟩]⟩]
  structs := [
    ⟨.struct, "Item", [⟨1, "id", .required, .named "Id", none⟩, ⟨2, "tags", .dflt, .set (.base "string"), none⟩,
                       ⟨5, "color", .optional, .named "Color", none⟩]⟩,
    ⟨.struct, "Box", [⟨1, "index", .dflt, .named "Index", none⟩,
                      ⟨2, "deep", .dflt, .list (.map (.base "string") (.set (.named "Id"))), none⟩]⟩,
    ⟨.union, "Either", [⟨1, "a", .optional, .base "i32", none⟩, ⟨2, "b", .optional, .named "Item", none⟩]⟩,
    ⟨.exception, "Oops", [⟨1, "code", .dflt, .base "i32", some "0"⟩]⟩]
  services := [
    ⟨"Base", none, [⟨"ping", true, none, [], []⟩]⟩,
    ⟨"Store", some "Base", [⟨"get", false, some (.named "Item"), [⟨1, "id", .dflt, .named "Id", none⟩],
                              [⟨1, "err", .optional, .named "Oops", none⟩]⟩,
                            ⟨"put", false, none, [⟨1, "item", .dflt, .named "Item", none⟩], []⟩]⟩]
  scopes := [⟨"Events", [.lit "v1", .var "tenant", .lit "items"], [⟨"Created", .named "Item"⟩]⟩]
  namespaces := [⟨"go", "store"⟩]
  consts := [⟨"MAX", .base "i32", "10"⟩]

example : WF exOld := by decide

/-- Compatible edits only: field renamed, default field added, prefix variable renamed,
method added, typedef spelled out (`Id` → `Key`), namespace changed. -/
def exCompat : Prog := { exOld with
  structs := [
    ⟨.struct, "Item", [⟨1, "ident", .required, .named "Key", none⟩, ⟨2, "tags", .dflt, .set (.base "string"), none⟩,
                       ⟨5, "color", .optional, .named "Color", none⟩, ⟨7, "note", .optional, .base "string", none⟩]⟩,
    ⟨.struct, "Box", [⟨1, "index", .dflt, .named "Index", none⟩,
                      ⟨2, "deep", .dflt, .list (.map (.base "string") (.set (.base "i64"))), none⟩]⟩,
    ⟨.union, "Either", [⟨1, "a", .optional, .base "i32", none⟩, ⟨2, "b", .optional, .named "Item", none⟩]⟩,
    ⟨.exception, "Oops", [⟨1, "code", .dflt, .base "i32", some "1"⟩]⟩]
  scopes := [⟨"Events", [.lit "v1", .var "customer", .lit "items"], [⟨"Created", .named "Item"⟩]⟩]
  namespaces := [⟨"go", "store2"⟩] }

example : WF exCompat := by decide
example : ¬ Breaking exOld exCompat := by decide
example : (audit exOld exCompat).any Finding.isError = false := by decide
/-- (the typedef-spelling edit is outside `Compatible`, which keeps types syntactically) -/
example : Compatible exOld { exCompat with structs := exOld.structs } := by decide

/-- One breaking edit three levels deep behind a typedef: `Key` becomes `i32`, which changes
`Box.deep : list<map<string, set<Id>>>` and everything else that mentions `Id` or `Key`. -/
def exBroken : Prog := { exOld with
  typedefs := [⟨"Key", .base "i32"⟩, ⟨"Id", .named "Key"⟩, ⟨"Index", .map (.named "Id") (.list (.named "Item"))⟩] }

example : WF exBroken := by decide
example : Breaking exOld exBroken := by decide
example : (audit exOld exBroken).any Finding.isError = true := by decide

/-- The hypotheses of `c18_any_depth` on that pair: context `list<map<string, set<□>>>`. -/
example : ∃ x y, ResTo exOld.typedefs (.named "Id") x ∧ ResTo exBroken.typedefs (.named "Id") y ∧ x ≠ y :=
  ⟨.base "i64", .base "i32", ⟨3, by decide⟩, ⟨3, by decide⟩, by decide⟩

example : (TyCtx.list (.mapVal (.base "string") (.set .hole))).plug (.named "Id")
    = .list (.map (.base "string") (.set (.named "Id"))) := rfl

end FV.C18
