/-
C18 — The IDL audit flags every breaking change and nothing else.

  "For every pair of IDL programs, the audit fails if and only if the new program contains at
  least one of the documented breaking changes relative to the old one (a removed or retyped
  field, argument, method, operation, service, scope or struct; a requiredness change; an added
  required field; a removed enum value; a changed scope prefix; a oneway or extends change; an
  exception-set change on a void method), at whatever position or nesting depth it occurs and
  through typedefs. Identical programs and the documented compatible edits (renames, added
  optional fields, renamed prefix variables, namespace or constant changes) always pass."

Model: `FV.Audit.audit` (`FV/Model/Audit.lean`, follows `compiler/parser/audit.go`).
Catalogue: `FV.Breaking.Breaking` and `FV.Breaking.Compatible` (`FV/Spec/Breaking.lean`),
written without reference to the model; the readings adopted are listed there.
Hypothesis `WF` (`FV/Model/Idl.lean`): unique names per kind, unique field ids, typedefs
acyclic (every type expands within the program's fuel), types resolve. Programs are single
files (no include-qualified typedef chains: known finding shared with C02).
-/
import FV.Model.Audit
import FV.Spec.Breaking
import FV.Proofs.Audit

namespace FV.C18
open FV.Idl FV.Audit FV.Breaking FV.AuditProofs

/-- The audit fails iff the new program contains a documented breaking change. -/
theorem c18_iff {old new : Prog} (ho : WF old) (hn : WF new) :
    (audit old new).any Finding.isError = true ↔ Breaking old new :=
  audit_iff ho hn

/-! Per checker (each checker of `audit.go` against its part of the catalogue). -/

theorem c18_iff_scopes {old new : Prog} (ho : WF old) (hn : WF new) :
    (checkScopes (Ctx.of old new) old.scopes new.scopes).any Finding.isError = true ↔
      ScopesBreaking old new := by
  have ro := wf_resolves ho
  have rn := wf_resolves hn
  obtain ⟨_, _, _, _, _, _, _, nsc, nops, _⟩ := hn
  exact checkScopes_iff nsc nops ro rn

theorem c18_iff_enums {old new : Prog} (hn : WF new) :
    (checkEnums old.enums new.enums).any Finding.isError = true ↔ EnumsBreaking old new := by
  obtain ⟨_, nen, nev, _⟩ := hn
  exact checkEnums_iff nen nev

theorem c18_iff_structs {old new : Prog} (ho : WF old) (hn : WF new) :
    ((checkStructLike (Ctx.of old new) (ofKind .struct old.structs) (ofKind .struct new.structs)
        ++ checkStructLike (Ctx.of old new) (ofKind .exception old.structs) (ofKind .exception new.structs)
        ++ checkStructLike (Ctx.of old new) (ofKind .union old.structs) (ofKind .union new.structs)).any
      Finding.isError = true) ↔ StructsBreaking old new := by
  have ro := wf_resolves ho
  have rn := wf_resolves hn
  obtain ⟨_, _, _, _, ofs, _⟩ := ho
  obtain ⟨_, _, _, nst, nfs, _⟩ := hn
  rw [List.any_append, List.any_append, Bool.or_eq_true, Bool.or_eq_true, or_assoc]
  exact structs_iff nst ofs nfs ro rn

theorem c18_iff_services {old new : Prog} (ho : WF old) (hn : WF new) :
    (checkServices (Ctx.of old new) old.services new.services).any Finding.isError = true ↔
      ServicesBreaking old new := by
  have ro := wf_resolves ho
  have rn := wf_resolves hn
  obtain ⟨_, _, _, _, _, _, osv, _⟩ := ho
  obtain ⟨_, _, _, _, _, nsv, nsv', _⟩ := hn
  exact checkServices_iff nsv (fun s hs => (nsv' s hs).1) (fun s hs => (osv s hs).2)
    (fun s hs => (nsv' s hs).2) ro rn

/-- Fields, arguments and `throws` lists (`checkFields`): ids, requiredness, removal, addition. -/
theorem c18_iff_fields {old new : Prog} {ofs nfs : List Field}
    (ho : fieldsWF ofs) (hn : fieldsWF nfs)
    (ro : ∀ f ∈ ofs, Resolves old f.ty) (rn : ∀ g ∈ nfs, Resolves new g.ty) :
    (checkFields (Ctx.of old new) ofs nfs).any Finding.isError = true ↔
      FieldsBreaking old new ofs nfs :=
  checkFields_iff ho hn ro rn

/-- `checkType` through `UnderlyingType` on both sides: a message iff the two types differ
after expanding all typedefs (old typedefs for the old type, new ones for the new type). -/
theorem c18_iff_types {old new : Prog} {a b : Ty} (ha : Resolves old a) (hb : Resolves new b) :
    (checkType (Ctx.of old new) false (some a) (some b)).any Finding.isError = true ↔
      TypeChanged old new a b :=
  checkType_some ha hb

/-- Any combination of the documented compatible edits passes. -/
theorem c18_compatible_edits {p p' : Prog} (hw : WF p) (hw' : WF p') (hc : Compatible p p') :
    (audit p p').any Finding.isError = false := by
  cases h : (audit p p').any Finding.isError
  · rfl
  · exact absurd ((c18_iff hw hw').mp h) (compatible_not_breaking hw hw' hc)

/-- Identical programs pass. -/
theorem c18_reflexive {p : Prog} (hw : WF p) : (audit p p).any Finding.isError = false :=
  c18_compatible_edits hw hw (compatible_refl hw)

/-! Some of the compatible edits as functions on programs. -/

/-- Namespace and constant changes (added, removed, changed in any way). -/
theorem c18_compatible_namespaces_constants {p : Prog} (ns : List Namespace) (cs : List Const)
    (hw : WF p) (hw' : WF { p with namespaces := ns, consts := cs }) :
    (audit p { p with namespaces := ns, consts := cs }).any Finding.isError = false :=
  c18_compatible_edits hw hw' (show Compatible p p from compatible_refl hw)

/-- Renaming struct/union/exception fields and changing their default values, anywhere at
once: any rewriting `h` of fields that keeps id, type and modifier. -/
theorem c18_compatible_rename_fields {p : Prog} (h : Field → Field)
    (hpres : ∀ f, (h f).id = f.id ∧ (h f).ty = f.ty ∧ (h f).mod = f.mod)
    (hw : WF p)
    (hw' : WF { p with structs := p.structs.map fun s => { s with fields := s.fields.map h } }) :
    (audit p { p with structs := p.structs.map fun s => { s with fields := s.fields.map h } }).any
      Finding.isError = false := by
  refine c18_compatible_edits hw hw' ?_
  obtain ⟨c0, c1, c2, c3, _, c5⟩ := compatible_refl hw
  refine ⟨c0, c1, c2, c3, fun s hs => ?_, c5⟩
  exact ⟨_, List.mem_map_of_mem hs, rfl, rfl, fieldsCompat_map h hpres⟩

/-- Adding a field that is not `required` (optional or default) to one struct. -/
theorem c18_compatible_add_field {p : Prog} (target : StructLike) (g : Field)
    (hg : g.mod ≠ .required) (hw : WF p)
    (hw' : WF { p with structs := p.structs.map fun s =>
                  if s = target then { s with fields := s.fields ++ [g] } else s }) :
    (audit p { p with structs := p.structs.map fun s =>
                  if s = target then { s with fields := s.fields ++ [g] } else s }).any
      Finding.isError = false := by
  refine c18_compatible_edits hw hw' ?_
  obtain ⟨c0, c1, c2, c3, _, c5⟩ := compatible_refl hw
  refine ⟨c0, c1, c2, c3, fun s hs => ⟨_, List.mem_map_of_mem hs, ?_⟩, c5⟩
  by_cases hst : s = target
  · simp only [hst, if_true, true_and]
    refine ⟨fun f hf => ⟨f, List.mem_append_left _ hf, rfl, rfl, Iff.rfl⟩, fun g' hg' hreq => ?_⟩
    rcases List.mem_append.mp hg' with h | h
    · exact ⟨g', h, rfl⟩
    · rw [List.mem_singleton.mp h] at hreq; exact absurd hreq hg
  · simp only [hst, if_false, true_and]
    exact fieldsCompat_refl _

/-- Adding a method to one service. -/
theorem c18_compatible_add_method {p : Prog} (target : Service) (m : Method) (hw : WF p)
    (hw' : WF { p with services := p.services.map fun s =>
                  if s = target then { s with methods := s.methods ++ [m] } else s }) :
    (audit p { p with services := p.services.map fun s =>
                  if s = target then { s with methods := s.methods ++ [m] } else s }).any
      Finding.isError = false := by
  refine c18_compatible_edits hw hw' ?_
  obtain ⟨c0, c1, c2, c3, c4, _⟩ := compatible_refl hw
  refine ⟨c0, c1, c2, c3, c4, fun s hs => ⟨_, List.mem_map_of_mem hs, ?_⟩⟩
  have mc : ∀ x : Method, MethodCompat x x :=
    fun x => ⟨rfl, rfl, fieldsCompat_refl _, fieldsCompat_refl _, fun _ h => h⟩
  by_cases hst : s = target
  · simp only [hst, if_true, true_and]
    exact ⟨Or.inr trivial, fun x hx => ⟨x, List.mem_append_left _ hx, rfl, mc x⟩⟩
  · simp only [hst, if_false, true_and]
    exact ⟨Or.inr trivial, fun x hx => ⟨x, hx, rfl, mc x⟩⟩

/-- Renaming prefix variables of every scope (`h` renames variables, keeps literals). -/
theorem c18_compatible_rename_prefix_variables {p : Prog} (h : Name → Name) (hw : WF p)
    (hw' : WF { p with scopes := p.scopes.map fun s => { s with pfx := s.pfx.map fun
                  | .var n => .var (h n)
                  | .lit t => .lit t } }) :
    (audit p { p with scopes := p.scopes.map fun s => { s with pfx := s.pfx.map fun
                  | .var n => .var (h n)
                  | .lit t => .lit t } }).any Finding.isError = false := by
  refine c18_compatible_edits hw hw' ?_
  obtain ⟨c0, c1, _, c3, c4, c5⟩ := compatible_refl hw
  refine ⟨c0, c1, fun s hs => ⟨_, List.mem_map_of_mem hs, rfl, ?_, fun o ho => ⟨o, ho, rfl, rfl⟩⟩, c3, c4, c5⟩
  generalize s.pfx = l
  induction l with
  | nil => trivial
  | cons a l ih => exact ⟨by cases a <;> simp [tokAgree], ih⟩

/-- A type change nested at any depth inside containers is reported by `checkType`
(induction over the one-hole context `c`; typedefs may occur anywhere on the way). -/
theorem c18_any_depth_types {old new : Prog} (c : TyCtx) {a b : Ty}
    (hra : Resolves old (c.plug a)) (hrb : Resolves new (c.plug b))
    (hab : ∃ x y, ResTo old.env a x ∧ ResTo new.env b y ∧ x ≠ y) :
    (checkType (Ctx.of old new) false (some (c.plug a)) (some (c.plug b))).any Finding.isError = true :=
  (checkType_some hra hrb).mpr (typeChanged_plug c hra hrb hab)

/-- …and makes the whole audit fail: a struct/union/exception field whose type changed at any
depth, in any struct, at any position. -/
theorem c18_any_depth {old new : Prog} (ho : WF old) (hn : WF new)
    {s s' : StructLike} {f g : Field} (hs : s ∈ old.structs) (hs' : s' ∈ new.structs)
    (hk : s'.kind = s.kind) (hname : s'.name = s.name)
    (hf : f ∈ s.fields) (hg : g ∈ s'.fields) (hid : g.id = f.id)
    (c : TyCtx) {a b : Ty} (hfa : f.ty = c.plug a) (hgb : g.ty = c.plug b)
    (hab : ∃ x y, ResTo old.env a x ∧ ResTo new.env b y ∧ x ≠ y) :
    (audit old new).any Finding.isError = true := by
  rw [c18_iff ho hn]
  refine Or.inr (Or.inr (Or.inl ⟨s, hs, Or.inr ⟨s', hs', hk, hname, Or.inl ⟨f, hf, g, hg, hid, Or.inl ?_⟩⟩⟩))
  rw [hfa, hgb]
  exact typeChanged_plug c (hfa ▸ wf_resolves ho _ (mem_allTys_field hs hf))
    (hgb ▸ wf_resolves hn _ (mem_allTys_field hs' hg)) hab

/-- The same for an argument of a method of a service. -/
theorem c18_any_depth_argument {old new : Prog} (ho : WF old) (hn : WF new)
    {s s' : Service} {m m' : Method} {f g : Field} (hs : s ∈ old.services) (hs' : s' ∈ new.services)
    (hname : s'.name = s.name) (hm : m ∈ s.methods) (hm' : m' ∈ s'.methods) (hmn : m'.name = m.name)
    (hf : f ∈ m.args) (hg : g ∈ m'.args) (hid : g.id = f.id)
    (c : TyCtx) {a b : Ty} (hfa : f.ty = c.plug a) (hgb : g.ty = c.plug b)
    (hab : ∃ x y, ResTo old.env a x ∧ ResTo new.env b y ∧ x ≠ y) :
    (audit old new).any Finding.isError = true := by
  rw [c18_iff ho hn]
  refine Or.inr (Or.inr (Or.inr ⟨s, hs, Or.inr ⟨s', hs', hname, Or.inr ⟨m, hm, Or.inr ⟨m', hm', hmn,
    Or.inr (Or.inr (Or.inl (Or.inl ⟨f, hf, g, hg, hid, Or.inl ?_⟩)))⟩⟩⟩⟩))
  rw [hfa, hgb]
  have mem_arg : ∀ (m : Method) f, f ∈ m.args → f.ty ∈ m.tys := by
    intro m f h; simp only [Method.tys, List.mem_append, List.mem_map]; exact Or.inl (Or.inr ⟨f, h, rfl⟩)
  exact typeChanged_plug c (hfa ▸ wf_resolves ho _ (mem_allTys_method hs hm (mem_arg m f hf)))
    (hgb ▸ wf_resolves hn _ (mem_allTys_method hs' hm' (mem_arg m' g hg))) hab

/-! ### Includes: `inc.n` is resolved in the included file only -/

/-- What a qualified name `inc.n` denotes does not depend on the typedefs of the file that uses
it — in particular not on a local typedef that happens to be called `n` too. -/
theorem c18_qualified_ignores_local_typedefs (incs : List IncFile) (tds tds' : List Typedef)
    (i n : Name) (f : Nat) {b : Ty} (hb : (TEnv.mk tds incs).inInc i n = some b)
    (hfree : b.nameFree = true) :
    resolve? ⟨tds, incs⟩ (f + 1) (.qual i n) = resolve? ⟨tds', incs⟩ (f + 1) (.qual i n) := by
  have hb' : (TEnv.mk tds' incs).inInc i n = some b := hb
  simp only [resolve?, hb, hb']
  exact resolve?_nameFree hfree

/-- `checkType` on a qualified typedef: a change of the included file's typedef body is seen,
whatever local declarations are called. -/
theorem c18_iff_types_qualified {old new : Prog} {i n j m : Name}
    (ha : Resolves old (.qual i n)) (hb : Resolves new (.qual j m)) :
    (checkType (Ctx.of old new) false (some (.qual i n)) (some (.qual j m))).any Finding.isError = true ↔
      TypeChanged old new (.qual i n) (.qual j m) :=
  checkType_some ha hb

/-! ### Every position is judged on its own (no masking) -/

/-- The verdict is the OR over the checkers; namespaces and constants never contribute. -/
theorem c18_verdict_or (c : Ctx) (old new : Prog) :
    (auditWith c old new).any Finding.isError =
      ((checkScopes c old.scopes new.scopes).any Finding.isError
        || (checkEnums old.enums new.enums).any Finding.isError
        || (checkStructLike c (ofKind .struct old.structs) (ofKind .struct new.structs)).any Finding.isError
        || (checkStructLike c (ofKind .exception old.structs) (ofKind .exception new.structs)).any Finding.isError
        || (checkStructLike c (ofKind .union old.structs) (ofKind .union new.structs)).any Finding.isError
        || (checkServices c old.services new.services).any Finding.isError) := by
  simp [auditWith, List.any_append, checkNamespaces_ok, checkConstants_ok, Bool.or_assoc]

/-- Constants (and namespaces) cannot hide or cause an error: for the same comparison context
the verdict is the same whatever the constants of the two programs are — in particular a
constant whose type changed in the very same way as a field (a warning, logged first) leaves
the error of that field in place. -/
theorem c18_constants_never_mask (c : Ctx) (old new : Prog)
    (cs cs' : List Const) (ns ns' : List Namespace) :
    (auditWith c { old with consts := cs, namespaces := ns } { new with consts := cs', namespaces := ns' }).any
        Finding.isError
      = (auditWith c old new).any Finding.isError := by
  rw [c18_verdict_or, c18_verdict_or]

/-- Within a list of findings, an error stays an error whatever else is logged before or after. -/
theorem c18_error_survives (pre post : List Finding) (k : Kind) :
    (pre ++ [Finding.error k] ++ post).any Finding.isError = true := by
  simp [Finding.isError]

/-- A retyped struct field is an error of the audit whatever the rest of the two programs
does (constants with the same change, other fields with the same pair of spellings, other
errors and warnings): only the field's own pair of types matters. -/
theorem c18_retyped_field_not_masked {old new : Prog} (ho : WF old) (hn : WF new)
    {s s' : StructLike} {f g : Field} (hs : s ∈ old.structs) (hs' : s' ∈ new.structs)
    (hk : s'.kind = s.kind) (hname : s'.name = s.name)
    (hf : f ∈ s.fields) (hg : g ∈ s'.fields) (hid : g.id = f.id)
    (hch : TypeChanged old new f.ty g.ty) :
    (audit old new).any Finding.isError = true := by
  rw [c18_iff ho hn]
  exact Or.inr (Or.inr (Or.inl ⟨s, hs, Or.inr ⟨s', hs', hk, hname, Or.inl ⟨f, hf, g, hg, hid, Or.inl hch⟩⟩⟩))

/-! ### The command line: `frugal -audit old f1 … fk` -/

/-- The exit status is the OR of the per-file verdicts. -/
theorem c18_cli_or (old : Prog) (fs : List Prog) :
    cliAudit old fs = true ↔ ∃ f ∈ fs, (audit old f).any Finding.isError = true := by
  unfold cliAudit
  induction fs with
  | nil => simp [cliLoop]
  | cons f fs ih =>
    simp only [cliLoop, Bool.false_or, List.mem_cons, exists_eq_or_imp, auditFails]
    cases h : (audit old f).any Finding.isError
    · simpa [auditFails] using ih
    · simp

/-- …hence: exit status ≠ 0 iff at least one of the files breaks against `old`. -/
theorem c18_cli_iff {old : Prog} {fs : List Prog} (ho : WF old) (hn : ∀ f ∈ fs, WF f) :
    cliAudit old fs = true ↔ ∃ f ∈ fs, Breaking old f := by
  rw [c18_cli_or]
  exact ⟨fun ⟨f, hf, h⟩ => ⟨f, hf, (c18_iff ho (hn f hf)).mp h⟩,
    fun ⟨f, hf, h⟩ => ⟨f, hf, (c18_iff ho (hn f hf)).mpr h⟩⟩

/-- The file the failure names is the first breaking one. -/
theorem c18_cli_first {old : Prog} {fs : List Prog} {k : Nat}
    (h : cliFirstFailing old fs = some k) :
    ∃ f, fs[k]? = some f ∧ (audit old f).any Finding.isError = true ∧
      ∀ j, j < k → ∀ g, fs[j]? = some g → (audit old g).any Finding.isError = false := by
  unfold cliFirstFailing at h
  rw [List.findIdx?_eq_some_iff_getElem] at h
  obtain ⟨hk, hp, hlt⟩ := h
  refine ⟨fs[k], by simp [hk], by simpa [auditFails] using hp, fun j hj g hg => ?_⟩
  have hj' : j < fs.length := Nat.lt_trans hj hk
  have := hlt j hj
  rw [List.getElem?_eq_getElem hj'] at hg
  cases hg
  simpa [auditFails] using this

/-! ### Non-vacuity: the hypotheses are satisfiable by non-trivial programs -/

/-- typedef chain `Id → Key → i64`, nested containers, union, exception, service with
`extends`/oneway/throws, scope with a prefix. -/
def exOld : Prog where
  typedefs := [⟨"Key", .base "i64"⟩, ⟨"Id", .named "Key"⟩, ⟨"Index", .map (.named "Id") (.list (.named "Item"))⟩]
  enums := [⟨"Color", [⟨"RED", 0⟩, ⟨"GREEN", 2⟩]⟩]
  structs := [
    ⟨.struct, "Item", [⟨1, "id", .required, .named "Id", none⟩, ⟨2, "tags", .dflt, .set (.base "string"), none⟩,
                       ⟨5, "color", .optional, .named "Color", none⟩]⟩,
    ⟨.struct, "Box", [⟨1, "index", .dflt, .named "Index", none⟩,
                      ⟨2, "deep", .dflt, .list (.map (.base "string") (.set (.named "Id"))), none⟩]⟩,
    ⟨.union, "Either", [⟨1, "a", .optional, .base "i32", none⟩, ⟨2, "b", .optional, .named "Item", none⟩]⟩,
    ⟨.exception, "Oops", [⟨1, "code", .dflt, .base "i32", some "0"⟩]⟩]
  services := [
    ⟨"Base", none, [⟨"ping", true, none, [], []⟩]⟩,
    ⟨"Store", some "Base", [⟨"get", false, some (.named "Item"), [⟨1, "id", .dflt, .named "Id", none⟩],
                              [⟨1, "err", .optional, .named "Oops", none⟩]⟩,
                            ⟨"put", false, none, [⟨1, "item", .dflt, .named "Item", none⟩], []⟩]⟩]
  scopes := [⟨"Events", [.lit "v1", .var "tenant", .lit "items"], [⟨"Created", .named "Item"⟩]⟩]
  namespaces := [⟨"go", "store"⟩]
  consts := [⟨"MAX", .base "i32", "10"⟩]

example : WF exOld := by decide

/-- Compatible edits only: field renamed, default field added, prefix variable renamed,
method added, typedef spelled out (`Id` → `Key`), namespace changed. -/
def exCompat : Prog := { exOld with
  structs := [
    ⟨.struct, "Item", [⟨1, "ident", .required, .named "Key", none⟩, ⟨2, "tags", .dflt, .set (.base "string"), none⟩,
                       ⟨5, "color", .optional, .named "Color", none⟩, ⟨7, "note", .optional, .base "string", none⟩]⟩,
    ⟨.struct, "Box", [⟨1, "index", .dflt, .named "Index", none⟩,
                      ⟨2, "deep", .dflt, .list (.map (.base "string") (.set (.base "i64"))), none⟩]⟩,
    ⟨.union, "Either", [⟨1, "a", .optional, .base "i32", none⟩, ⟨2, "b", .optional, .named "Item", none⟩]⟩,
    ⟨.exception, "Oops", [⟨1, "code", .dflt, .base "i32", some "1"⟩]⟩]
  scopes := [⟨"Events", [.lit "v1", .var "customer", .lit "items"], [⟨"Created", .named "Item"⟩]⟩]
  namespaces := [⟨"go", "store2"⟩] }

example : WF exCompat := by decide
example : ¬ Breaking exOld exCompat := by decide
example : (audit exOld exCompat).any Finding.isError = false := by decide
/-- (the typedef-spelling edit is outside `Compatible`, which keeps types syntactically) -/
example : Compatible exOld { exCompat with structs := exOld.structs } := by decide

/-- One breaking edit three levels deep behind a typedef: `Key` becomes `i32`, which changes
`Box.deep : list<map<string, set<Id>>>` and everything else that mentions `Id` or `Key`. -/
def exBroken : Prog := { exOld with
  typedefs := [⟨"Key", .base "i32"⟩, ⟨"Id", .named "Key"⟩, ⟨"Index", .map (.named "Id") (.list (.named "Item"))⟩] }

example : WF exBroken := by decide
example : Breaking exOld exBroken := by decide
example : (audit exOld exBroken).any Finding.isError = true := by decide

/-- The hypotheses of `c18_any_depth` on that pair: context `list<map<string, set<□>>>`. -/
example : ∃ x y, ResTo exOld.env (.named "Id") x ∧ ResTo exBroken.env (.named "Id") y ∧ x ≠ y :=
  ⟨.base "i64", .base "i32", ⟨3, by decide⟩, ⟨3, by decide⟩, by decide⟩

example : (TyCtx.list (.mapVal (.base "string") (.set .hole))).plug (.named "Id")
    = .list (.map (.base "string") (.set (.named "Id"))) := rfl

/-! Includes with a name collision: the file and its include `base` both declare `ID`
(and a struct `Rec`); `owner` is a `base.ID`, `label` a local `ID`. -/
def exBase (idBody : Ty) : IncFile :=
  { name := "base", typedefs := [⟨"ID", idBody⟩, ⟨"Ids", .list (.base "i64")⟩], decls := ["Rec"] }

def exInc (owner label : Ty) (idBody : Ty) : Prog where
  typedefs := [⟨"ID", .base "string"⟩, ⟨"Mine", .qual "base" "ID"⟩]
  structs := [⟨.struct, "Rec", [⟨1, "owner", .dflt, owner, none⟩, ⟨2, "label", .dflt, label, none⟩,
                                ⟨3, "peers", .dflt, .map (.named "Mine") (.qual "base" "Rec"), none⟩]⟩]
  includes := [exBase idBody]

example : WF (exInc (.qual "base" "ID") (.named "ID") (.base "i64")) := by decide
/-- `base.ID` (i64) replaced by the local `ID` (string): breaking, and reported. -/
example : Breaking (exInc (.qual "base" "ID") (.named "ID") (.base "i64"))
    (exInc (.named "ID") (.named "ID") (.base "i64")) := by decide
example : (audit (exInc (.qual "base" "ID") (.named "ID") (.base "i64"))
    (exInc (.named "ID") (.named "ID") (.base "i64"))).any Finding.isError = true := by decide
/-- the included file's `ID` changes behind the qualified name (and behind the local `Mine`). -/
example : (audit (exInc (.qual "base" "ID") (.named "ID") (.base "i64"))
    (exInc (.qual "base" "ID") (.named "ID") (.base "i32"))).any Finding.isError = true := by decide
/-- `base.ID` spelled out as `i64`, `ID` as `string`: compatible. -/
example : (audit (exInc (.qual "base" "ID") (.named "ID") (.base "i64"))
    (exInc (.base "i64") (.base "string") (.base "i64"))).any Finding.isError = false := by decide

/-- Command line: a breaking file between two harmless ones. -/
example : cliAudit exOld [exCompat, exBroken, exOld] = true ∧
    cliFirstFailing exOld [exCompat, exBroken, exOld] = some 1 ∧
    cliAudit exOld [exCompat, exOld] = false := by decide

/-- The same change `i32 → i64` at a constant (a warning, checked first) and at a field. -/
def exMask (t : Ty) : Prog where
  consts := [⟨"LIMIT", t, "5"⟩, ⟨"TABLE", .map (.base "string") t, "{}"⟩]
  structs := [⟨.struct, "Row", [⟨1, "n", .dflt, t, none⟩, ⟨2, "deep", .dflt, .list (.map (.base "string") (.set t)), none⟩]⟩]

example : WF (exMask (.base "i32")) ∧ WF (exMask (.base "i64")) := by decide
example : (audit (exMask (.base "i32")) (exMask (.base "i64"))).any Finding.isError = true := by decide
example : audit (exMask (.base "i32")) (exMask (.base "i64"))
    = [.warning .type, .warning .type, .error .type, .error .type] := by decide

/-! ### Known finding (KNOWN_FINDINGS.txt `include-typedef-second-hop`, shared with C02/C11)

A typedef chain whose second hop lies inside the included file: `base` declares
`typedef i64 id; typedef id userId`, the file uses `base.userId`. Read in its own file the body
`id` is `base.id`; the code (and so the model) looks `id` up in the including file. The pair
below differs only in `base.id` (i64 → i32): the field's type changed, the audit passes. Such
programs are outside `WF` (last clause), which is exactly where `c18_iff` stops. -/
def exHop (idBody : Ty) : Prog where
  structs := [⟨.struct, "M", [⟨1, "u", .dflt, .qual "base" "userId", none⟩]⟩]
  includes := [{ name := "base", typedefs := [⟨"id", idBody⟩, ⟨"userId", .named "id"⟩] }]

theorem c18_iff_counterexample :
    -- the field's type, read across the files, changed …
    resolveAcross? (exHop (.base "i64")).env 5 (.qual "base" "userId")
      ≠ resolveAcross? (exHop (.base "i32")).env 5 (.qual "base" "userId")
    -- … the audit passes …
    ∧ (audit (exHop (.base "i64")) (exHop (.base "i32"))).any Finding.isError = false
    -- … and the programs are not in the fragment of `c18_iff`.
    ∧ ¬ WF (exHop (.base "i64")) := by decide

/-- On the well-formed fragment both readings of an included typedef agree (bodies without
names are not touched by re-qualification). -/
theorem c18_requal_nameFree (i : Name) : ∀ t : Ty, t.nameFree = true → t.requal i = t := by
  intro t
  induction t with
  | base n => intro _; rfl
  | named n => intro h; simp [Ty.nameFree] at h
  | qual j n => intro h; simp [Ty.nameFree] at h
  | list x ih => intro h; simp only [Ty.requal]; rw [ih (by simpa [Ty.nameFree] using h)]
  | set x ih => intro h; simp only [Ty.requal]; rw [ih (by simpa [Ty.nameFree] using h)]
  | map k v ihk ihv =>
    intro h
    simp only [Ty.nameFree, Bool.and_eq_true] at h
    simp only [Ty.requal]; rw [ihk h.1, ihv h.2]

end FV.C18
