import FV.Model.Audit
import FV.Spec.Breaking
namespace FV.C18
open FV.Idl FV.Audit FV.Breaking

theorem c18_placeholder : audit {} {} = [] := by decide
end FV.C18
