/-
C09 — The request context travels with the call and back.

  "For every set of user request headers, correlation id and timeout placed on an
  FContext, the server-side handler (or subscriber callback) observes exactly those
  user headers, correlation id and timeout, and every response header the handler
  sets is visible on the caller's FContext when the call returns. The response
  carries the request's op id and correlation id, and the context given to the
  handler carries a fresh op id so it can be used for onward calls without
  colliding."

Setting of every theorem (all THROUGH the wire, composed with C04's round trips):

* the caller's context is `callerCtx cid opid U ms` = `NewFContext(cid)` (op id `opid`
  from the counter; `cid` is the correlation id the context holds, i.e. after an empty
  argument was replaced by a generated id), `AddRequestHeader` for every pair of `U`,
  `SetTimeout(ms · 1ms)`;
* `U` is any list of user headers with distinct names, none of them reserved
  (`UserOK U`: `_opid`, `_cid`, `_timeout` excluded — H of the design);
* `WriteRequestHeader` writes `marshal w` for SOME iteration order `w` of the request
  map (`w.Perm (callerCtx …).req`: every order Go's map iteration can produce), followed
  by any payload `p` (the Thrift message);
* the server runs `ReadRequestHeader` on these bytes with its op id counter at `ctr`;
* the handler sets any response headers `R`; `WriteResponseHeader` writes `marshal w'`
  for some order `w'` of the handler context's response map, followed by a payload `p'`;
* the caller runs `ReadResponseHeader` into its context (whose response headers before
  the call are arbitrary: `prior` — a propagated context already holds an `_opid`).

Size hypothesis (`C04.Small`): a header block fits the code's int32 arithmetic.
Timeouts: whole milliseconds `0 ≤ ms ≤ 9223372036854` (every non-negative whole-ms
`time.Duration`); sub-millisecond parts are truncated by `SetTimeout` (excluded region).
-/
import FV.Model.Context
import FV.Props.C04
import FV.Proofs.Headers
import FV.Proofs.Context
import FV.Proofs.ContextOnward

namespace FV.C09
open FV FV.C04

/-- User headers: distinct names, none reserved. -/
def UserOK (U : Hdrs) : Prop :=
  U.keys.Nodup ∧ opIdHeader ∉ U.keys ∧ cidHeader ∉ U.keys ∧ timeoutHeader ∉ U.keys

/-- Whole-millisecond timeouts representable as a non-negative `time.Duration`. -/
def WholeMs (ms : Int) : Prop := 0 ≤ ms ∧ ms ≤ 9223372036854

/-- The caller's context. -/
def callerCtx (cid : Bytes) (opid : Nat) (U : Hdrs) (ms : Int) : Ctx := clientCtx cid opid U (ms * 1000000) []

/-- The handler's view of the request: user headers, `_cid`, `_timeout`, and its own fresh `_opid`. -/
def handlerView (cid : Bytes) (fresh : Nat) (U : Hdrs) (ms : Int) : Hdrs :=
  (opIdHeader, natDigits fresh) :: (cidHeader, cid) :: (timeoutHeader, formatInt ms) :: U

private theorem callerCtx_req (cid : Bytes) (opid : Nat) (U : Hdrs) (ms : Int) (hU : UserOK U) :
    (callerCtx cid opid U ms).req =
      (cidHeader, cid) :: (opIdHeader, natDigits opid) :: (timeoutHeader, formatInt ms) :: U := by
  unfold callerCtx
  rw [clientCtx_req cid opid U _ hU.1 hU.2.1 hU.2.2.1 hU.2.2.2, encodeTimeout_whole]

private theorem callerCtx_nodup (cid : Bytes) (opid : Nat) (U : Hdrs) (ms : Int) (hU : UserOK U) :
    (callerCtx cid opid U ms).req.keys.Nodup := by
  rw [callerCtx_req cid opid U ms hU]
  obtain ⟨h0, h1, h2, h3⟩ := hU
  simp only [Hdrs.keys, List.map_cons, List.nodup_cons, List.mem_cons, not_or]
  simp only [Hdrs.keys] at h0 h1 h2 h3
  exact ⟨⟨Ne.symm op_ne_cid, cid_ne_tmo, h2⟩, ⟨op_ne_tmo, h1⟩, h3, h0⟩

private theorem handlerView_nodup (cid : Bytes) (fresh : Nat) (U : Hdrs) (ms : Int) (hU : UserOK U) :
    (handlerView cid fresh U ms).keys.Nodup := by
  obtain ⟨h0, h1, h2, h3⟩ := hU
  simp only [handlerView, Hdrs.keys, List.map_cons, List.nodup_cons, List.mem_cons, not_or]
  simp only [Hdrs.keys] at h0 h1 h2 h3
  exact ⟨⟨op_ne_cid, op_ne_tmo, h1⟩, ⟨cid_ne_tmo, h2⟩, h3, h0⟩

/-- The context `ReadRequestHeader` returns for a written request, exactly: the decoded map
without `_opid` plus a fresh `_opid` (counter + 1); response headers = the request's op id and
the correlation id (when non-empty); the payload is left on the transport. -/
theorem c09_server_context (U : Hdrs) (cid : Bytes) (opid : Nat) (ms : Int) (ctr : Nat) (w : Hdrs) (p : Bytes)
    (hU : UserOK U) (hw : w.Perm (callerCtx cid opid U ms).req) (hs : Small w) :
    readRequestHeader (marshal w ++ p) ctr =
      .ok (⟨w.without opIdHeader ++ [(opIdHeader, natDigits (ctr + 1))], replyIds (natDigits opid) cid⟩, p) := by
  have hndw : w.keys.Nodup := (hw.map Prod.fst).nodup_iff.mpr (callerCtx_nodup cid opid U ms hU)
  have hop : w.get? opIdHeader = some (natDigits opid) := by
    rw [Hdrs.get?_perm w _ hw hndw, callerCtx_req cid opid U ms hU]
    simp [Hdrs.get?, Ne.symm op_ne_cid]
  have hcid : w.get? cidHeader = some cid := by
    rw [Hdrs.get?_perm w _ hw hndw, callerCtx_req cid opid U ms hU]
    simp [Hdrs.get?]
  have hsv := serverCtx_eq w (ctr + 1) _ hndw hop
  rw [hcid] at hsv
  exact readRequestHeader_ok _ p w ctr _ (c04_stream_roundtrip w p hndw hs) hsv

/-- The handler's request headers are a permutation of `handlerView`. -/
private theorem handler_perm (U : Hdrs) (cid : Bytes) (opid : Nat) (ms : Int) (fresh : Nat) (w : Hdrs)
    (hU : UserOK U) (hw : w.Perm (callerCtx cid opid U ms).req) :
    (w.without opIdHeader ++ [(opIdHeader, natDigits fresh)]).Perm (handlerView cid fresh U ms) := by
  have h1 := Hdrs.without_perm _ _ opIdHeader hw
  rw [callerCtx_req cid opid U ms hU] at h1
  have h2 : Hdrs.without ((cidHeader, cid) :: (opIdHeader, natDigits opid) :: (timeoutHeader, formatInt ms) :: U) opIdHeader
      = (cidHeader, cid) :: (timeoutHeader, formatInt ms) :: U := by
    have hu := Hdrs.without_of_not_mem U opIdHeader hU.2.1
    simp only [Hdrs.without] at hu ⊢
    simp only [List.filter_cons, Ne.symm op_ne_cid, Ne.symm op_ne_tmo, ne_eq, not_true_eq_false, not_false_eq_true,
      decide_true, decide_false, if_true, if_false, Bool.false_eq_true, hu]
  rw [h2] at h1
  exact List.perm_append_comm.trans (List.Perm.cons _ h1)

private theorem handler_lookup (U : Hdrs) (cid : Bytes) (opid : Nat) (ms : Int) (fresh : Nat) (w : Hdrs)
    (hU : UserOK U) (hw : w.Perm (callerCtx cid opid U ms).req) (k : Bytes) :
    (w.without opIdHeader ++ [(opIdHeader, natDigits fresh)]).get? k = (handlerView cid fresh U ms).get? k := by
  have hp := handler_perm U cid opid ms fresh w hU hw
  have hnd := (hp.map Prod.fst).nodup_iff.mpr (handlerView_nodup cid fresh U ms hU)
  exact Hdrs.get?_perm _ _ hp hnd k

/-- **The handler observes exactly what the caller placed on the context.** Its request headers
are (a permutation of) the user headers `U`, `_cid`, `_timeout` and a fresh `_opid`: every user
header is there with its value, no other name is, the correlation id and `Timeout()` are the
caller's, and the payload after the header is untouched. -/
theorem c09_request_seen (U : Hdrs) (cid : Bytes) (opid : Nat) (ms : Int) (ctr : Nat) (w : Hdrs) (p : Bytes)
    (hU : UserOK U) (hms : WholeMs ms) (hw : w.Perm (callerCtx cid opid U ms).req) (hs : Small w) :
    ∃ sctx, readRequestHeader (marshal w ++ p) ctr = .ok (sctx, p) ∧
      sctx.req.Perm (handlerView cid (ctr + 1) U ms) ∧
      (∀ k v, (k, v) ∈ U → sctx.req.get? k = some v) ∧
      (∀ k, k ∉ U.keys → k ≠ opIdHeader → k ≠ cidHeader → k ≠ timeoutHeader → sctx.req.get? k = none) ∧
      sctx.correlationID = cid ∧ sctx.correlationID = (callerCtx cid opid U ms).correlationID ∧
      sctx.timeout = ms * 1000000 ∧ sctx.timeout = (callerCtx cid opid U ms).timeout := by
  obtain ⟨h0, h1, h2, h3⟩ := hU
  have hU : UserOK U := ⟨h0, h1, h2, h3⟩
  refine ⟨_, c09_server_context U cid opid ms ctr w p hU hw hs, handler_perm U cid opid ms _ w hU hw, ?_, ?_, ?_, ?_, ?_, ?_⟩
  · intro k v hkv
    have hk : k ∈ U.keys := List.mem_map_of_mem (f := Prod.fst) hkv
    have n1 : ¬ opIdHeader = k := fun e => h1 (e ▸ hk)
    have n2 : ¬ cidHeader = k := fun e => h2 (e ▸ hk)
    have n3 : ¬ timeoutHeader = k := fun e => h3 (e ▸ hk)
    show Hdrs.get? _ k = _
    rw [handler_lookup U cid opid ms _ w hU hw k]
    simp only [handlerView, Hdrs.get?, n1, n2, n3, if_false]
    exact (Hdrs.get?_eq_some_iff U h0 k v).mpr hkv
  · intro k hk n1 n2 n3
    show Hdrs.get? _ k = _
    rw [handler_lookup U cid opid ms _ w hU hw k]
    simp only [handlerView, Hdrs.get?, Ne.symm n1, Ne.symm n2, Ne.symm n3, if_false]
    exact Hdrs.get?_none_of_not_mem U k hk
  · show (Hdrs.get? _ cidHeader).getD [] = cid
    rw [handler_lookup U cid opid ms _ w hU hw]
    simp [handlerView, Hdrs.get?, op_ne_cid]
  · show (Hdrs.get? _ cidHeader).getD [] = (Hdrs.get? (callerCtx cid opid U ms).req cidHeader).getD []
    rw [handler_lookup U cid opid ms _ w hU hw, callerCtx_req cid opid U ms hU]
    simp [handlerView, Hdrs.get?, op_ne_cid]
  · show decodeTimeout ((Hdrs.get? _ timeoutHeader).getD []) = _
    rw [handler_lookup U cid opid ms _ w hU hw]
    simp only [handlerView, Hdrs.get?, op_ne_tmo, cid_ne_tmo, if_false, if_true, Option.getD_some]
    exact decodeTimeout_formatInt ms (by have := hms.1; omega) hms.2
  · show decodeTimeout ((Hdrs.get? _ timeoutHeader).getD []) =
      decodeTimeout ((Hdrs.get? (callerCtx cid opid U ms).req timeoutHeader).getD [])
    rw [handler_lookup U cid opid ms _ w hU hw, callerCtx_req cid opid U ms hU]
    simp [handlerView, Hdrs.get?, op_ne_tmo, cid_ne_tmo]

/-- **The context given to the handler carries a fresh op id**: the next value of the server's
counter (`getOpID` returns it), different from every id the counter issued before, and different
from the request's op id unless that is by coincidence the same number (two processes have
independent counters; within one process the request's id was issued before, so it differs). -/
theorem c09_fresh_opid (U : Hdrs) (cid : Bytes) (opid : Nat) (ms : Int) (ctr : Nat) (w : Hdrs) (p : Bytes)
    (hU : UserOK U) (hw : w.Perm (callerCtx cid opid U ms).req) (hs : Small w) (hctr : ctr + 1 < 18446744073709551616) :
    ∃ sctx, readRequestHeader (marshal w ++ p) ctr = .ok (sctx, p) ∧ ctrAfterRead (marshal w ++ p) ctr = ctr + 1 ∧
      sctx.req.get? opIdHeader = some (natDigits (ctr + 1)) ∧ sctx.opId = .ok (ctr + 1) ∧
      (∀ issued, issued ≤ ctr → sctx.req.get? opIdHeader ≠ some (natDigits issued)) ∧
      (opid ≠ ctr + 1 → sctx.req.get? opIdHeader ≠ (callerCtx cid opid U ms).req.get? opIdHeader) := by
  have hrd := c09_server_context U cid opid ms ctr w p hU hw hs
  have hop : Hdrs.get? (w.without opIdHeader ++ [(opIdHeader, natDigits (ctr + 1))]) opIdHeader = some (natDigits (ctr + 1)) := by
    rw [handler_lookup U cid opid ms _ w hU hw]
    simp [handlerView, Hdrs.get?]
  refine ⟨_, hrd, ?_, hop, ?_, ?_, ?_⟩
  · exact ctrAfterRead_ok _ ctr _ hrd
  · simp only [Ctx.opId, hop, parseU64_natDigits _ hctr]
  · intro issued hle
    show Hdrs.get? _ opIdHeader ≠ _
    rw [hop]
    intro e
    have := natDigits_injective (Option.some.inj e)
    omega
  · intro hne
    show Hdrs.get? _ opIdHeader ≠ _
    rw [hop, callerCtx_req cid opid U ms hU]
    simp only [Hdrs.get?, Ne.symm op_ne_cid, if_false, if_true]
    intro e
    exact hne (natDigits_injective (Option.some.inj e)).symm

/-- **Freshness under concurrency.** `getNextOpID` is an atomic fetch-and-add (trusted; tied to the
code on every run by the `c9ids` op, which has many goroutines create and receive contexts at the
same time): `n` concurrent calls from counter value `ctr` take effect one after the other and return
`issuedIds ctr n`. Those ids are pairwise distinct and none of them was issued before; and two
requests — any headers, any callers — that are read with different counter values give the two
handlers contexts with different op ids, so both can be used for onward calls at the same time. -/
theorem c09_fresh_concurrent :
    (∀ ctr n : Nat, (issuedIds ctr n).Nodup ∧ (issuedIds ctr n).length = n ∧
      (∀ issued, issued ≤ ctr → natDigits issued ∉ issuedIds ctr n)) ∧
    (∀ (U U' : Hdrs) (cid cid' : Bytes) (opid opid' : Nat) (ms ms' : Int) (ctr ctr' : Nat) (w w' : Hdrs) (p p' : Bytes),
      UserOK U → UserOK U' → w.Perm (callerCtx cid opid U ms).req → w'.Perm (callerCtx cid' opid' U' ms').req →
      Small w → Small w' → ctr ≠ ctr' →
      ∃ s s', readRequestHeader (marshal w ++ p) ctr = .ok (s, p) ∧
        readRequestHeader (marshal w' ++ p') ctr' = .ok (s', p') ∧
        s.req.get? opIdHeader = some (natDigits (ctr + 1)) ∧ s'.req.get? opIdHeader = some (natDigits (ctr' + 1)) ∧
        s.req.get? opIdHeader ≠ s'.req.get? opIdHeader) := by
  refine ⟨fun ctr n => ⟨?_, by simp [issuedIds], ?_⟩, ?_⟩
  · unfold issuedIds
    refine List.Pairwise.map _ ?_ (List.nodup_range (n := n))
    intro a b hab e
    have := natDigits_injective e
    omega
  · intro issued hle hm
    simp only [issuedIds, List.mem_map, List.mem_range] at hm
    obtain ⟨i, _, e⟩ := hm
    have := natDigits_injective e
    omega
  · intro U U' cid cid' opid opid' ms ms' ctr ctr' w w' p p' hU hU' hw hw' hs hs' hne
    have h1 : Hdrs.get? (w.without opIdHeader ++ [(opIdHeader, natDigits (ctr + 1))]) opIdHeader = some (natDigits (ctr + 1)) := by
      rw [handler_lookup U cid opid ms _ w hU hw]
      simp [handlerView, Hdrs.get?]
    have h2 : Hdrs.get? (w'.without opIdHeader ++ [(opIdHeader, natDigits (ctr' + 1))]) opIdHeader = some (natDigits (ctr' + 1)) := by
      rw [handler_lookup U' cid' opid' ms' _ w' hU' hw']
      simp [handlerView, Hdrs.get?]
    refine ⟨_, _, c09_server_context U cid opid ms ctr w p hU hw hs, c09_server_context U' cid' opid' ms' ctr' w' p' hU' hw' hs', h1, h2, ?_⟩
    show Hdrs.get? _ opIdHeader ≠ Hdrs.get? _ opIdHeader
    rw [h1, h2]
    intro e
    have := natDigits_injective (Option.some.inj e)
    omega

/-- Response headers a handler may set: any, except the reserved `_opid` (and `_cid`, which
the handler context already carries as the echo). -/
def RespOK (R : Hdrs) : Prop := opIdHeader ∉ R.keys ∧ cidHeader ∉ R.keys

/-- **The response carries the request's op id and correlation id.** Whatever (non-reserved)
headers `R` the handler adds, and in whatever order the response map is written, the reply
header decodes — from a stream or from a frame — to a map whose `_opid` is the REQUEST's op id
and whose `_cid` is the correlation id (absent exactly when the correlation id is empty). -/
theorem c09_reply_ids (U : Hdrs) (cid : Bytes) (opid : Nat) (ms : Int) (ctr : Nat) (w : Hdrs) (p : Bytes)
    (hU : UserOK U) (hw : w.Perm (callerCtx cid opid U ms).req) (hs : Small w)
    (R : Hdrs) (hR : RespOK R) (w' : Hdrs) (p' : Bytes) :
    ∃ sctx, readRequestHeader (marshal w ++ p) ctr = .ok (sctx, p) ∧
      sctx.resp.get? opIdHeader = (callerCtx cid opid U ms).req.get? opIdHeader ∧
      (w'.Perm (sctx.addResponseHeaders R).resp → Small w' →
        unmarshalStream (marshal w' ++ p') = .ok (w', p') ∧ headersFromFrame (marshal w' ++ p') = .ok w' ∧
        w'.get? opIdHeader = some (natDigits opid) ∧
        w'.get? cidHeader = (if cid = [] then none else some cid)) := by
  have hrd := c09_server_context U cid opid ms ctr w p hU hw hs
  refine ⟨_, hrd, ?_, ?_⟩
  · show Hdrs.get? (replyIds (natDigits opid) cid) opIdHeader = _
    rw [callerCtx_req cid opid U ms hU]
    simp [replyIds, Hdrs.get?, Ne.symm op_ne_cid]
  · intro hw' hs'
    have hnd0 : (replyIds (natDigits opid) cid).keys.Nodup := by
      unfold replyIds; split <;> simp [Hdrs.keys, op_ne_cid]
    have hnd1 : (Hdrs.setAll (replyIds (natDigits opid) cid) R).keys.Nodup := Hdrs.nodup_setAll R _ hnd0
    have hndw' : w'.keys.Nodup := (hw'.map Prod.fst).nodup_iff.mpr hnd1
    refine ⟨c04_stream_roundtrip w' p' hndw' hs', c04_frame_roundtrip w' p' hndw' hs', ?_, ?_⟩
    · rw [Hdrs.get?_perm w' _ hw' hndw']
      show Hdrs.get? (Hdrs.setAll (replyIds (natDigits opid) cid) R) opIdHeader = _
      rw [Hdrs.get?_setAll_not_mem R opIdHeader hR.1]
      simp [replyIds, Hdrs.get?]
    · rw [Hdrs.get?_perm w' _ hw' hndw']
      show Hdrs.get? (Hdrs.setAll (replyIds (natDigits opid) cid) R) cidHeader = _
      rw [Hdrs.get?_setAll_not_mem R cidHeader hR.2]
      unfold replyIds
      split <;> simp [Hdrs.get?, op_ne_cid]

/-- **Every response header the handler sets is visible on the caller's context when the call
returns.** `R` is the list of `AddResponseHeader` calls of the handler (any names and values; a
name set twice keeps the last value). For every name other than the reserved `_opid`, what the
handler's response map holds is what the caller's `ResponseHeaders()` holds after
`ReadResponseHeader`; in particular every pair of `R` (distinct names) is there; the caller's own
`_opid` response header (present on a propagated context) is never overwritten; its request
headers are untouched and the payload after the header is left on the transport. -/
theorem c09_response_seen (U : Hdrs) (cid : Bytes) (opid : Nat) (ms : Int) (ctr : Nat) (w : Hdrs) (p : Bytes)
    (hU : UserOK U) (hw : w.Perm (callerCtx cid opid U ms).req) (hs : Small w)
    (R : Hdrs) (w' : Hdrs) (p' : Bytes) (prior : Hdrs) :
    ∃ sctx, readRequestHeader (marshal w ++ p) ctr = .ok (sctx, p) ∧
      (w'.Perm (sctx.addResponseHeaders R).resp → Small w' →
        ∃ cc', readResponseHeader { callerCtx cid opid U ms with resp := prior } (marshal w' ++ p') = .ok (cc', p') ∧
          (∀ k v, k ≠ opIdHeader → (sctx.addResponseHeaders R).resp.get? k = some v → cc'.resp.get? k = some v) ∧
          (R.keys.Nodup → ∀ k v, (k, v) ∈ R → k ≠ opIdHeader → cc'.resp.get? k = some v) ∧
          (cid ≠ [] → cidHeader ∉ R.keys → cc'.resp.get? cidHeader = some cid) ∧
          cc'.resp.get? opIdHeader = prior.get? opIdHeader ∧
          cc'.req = (callerCtx cid opid U ms).req) := by
  have hrd := c09_server_context U cid opid ms ctr w p hU hw hs
  refine ⟨_, hrd, ?_⟩
  intro hw' hs'
  have hnd0 : (replyIds (natDigits opid) cid).keys.Nodup := by
    unfold replyIds; split <;> simp [Hdrs.keys, op_ne_cid]
  have hnd1 : (Hdrs.setAll (replyIds (natDigits opid) cid) R).keys.Nodup := Hdrs.nodup_setAll R _ hnd0
  have hndw' : w'.keys.Nodup := (hw'.map Prod.fst).nodup_iff.mpr hnd1
  have hndwo := Hdrs.nodup_without w' opIdHeader hndw'
  -- lookups of the merged map
  have hw'' : w'.Perm (Hdrs.setAll (replyIds (natDigits opid) cid) R) := hw'
  have seen : ∀ k v, k ≠ opIdHeader → Hdrs.get? (Hdrs.setAll (replyIds (natDigits opid) cid) R) k = some v →
      Hdrs.get? (Hdrs.setAll prior (w'.without opIdHeader)) k = some v := by
    intro k v hk hg
    rw [← Hdrs.get?_perm w' _ hw'' hndw', ← Hdrs.get?_without_other w' opIdHeader k (Ne.symm hk)] at hg
    exact Hdrs.get?_setAll_mem _ k v hndwo ((Hdrs.get?_eq_some_iff _ hndwo k v).mp hg) prior
  refine ⟨_, readResponseHeader_ok _ _ p' w' (c04_stream_roundtrip w' p' hndw' hs'), seen, ?_, ?_, ?_, rfl⟩
  · intro hRnd k v hkv hk
    exact seen k v hk (Hdrs.get?_setAll_mem R k v hRnd hkv _)
  · intro hc hcR
    refine seen cidHeader cid (Ne.symm op_ne_cid) ?_
    rw [Hdrs.get?_setAll_not_mem R cidHeader hcR]
    simp [replyIds, hc, Hdrs.get?, op_ne_cid]
  · show Hdrs.get? (Hdrs.setAll prior (w'.without opIdHeader)) opIdHeader = _
    exact Hdrs.get?_setAll_not_mem _ opIdHeader (Hdrs.not_mem_without w' opIdHeader) prior

/-- **An onward call never removes a response header the handler set.** `wireReply cc s` is what
`FStandardClient.Call(cc, …)` does to the calling context `cc` when the downstream handler's context
is `s` (WriteResponseHeader(s) → bytes → ReadResponseHeader(cc)); `cc` is the handler's INBOUND
context when the handler makes the onward call with it. The call leaves the request headers alone,
every response header present before is present afterwards, and it keeps its value unless the
downstream reply carries the same name (`_opid` is never taken from the reply). -/
theorem c09_onward_call_keeps_own_response_headers (cc s cc' : Ctx) (rest : Bytes)
    (h : wireReply cc s = .ok (cc', rest)) :
    cc'.req = cc.req ∧
    (∀ k v, cc.resp.get? k = some v → ∃ v', cc'.resp.get? k = some v') ∧
    (∃ d, unmarshalStream (marshal s.resp) = .ok (d, rest) ∧
      ∀ k v, cc.resp.get? k = some v → (k = opIdHeader ∨ k ∉ d.keys) → cc'.resp.get? k = some v) := by
  obtain ⟨d, hu, rfl⟩ := wireReply_merge cc s cc' rest h
  refine ⟨rfl, ?_, d, hu, ?_⟩
  · intro k v hk
    obtain ⟨v', h1, _⟩ := Hdrs.get?_setAll_some (d.without opIdHeader) cc.resp k v hk
    exact ⟨v', h1⟩
  · intro k v hk hor
    obtain ⟨v', h1, h2⟩ := Hdrs.get?_setAll_some (d.without opIdHeader) cc.resp k v hk
    have hn : k ∉ (d.without opIdHeader).keys := by
      rcases hor with e | hnd
      · subst e; exact Hdrs.not_mem_without d opIdHeader
      · exact fun hm => hnd ((Hdrs.without_keys_sublist d opIdHeader).subset hm)
    show Hdrs.get? (Hdrs.setAll cc.resp (d.without opIdHeader)) k = some v
    rw [h1, h2 hn]

/-- **Whatever a handler does after setting a response header — more headers, request headers,
any number of onward calls with its inbound context or with clones, to any depth — the header is
still on its context when it returns** (so by `c09_response_seen` its caller sees it; the value is
the last one written for that name by the handler or merged from a reply). Stated for every script
and every context: response headers present before a script are present after it, in particular
the one just set by `AddResponseHeader`. -/
theorem c09_script_keeps_response_headers (acts : List HAct) (c c' : Ctx) (ctr ctr' : Nat) (tr : List Hdrs) :
    (runActs acts c ctr = .ok (c', ctr', tr) → ∀ k v, c.resp.get? k = some v → ∃ v', c'.resp.get? k = some v') ∧
    (∀ k v, runActs (.setResp k v :: acts) c ctr = .ok (c', ctr', tr) → ∃ v', c'.resp.get? k = some v') := by
  have key : ∀ (acts : List HAct) (c : Ctx), runActs acts c ctr = .ok (c', ctr', tr) →
      ∀ k v, c.resp.get? k = some v → ∃ v', c'.resp.get? k = some v' := by
    intro acts c h
    exact runActsW_keeps wireRequest wireReply
      (fun cc s cc' rest hr => (c09_onward_call_keeps_own_response_headers cc s cc' rest hr).2.1) acts c ctr c' ctr' tr h
  refine ⟨key acts c, ?_⟩
  intro k v h
  have h' : runActs acts (c.addResponseHeader k v) ctr = .ok (c', ctr', tr) := by
    unfold runActs at h ⊢
    rw [runActsW] at h
    exact h
  exact key acts _ h' k v (Hdrs.get?_set_same c.resp k v)

/-- **The timeout codec**: the `_timeout` header written for `ms` milliseconds (any int64)
parses back to `ms`; `SetTimeout(ms·1ms)` followed by `Timeout()` is the identity on whole
non-negative milliseconds; a missing header, an empty value, or a value containing a byte that
is neither a decimal digit nor a sign gives the default 5 s. -/
theorem c09_timeout_codec :
    (∀ ms : Int, -9223372036854775808 ≤ ms → ms < 9223372036854775808 → decodeTimeoutMs (formatInt ms) = some ms) ∧
    (∀ (c : Ctx) (ms : Int), WholeMs ms → (c.setTimeout (ms * 1000000)).timeout = ms * 1000000) ∧
    (∀ c : Ctx, c.req.get? timeoutHeader = none → c.timeout = 5000000000) ∧
    (∀ (c : Ctx) (v : Bytes) (x : UInt8), c.req.get? timeoutHeader = some v → x ∈ v →
      ¬ (48 ≤ x.toNat ∧ x.toNat ≤ 57) → x ≠ 43 → x ≠ 45 → c.timeout = 5000000000) := by
  refine ⟨fun ms h0 h1 => parseI64_formatInt ms h0 h1, ?_, ?_, ?_⟩
  · intro c ms hms
    simp only [Ctx.setTimeout, Ctx.addRequestHeader, Ctx.timeout, Hdrs.get?_set_same, Option.getD_some, encodeTimeout_whole]
    exact decodeTimeout_formatInt ms (by have := hms.1; omega) hms.2
  · intro c h
    simp [Ctx.timeout, h, decodeTimeout, decodeTimeoutMs, parseI64, defaultTimeoutNs]
  · intro c v x h hx hnd h43 h45
    simp [Ctx.timeout, h, decodeTimeout, decodeTimeoutMs, parseI64_nonnumeric v x hx hnd h43 h45, defaultTimeoutNs]

/-- **A request without `_opid` is rejected** with INVALID_DATA and consumes no op id (for every
written header map with distinct names that lacks the name). -/
theorem c09_missing_opid (h : Hdrs) (p : Bytes) (ctr : Nat) (hnd : h.keys.Nodup) (hs : Small h)
    (hno : opIdHeader ∉ h.keys) :
    readRequestHeader (marshal h ++ p) ctr = .err .invalidData ∧ ctrAfterRead (marshal h ++ p) ctr = ctr := by
  have : readRequestHeader (marshal h ++ p) ctr = .err .invalidData :=
    readRequestHeader_err _ p h ctr _ (c04_stream_roundtrip h p hnd hs)
      (serverCtx_missing h _ (Hdrs.get?_none_of_not_mem h opIdHeader hno))
  exact ⟨this, ctrAfterRead_err _ ctr _ this⟩

/-! Non-vacuity: a concrete call meets every hypothesis (two user headers, a non-empty
correlation id, a 1500 ms timeout, the wire order = the insertion order). -/
example : UserOK [([102, 111, 111], [98, 97, 114]), ([120], [])] := by
  refine ⟨by decide, by decide, by decide, by decide⟩

example : WholeMs 1500 ∧ WholeMs 0 ∧ WholeMs 9223372036854 := by unfold WholeMs; omega

example : RespOK [([114], [49])] := ⟨by decide, by decide⟩

example : ∃ w, w.Perm (callerCtx [99] 7 [([102, 111, 111], [98, 97, 114]), ([120], [])] 1500).req ∧ Small w := by
  refine ⟨_, List.Perm.refl _, ?_⟩
  rw [callerCtx_req _ _ _ _ ⟨by decide, by decide, by decide, by decide⟩]
  have e1 : natDigits 7 = [55] := by simp [natDigits, natDigitsAux]
  have e2 : formatInt 1500 = [49, 53, 48, 48] := by
    simp [formatInt, natDigits, natDigitsAux]
  rw [e1, e2]
  unfold Small
  decide

end FV.C09
