/-
C01 — Under multiplexing every RPC gets exactly its own response.

  "When any number of requests with distinct FContexts are in flight
  concurrently on one client transport, a request completes successfully only
  with the response frame whose op id equals the op id it sent, never with a
  response meant for another request, in whatever order, however late and however
  many times the responses arrive. Responses for unknown, already completed or
  timed-out requests are discarded and change the outcome of no other request."

Quantifiers: `os` = the op ids of any number of callers; `as` = any list of
actions (any interleaving of caller, reader and timeout steps; the reader's
`readerLookup f` takes an ARBITRARY frame `f`: any op id — issued, never issued,
duplicate, late — any payload). `Reachable cap b os s` = some action list leads
from the initial state to `s`. Distinctness of op ids (`os.Nodup`) is the
property's "distinct FContexts"; it is discharged by C17 (`c17_unique`).
-/
import FV.Model.Registry
import FV.Proofs.Registry
import FV.Generated.Locks

namespace FV.C01
open FV.Reg

/-- A request completes successfully only with a frame carrying its own op id. -/
theorem c01_own_response (cap : Nat) (b : Bool) (os : List OpId) (s : Sys) (hr : Reachable cap b os s)
    (i : Nat) (c : Caller) (f : Frame) (hc : s.callers[i]? = some c) (hd : c.pc = .done (.ok f)) :
    f.opid = c.opid :=
  ((reachable_rinv hr).callers i c hc).got f (Or.inr hd)

/-- Stronger: every frame sitting in a caller's result channel is its own. -/
theorem c01_channel_holds_own_frames (cap : Nat) (b : Bool) (os : List OpId) (s : Sys)
    (hr : Reachable cap b os s) (i : Nat) (c : Caller) (hc : s.callers[i]? = some c) :
    ∀ f ∈ c.buf, f.opid = c.opid :=
  ((reachable_rinv hr).callers i c hc).buf

/-- A frame whose op id is not registered (never issued, or no longer in flight) is
discarded: the whole state is unchanged. -/
theorem c01_discard_inert (s : Sys) (f : Frame) (hidle : s.reader = .idle)
    (hun : lookup s.registry f.opid = none) : step s (.readerLookup f) = some s := by
  simp [step, hidle, hun]

/-- Responses for a completed or timed-out request are exactly such frames: once a caller
has returned, its op id is not registered (distinct op ids). -/
theorem c01_late_response_unregistered (cap : Nat) (b : Bool) (os : List OpId) (hnd : os.Nodup) (s : Sys)
    (hr : Reachable cap b os s) (i : Nat) (c : Caller) (o : Outcome)
    (hc : s.callers[i]? = some c) (hd : c.pc = .done o) : lookup s.registry c.opid = none := by
  cases hl : lookup s.registry c.opid with
  | none => rfl
  | some j =>
    exfalso
    obtain ⟨cj, hcj, ho, ha⟩ := (reachable_rinv hr).reg c.opid j (lookup_some hl)
    have hnd' : (s.callers.map (·.opid)).Nodup := by rw [(reachable_params hr).1]; exact hnd
    have e := opid_inj s.callers hnd' j i cj c hcj hc ho
    subst e
    rw [hc] at hcj; cases hcj
    rw [hd] at ha
    rcases ha with ha | ⟨_, ha⟩ <;> cases ha

/-- Which caller an action can touch. -/
def touches (s : Sys) : Action → Nat → Prop
  | .register i, j | .recv i, j | .timeout i, j | .sendError i, j | .unregister i, j => i = j
  | .readerLookup _, _ => False
  | .readerSend, j => ∃ f, s.reader = .lookedUp j f

/-- Frame rule (non-interference): an action that does not touch caller `j` leaves caller
`j` — its program counter, its outcome, its channel — exactly as it was. In particular the
reader delivering or discarding a frame for ANOTHER op id changes nothing for `j`. -/
theorem c01_frame_rule (s s' : Sys) (a : Action) (j : Nat) (hs : step s a = some s')
    (hnt : ¬ touches s a j) : s'.callers[j]? = s.callers[j]? := by
  cases a with
  | readerLookup f =>
    simp only [step] at hs
    split at hs
    · split at hs <;> (cases hs; rfl)
    · cases hs
  | readerSend =>
    simp only [step] at hs
    split at hs
    · rename_i ch f hrd
      have hne : ch ≠ j := fun e => hnt ⟨f, by rw [hrd, e]⟩
      split at hs
      · split at hs
        · cases hs; exact get_upd_other _ ch j _ hne
        · split at hs <;> cases hs; rfl
      · cases hs
    · cases hs
  | register i | recv i | timeout i | sendError i | unregister i =>
    have hne : i ≠ j := fun e => hnt e
    simp only [step] at hs
    repeat' (split at hs)
    all_goals (first | (cases hs; done) | (cases hs; exact get_upd_other _ i j _ hne))

/-- The reader delivers a frame only to the caller registered under the frame's op id:
with a looked-up frame for caller `ch`, `ch`'s op id is the frame's. -/
theorem c01_delivery_target (cap : Nat) (b : Bool) (os : List OpId) (s : Sys) (hr : Reachable cap b os s)
    (ch : Nat) (f : Frame) (hrd : s.reader = .lookedUp ch f) :
    ∃ c, s.callers[ch]? = some c ∧ c.opid = f.opid :=
  (reachable_rinv hr).rdr ch f hrd

/-- When every request has returned, no registration is left behind. -/
theorem c01_registry_drains (cap : Nat) (b : Bool) (os : List OpId) (s : Sys) (hr : Reachable cap b os s)
    (hall : ∀ (i : Nat) (c : Caller), s.callers[i]? = some c → ∃ o, c.pc = .done o) : s.registry = [] := by
  cases hreg : s.registry with
  | nil => rfl
  | cons e t =>
    exfalso
    obtain ⟨o, i⟩ := e
    obtain ⟨c, hc, _, ha⟩ := (reachable_rinv hr).reg o i (by rw [hreg]; exact List.mem_cons_self)
    obtain ⟨o', hd⟩ := hall i c hc
    rw [hd] at ha
    rcases ha with ha | ⟨_, ha⟩ <;> cases ha

/-! Non-vacuity: a concrete interleaving with a duplicate, a foreign and a late frame. -/
example : ∃ s, run (init 1 false [10, 11])
    [.register 0, .register 1, .readerLookup ⟨11, 5⟩, .readerSend, .readerLookup ⟨11, 6⟩, .readerSend,
     .readerLookup ⟨99, 7⟩, .recv 1, .unregister 1, .readerLookup ⟨11, 8⟩, .timeout 0, .unregister 0] = some s
    ∧ s.callers = [⟨10, .done .timedOut, []⟩, ⟨11, .done (.ok ⟨11, 5⟩), []⟩] ∧ s.registry = [] := by
  refine ⟨_, rfl, ?_, ?_⟩ <;> decide

/-- **Lock discipline behind the model's atomic steps** (registry), decided by the kernel on facts
REGENERATED from lib/go's source on every check (harness/locks → FV/Generated/Locks.lean): no function
calls, while it holds one of these mutexes, anything that (transitively) acquires the same mutex, no
lexical re-lock, and every path out of a function releases what the function locked. This is what makes a
critical section ONE step of the model and rules out the self-deadlocks (a second RLock behind a queued
writer, SendError under SendReply's lock) and leaked locks that would wedge every later request. -/
theorem c01_lock_discipline :
    FV.Locks.ok [1] FV.Generated.Locks.mutexTags FV.Generated.Locks.facts = true := by decide +kernel

end FV.C01
