/-
C19 — Code generation is deterministic and location-independent.

  "Compiling the same IDL program with the same options always produces
  byte-identical output files, whatever the number of repetitions, the working
  directory, the absolute location of the sources and the output directory chosen;
  nothing but the IDL content, the options and the compiler version influences the
  generated text."
  (for all valid IDL programs, all targets and options — except the explicitly dated
  java generated_annotations=use —, repeated runs, different cwd / source roots /
  -out directories)

PARTIAL — NAMED.  A functional model is deterministic by construction, so
"the model gives the same output twice" would be an empty statement.  What is
proved here is that each modelled PATTERN through which Go's randomised map
iteration order, an unstable sort, the working directory, the source location or
the `-out` value could reach the output is insensitive to it:

* every permutation of a map's entries is quantified over (`List.Perm`),
* an unstable sort may return ANY sorted permutation (`IsSortOf`),
* locations are explicit parameters (`Invocation`).

`c19_census_all_classified` ties "these are all the sites" to the source: the table
`FV.Census19.sites` is regenerated from /repo on every check (go/ast census of
map ranges, sorts, clock / cwd / environment reads, marshalled maps, template
ranges) and merged with the committed classification; a new, changed or vanished
site is `unclassified` / `vanished` there and the theorem no longer checks.
The text generated INSIDE each site is not modelled: it is covered by the sha256
comparison of the real compiler's outputs (harness/cc/determinism.go) only.

Known finding (KNOWN_FINDINGS.txt html-same-basename-modules): the html generator
sorts its module list unstably by file base name, which is NOT validated distinct
across transitive includes — `c19_html_modules_partial` carries the hypothesis,
`c19_unstable_sort_counterexample` is the witness.
-/
import FV.Model.Determinism
import FV.Proofs.Determinism
import FV.Generated.Census19

namespace FV.C19
open FV.Determinism

/-- Pattern *sorted, distinct keys*: two sorted permutations of a list whose keys are pairwise
distinct are equal — whatever an unstable `sort.Sort` does, its result is a function of the
multiset of elements (scopes by name, includes by name: both validated distinct). -/
theorem c19_sorted_perm_unique (key : α → κ) (le : κ → κ → Bool)
    (antisymm : ∀ a b, le a b = true → le b a = true → a = b)
    (l s₁ s₂ : List α) (hnd : (l.map key).Nodup)
    (h₁ : IsSortOf (fun a b => le (key a) (key b)) l s₁)
    (h₂ : IsSortOf (fun a b => le (key a) (key b)) l s₂) : s₁ = s₂ :=
  sorted_perm_unique key le antisymm l s₁ s₂ hnd h₁ h₂

/-- …and the input order does not matter either: an unstable sort of ANY permutation of the
list gives the same result as the model's own sort of the list. -/
theorem c19_sort_of_any_order (key : α → κ) (le : κ → κ → Bool)
    (total : ∀ a b, le a b = true ∨ le b a = true)
    (trans : ∀ a b c, le a b = true → le b c = true → le a c = true)
    (antisymm : ∀ a b, le a b = true → le b a = true → a = b)
    (l l' s : List α) (hnd : (l.map key).Nodup) (hp : l'.Perm l)
    (hs : IsSortOf (fun a b => le (key a) (key b)) l' s) :
    s = sortBy (fun a b => le (key a) (key b)) l := by
  refine sorted_perm_unique key le antisymm l _ _ hnd ⟨hs.1.trans hp, hs.2⟩ ?_
  exact sortBy_isSortOf (fun a b => le (key a) (key b)) (fun a b => total (key a) (key b))
    (fun a b c => trans (key a) (key b) (key c)) l

/-- Pattern *keys, then sort* (`for k := range m { ks = append(ks, k) }; sort.Strings(ks)`):
whatever order the map is iterated in, the sorted key list is the same.  No distinctness is
needed here: equal keys are equal elements. -/
theorem c19_keys_sort (le : κ → κ → Bool)
    (total : ∀ a b, le a b = true ∨ le b a = true)
    (trans : ∀ a b c, le a b = true → le b c = true → le a c = true)
    (antisymm : ∀ a b, le a b = true → le b a = true → a = b)
    (m m' : AMap κ β) (hp : m'.Perm m) : keysSorted le m' = keysSorted le m := by
  unfold keysSorted
  refine List.Perm.eq_of_pairwise (le := fun a b => le a b = true) (fun a b _ _ => antisymm a b)
    (sortBy_sorted le total trans _) (sortBy_sorted le total trans _) ?_
  exact (sortBy_perm le _).trans ((hp.map Prod.fst).trans (sortBy_perm le _).symm)

/-- Pattern *commutative insertion* (`for k, v := range src { dst[k] = v }`, building a set):
inserting the entries in any order gives an extensionally equal map, provided the source does
not carry two different values for one key (always true of a Go map, and of a set). -/
theorem c19_insert_commutes [DecidableEq κ] (dst : FMap κ β) (src src' : List (κ × β)) (hp : src'.Perm src)
    (hfun : ∀ x ∈ src, ∀ y ∈ src, x.1 = y.1 → x.2 = y.2) :
    ∀ k, insertAll dst src' k = insertAll dst src k := by
  intro k
  have hfun' : ∀ x ∈ src', ∀ y ∈ src', x.1 = y.1 → x.2 = y.2 :=
    fun x hx y hy => hfun x (hp.subset hx) y (hp.subset hy)
  rw [insertAll_perm dst hp hfun']

/-- the entries of a Go map (keys pairwise distinct) satisfy the hypothesis of `c19_insert_commutes` -/
theorem c19_insert_commutes_map [DecidableEq κ] (dst : FMap κ β) (src src' : AMap κ β) (hp : src'.Perm src)
    (hnd : (src.map Prod.fst).Nodup) : insertAll dst src' = insertAll dst src :=
  funext (c19_insert_commutes dst src src' hp (functional_of_nodup hnd))

/-- Pattern *key-only / lookup-only*: indexing a map does not depend on the order of its entries. -/
theorem c19_lookup_order_independent [DecidableEq κ] (k : κ) (m m' : AMap κ β)
    (hnd : (m.map Prod.fst).Nodup) (hp : m'.Perm m) : alookup k m' = alookup k m :=
  alookup_perm k hnd hp

/-- `OrderedIncludes` is a function of the SET of includes of a file (names are validated
distinct by `validateIncludes`). -/
theorem c19_ordered_includes_perm (incs incs' : List Inc) (hnd : (incs.map Inc.name).Nodup)
    (hp : incs'.Perm incs) : orderedIncludes incs' = orderedIncludes incs := by
  unfold orderedIncludes
  refine sorted_perm_unique Inc.name strLe strLe_antisymm incs _ _ hnd ?_ ?_
  · have h := sortBy_isSortOf incLe (fun a b => strLe_total _ _) (fun a b c => strLe_trans _ _ _) incs'
    exact ⟨h.1.trans hp, h.2⟩
  · exact sortBy_isSortOf incLe (fun a b => strLe_total _ _) (fun a b c => strLe_trans _ _ _) incs

/-- The modelled traversal (`compiler.go generateFrugalRec`: includes visited in
`OrderedIncludes` order, targets looked up in the `ParsedIncludes` map, every file generated
once, vendored includes skipped under `use_vendor`) yields the same sequence of files for every
permutation of every file's include list and of every file's `ParsedIncludes` map. -/
theorem c19_order_independent (p p' : Prog) (useVendor : Bool) (fuel root : Nat)
    (hincs : ∀ n, (p'.incs n).Perm (p.incs n)) (hparsed : ∀ n, (p'.parsed n).Perm (p.parsed n))
    (hnames : ∀ n, ((p.incs n).map Inc.name).Nodup) (hkeys : ∀ n, ((p.parsed n).map Prod.fst).Nodup) :
    genOrder p' useVendor fuel root = genOrder p useVendor fuel root := by
  unfold genOrder
  exact genRec_congr p p' useVendor
    (fun n => c19_ordered_includes_perm _ _ (hnames n) (hincs n))
    (fun n k => alookup_perm k (hkeys n) (hparsed n)) fuel root []

/-- every file is generated at most once, whatever the include graph looks like -/
theorem c19_generated_once (p : Prog) (useVendor : Bool) :
    ∀ fuel n acc, acc.Nodup → (genRec p useVendor fuel n acc).Nodup := by
  intro fuel
  induction fuel with
  | zero => intro n acc h; exact h
  | succ f ih =>
    intro n acc h
    simp only [genRec]
    split
    · exact h
    · rename_i hn
      have h0 : (acc ++ [n]).Nodup := by
        rw [List.nodup_append]
        exact ⟨h, by simp, fun a ha b hb => by
          rw [List.mem_singleton] at hb; subst hb; intro e; subst e; exact hn ha⟩
      generalize orderedIncludes (p.incs n) = l
      generalize acc ++ [n] = a0 at h0
      induction l generalizing a0 with
      | nil => exact h0
      | cons i t iht =>
        simp only [List.foldl_cons]
        apply iht
        split
        · exact h0
        · split
          · exact ih _ _ h0
          · exact h0

/-- Location independence of the modelled path computation: for any two invocations — any
source roots, working directories, relative or absolute `-out` values — the emitted paths
relative to the respective output root coincide (= `emittedRel`, which mentions no location);
the absolute paths are the output root followed by them (equivariance in `-out`); python's
`Rel(Abs(out), Abs(outputDir))` is the namespace path for every working directory; and the
identity of source files (keys of `CompiledFiles` / the html module map, absolute paths)
is decided the same way under every source root. -/
theorem c19_location_independent (i i' : Invocation) (us : List GenUnit) :
    (emittedAbs i us).map (relTo i.outRoot) = (emittedAbs i' us).map (relTo i'.outRoot)
    ∧ (emittedAbs i us).map (relTo i.outRoot) = (emittedRel us).map some
    ∧ emittedAbs i us = (emittedRel us).map (fun r => i.outRoot ++ r)
    ∧ (∀ ns, pyPackageRel i ns = some ns)
    ∧ (∀ a b : Path, fileKey i a = fileKey i b ↔ fileKey i' a = fileKey i' b) := by
  have key : ∀ j : Invocation, (emittedAbs j us).map (relTo j.outRoot) = (emittedRel us).map some := by
    intro j
    rw [emittedAbs_eq, List.map_map]
    apply List.map_congr_left
    intro r _
    exact relTo_append _ _
  refine ⟨(key i).trans (key i').symm, key i, emittedAbs_eq i us, ?_, ?_⟩
  · intro ns
    unfold pyPackageRel outputDir
    rw [absPath_append]
    exact relTo_append _ _
  · intro a b
    unfold fileKey
    rw [List.append_cancel_left_eq, List.append_cancel_left_eq]

/-- html `transitiveIncludes` (`for _, m := range moduleMap { ms = append(ms, m) }; sort.Sort(ms)`,
unstable, by `Name`): for every iteration order of the module map and every result the sort may
return, the module list of index.html is the same — PROVIDED the module names (file base names)
are pairwise distinct.  That is validated for the direct includes of one file only, not for
transitive includes: see the counterexample and the known finding. -/
theorem c19_html_modules_partial (modules ms ms' s s' : List (String × Nat))
    (hnd : (modules.map Prod.fst).Nodup) (h : ms.Perm modules) (h' : ms'.Perm modules)
    (hs : IsSortOf (fun a b => strLe a.1 b.1) ms s) (hs' : IsSortOf (fun a b => strLe a.1 b.1) ms' s') :
    s = s' :=
  sorted_perm_unique Prod.fst strLe strLe_antisymm modules s s' hnd
    ⟨hs.1.trans h, hs.2⟩ ⟨hs'.1.trans h', hs'.2⟩

/-- The full statement (without distinct names) is false: two modules named `common`
(a/common.frugal = file 3, b/common.frugal = file 4, witness known/c19_same_basename) have two
different sorted permutations; which one index.html shows depends on the map iteration order. -/
theorem c19_unstable_sort_counterexample :
    ∃ (ms s s' : List (String × Nat)),
      IsSortOf (fun a b => strLe a.1 b.1) ms s ∧ IsSortOf (fun a b => strLe a.1 b.1) ms s' ∧ s ≠ s' := by
  refine ⟨[("common", 3), ("common", 4), ("main", 0)],
          [("common", 3), ("common", 4), ("main", 0)], [("common", 4), ("common", 3), ("main", 0)], ?_, ?_, ?_⟩
  · exact ⟨List.Perm.refl _, by decide⟩
  · exact ⟨List.Perm.swap _ _ _, by decide⟩
  · decide

/-- The census tie: every site of variation found in the compiler's source NOW is classified
by the committed expectation, as one of the insensitive patterns or as a recorded finding
(`FV.Census19.sites` is regenerated from /repo before this file is checked). -/
theorem c19_census_all_classified :
    FV.Census19.sites.all (fun s => s.pattern.accounted) = true := by decide

/-- …and the order-sensitive sites among them are exactly the recorded finding's (at most the
two sites of html `transitiveIncludes`). -/
theorem c19_census_sensitive_bounded :
    (FV.Census19.sites.filter (fun s => !s.pattern.insensitive)).length ≤ 2 := by decide

-- ---------------------------------------------------------------- non-vacuity

/-- a program with a diamond, a vendored include, includes out of order; `p'` stores every
list / map in another order -/
def exP : Prog :=
  { incs := fun n => if n = 0 then [⟨"y", false⟩, ⟨"x", true⟩, ⟨"c", false⟩] else if n = 2 then [⟨"c", false⟩] else [],
    parsed := fun n => if n = 0 then [("x", 1), ("c", 3), ("y", 2)] else if n = 2 then [("c", 3)] else [] }
def exP' : Prog :=
  { incs := fun n => if n = 0 then [⟨"c", false⟩, ⟨"y", false⟩, ⟨"x", true⟩] else if n = 2 then [⟨"c", false⟩] else [],
    parsed := fun n => if n = 0 then [("y", 2), ("x", 1), ("c", 3)] else if n = 2 then [("c", 3)] else [] }

example : genOrder exP false 5 0 = [0, 3, 1, 2] := by decide
example : genOrder exP' false 5 0 = [0, 3, 1, 2] := by decide
example : genOrder exP true 5 0 = [0, 3, 2] := by decide
example : ((exP.incs 0).map Inc.name).Nodup ∧ ((exP.parsed 0).map Prod.fst).Nodup := by decide
example : (exP'.incs 0).Perm (exP.incs 0) := by decide
example : (exP'.parsed 0).Perm (exP.parsed 0) := by decide

example : keysSorted strLe [("b", 1), ("a", 2), ("c", 3)] = ["a", "b", "c"] := by decide
example : keysSorted strLe [("c", 3), ("b", 1), ("a", 2)] = ["a", "b", "c"] := by decide

example : insertAll (FMap.empty : FMap String Nat) [("a", 1), ("b", 2)] "b" = some 2 := by decide
example : insertAll (FMap.empty : FMap String Nat) [("b", 2), ("a", 1)] "b" = some 2 := by decide
/-- without the hypothesis of `c19_insert_commutes` the order matters (last write wins) -/
example : insertAll (FMap.empty : FMap String Nat) [("a", 1), ("a", 2)] "a"
        ≠ insertAll (FMap.empty : FMap String Nat) [("a", 2), ("a", 1)] "a" := by decide

def exUnits : List GenUnit := [⟨["n0", "pkg"], ["f_types.go", "f_foo_service.go"]⟩, ⟨["n1"], ["f_types.go"]⟩]
def exI : Invocation := ⟨["tmp", "srcA"], ["tmp", "wd0"], true, ["tmp", "o", "gen"]⟩
def exI' : Invocation := ⟨["elsewhere", "deeper", "copy"], ["home", "u"], false, ["x", "y"]⟩
example : emittedAbs exI' exUnits =
    [["home", "u", "x", "y", "n0", "pkg", "f_types.go"], ["home", "u", "x", "y", "n0", "pkg", "f_foo_service.go"],
     ["home", "u", "x", "y", "n1", "f_types.go"]] := by decide
example : (emittedAbs exI exUnits).map (relTo exI.outRoot) =
    [some ["n0", "pkg", "f_types.go"], some ["n0", "pkg", "f_foo_service.go"], some ["n1", "f_types.go"]] := by decide
example : emittedAbs exI exUnits ≠ emittedAbs exI' exUnits := by decide

end FV.C19
