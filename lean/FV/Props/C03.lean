/-
C03 — A call through generated client and server code is faithful end to end.

  "For every service method of every valid IDL program and every argument tuple,
  invoking the generated client over any supported transport and protocol invokes the
  handler registered with the generated processor exactly once with equal arguments, and
  the caller observes exactly the handler's outcome: the value it returned, the declared
  exception it raised, or an application error for an undeclared failure. Methods inherited
  through extends behave identically and a successful oneway call produces no reply."

`FV.Rpc.call` composes the emitted client, any frame-preserving transport (C01), the emitted
processor (C14) and the emitted result mapping; arguments and results travel as the synthetic
`<key>_args` / `<key>_result` structs through the same emitted Read/Write code as every struct
(C02, `FV.Thrift.roundtrip`). `d` is ANY definitions table, `key` ANY method (own or inherited:
an inherited method is the parent's entry in the single processor map, so it IS the same key),
`h` ANY handler behaviour. Sockets, net/http and NATS delivery are environment; the transports
are exercised by the correspondence runs (in-memory and HTTP in the quick tier).
-/
import FV.Model.Rpc
import FV.Proofs.Thrift
import FV.Proofs.Rpc

namespace FV.C03
open FV FV.Thrift FV.Rpc

/-- The handler is invoked exactly once, with arguments equal to the caller's. -/
theorem c03_handler_once_equal_args (d : Defs) (n : Nat) (key : String) (oneway : Bool) (args : Val)
    (h : Val → HOutcome) (hargs : WT d n (.struct (key ++ "_args")) args) :
    (call d n key oneway args h).calls = 1 ∧ (call d n key oneway args h).args = some args := by
  obtain ⟨es, hes⟩ := enc_total d n _ args hargs
  have hrt := roundtrip d n _ args es [] hargs hes
  simp only [List.append_nil] at hrt
  unfold call
  simp only [hes, hrt]
  cases oneway with
  | true => simp
  | false =>
    simp only [Bool.false_eq_true, if_false]
    cases h args with
    | value v => cases v <;> simp
    | declared i e => simp
    | appException ty => simp
    | otherError => simp

/-- A successful oneway call produces no reply (the caller observes `void`), and the handler ran. -/
theorem c03_oneway_no_reply (d : Defs) (n : Nat) (key : String) (args : Val) (h : Val → HOutcome)
    (hargs : WT d n (.struct (key ++ "_args")) args) :
    (call d n key true args h).result = .void := by
  obtain ⟨es, hes⟩ := enc_total d n _ args hargs
  have hrt := roundtrip d n _ args es [] hargs hes
  simp only [List.append_nil] at hrt
  unfold call
  simp only [hes, hrt, if_true]

/-- The caller observes exactly the value the handler returned. -/
theorem c03_faithful_value (d : Defs) (n : Nat) (key : String) (args v : Val) (h : Val → HOutcome)
    (hargs : WT d n (.struct (key ++ "_args")) args) (hh : h args = .value (some v))
    (hres : WT d n (.struct (key ++ "_result")) (.struct [(0, v)])) :
    (call d n key false args h).result = .ok v := by
  obtain ⟨es, hes⟩ := enc_total d n _ args hargs
  have hrt := roundtrip d n _ args es [] hargs hes
  obtain ⟨rs, hrs⟩ := enc_total d n _ _ hres
  have hrt2 := roundtrip d n _ _ rs [] hres hrs
  simp only [List.append_nil] at hrt hrt2
  unfold call
  simp only [hes, hrt, hh, Bool.false_eq_true, if_false, hrs, hrt2]
  simp [lookupVal]

/-- A void method that returns normally is observed as a normal return. -/
theorem c03_faithful_void (d : Defs) (n : Nat) (key : String) (args : Val) (h : Val → HOutcome) (sd : StructDef)
    (hargs : WT d n (.struct (key ++ "_args")) args) (hh : h args = .value none)
    (hres : WT d n (.struct (key ++ "_result")) (.struct []))
    (hsd : lookupStruct d (key ++ "_result") = some sd) (hvoid : sd.fields.any (·.id = 0) = false) :
    (call d n key false args h).result = .void := by
  obtain ⟨es, hes⟩ := enc_total d n _ args hargs
  have hrt := roundtrip d n _ args es [] hargs hes
  obtain ⟨rs, hrs⟩ := enc_total d n _ _ hres
  have hrt2 := roundtrip d n _ _ rs [] hres hrs
  simp only [List.append_nil] at hrt hrt2
  unfold call
  simp only [hes, hrt, hh, Bool.false_eq_true, if_false, hrs, hrt2]
  simp [lookupVal, hsd, hvoid]

/-- The caller observes exactly the declared exception the handler raised. -/
theorem c03_faithful_declared (d : Defs) (n : Nat) (key : String) (args e : Val) (i : Int) (h : Val → HOutcome)
    (hargs : WT d n (.struct (key ++ "_args")) args) (hh : h args = .declared i e) (hi : i ≠ 0)
    (hres : WT d n (.struct (key ++ "_result")) (.struct [(i, e)])) :
    (call d n key false args h).result = .exc i e := by
  obtain ⟨es, hes⟩ := enc_total d n _ args hargs
  have hrt := roundtrip d n _ args es [] hargs hes
  obtain ⟨rs, hrs⟩ := enc_total d n _ _ hres
  have hrt2 := roundtrip d n _ _ rs [] hres hrs
  simp only [List.append_nil] at hrt hrt2
  unfold call
  simp only [hes, hrt, hh, Bool.false_eq_true, if_false, hrs, hrt2]
  simp [lookupVal, hi]

/-- An undeclared failure reaches the caller as an application error: INTERNAL_ERROR for an arbitrary
error, the handler's own type for a TApplicationException. -/
theorem c03_faithful_undeclared (d : Defs) (n : Nat) (key : String) (args : Val) (h : Val → HOutcome)
    (hargs : WT d n (.struct (key ++ "_args")) args) :
    (h args = .otherError → (call d n key false args h).result = .app internalError) ∧
    (∀ ty, h args = .appException ty → (call d n key false args h).result = .app ty) := by
  obtain ⟨es, hes⟩ := enc_total d n _ args hargs
  have hrt := roundtrip d n _ args es [] hargs hes
  simp only [List.append_nil] at hrt
  constructor
  · intro hh; unfold call; simp only [hes, hrt, hh, Bool.false_eq_true, if_false]
  · intro ty hh; unfold call; simp only [hes, hrt, hh, Bool.false_eq_true, if_false]

/-! ### Whatever the request waited at the server, whatever timeout the caller's FContext carried

`FV.Rpc.callQ` adds the two times to the call path. The server side of the model does not look at either
(no transport sheds a request it received), so: -/

/-- A oneway call that succeeded for its caller (nil error: observed `void`) has had its handler invoked
exactly once with equal arguments — for EVERY queue wait and EVERY FContext timeout, in particular when the
request waited at a busy server for longer than the call's own timeout (which only bounds the send). -/
theorem c03_oneway_success_implies_handled_whatever_wait (d : Defs) (n : Nat) (key : String) (args : Val)
    (h : Val → HOutcome) (wait timeout : Nat) (hargs : WT d n (.struct (key ++ "_args")) args)
    (_hsucc : (callQ d n key true args h wait timeout).result = .void) :
    (callQ d n key true args h wait timeout).calls = 1 ∧
    (callQ d n key true args h wait timeout).args = some args := by
  rw [callQ_ow]
  exact c03_handler_once_equal_args d n key true args h hargs

/-- …and a oneway call with well-typed arguments does succeed, whatever the two times. -/
theorem c03_oneway_succeeds_whatever_wait (d : Defs) (n : Nat) (key : String) (args : Val)
    (h : Val → HOutcome) (wait timeout : Nat) (hargs : WT d n (.struct (key ++ "_args")) args) :
    (callQ d n key true args h wait timeout).result = .void := by
  rw [callQ_ow]
  exact c03_oneway_no_reply d n key args h hargs

/-- A two-way call is handled exactly once with equal arguments whether or not its caller was still waiting:
the caller observes the outcome of `call` when the reply came in time, TIMED_OUT otherwise. -/
theorem c03_twoway_handled_once_whatever_wait (d : Defs) (n : Nat) (key : String) (args : Val)
    (h : Val → HOutcome) (wait timeout : Nat) (hargs : WT d n (.struct (key ++ "_args")) args) :
    (callQ d n key false args h wait timeout).calls = 1 ∧
    (callQ d n key false args h wait timeout).args = some args ∧
    (wait < timeout → (callQ d n key false args h wait timeout).result = (call d n key false args h).result) ∧
    (timeout ≤ wait → (callQ d n key false args h wait timeout).result = .timedOut) := by
  have hc := c03_handler_once_equal_args d n key false args h hargs
  have hq := callQ_calls d n key false args h wait timeout
  obtain ⟨es, hes⟩ := enc_total d n _ args hargs
  have hsent : sent d n key args = true := by simp [sent, hes]
  refine ⟨hq.1.trans hc.1, hq.2.trans hc.2, ?_, ?_⟩
  · intro hw; rw [callQ_res_in d n key args h wait timeout hw]
  · intro hw; exact callQ_res_out d n key args h wait timeout hw hsent

/-- Never twice, and never with arguments other than `call`'s — for ANY argument value (well typed or not),
any wait, any timeout, oneway or not. -/
theorem c03_at_most_once_whatever_wait (d : Defs) (n : Nat) (key : String) (oneway : Bool) (args : Val)
    (h : Val → HOutcome) (wait timeout : Nat) :
    (callQ d n key oneway args h wait timeout).calls ≤ 1 ∧
    (callQ d n key oneway args h wait timeout).args = (call d n key oneway args h).args := by
  have hq := callQ_calls d n key oneway args h wait timeout
  exact ⟨hq.1 ▸ call_le d n key oneway args h, hq.2⟩

/-- Inherited methods behave identically: through the child's processor a method the child does not
redefine dispatches to the very same processor function (same args/result structs, same handler
method) as through the parent's own processor — so all the theorems above apply to it unchanged. -/
theorem c03_inherited_same (svcs : List Service) (fuel : Nat) (child : Service) (p m : String)
    (hc : svcs.find? (·.key = child.key) = some child) (hp : child.parent = some p)
    (hm : m ∉ child.methods) :
    dispatch (procMap svcs (fuel + 1) child.key) m = dispatch (procMap svcs fuel p) m := by
  simp only [procMap, hc, hp, dispatch, List.reverse_append, List.find?_append]
  have hnone : List.find? (fun x : String × String => decide (x.1 = m))
      (child.methods.map fun m' => (m', child.key ++ "_" ++ m')).reverse = none := by
    rw [List.find?_eq_none]
    intro x hx
    simp only [List.mem_reverse, List.mem_map] at hx
    obtain ⟨m', hm', rfl⟩ := hx
    simp only [decide_eq_true_eq]
    intro e; exact hm (e ▸ hm')
  rw [hnone]; simp

/-! Non-vacuity: a child with one own method extending a parent with two. -/
example : dispatch (procMap [⟨"f/Base", none, ["ping", "get"]⟩, ⟨"f/Svc", some "f/Base", ["put"]⟩] 3 "f/Svc") "get"
    = some "f/Base_get" := by decide

/-! Non-vacuity of the time dimension: a oneway `ping()` whose request waited 400 ms with a 100 ms timeout is
handled once; the two-way `ping()` is handled too and its caller observes TIMED_OUT. -/
def exDefsQ : Defs := ⟨[], [], [⟨.struct, "f/S_ping_args", "ping_args", []⟩, ⟨.struct, "f/S_ping_result", "ping_result", []⟩]⟩

example : WT exDefsQ 4 (.struct "f/S_ping_args") (.struct []) := by
  simp [WT, exDefsQ, resolve, resolveN, lookupStruct, normFields, lookupVal]

example : (callQ exDefsQ 4 "f/S_ping" true (.struct []) (fun _ => .value none) 400 100).calls = 1 := by decide +kernel
example : (callQ exDefsQ 4 "f/S_ping" false (.struct []) (fun _ => .value none) 400 100).calls = 1 := by decide +kernel
example : (callQ exDefsQ 4 "f/S_ping" false (.struct []) (fun _ => .value none) 400 100).result matches .timedOut := by
  decide +kernel
example : (callQ exDefsQ 4 "f/S_ping" false (.struct []) (fun _ => .value none) 40 100).result matches .void := by
  decide +kernel

end FV.C03
