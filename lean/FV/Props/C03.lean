/-
C03 — A call through generated client and server code is faithful end to end.

  "For every service method of every valid IDL program and every argument tuple,
  invoking the generated client over any supported transport and protocol invokes the
  handler registered with the generated processor exactly once with equal arguments, and
  the caller observes exactly the handler's outcome: the value it returned, the declared
  exception it raised, or an application error for an undeclared failure. Methods inherited
  through extends behave identically and a successful oneway call produces no reply."

`FV.Rpc.call` composes the emitted client, any frame-preserving transport (C01), the emitted
processor (C14) and the emitted result mapping; arguments and results travel as the synthetic
`<key>_args` / `<key>_result` structs through the same emitted Read/Write code as every struct
(C02, `FV.Thrift.roundtrip`). `d` is ANY definitions table, `key` ANY method (own or inherited:
an inherited method is the parent's entry in the single processor map, so it IS the same key),
`h` ANY handler behaviour. Sockets, net/http and NATS delivery are environment; the transports
are exercised by the correspondence runs (in-memory and HTTP in the quick tier).
-/
import FV.Model.Rpc
import FV.Proofs.Thrift

namespace FV.C03
open FV FV.Thrift FV.Rpc

/-- The handler is invoked exactly once, with arguments equal to the caller's. -/
theorem c03_handler_once_equal_args (d : Defs) (n : Nat) (key : String) (oneway : Bool) (args : Val)
    (h : Val → HOutcome) (hargs : WT d n (.struct (key ++ "_args")) args) :
    (call d n key oneway args h).calls = 1 ∧ (call d n key oneway args h).args = some args := by
  obtain ⟨es, hes⟩ := enc_total d n _ args hargs
  have hrt := roundtrip d n _ args es [] hargs hes
  simp only [List.append_nil] at hrt
  unfold call
  simp only [hes, hrt]
  cases oneway with
  | true => simp
  | false =>
    simp only [Bool.false_eq_true, if_false]
    cases h args with
    | value v => cases v <;> simp
    | declared i e => simp
    | appException ty => simp
    | otherError => simp

/-- A successful oneway call produces no reply (the caller observes `void`), and the handler ran. -/
theorem c03_oneway_no_reply (d : Defs) (n : Nat) (key : String) (args : Val) (h : Val → HOutcome)
    (hargs : WT d n (.struct (key ++ "_args")) args) :
    (call d n key true args h).result = .void := by
  obtain ⟨es, hes⟩ := enc_total d n _ args hargs
  have hrt := roundtrip d n _ args es [] hargs hes
  simp only [List.append_nil] at hrt
  unfold call
  simp only [hes, hrt, if_true]

/-- The caller observes exactly the value the handler returned. -/
theorem c03_faithful_value (d : Defs) (n : Nat) (key : String) (args v : Val) (h : Val → HOutcome)
    (hargs : WT d n (.struct (key ++ "_args")) args) (hh : h args = .value (some v))
    (hres : WT d n (.struct (key ++ "_result")) (.struct [(0, v)])) :
    (call d n key false args h).result = .ok v := by
  obtain ⟨es, hes⟩ := enc_total d n _ args hargs
  have hrt := roundtrip d n _ args es [] hargs hes
  obtain ⟨rs, hrs⟩ := enc_total d n _ _ hres
  have hrt2 := roundtrip d n _ _ rs [] hres hrs
  simp only [List.append_nil] at hrt hrt2
  unfold call
  simp only [hes, hrt, hh, Bool.false_eq_true, if_false, hrs, hrt2]
  simp [lookupVal]

/-- A void method that returns normally is observed as a normal return. -/
theorem c03_faithful_void (d : Defs) (n : Nat) (key : String) (args : Val) (h : Val → HOutcome) (sd : StructDef)
    (hargs : WT d n (.struct (key ++ "_args")) args) (hh : h args = .value none)
    (hres : WT d n (.struct (key ++ "_result")) (.struct []))
    (hsd : lookupStruct d (key ++ "_result") = some sd) (hvoid : sd.fields.any (·.id = 0) = false) :
    (call d n key false args h).result = .void := by
  obtain ⟨es, hes⟩ := enc_total d n _ args hargs
  have hrt := roundtrip d n _ args es [] hargs hes
  obtain ⟨rs, hrs⟩ := enc_total d n _ _ hres
  have hrt2 := roundtrip d n _ _ rs [] hres hrs
  simp only [List.append_nil] at hrt hrt2
  unfold call
  simp only [hes, hrt, hh, Bool.false_eq_true, if_false, hrs, hrt2]
  simp [lookupVal, hsd, hvoid]

/-- The caller observes exactly the declared exception the handler raised. -/
theorem c03_faithful_declared (d : Defs) (n : Nat) (key : String) (args e : Val) (i : Int) (h : Val → HOutcome)
    (hargs : WT d n (.struct (key ++ "_args")) args) (hh : h args = .declared i e) (hi : i ≠ 0)
    (hres : WT d n (.struct (key ++ "_result")) (.struct [(i, e)])) :
    (call d n key false args h).result = .exc i e := by
  obtain ⟨es, hes⟩ := enc_total d n _ args hargs
  have hrt := roundtrip d n _ args es [] hargs hes
  obtain ⟨rs, hrs⟩ := enc_total d n _ _ hres
  have hrt2 := roundtrip d n _ _ rs [] hres hrs
  simp only [List.append_nil] at hrt hrt2
  unfold call
  simp only [hes, hrt, hh, Bool.false_eq_true, if_false, hrs, hrt2]
  simp [lookupVal, hi]

/-- An undeclared failure reaches the caller as an application error: INTERNAL_ERROR for an arbitrary
error, the handler's own type for a TApplicationException. -/
theorem c03_faithful_undeclared (d : Defs) (n : Nat) (key : String) (args : Val) (h : Val → HOutcome)
    (hargs : WT d n (.struct (key ++ "_args")) args) :
    (h args = .otherError → (call d n key false args h).result = .app internalError) ∧
    (∀ ty, h args = .appException ty → (call d n key false args h).result = .app ty) := by
  obtain ⟨es, hes⟩ := enc_total d n _ args hargs
  have hrt := roundtrip d n _ args es [] hargs hes
  simp only [List.append_nil] at hrt
  constructor
  · intro hh; unfold call; simp only [hes, hrt, hh, Bool.false_eq_true, if_false]
  · intro ty hh; unfold call; simp only [hes, hrt, hh, Bool.false_eq_true, if_false]

/-- Inherited methods behave identically: through the child's processor a method the child does not
redefine dispatches to the very same processor function (same args/result structs, same handler
method) as through the parent's own processor — so all the theorems above apply to it unchanged. -/
theorem c03_inherited_same (svcs : List Service) (fuel : Nat) (child : Service) (p m : String)
    (hc : svcs.find? (·.key = child.key) = some child) (hp : child.parent = some p)
    (hm : m ∉ child.methods) :
    dispatch (procMap svcs (fuel + 1) child.key) m = dispatch (procMap svcs fuel p) m := by
  simp only [procMap, hc, hp, dispatch, List.reverse_append, List.find?_append]
  have hnone : List.find? (fun x : String × String => decide (x.1 = m))
      (child.methods.map fun m' => (m', child.key ++ "_" ++ m')).reverse = none := by
    rw [List.find?_eq_none]
    intro x hx
    simp only [List.mem_reverse, List.mem_map] at hx
    obtain ⟨m', hm', rfl⟩ := hx
    simp only [decide_eq_true_eq]
    intro e; exact hm (e ▸ hm')
  rw [hnone]; simp

/-! Non-vacuity: a child with one own method extending a parent with two. -/
example : dispatch (procMap [⟨"f/Base", none, ["ping", "get"]⟩, ⟨"f/Svc", some "f/Base", ["put"]⟩] 3 "f/Svc") "get"
    = some "f/Base_get" := by decide

end FV.C03
