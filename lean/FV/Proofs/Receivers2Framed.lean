/-
The adapter read loop of FV.Model.Receivers2 (explicit partial operations, fuel) against C15's model of the
same loop (FV.Model.Framed: `deframe`, `deliver`, `readAll`): they agree on every byte stream. Consequences:
when the published cause is nil every whole frame of the stream was accepted and no size prefix refused;
valid traffic is delivered frame by frame.
-/
import FV.Model.Receivers2
import FV.Model.Framed
import FV.Proofs.Receivers2
import FV.Proofs.Framed
import FV.Proofs.Headers

namespace FV.Recv2
open FV

theorem readFrame_boundary (s : Bytes) :
    readFrame ⟨s, 0⟩ =
      if s.length < 4 then .err .eof
      else if rd32 s > maxFrame then .err .transport
      else if (s.drop 4).length < rd32 s then .err .eof
      else .ok ((s.drop 4).take (rd32 s), ⟨(s.drop 4).drop (rd32 s), 0⟩) := by
  unfold readFrame FT.ensure FT.header
  simp only [if_true]
  by_cases h4 : s.length < 4
  · simp only [h4, if_true]
  · simp only [h4, if_false]
    by_cases hb : rd32 s > maxFrame
    · simp only [hb, if_true]
    · simp only [hb, if_false]
      rw [makeBytes_nat]
      dsimp only
      unfold FT.readFull
      by_cases hz : rd32 s = 0
      · simp [hz]
      · simp only [hz, if_false]
        unfold FT.ensure
        simp only [hz, if_false]
        rw [if_neg (by omega)]
        by_cases hl : (s.drop 4).length < rd32 s
        · simp only [hl, if_true]
        · simp only [hl, if_false, Nat.sub_self]

/-- Clean/dirty as C15's transition system classifies the value published on `Closed()`. -/
def causeClass : Option Err → Adapter.Cause
  | none => .clean
  | some _ => .dirty

theorem adapterLoop_refines : ∀ (fuel : Nat) (s : Bytes) (d : Nat), s.length < fuel →
    ∃ e, adapterLoop fuel ⟨s, 0⟩ d = .ok e ∧
      e.delivered = d + (Framed.deliver (Framed.deframe s).1).1 ∧
      (e.cause = none ↔ ((Framed.deliver (Framed.deframe s).1).2 = true ∧ (Framed.deframe s).2 ≠ .badSize)) := by
  intro fuel
  induction fuel with
  | zero => intro s d h; omega
  | succ k ih =>
    intro s d hf
    unfold adapterLoop
    rw [readFrame_boundary]
    rw [Framed.deframe]
    have hmax : Framed.maxLength = maxFrame := rfl
    by_cases h0 : s.length = 0
    · have : s.length < 4 := by omega
      simp only [h0, if_true]
      exact ⟨_, rfl, by simp [Framed.deliver], by simp [Framed.deliver]⟩
    · by_cases h4 : s.length < 4
      · simp only [h4, h0, if_true, if_false]
        exact ⟨_, rfl, by simp [Framed.deliver], by simp [Framed.deliver]⟩
      · simp only [h4, h0, if_false]
        rw [hmax]
        by_cases hb : rd32 s > maxFrame
        · simp only [hb, if_true]
          exact ⟨_, rfl, by simp [Framed.deliver], by simp [Framed.deliver]⟩
        · simp only [hb, if_false]
          by_cases hl : (s.drop 4).length < rd32 s
          · simp only [hl, if_true]
            exact ⟨_, rfl, by simp [Framed.deliver], by simp [Framed.deliver]⟩
          · simp only [hl, if_false]
            have hlen : ((s.drop 4).drop (rd32 s)).length < k := by
              simp only [List.length_drop]; omega
            obtain ⟨e, he, hd, hc⟩ := ih ((s.drop 4).drop (rd32 s)) (d + 1) hlen
            cases hx : registryExecuteEmpty ((s.drop 4).take (rd32 s)) with
            | ok u =>
              simp only [Framed.deliver, hx, Res.isOk, if_true]
              exact ⟨e, he, by omega, hc⟩
            | err er =>
              simp only [Framed.deliver, hx, Res.isOk]
              exact ⟨_, rfl, by simp, by simp⟩
            | panic p => exact absurd hx (registryExecuteEmpty_no_panic _ p)

/-- The explicit-partial-operations model of this file and C15's `Framed.readAll` (whole frames,
cut-anywhere family) describe the same read loop: same number of frames delivered, and the published
cause is nil exactly when C15's model says the close is clean. -/
theorem adapterRecv_refines_framed (s : Bytes) :
    ∃ e, adapterRecv s = .ok e ∧ e.delivered = (Framed.readAll s true).1 ∧
      causeClass e.cause = (Framed.readAll s true).2 := by
  obtain ⟨e, he, hd, hc⟩ := adapterLoop_refines (s.length + 1) s 0 (by omega)
  refine ⟨e, he, ?_, ?_⟩
  · unfold Framed.readAll
    simp only []
    rw [hd]
    split
    · simp
    · split <;> simp
  · unfold Framed.readAll
    simp only []
    cases hdv : (Framed.deliver (Framed.deframe s).1).2 with
    | false =>
      have : e.cause ≠ none := fun h => by have := hc.mp h; rw [hdv] at this; cases this.1
      cases hcz : e.cause with
      | none => exact absurd hcz this
      | some x => simp [causeClass]
    | true =>
      by_cases hbs : (Framed.deframe s).2 = .badSize
      · have : e.cause ≠ none := fun h => (hc.mp h).2 hbs
        cases hcz : e.cause with
        | none => exact absurd hcz this
        | some x => simp [causeClass, hbs]
      · have : e.cause = none := hc.mpr ⟨hdv, hbs⟩
        simp [this, causeClass, hbs]

theorem wholeBefore_all (fs : List Bytes) : Framed.wholeBefore fs (Framed.encode fs).length = fs.length := by
  induction fs with
  | nil => rfl
  | cons f t ih =>
    rw [Framed.encode_cons_length]
    simp only [Framed.wholeBefore]
    rw [if_pos (by omega)]
    have : 4 + f.length + (Framed.encode t).length - (4 + f.length) = (Framed.encode t).length := by omega
    rw [this, ih]
    simp; omega

/-- Valid traffic: a stream of frames that each fit `maxLength` and that the registry accepts is delivered
frame by frame, and the peer's hang-up then closes the transport cleanly (cause nil). -/
theorem adapterRecv_wellformed (fs : List Bytes)
    (hfs : ∀ f ∈ fs, f.length ≤ maxFrame ∧ (registryExecuteEmpty f).isOk = true) :
    adapterRecv (Framed.encode fs) = .ok ⟨none, fs.length⟩ := by
  obtain ⟨e, he, hd, hc⟩ := adapterLoop_refines ((Framed.encode fs).length + 1) (Framed.encode fs) 0 (by omega)
  have hcut := Framed.deframe_cut fs (fun f hf => (hfs f hf).1) (Framed.encode fs).length (Nat.le_refl _)
  rw [List.take_of_length_le (Nat.le_refl _), wholeBefore_all, List.take_of_length_le (Nat.le_refl _)] at hcut
  have hdel := Framed.deliver_all_ok fs (fun f hf => (hfs f hf).2)
  rw [hcut.1, hdel] at hd hc
  have hcause : e.cause = none := hc.mpr ⟨rfl, hcut.2⟩
  unfold adapterRecv
  rw [he]
  cases e with
  | mk c dl =>
    simp only at hd hcause
    subst hcause
    simp [hd]

end FV.Recv2
