/-
Enabledness and progress lemmas for the adapter transport model (C15): the mutex holder can
always move, a failing read loop runs to its end, and the only closing steps are close()'s.
-/
import FV.Model.Adapter
import FV.Proofs.Adapter
namespace FV.Adapter

theorem holder_enabled {s : Sys} (h : SysInv s) (p : Pid) (hmu : s.mu = some p) : (step s p.act).isSome = true := by
  have ho := h.muOpen (by simp [hmu])
  have hz := curSig_zero h ho
  cases p with
  | call i =>
    have := h.muCall i hmu
    simp [Pid.act, step, this, hz, closeSignalCap]
  | loop k =>
    obtain ⟨w, hw⟩ := h.muLoop k hmu
    simp only [Sys.loopPc] at hw
    simp [Pid.act, step, hw, hz, closeSignalCap]

theorem call_enabled_of_free {s : Sys} (h : SysInv s) (hmu : s.mu = none) (i : Nat) (c : Call)
    (hc : s.calls[i]? = some c) (hp : ∀ r, c.pc ≠ .done r) : (step s (.callStep i true)).isSome = true := by
  obtain ⟨kind, pc⟩ := c
  cases pc with
  | done r => exact absurd rfl (hp r)
  | atSignal => have := h.callAt i _ hc rfl; simp [hmu] at this
  | start =>
    cases kind <;> simp [step, hc, hmu] <;> split <;> simp


/-- with the mutex free, a failing read loop runs to its end on its own -/
theorem loop_finishes_free {s : Sys} (h : SysInv s) (hg : s.guarded = true) (hmu : s.mu = none) (k : Nat)
    (hk : (∃ ev, s.loopPc k = some (.onerror ev)) ∨ (∃ w, s.loopPc k = some (.closing w))) :
    ∃ n s', n ≤ 3 ∧ run s (List.replicate n (.loopStep k)) = some s' ∧ s'.loopPc k = some .done := by
  -- from `closing`
  have fromClosing : ∀ (t : Sys), SysInv t → t.guarded = true → t.mu = none → ∀ w, t.loopPc k = some (.closing w) →
      ∃ n s', n ≤ 2 ∧ run t (List.replicate n (.loopStep k)) = some s' ∧ s'.loopPc k = some .done := by
    intro t ht htg htmu w hw
    have hw' : t.incs[k]?.map Inc.loop = some (.closing w) := hw
    by_cases ho : t.isOpen = true
    · -- takes the mutex, then closes
      let t1 := setLoop { t with mu := some (.loop k) } k (.atSignal w)
      have hst : step t (.loopStep k) = some t1 := by simp [step, hw', htmu, ho, t1]
      have ht1 := inv_step ht htg hst
      have hpc1 : t1.loopPc k = some (.atSignal w) := by
        simp only [t1, loopPc_setLoop, if_true]
        have : ({ t with mu := some (Pid.loop k) } : Sys).loopPc k = t.loopPc k := rfl
        rw [this, hw]; simp
      have hz := curSig_zero ht1 (by simp [t1, ho])
      have hpc1' : t1.incs[k]?.map Inc.loop = some (.atSignal w) := hpc1
      have hst2 : step t1 (.loopStep k) = some (setLoop (doClose t1 w) k .done) := by
        simp [step, hpc1', hz, closeSignalCap]
      refine ⟨2, setLoop (doClose t1 w) k .done, by omega, ?_, ?_⟩
      · simp [List.replicate, run, hst, hst2]
      · rw [loopPc_setLoop]; simp only [if_true]
        obtain ⟨pc, hpc⟩ := (doClose_loopPc_some t1 ht1.fresh w k).mpr ⟨_, hpc1⟩
        rw [hpc]; simp
    · have hst : step t (.loopStep k) = some (setLoop t k .done) := by simp [step, hw', htmu, ho]
      refine ⟨1, setLoop t k .done, by omega, ?_, ?_⟩
      · simp [List.replicate, run, hst]
      · rw [loopPc_setLoop, hw]; simp
  rcases hk with ⟨ev, hev⟩ | ⟨w, hw⟩
  · have hev' : s.incs[k]?.map Inc.loop = some (.onerror ev) := hev
    by_cases hp : s.sigOf k > 0
    · have hst : step s (.loopStep k) = some (setLoop (s.setSig k (s.sigOf k - 1)) k .done) := by
        simp [step, hev', hp]
      refine ⟨1, setLoop (s.setSig k (s.sigOf k - 1)) k .done, by omega, ?_, ?_⟩
      · simp [List.replicate, run, hst]
      · rw [loopPc_setLoop, setSig_loopPc s h.fresh, hev]; simp
    · let w : Closer := if ev = .eof then .peerEof else .failure
      have hst : step s (.loopStep k) = some (setLoop s k (.closing w)) := by simp [step, hev', hp, w]
      have h1 := inv_step h hg hst
      have hpc : (setLoop s k (.closing w)).loopPc k = some (.closing w) := by rw [loopPc_setLoop, hev]; simp
      obtain ⟨n, s', hn, hrun, hdone⟩ := fromClosing _ h1 (by simpa using hg) (by simpa using hmu) w hpc
      refine ⟨n + 1, s', by omega, ?_, hdone⟩
      simp [List.replicate_succ, run, hst, hrun]
  · obtain ⟨n, s', hn, hrun, hdone⟩ := fromClosing s h hg hmu w hw
    exact ⟨n, s', by omega, hrun, hdone⟩

theorem doClose_loopPc_keep (s : Sys) (hf : s.fresh = true) (w : Closer) (k : Nat) (pc : LPc)
    (hk : s.loopPc k = some pc) (hpc : pc ≠ .reading) : (doClose s w).loopPc k = some pc := by
  simp only [Sys.loopPc, doClose_incs s w hf, Option.map_map] at hk ⊢
  cases hi : s.incs[k]? with
  | none => simp [hi] at hk
  | some i =>
    simp [hi] at hk
    simp [closeInc_loop, hk, hpc]

theorem run_append (s : Sys) (as bs : List Action) :
    run s (as ++ bs) = (run s as).bind fun s' => run s' bs := by
  induction as generalizing s with
  | nil => simp [run]
  | cons a t ih =>
    simp only [List.cons_append, run]
    cases step s a <;> simp [ih]

/-- a read loop that has seen its read fail runs to its end using only its own steps and
(first) the step of whoever holds the mutex -/
theorem loop_finishes {s : Sys} (h : SysInv s) (hg : s.guarded = true) (k : Nat)
    (hk : (∃ ev, s.loopPc k = some (.onerror ev)) ∨ (∃ w, s.loopPc k = some (.closing w)) ∨
          (∃ w, s.loopPc k = some (.atSignal w))) :
    ∃ as s', as.length ≤ 4 ∧ (∀ a ∈ as, a = .loopStep k ∨ ∃ p, s.mu = some p ∧ a = p.act) ∧
      run s as = some s' ∧ s'.loopPc k = some .done := by
  cases hmu : s.mu with
  | none =>
    rcases hk with hk | hk | ⟨w, hw⟩
    · obtain ⟨n, s', hn, hr, hd⟩ := loop_finishes_free h hg hmu k (Or.inl hk)
      exact ⟨_, s', by simp; omega, by intro a ha; left; exact (List.mem_replicate.mp ha).2, hr, hd⟩
    · obtain ⟨n, s', hn, hr, hd⟩ := loop_finishes_free h hg hmu k (Or.inr hk)
      exact ⟨_, s', by simp; omega, by intro a ha; left; exact (List.mem_replicate.mp ha).2, hr, hd⟩
    · have := h.loopAt k w hw; simp [hmu] at this
  | some p =>
    have hen := holder_enabled h p hmu
    cases hst : step s p.act with
    | none => simp [hst] at hen
    | some s1 =>
      have h1 := inv_step h hg hst
      have hg1 : s1.guarded = true := by rw [step_guarded hst]; exact hg
      have ho := h.muOpen (by simp [hmu])
      have hz := curSig_zero h ho
      -- what the holder's step does
      cases p with
      | call i =>
        have hc := h.muCall i hmu
        have e : s1 = setCall (doClose s .user) i (.done .ok) := by
          simp [Pid.act, step, hc, hz, closeSignalCap] at hst; exact hst.symm
        have hmu1 : s1.mu = none := by rw [e]; simp
        have keep : ∀ pc, s.loopPc k = some pc → pc ≠ .reading → s1.loopPc k = some pc := by
          intro pc hpc hne; rw [e]
          have := doClose_loopPc_keep s h.fresh .user k pc hpc hne
          simpa [Sys.loopPc] using this
        have hk1 : (∃ ev, s1.loopPc k = some (.onerror ev)) ∨ (∃ w, s1.loopPc k = some (.closing w)) := by
          rcases hk with ⟨ev, hev⟩ | ⟨w, hw⟩ | ⟨w, hw⟩
          · exact Or.inl ⟨ev, keep _ hev (by simp)⟩
          · exact Or.inr ⟨w, keep _ hw (by simp)⟩
          · have := h.loopAt k w hw; rw [hmu] at this; cases this
        obtain ⟨n, s', hn, hr, hd⟩ := loop_finishes_free h1 hg1 hmu1 k hk1
        refine ⟨Pid.act (.call i) :: List.replicate n (.loopStep k), s', by simp; omega, ?_, ?_, hd⟩
        · intro a ha
          rcases List.mem_cons.mp ha with rfl | ha
          · right; exact ⟨_, rfl, rfl⟩
          · left; exact (List.mem_replicate.mp ha).2
        · simp [run, hst, hr]
      | loop j =>
        obtain ⟨wj, hwj⟩ := h.muLoop j hmu
        have hwj' : s.incs[j]?.map Inc.loop = some (.atSignal wj) := hwj
        have e : s1 = setLoop (doClose s wj) j .done := by
          simp [Pid.act, step, hwj', hz, closeSignalCap] at hst; exact hst.symm
        have hmu1 : s1.mu = none := by rw [e]; simp
        by_cases hjk : j = k
        · subst hjk
          refine ⟨[Pid.act (.loop j)], s1, by simp, ?_, by simp [run, hst], ?_⟩
          · intro a ha; right; simp at ha; exact ⟨_, rfl, ha⟩
          · rw [e, loopPc_setLoop]; simp only [if_true]
            obtain ⟨pc, hpc⟩ := (doClose_loopPc_some s h.fresh wj j).mpr ⟨_, hwj⟩
            rw [hpc]; simp
        · have keep : ∀ pc, s.loopPc k = some pc → pc ≠ .reading → s1.loopPc k = some pc := by
            intro pc hpc hne; rw [e, loopPc_setLoop]; simp only [hjk, if_false]
            exact doClose_loopPc_keep s h.fresh wj k pc hpc hne
          have hk1 : (∃ ev, s1.loopPc k = some (.onerror ev)) ∨ (∃ w, s1.loopPc k = some (.closing w)) := by
            rcases hk with ⟨ev, hev⟩ | ⟨w, hw⟩ | ⟨w, hw⟩
            · exact Or.inl ⟨ev, keep _ hev (by simp)⟩
            · exact Or.inr ⟨w, keep _ hw (by simp)⟩
            · have := h.loopAt k w hw; rw [hmu] at this; injection this with this; injection this with this
              exact absurd this hjk
          obtain ⟨n, s', hn, hr, hd⟩ := loop_finishes_free h1 hg1 hmu1 k hk1
          refine ⟨Pid.act (.loop j) :: List.replicate n (.loopStep k), s', by simp; omega, ?_, ?_, hd⟩
          · intro a ha
            rcases List.mem_cons.mp ha with rfl | ha
            · right; exact ⟨_, rfl, rfl⟩
            · left; exact (List.mem_replicate.mp ha).2
          · simp [run, hst, hr]


theorem doClose_mon_empty (s : Sys) (hf : s.fresh = true) (w : Closer) (hm : s.mon = some []) :
    (doClose s w).mon = some [w.cause] ∧ (doClose s w).monSent = s.monSent + 1 ∧ (doClose s w).monDropped = s.monDropped := by
  unfold doClose
  simp only [Sys.setSig, hf, if_true, notifyMon, hm, monitorChanCap]
  simp

theorem doClose_mon_full (s : Sys) (hf : s.fresh = true) (w : Closer) (c : Cause) (hm : s.mon = some [c]) :
    (doClose s w).mon = some [c] ∧ (doClose s w).monSent = s.monSent ∧ (doClose s w).monDropped = s.monDropped + 1 := by
  unfold doClose
  simp only [Sys.setSig, hf, if_true, notifyMon, hm, monitorChanCap]
  simp

/-- the only steps that take the transport from open to closed are the second halves of `close()` -/
theorem closing_step {s s' : Sys} {a : Action} (hs : step s a = some s') (ho : s.isOpen = true) (hc : s'.isOpen = false) :
    ∃ w, s'.mon = (doClose s w).mon ∧ s'.monSent = (doClose s w).monSent ∧ s'.monDropped = (doClose s w).monDropped ∧
      ∀ j : Nat, (s'.incs[j]?).map (fun (i : Inc) => (i.closedBy, i.chan)) = ((doClose s w).incs[j]?).map (fun (i : Inc) => (i.closedBy, i.chan)) := by
  cases a with
  | invoke kd => simp only [step, Option.some.injEq] at hs; subst hs; simp [ho] at hc
  | callStep i openOk =>
    simp only [step] at hs
    split at hs <;> (try split at hs) <;> (try split at hs) <;> (try split at hs) <;>
    first
    | (cases hs; done)
    | (cases hs; simp [ho] at hc; done)
    | (cases hs; exact ⟨.user, rfl, rfl, rfl, by intro j; rfl⟩)
  | read k ev =>
    simp only [step] at hs
    split at hs
    · cases ev <;> simp only [Option.some.injEq] at hs <;> subst hs <;> simp [ho] at hc
    · cases hs
  | loopStep k =>
    simp only [step] at hs
    split at hs
    · split at hs <;> cases hs
      · simp [Sys.setSig] at hc; split at hc <;> simp [ho] at hc
      · simp [ho] at hc
    · split at hs <;> (try split at hs) <;> first | (cases hs; done) | (cases hs; simp [ho] at hc; done)
    · rename_i w _
      split at hs
      · cases hs
        refine ⟨w, rfl, rfl, rfl, ?_⟩
        intro j; simp only [setLoop_incs, Option.map_map]
        congr 1; funext i; simp only [Function.comp]; split <;> rfl
      · cases hs
    · cases hs
  | setMonitor =>
    simp only [step] at hs
    split at hs <;> cases hs; simp [ho] at hc
  | monRecv =>
    simp only [step] at hs
    split at hs <;> cases hs; simp [ho] at hc
end FV.Adapter
