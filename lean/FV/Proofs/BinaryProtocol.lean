/- Lemmas about the byte-level model of the binary protocol (FV.Model.BinaryProtocol). -/
import FV.Model.BinaryProtocol
namespace FV.Thrift

theorem leBytes_length : ∀ (k n : Nat), (leBytes k n).length = k
  | 0, _ => rfl
  | k + 1, n => by simp [leBytes, leBytes_length k]

theorem leNat_leBytes : ∀ (k n : Nat), leNat (leBytes k n) = n % 256 ^ k
  | 0, n => by simp [leBytes, leNat, Nat.mod_one]
  | k + 1, n => by
    have h8 : (UInt8.ofNat (n % 256)).toNat = n % 256 := by
      rw [UInt8.toNat_ofNat']; exact Nat.mod_eq_of_lt (by omega)
    simp only [leBytes, leNat, leNat_leBytes k, h8]
    rw [Nat.pow_succ, Nat.mul_comm (256 ^ k) 256, Nat.mod_mul]

theorem beBytes_length (k n : Nat) : (beBytes k n).length = k := by
  simp [beBytes, leBytes_length]

theorem beNat_beBytes (k n : Nat) : beNat (beBytes k n) = n % 256 ^ k := by
  simp [beNat, beBytes, leNat_leBytes]

theorem readN_append (k : Nat) (a rest : Bytes) (h : a.length = k) : readN k (a ++ rest) = .ok (a, rest) := by
  subst h
  simp [readN]

theorem binReadBE_beBytes (k n : Nat) (rest : Bytes) :
    binReadBE k (beBytes k n ++ rest) = .ok (n % 256 ^ k, rest) := by
  simp only [binReadBE, readN_append k _ rest (beBytes_length k n), beNat_beBytes]

theorem toS8_toU8 (z : Int) (h : -128 ≤ z ∧ z < 128) : toS8 (toU8 z) = z := by
  simp only [toS8, toU8]; omega
theorem toS16_toU16 (z : Int) (h : -32768 ≤ z ∧ z < 32768) : toS16 (toU16 z % 65536) = z := by
  simp only [toS16, toU16]; omega
theorem toI32_toU32 (z : Int) (h : -2147483648 ≤ z ∧ z < 2147483648) : toI32 (toU32 z % 4294967296) = z := by
  simp only [toI32, toU32]; omega
theorem toS64_toU64 (z : Int) (h : -9223372036854775808 ≤ z ∧ z < 9223372036854775808) :
    toS64 (toU64 z % 18446744073709551616) = z := by
  simp only [toS64, toU64]; omega

theorem u8_small (n : Nat) (h : n < 256) : (UInt8.ofNat n).toNat = n := by
  rw [UInt8.toNat_ofNat']; exact Nat.mod_eq_of_lt h

theorem binReadU8_cons (b : UInt8) (r : Bytes) : binReadU8 (b :: r) = .ok (b.toNat, r) := rfl

theorem checkSize_ok (n : Nat) (h : n ≤ maxMessageSize) : checkSize (toI32 (n % 256 ^ 4)) = .ok n := by
  have hp : (256 : Nat) ^ 4 = 4294967296 := by decide
  have hm : maxMessageSize = 104857600 := rfl
  have e : toI32 (n % 256 ^ 4) = (n : Int) := by rw [hp]; simp only [toI32]; omega
  rw [e]
  simp only [checkSize]
  rw [if_neg (by omega), if_neg (by omega)]
  simp

theorem binReadSize_be (n : Nat) (rest : Bytes) (h : n ≤ maxMessageSize) :
    binReadSize (beBytes 4 n ++ rest) = .ok (n, rest) := by
  simp only [binReadSize, binReadBE_beBytes, checkSize_ok n h]

theorem binReadElemHdr_be (mk : Nat → Nat → Event) (tt n : Nat) (rest : Bytes) (ht : tt < 256) (h : n ≤ maxMessageSize) :
    binReadElemHdr mk (UInt8.ofNat tt :: (beBytes 4 n ++ rest)) = .ok (mk tt n, rest) := by
  simp only [binReadElemHdr, binReadU8_cons, binReadSize_be n rest h, u8_small tt ht]

/-- Every read call returns what the corresponding write call was given (names excepted) and
consumes exactly the bytes that call wrote. -/
theorem binRead_binWrite (e : Event) (rest : Bytes) (h : BinFits e) :
    binRead (callOf e) (binWrite e ++ rest) = .ok (binErase e, rest) := by
  have p2 : (256 : Nat) ^ 2 = 65536 := by decide
  have p4 : (256 : Nat) ^ 4 = 4294967296 := by decide
  have p8 : (256 : Nat) ^ 8 = 18446744073709551616 := by decide
  cases e with
  | sb nm => rfl
  | se => rfl
  | fe => rfl
  | me => rfl
  | le => rfl
  | te => rfl
  | fs => rfl
  | fb nm tt id =>
    obtain ⟨h0, h1, h2, h3⟩ := h
    simp only [callOf, binWrite, binRead, List.cons_append, binReadU8_cons, u8_small tt h1,
      binReadBE_beBytes, binErase]
    rw [if_neg (by omega), p2, toS16_toU16 id ⟨h2, h3⟩]
  | mb kt vt n =>
    obtain ⟨h1, h2, h3⟩ := h
    simp only [callOf, binWrite, binRead, List.cons_append, binReadU8_cons, u8_small kt h1, binErase]
    exact binReadElemHdr_be _ vt n rest h2 h3
  | lb tt n =>
    obtain ⟨h1, h2⟩ := h
    exact binReadElemHdr_be _ tt n rest h1 h2
  | tb tt n =>
    obtain ⟨h1, h2⟩ := h
    exact binReadElemHdr_be _ tt n rest h1 h2
  | bool b =>
    cases b <;> simp [callOf, binWrite, binRead, binReadU8, binErase]
  | byte n =>
    simp only [callOf, binWrite, binRead, List.cons_append, List.nil_append, binReadU8_cons, binErase]
    rw [u8_small _ (by simp only [toU8]; omega), toS8_toU8 n h]
  | i16 n =>
    simp only [callOf, binWrite, binRead, binReadBE_beBytes, binErase]
    rw [p2, toS16_toU16 n h]
  | i32 n =>
    simp only [callOf, binWrite, binRead, binReadBE_beBytes, binErase]
    rw [p4, toI32_toU32 n h]
  | i64 n =>
    simp only [callOf, binWrite, binRead, binReadBE_beBytes, binErase]
    rw [p8, toS64_toU64 n h]
  | dbl bits =>
    simp only [callOf, binWrite, binRead, binReadBE_beBytes, binErase]
    rw [p8, Nat.mod_eq_of_lt h]
  | str flag b =>
    cases flag <;>
    simp only [callOf, binWrite, binRead, binReadStr, List.append_assoc, binReadSize_be b.length _ h,
      readN_append b.length b rest rfl, binErase]

theorem binEnc_cons (e : Event) (es : List Event) : binEnc (e :: es) = binWrite e ++ binEnc es := by
  simp [binEnc]

/-- Reading with the calls that mirror the writer's calls returns the written events (names
excepted) and leaves exactly what followed the encoding. -/
theorem binReads_binEnc : ∀ (es : List Event) (rest : Bytes), (∀ e ∈ es, BinFits e) →
    binReads (es.map callOf) (binEnc es ++ rest) = .ok (es.map binErase, rest) := by
  intro es
  induction es with
  | nil => intro rest _; simp [binReads, binEnc]
  | cons e es ih =>
    intro rest h
    rw [binEnc_cons, List.append_assoc, List.map_cons, binReads,
      binRead_binWrite e _ (h e (by simp))]
    simp only
    rw [ih rest (fun x hx => h x (by simp [hx]))]
    simp
end FV.Thrift
