/-
Helper lemmas for C17 (FV/Props/C17.lean) about FV/Model/ContextHeap.lean:
decimal rendering is injective and parses back, association-list facts, and the
generic facts about `State.apply`/`effect` from which the separation theorems
follow: allocation only appends, an operation overwrites at most one existing
map and that map is held by the operation's target context or is a returned map.
-/
import FV.Model.ContextHeap
namespace FV.CH
open FV

theorem get?_set_self (h : Hdrs) (k v : Bytes) : (h.set k v).get? k = some v := by
  induction h with
  | nil => simp [Hdrs.set, Hdrs.get?]
  | cons a t ih =>
    obtain ⟨k', v'⟩ := a
    simp only [Hdrs.set]
    split
    · simp [Hdrs.get?]
    · rename_i hne; simp [Hdrs.get?, hne, ih]

theorem get?_set_ne (h : Hdrs) (k k' v : Bytes) (hne : k' ≠ k) : (h.set k v).get? k' = h.get? k' := by
  induction h with
  | nil => simp [Hdrs.set, Hdrs.get?, Ne.symm hne]
  | cons a t ih =>
    obtain ⟨k1, v1⟩ := a
    simp only [Hdrs.set]
    split
    · rename_i he; subst he; simp [Hdrs.get?, Ne.symm hne]
    · simp only [Hdrs.get?]; split <;> simp [ih]

theorem digitsVal_append (a b : List UInt8) (acc : Nat) :
    digitsVal (a ++ b) acc = (digitsVal a acc).bind (digitsVal b) := by
  induction a generalizing acc with
  | nil => simp [digitsVal]
  | cons c t ih =>
    simp only [List.cons_append, digitsVal]
    split
    · exact ih _
    · simp

theorem digit_toNat (d : Nat) (h : d < 10) : (UInt8.ofNat (48 + d)).toNat = 48 + d := by
  simp [UInt8.toNat_ofNat']; omega

theorem digitsVal_dec (n : Nat) : digitsVal (dec n) 0 = some n := by
  induction n using Nat.strongRecOn with
  | _ n ih =>
    rw [dec]
    split
    · rename_i h
      simp only [digitsVal, digit_toNat n h]
      rw [if_pos (by omega)]
      congr 1; omega
    · rename_i h
      rw [digitsVal_append, ih (n / 10) (by omega)]
      simp only [Option.bind_some, digitsVal, digit_toNat (n % 10) (by omega)]
      rw [if_pos (by omega)]
      congr 1; omega

theorem dec_inj {a b : Nat} (h : dec a = dec b) : a = b := by
  have := digitsVal_dec a
  rw [h, digitsVal_dec b] at this
  exact (Option.some.inj this).symm

theorem dec_ne_nil (n : Nat) : dec n ≠ [] := by
  rw [dec]; split <;> simp

theorem parseU64_dec (n : Nat) (h : n < M64) : parseU64 (dec n) = some n := by
  unfold parseU64
  have : (dec n).isEmpty = false := by
    cases hd : dec n with
    | nil => exact absurd hd (dec_ne_nil n)
    | cons _ _ => rfl
  simp only [this, digitsVal_dec]
  unfold M64 at h
  simp [h]

/-- All references held anywhere point into the heap. -/
structure WF (s : State) : Prop where
  ctxs : ∀ c ∈ s.ctxs, ∀ r : Nat, r ∈ c.refs → r < s.heap.length
  protos : ∀ r : Nat, r ∈ s.protos → r < s.heap.length
  rets : ∀ r : Nat, r ∈ s.rets → r < s.heap.length

/-- `r` is one of the maps the effect allocates. -/
def Effect.Fresh (s : State) (e : Effect) (r : Nat) : Prop :=
  s.heap.length ≤ r ∧ r < s.heap.length + e.allocs.length

/-- New holders hold fresh maps only — except a received context's ephemeral map,
which is the protocol's. -/
structure EffOK (s : State) (e : Effect) : Prop where
  ctxs : ∀ c ∈ e.ctxs, e.Fresh s c.req ∧ e.Fresh s c.resp ∧ (e.Fresh s c.eph ∨ c.eph ∈ s.protos)
  protos : ∀ r ∈ e.protos, e.Fresh s r
  rets : ∀ r ∈ e.rets, e.Fresh s r
  excl : e.rets = [] ∨ (e.ctxs = [] ∧ e.protos = [])

theorem effect_ok (s : State) (op : Op) : EffOK s (effect s op).1 := by
  cases op <;> simp only [effect] <;> (try split) <;> (try split) <;>
    constructor <;> simp [State.noop, Effect.Fresh] <;> (try omega)
  all_goals (right; exact List.mem_of_getElem? ‹_›)

theorem apply_heap_length (s : State) (e : Effect) :
    (s.apply e).heap.length = s.heap.length + e.allocs.length := by
  unfold State.apply
  cases e.write with
  | none => simp
  | some p => simp

/-- Frame: an old map that is not the one overwritten reads as before. -/
theorem apply_hget_old (s : State) (e : Effect) (r : Nat) (hr : r < s.heap.length)
    (hw : ∀ r' m, e.write = some (r', m) → r' ≠ r) : hget (s.apply e).heap r = hget s.heap r := by
  unfold State.apply hget
  cases hwr : e.write with
  | none => simp [List.getElem?_append_left hr]
  | some p =>
    obtain ⟨r', m⟩ := p
    have := hw r' m hwr
    simp only
    rw [List.getElem?_append_left (by simpa using hr), List.getElem?_set_ne this]

theorem WF_apply (s : State) (e : Effect) (h : WF s) (he : EffOK s e) : WF (s.apply e) := by
  have hl := apply_heap_length s e
  constructor
  · intro c hc r hr
    rw [hl]
    simp only [State.apply, List.mem_append] at hc
    rcases hc with hc | hc
    · have := h.ctxs c hc r hr; omega
    · have ⟨h1, h2, h3⟩ := he.ctxs c hc
      simp only [Ctx.refs, List.mem_cons, List.not_mem_nil, or_false] at hr
      rcases hr with rfl | rfl | rfl
      · exact h1.2
      · exact h2.2
      · rcases h3 with h3 | h3
        · exact h3.2
        · have := h.protos _ h3; omega
  · intro r hr
    rw [hl]
    simp only [State.apply, List.mem_append] at hr
    rcases hr with hr | hr
    · have := h.protos r hr; omega
    · exact (he.protos r hr).2
  · intro r hr
    rw [hl]
    simp only [State.apply, List.mem_append] at hr
    rcases hr with hr | hr
    · have := h.rets r hr; omega
    · exact (he.rets r hr).2

theorem WF_step (s : State) (op : Op) (h : WF s) : WF (step s op).1 :=
  WF_apply s _ h (effect_ok s op)

theorem step_ctxs_old (s : State) (op : Op) (i : Nat) (c : Ctx) (h : s.ctxs[i]? = some c) :
    (step s op).1.ctxs[i]? = some c := by
  simp only [step, State.apply]
  have hi : i < s.ctxs.length := by
    have := (List.getElem?_eq_some_iff.mp h).1; exact this
  rw [List.getElem?_append_left hi]; exact h

/-- The one existing map an operation may overwrite is held by its target context,
or it is a map an accessor returned (and then the operation has no target). -/
theorem write_target (s : State) (op : Op) (r : Nat) (m : AMap) (h : (effect s op).1.write = some (r, m)) :
    (∃ t c, op.target = some t ∧ s.ctxs[t]? = some c ∧ r ∈ c.refs) ∨ (op.target = none ∧ r ∈ s.rets) := by
  cases op <;> simp only [effect] at h <;> (try split at h) <;> (try split at h) <;>
    simp [State.noop] at h
  · rename_i c w k v _ x hx
    left; refine ⟨c, x, rfl, hx, ?_⟩
    rw [← h.1]; cases w <;> simp [Ctx.sel, Ctx.refs]
  · rename_i c ns _ x hx
    left; refine ⟨c, x, rfl, hx, ?_⟩
    rw [← h.1]; simp [Ctx.refs]
  · right; exact ⟨rfl, h.1 ▸ List.mem_of_getElem? ‹_›⟩
  · right; exact ⟨rfl, h.1 ▸ List.mem_of_getElem? ‹_›⟩

/-- General frame lemma: an allocated map that is not a returned map and is not held
by the operation's target context reads the same after the operation. -/
theorem frame_step (s : State) (op : Op) (r : Nat) (hr : r < s.heap.length) (hrets : r ∉ s.rets)
    (ht : ∀ t c, op.target = some t → s.ctxs[t]? = some c → r ∉ c.refs) :
    hget (step s op).1.heap r = hget s.heap r := by
  apply apply_hget_old s _ r hr
  intro r' m hw heq
  subst heq
  rcases write_target s op r' m hw with ⟨t, c, h1, h2, h3⟩ | ⟨_, h2⟩
  · exact ht t c h1 h2 h3
  · exact hrets h2

/-- `r` is held by context `j` and by nothing else. -/
structure Owns (s : State) (j : Nat) (r : Nat) : Prop where
  held : ∃ c, s.ctxs[j]? = some c ∧ r ∈ c.refs
  only : ∀ i c', s.ctxs[i]? = some c' → r ∈ c'.refs → i = j
  protos : r ∉ s.protos
  rets : r ∉ s.rets

theorem Owns.lt {s : State} {j r : Nat} (h : WF s) (o : Owns s j r) : r < s.heap.length := by
  obtain ⟨c, hc, hr⟩ := o.held
  exact h.ctxs c (List.mem_of_getElem? hc) r hr

theorem Owns_step (s : State) (op : Op) (j r : Nat) (h : WF s) (o : Owns s j r) : Owns (step s op).1 j r := by
  have hlt := o.lt h
  have ok := effect_ok s op
  constructor
  · obtain ⟨c, hc, hr⟩ := o.held
    exact ⟨c, step_ctxs_old s op j c hc, hr⟩
  · intro i c' hi hr
    simp only [step, State.apply] at hi
    by_cases hil : i < s.ctxs.length
    · rw [List.getElem?_append_left hil] at hi
      exact o.only i c' hi hr
    · rw [List.getElem?_append_right (by omega)] at hi
      have hmem := List.mem_of_getElem? hi
      have ⟨h1, h2, h3⟩ := ok.ctxs c' hmem
      simp only [Ctx.refs, List.mem_cons, List.not_mem_nil, or_false] at hr
      unfold Effect.Fresh at h1 h2 h3
      rcases hr with rfl | rfl | rfl
      · omega
      · omega
      · rcases h3 with h3 | h3
        · omega
        · exact absurd h3 o.protos
  · intro hm
    simp only [step, State.apply, List.mem_append] at hm
    rcases hm with hm | hm
    · exact o.protos hm
    · have := ok.protos r hm; unfold Effect.Fresh at this; omega
  · intro hm
    simp only [step, State.apply, List.mem_append] at hm
    rcases hm with hm | hm
    · exact o.rets hm
    · have := ok.rets r hm; unfold Effect.Fresh at this; omega

/-- Side A: what a context owns exclusively is untouched by operations aimed elsewhere. -/
theorem owned_frame_step (s : State) (op : Op) (j r : Nat) (h : WF s) (o : Owns s j r)
    (ht : op.target ≠ some j) : hget (step s op).1.heap r = hget s.heap r := by
  apply frame_step s op r (o.lt h) o.rets
  intro t c h1 h2 h3
  exact ht (by rw [h1, o.only t c h2 h3])

theorem owned_frame_run (ops : List Op) : ∀ (s : State) (j r : Nat), WF s → Owns s j r →
    (∀ op ∈ ops, op.target ≠ some j) →
    hget (run s ops).1.heap r = hget s.heap r ∧ Owns (run s ops).1 j r ∧ WF (run s ops).1 := by
  induction ops with
  | nil => intro s j r h o _; exact ⟨rfl, o, h⟩
  | cons op t ih =>
    intro s j r h o ht
    have h1 := owned_frame_step s op j r h o (ht op (by simp))
    have ⟨a, b, c⟩ := ih (step s op).1 j r (WF_step s op h) (Owns_step s op j r h o)
      (fun op' hm => ht op' (by simp [hm]))
    simp only [run]
    exact ⟨a.trans h1, b, c⟩

/-- `r` is allocated, is not a returned map and is not held by context `j`. -/
structure Apart (s : State) (j : Nat) (r : Nat) : Prop where
  lt : r < s.heap.length
  rets : r ∉ s.rets
  exists_ : ∃ c, s.ctxs[j]? = some c
  notHeld : ∀ c, s.ctxs[j]? = some c → r ∉ c.refs

theorem Apart_step (s : State) (op : Op) (j r : Nat) (a : Apart s j r) : Apart (step s op).1 j r := by
  have ok := effect_ok s op
  obtain ⟨c, hc⟩ := a.exists_
  have hc' := step_ctxs_old s op j c hc
  constructor
  · have := apply_heap_length s (effect s op).1
    simp only [step]; have := a.lt; omega
  · intro hm
    simp only [step, State.apply, List.mem_append] at hm
    rcases hm with hm | hm
    · exact a.rets hm
    · have := ok.rets r hm; unfold Effect.Fresh at this; have := a.lt; omega
  · exact ⟨c, hc'⟩
  · intro c2 h2
    rw [hc'] at h2; cases h2
    exact a.notHeld c hc

/-- Side B: operations aimed at context `j` (and untargeted ones) leave untouched every
map that `j` does not hold. -/
theorem apart_frame_step (s : State) (op : Op) (j r : Nat) (a : Apart s j r)
    (ht : op.target = none ∨ op.target = some j) : hget (step s op).1.heap r = hget s.heap r := by
  apply frame_step s op r a.lt a.rets
  intro t c h1 h2
  rcases ht with ht | ht
  · rw [ht] at h1; cases h1
  · rw [ht] at h1; cases h1; exact a.notHeld c h2

theorem apart_frame_run (ops : List Op) : ∀ (s : State) (j r : Nat), Apart s j r →
    (∀ op ∈ ops, op.target = none ∨ op.target = some j) →
    hget (run s ops).1.heap r = hget s.heap r := by
  induction ops with
  | nil => intro s j r _ _; rfl
  | cons op t ih =>
    intro s j r a ht
    have h1 := apart_frame_step s op j r a (ht op (by simp))
    have h2 := ih (step s op).1 j r (Apart_step s op j r a) (fun op' hm => ht op' (by simp [hm]))
    simp only [run]
    exact h2.trans h1

theorem run_ctxs_old (ops : List Op) : ∀ (s : State) (i : Nat) (c : Ctx), s.ctxs[i]? = some c →
    (run s ops).1.ctxs[i]? = some c := by
  induction ops with
  | nil => intro s i c h; exact h
  | cons op t ih => intro s i c h; simp only [run]; exact ih _ i c (step_ctxs_old s op i c h)

/-- Reachable-state invariant: well-formed, and the maps accessors returned are held by
no context and no protocol. -/
structure RInv (s : State) : Prop where
  wf : WF s
  retsCtx : ∀ r ∈ s.rets, ∀ c ∈ s.ctxs, r ∉ c.refs
  retsProto : ∀ r ∈ s.rets, r ∉ s.protos

theorem RInv_init (start : Nat) : RInv (State.init start) := by
  constructor
  · constructor <;> simp [State.init]
  · simp [State.init]
  · simp [State.init]

theorem RInv_step (s : State) (op : Op) (h : RInv s) : RInv (step s op).1 := by
  have ok := effect_ok s op
  have wf := h.wf
  refine ⟨WF_step s op wf, ?_, ?_⟩
  · intro r hr c hc hmem
    simp only [step, State.apply, List.mem_append] at hr hc
    simp only [Ctx.refs, List.mem_cons, List.not_mem_nil, or_false] at hmem
    rcases hr with hr | hr <;> rcases hc with hc | hc
    · exact h.retsCtx r hr c hc (by simpa [Ctx.refs] using hmem)
    · have hlt := wf.rets r hr
      have ⟨h1, h2, h3⟩ := ok.ctxs c hc
      unfold Effect.Fresh at h1 h2 h3
      rcases hmem with rfl | rfl | rfl
      · omega
      · omega
      · rcases h3 with h3 | h3
        · omega
        · exact h.retsProto _ hr h3
    · have hf := ok.rets r hr
      unfold Effect.Fresh at hf
      have := wf.ctxs c hc r (by simpa [Ctx.refs] using hmem)
      omega
    · rcases ok.excl with e1 | e1
      · rw [e1] at hr; cases hr
      · rw [e1.1] at hc; cases hc
  · intro r hr hp
    simp only [step, State.apply, List.mem_append] at hr hp
    rcases hr with hr | hr <;> rcases hp with hp | hp
    · exact h.retsProto r hr hp
    · have := ok.protos r hp; unfold Effect.Fresh at this; have := wf.rets r hr; omega
    · have := ok.rets r hr; unfold Effect.Fresh at this; have := wf.protos r hp; omega
    · rcases ok.excl with e1 | e1
      · rw [e1] at hr; cases hr
      · rw [e1.2] at hp; cases hp

theorem RInv_run (ops : List Op) : ∀ s, RInv s → RInv (run s ops).1 := by
  induction ops with
  | nil => intro s h; exact h
  | cons op t ih => intro s h; simp only [run]; exact ih _ (RInv_step s op h)

/-! Lemmas used directly by the C17 theorems. -/

def idsFrom (n k : Nat) : List (Option Bytes) :=
  (List.range k).map fun i => some (dec ((n + 1 + i) % M64))

theorem idsFrom_nodup (n k : Nat) (hk : k ≤ M64) : (idsFrom n k).Nodup := by
  unfold idsFrom List.Nodup
  rw [List.pairwise_map]
  have := List.pairwise_lt_range (n := k)
  refine List.Pairwise.imp_of_mem ?_ this
  intro a b ha hb hab heq
  simp only [List.mem_range] at ha hb
  have := dec_inj (Option.some.inj heq)
  unfold M64 at this hk
  omega

theorem idsFrom_succ (n k : Nat) :
    idsFrom n (k + 1) = some (dec ((n + 1) % M64)) :: idsFrom ((n + 1) % M64) k := by
  unfold idsFrom
  rw [List.range_succ_eq_map]
  simp only [List.map_cons, List.map_map, Nat.add_zero]
  congr 1
  apply List.map_congr_left
  intro i _
  simp only [Function.comp]
  congr 2
  unfold M64 at *
  omega

/-- What an operation does to the counter and what id the caller sees. -/
theorem step_created (s : State) (op : Op) :
    ((step s op).2 = .created (some (dec s.bump)) ∧ (step s op).1.nextOpId = s.bump ∧ op.creates = true) ∨
    ((∀ o, (step s op).2 ≠ .created o) ∧ (step s op).1.nextOpId = s.nextOpId) := by
  cases op <;> simp only [step, effect, State.apply, Op.creates] <;> (try split) <;> (try split) <;>
    simp [State.noop, get?_set_self, newReq, recvReq, Hdrs.get?, cidHeader, opIdHeader]
  rename_i q _ _ _; cases q <;> simp only [query] <;> (try split) <;> (try split) <;> simp

theorem createdIds_run (ops : List Op) : ∀ s : State,
    ∃ k, k ≤ creations ops ∧ createdIds (run s ops).2 = idsFrom s.nextOpId k := by
  induction ops with
  | nil => intro s; exact ⟨0, Nat.le_refl _, rfl⟩
  | cons op t ih =>
    intro s
    obtain ⟨k, hk, hids⟩ := ih (step s op).1
    rcases step_created s op with ⟨h1, h2, h3⟩ | ⟨h1, h2⟩
    · refine ⟨k + 1, ?_, ?_⟩
      · simp only [creations, List.filter_cons, h3, if_true, List.length_cons] at hk ⊢; omega
      · simp only [run, h1, createdIds, hids, h2, idsFrom_succ]; rfl
    · refine ⟨k, ?_, ?_⟩
      · simp only [creations, List.filter_cons] at hk ⊢; split <;> first | omega | (simp only [List.length_cons]; omega)
      · simp only [run]
        rw [h2] at hids
        cases ho : (step s op).2 with
        | created o => exact absurd ho (h1 o)
        | _ => simpa [createdIds] using hids

theorem view_eq_of (s s' : State) (i : Nat) (c : Ctx) (h : s.ctxs[i]? = some c) (h' : s'.ctxs[i]? = some c)
    (hh : ∀ r : Nat, r ∈ c.refs → hget s'.heap r = hget s.heap r) : view s' i = view s i := by
  simp only [view, h, h', Option.map_some, viewOf]
  rw [hh c.req (by simp [Ctx.refs]), hh c.resp (by simp [Ctx.refs]), hh c.eph (by simp [Ctx.refs])]

/-- What `Clone` produces, spelled out. -/
theorem clone_step (s : State) (c : Nat) (g : Bool) (x : Ctx) (hc : s.ctxs[c]? = some x) :
    (step s (.clone c g)).1.ctxs = s.ctxs ++ [⟨s.heap.length, s.heap.length + 1, s.heap.length + 2⟩] ∧
    (step s (.clone c g)).1.heap = s.heap ++ [(hget s.heap x.req).set opIdHeader (dec s.bump), hget s.heap x.resp, if g then [] else hget s.heap x.eph] ∧
    (step s (.clone c g)).1.rets = s.rets ∧ (step s (.clone c g)).1.protos = s.protos ∧
    (step s (.clone c g)).2 = .created (some (dec s.bump)) := by
  simp [step, effect, hc, State.apply, viewOf, get?_set_self]

/-- The clone owns its three maps exclusively. -/
theorem clone_owns (s : State) (c : Nat) (g : Bool) (x : Ctx) (h : RInv s) (hc : s.ctxs[c]? = some x) (r : Nat)
    (hr : r ∈ (Ctx.mk s.heap.length (s.heap.length + 1) (s.heap.length + 2)).refs) :
    Owns (step s (.clone c g)).1 s.ctxs.length r := by
  obtain ⟨h1, h2, h3, h4, h5⟩ := clone_step s c g x hc
  have hge : s.heap.length ≤ r := by
    simp only [Ctx.refs, List.mem_cons, List.not_mem_nil, or_false] at hr; omega
  constructor
  · exact ⟨_, by simp [h1], hr⟩
  · intro i c' hi hm
    rw [h1] at hi
    by_cases hil : i < s.ctxs.length
    · rw [List.getElem?_append_left hil] at hi
      have := h.wf.ctxs c' (List.mem_of_getElem? hi) r hm
      omega
    · have := (List.getElem?_eq_some_iff.mp hi).1
      simp at this; omega
  · rw [h4]; intro hm; have := h.wf.protos r hm; omega
  · rw [h3]; intro hm; have := h.wf.rets r hm; omega

/-- Operations that are not aimed at a context — creations, reads, accessor calls and
every mutation of maps that accessors returned — change no existing context. -/
theorem untargeted_frame_run (ops : List Op) : ∀ (s : State), RInv s → (∀ op ∈ ops, op.target = none) →
    ∀ k v, view s k = some v → view (run s ops).1 k = some v := by
  induction ops with
  | nil => intro s _ _ k v hv; exact hv
  | cons op t ih =>
    intro s h hops k v hv
    simp only [run]
    apply ih _ (RInv_step s op h) (fun op' hm => hops op' (by simp [hm]))
    rw [← hv]
    cases hk : s.ctxs[k]? with
    | none => simp [view, hk] at hv
    | some c =>
      apply view_eq_of s _ k c hk (step_ctxs_old s op k c hk)
      intro r hr
      have hmem := List.mem_of_getElem? hk
      apply frame_step s op r (h.wf.ctxs c hmem r hr)
      · intro hm; exact h.retsCtx r hm c hmem hr
      · intro t' c' ht; rw [hops op (by simp)] at ht; cases ht

/-! Non-interference: two runs that agree on an owned context keep agreeing. -/

theorem apply_hget_written (s : State) (e : Effect) (r : Nat) (m : AMap) (hr : r < s.heap.length)
    (hw : e.write = some (r, m)) : hget (s.apply e).heap r = m := by
  unfold State.apply hget
  simp only [hw]
  rw [List.getElem?_append_left (by simpa using hr)]
  simp [hr]

/-- Two states agree on context `j`: same three references, owned in both, same contents. -/
structure AgreeOn (a b : State) (j : Nat) (c : Ctx) : Prop where
  wfa : WF a
  wfb : WF b
  ca : a.ctxs[j]? = some c
  cb : b.ctxs[j]? = some c
  oa : ∀ r : Nat, r ∈ c.refs → Owns a j r
  ob : ∀ r : Nat, r ∈ c.refs → Owns b j r
  same : ∀ r : Nat, r ∈ c.refs → hget a.heap r = hget b.heap r

theorem AgreeOn_left (a b : State) (j : Nat) (c : Ctx) (op : Op) (h : AgreeOn a b j c) (ht : op.target ≠ some j) :
    AgreeOn (step a op).1 b j c :=
  { wfa := WF_step a op h.wfa, wfb := h.wfb, ca := step_ctxs_old a op j c h.ca, cb := h.cb
    oa := fun r hr => Owns_step a op j r h.wfa (h.oa r hr), ob := h.ob
    same := fun r hr => (owned_frame_step a op j r h.wfa (h.oa r hr) ht).trans (h.same r hr) }

/-- The same write on both sides. -/
theorem AgreeOn_write (a b : State) (j : Nat) (c : Ctx) (op : Op) (h : AgreeOn a b j c)
    (w : Nat) (hw : w ∈ c.refs) (f : AMap → AMap)
    (ea : (effect a op).1.write = some (w, f (hget a.heap w)))
    (eb : (effect b op).1.write = some (w, f (hget b.heap w))) :
    AgreeOn (step a op).1 (step b op).1 j c :=
  { wfa := WF_step a op h.wfa, wfb := WF_step b op h.wfb
    ca := step_ctxs_old a op j c h.ca, cb := step_ctxs_old b op j c h.cb
    oa := fun r hr => Owns_step a op j r h.wfa (h.oa r hr)
    ob := fun r hr => Owns_step b op j r h.wfb (h.ob r hr)
    same := by
      intro r hr
      have hla := (h.oa r hr).lt h.wfa
      have hlb := (h.ob r hr).lt h.wfb
      by_cases hrw : r = w
      · subst hrw
        simp only [step]
        rw [apply_hget_written a _ r _ hla ea, apply_hget_written b _ r _ hlb eb, h.same r hr]
      · simp only [step]
        rw [apply_hget_old a _ r hla (by intro r' m hm; rw [ea] at hm; cases hm; exact fun x => hrw x.symm),
          apply_hget_old b _ r hlb (by intro r' m hm; rw [eb] at hm; cases hm; exact fun x => hrw x.symm)]
        exact h.same r hr }

theorem AgreeOn_both (a b : State) (j : Nat) (c : Ctx) (op : Op) (h : AgreeOn a b j c) (ht : op.target = some j) :
    AgreeOn (step a op).1 (step b op).1 j c := by
  cases op <;> simp only [Op.target] at ht <;> try contradiction
  · rename_i c' w k v
    cases ht
    apply AgreeOn_write a b j c _ h (c.sel w) (by cases w <;> simp [Ctx.sel, Ctx.refs]) (fun m => m.set k v)
    · simp [effect, h.ca]
    · simp [effect, h.cb]
  · rename_i c' ns
    cases ht
    apply AgreeOn_write a b j c _ h c.req (by simp [Ctx.refs]) (fun m => m.set timeoutHeader (decInt (wireMs ns)))
    · simp [effect, h.ca]
    · simp [effect, h.cb]

theorem AgreeOn_run (ops : List Op) : ∀ (a b : State) (j : Nat) (c : Ctx), AgreeOn a b j c →
    AgreeOn (run a ops).1 (run b (ops.filter fun op => op.target = some j)).1 j c := by
  induction ops with
  | nil => intro a b j c h; exact h
  | cons op t ih =>
    intro a b j c h
    by_cases ht : op.target = some j
    · simp only [List.filter_cons, ht, decide_true, if_true, run]
      exact ih _ _ j c (AgreeOn_both a b j c op h ht)
    · simp only [List.filter_cons, ht, decide_false, run]
      exact ih _ _ j c (AgreeOn_left a b j c op h ht)

theorem AgreeOn.view_eq {a b : State} {j : Nat} {c : Ctx} (h : AgreeOn a b j c) : view a j = view b j := by
  simp only [view, h.ca, h.cb, Option.map_some, viewOf]
  rw [h.same c.req (by simp [Ctx.refs]), h.same c.resp (by simp [Ctx.refs]), h.same c.eph (by simp [Ctx.refs])]

/-- `NewFContext` produces an owner too. -/
theorem new_owns (s : State) (cid : Bytes) (h : WF s) (r : Nat)
    (hr : r ∈ (Ctx.mk s.heap.length (s.heap.length + 1) (s.heap.length + 2)).refs) :
    Owns (step s (.new cid)).1 s.ctxs.length r ∧
    (step s (.new cid)).1.ctxs[s.ctxs.length]? = some ⟨s.heap.length, s.heap.length + 1, s.heap.length + 2⟩ := by
  have h1 : (step s (.new cid)).1.ctxs = s.ctxs ++ [⟨s.heap.length, s.heap.length + 1, s.heap.length + 2⟩] := by
    simp [step, effect, State.apply]
  have h3 : (step s (.new cid)).1.rets = s.rets := by simp [step, effect, State.apply]
  have h4 : (step s (.new cid)).1.protos = s.protos := by simp [step, effect, State.apply]
  have hge : s.heap.length ≤ r := by
    simp only [Ctx.refs, List.mem_cons, List.not_mem_nil, or_false] at hr; omega
  refine ⟨?_, by simp [h1]⟩
  constructor
  · exact ⟨_, by simp [h1], hr⟩
  · intro i c' hi hm
    rw [h1] at hi
    by_cases hil : i < s.ctxs.length
    · rw [List.getElem?_append_left hil] at hi
      have := h.ctxs c' (List.mem_of_getElem? hi) r hm
      omega
    · have := (List.getElem?_eq_some_iff.mp hi).1
      simp at this; omega
  · rw [h4]; intro hm; have := h.protos r hm; omega
  · rw [h3]; intro hm; have := h.rets r hm; omega

end FV.CH
