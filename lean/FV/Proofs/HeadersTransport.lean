/-
`io.ReadFull` over any chunking returns exactly the next `n` bytes of the carried byte string (or fails when
fewer are left), hence `readHeaderT` over ANY transport is `unmarshalStream` of the bytes it carries.
-/
import FV.Model.HeadersTransport
import FV.Proofs.Headers

namespace FV

theorem readFull_some (cs : List Bytes) (n : Nat) (h : n ≤ cs.flatten.length) :
    ∃ r, readFull cs n = some (cs.flatten.take n, r) ∧ r.flatten = cs.flatten.drop n := by
  induction cs generalizing n with
  | nil =>
    simp only [List.flatten_nil, List.length_nil, Nat.le_zero] at h
    subst h
    exact ⟨[], by simp [readFull]⟩
  | cons c cs ih =>
    rw [readFull]
    by_cases hc : n ≤ c.length
    · rw [if_pos hc]
      refine ⟨c.drop n :: cs, ?_, ?_⟩
      · simp only [List.flatten_cons]
        rw [List.take_append_of_le_length hc]
      · simp only [List.flatten_cons]
        rw [List.drop_append_of_le_length hc]
    · rw [if_neg hc]
      simp only [List.flatten_cons, List.length_append] at h
      obtain ⟨r, h1, h2⟩ := ih (n - c.length) (by omega)
      rw [h1]
      refine ⟨r, ?_, ?_⟩
      · simp only [List.flatten_cons]
        rw [List.take_append]
        have : List.take n c = c := List.take_of_length_le (by omega)
        rw [this]
      · rw [h2]
        simp only [List.flatten_cons]
        rw [List.drop_append]
        have : List.drop n c = [] := List.drop_of_length_le (by omega)
        rw [this, List.nil_append]

theorem readFull_none (cs : List Bytes) (n : Nat) (h : cs.flatten.length < n) : readFull cs n = none := by
  induction cs generalizing n with
  | nil =>
    rw [readFull, if_neg (by simp at h; omega)]
  | cons c cs ih =>
    simp only [List.flatten_cons, List.length_append] at h
    rw [readFull, if_neg (by omega), ih (n - c.length) (by omega)]

theorem rd32_take4 (b : Bytes) (h : 4 ≤ b.length) : rd32 (b.take 4) = rd32 b := by
  match b, h with
  | a :: b :: c :: d :: t, _ => rfl

theorem readHeaderT_eq (t : RdTransport) : readHeaderT t = unmarshalStream t.bytes := by
  unfold readHeaderT RdTransport.bytes
  generalize t.chunks = cs
  cases hb : cs.flatten with
  | nil =>
    rw [readFull_none cs 1 (by rw [hb]; simp)]
    rfl
  | cons ver r1 =>
    obtain ⟨c1, e1, f1⟩ := readFull_some cs 1 (by rw [hb]; simp)
    rw [e1, hb]
    rw [hb] at f1
    simp only [List.take_succ_cons, List.take_zero, List.drop_succ_cons, List.drop_zero] at f1 ⊢
    unfold unmarshalStream
    by_cases hv : ver = 0
    · subst hv
      simp only [ne_eq, not_true_eq_false, if_false]
      by_cases h4 : r1.length < 4
      · rw [readFull_none c1 4 (by rw [f1]; exact h4), if_pos h4]
      · obtain ⟨c2, e2, f2⟩ := readFull_some c1 4 (by rw [f1]; omega)
        rw [e2, if_neg h4, f1]
        rw [f1] at f2
        simp only
        rw [rd32_take4 r1 (by omega)]
        by_cases hs : toI32 (rd32 r1) < 0
        · rw [if_pos hs, if_pos hs]
        · rw [if_neg hs, if_neg hs]
          by_cases hl : ((r1.drop 4).length : Int) < toI32 (rd32 r1)
          · rw [if_pos hl, readFull_none c2 _ (by rw [f2]; omega)]
          · obtain ⟨c3, e3, f3⟩ := readFull_some c2 (toI32 (rd32 r1)).toNat (by rw [f2]; omega)
            rw [if_neg hl, e3, f2]
            simp only
            rw [f3, f2]
            cases readPairs (List.take (toI32 (rd32 r1)).toNat (List.drop 4 r1)) 0 (toI32 (rd32 r1)) [] <;> rfl
    · have : [ver] ≠ [0] := by simpa using hv
      simp only [ne_eq, this, not_false_eq_true, if_true, hv]

theorem readRequestHeaderT_eq (t : RdTransport) (ctr : Nat) :
    readRequestHeaderT t ctr = readRequestHeader t.bytes ctr := by
  unfold readRequestHeaderT readRequestHeader
  rw [readHeaderT_eq]
  cases unmarshalStream t.bytes with
  | ok a => obtain ⟨h, rest⟩ := a; simp only; cases serverCtx h (ctr + 1) <;> rfl
  | err e => rfl
  | panic p => rfl

theorem readResponseHeaderT_eq (c : Ctx) (t : RdTransport) :
    readResponseHeaderT c t = readResponseHeader c t.bytes := by
  unfold readResponseHeaderT readResponseHeader
  rw [readHeaderT_eq]
  cases unmarshalStream t.bytes with
  | ok a => obtain ⟨h, rest⟩ := a; rfl
  | err e => rfl
  | panic p => rfl

theorem chunksOf_flatten (k fuel : Nat) (b : Bytes) : (chunksOf k fuel b).flatten = b := by
  induction fuel generalizing b with
  | zero => simp [chunksOf]
  | succ f ih =>
    rw [chunksOf]
    by_cases h : b.length ≤ k
    · rw [if_pos h]; simp
    · rw [if_neg h, List.flatten_cons, ih, List.take_append_drop]

end FV
