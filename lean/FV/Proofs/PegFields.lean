/-
`Field`, `FieldList` and the struct-like rules of the regenerated grammar, for every styling.
-/
import FV.Proofs.PegEnums

namespace FV.PegIdl
open FV.Peg FV.Generated FV.Act FV.Syn

theorem lk_Field : grammar.lookup "Field" = some rule_Field := by rfl
theorem lk_FieldList : grammar.lookup "FieldList" = some rule_FieldList := by rfl
theorem lk_FieldModifier : grammar.lookup "FieldModifier" = some rule_FieldModifier := by rfl
theorem lk_ConstValue : grammar.lookup "ConstValue" = some rule_ConstValue := by rfl
theorem lk_Literal : grammar.lookup "Literal" = some rule_Literal := by rfl
theorem lk_BoolConstant : grammar.lookup "BoolConstant" = some rule_BoolConstant := by rfl
theorem lk_DoubleConstant : grammar.lookup "DoubleConstant" = some rule_DoubleConstant := by rfl
theorem lk_StructLike : grammar.lookup "StructLike" = some rule_StructLike := by rfl
theorem lk_Struct : grammar.lookup "Struct" = some rule_Struct := by rfl
theorem lk_Union : grammar.lookup "Union" = some rule_Union := by rfl
theorem lk_Exception : grammar.lookup "Exception" = some rule_Exception := by rfl

/-! ### field modifier -/

def kwRequired : List Char := ['r', 'e', 'q', 'u', 'i', 'r', 'e', 'd']
def kwOptional : List Char := ['o', 'p', 't', 'i', 'o', 'n', 'a', 'l']

theorem mod_parses (kw : List Char) (h : kw = kwRequired ∨ kw = kwOptional) (x : List Char) :
    ParsesTo grammar (.ref "FieldModifier") (kw ++ x) (.act "FieldModifier1" kw (.text kw)) x 8 := by
  have hc : ParsesTo grammar (.choice [.lit kwRequired false, .lit kwOptional false]) (kw ++ x) (.text kw) x 5 := by
    rcases h with rfl | rfl
    · exact ParsesTo.choice (ChoiceRun.head (ParsesTo.lit_append kwRequired x))
    · exact ParsesTo.choice (ChoiceRun.tail (FailsOn.lit (by simp [kwRequired, kwOptional, matchLit])) (ChoiceRun.head (ParsesTo.lit_append kwOptional x)))
  have ha := ParsesTo.act (tag := "FieldModifier1") hc
  rw [consumed_append] at ha
  exact (ParsesTo.ref lk_FieldModifier (by rw [rule_FieldModifier]; exact ha)).mono (by omega)

theorem mod_none (x : List Char) (h1 : matchLit false kwRequired x = none) (h2 : matchLit false kwOptional x = none) :
    ParsesTo grammar (.lab "mod" (.opt (.ref "FieldModifier"))) x (.lab "mod" .nil) x 10 := by
  have hc : FailsOn grammar (.choice [.lit kwRequired false, .lit kwOptional false]) x 5 := by
    refine FailsOn.choice (k := 1) ?_
    intro e he
    simp only [List.mem_cons, List.mem_nil_iff, or_false] at he
    rcases he with rfl | rfl
    · exact FailsOn.lit h1
    · exact FailsOn.lit h2
  have ha := FailsOn.act (tag := "FieldModifier1") hc
  exact (ParsesTo.lab (ParsesTo.opt_none (FailsOn.ref lk_FieldModifier (by rw [rule_FieldModifier]; exact ha)))).mono (by omega)

/-! ### an integer as a `ConstValue` -/

theorem quoteLit_fails (x : List Char) (h : HeadP (fun c => c ≠ '"' ∧ c ≠ '\'') x) : FailsOn grammar (.ref "Literal") x 15 := by
  have a1 := FailsOn.seq (k := 1) (SeqFail.head (es := [.star (.choice [.lit ['\\', '"'] false, .cls ['"'] [] true false]), .lit ['"'] false])
    (FailsOn.lit (g := grammar) (lit_fails_head '"' [] x (h.mono fun c hc => hc.1))))
  have a2 := FailsOn.seq (k := 1) (SeqFail.head (es := [.star (.choice [.lit ['\\', '\''] false, .cls ['\''] [] true false]), .lit ['\''] false])
    (FailsOn.lit (g := grammar) (lit_fails_head '\'' [] x (h.mono fun c hc => hc.2))))
  have hc : FailsOn grammar rule_Literal x 12 := by
    rw [rule_Literal]
    refine (FailsOn.act (FailsOn.choice (k := 6) ?_)).mono (by simp)
    intro e he
    simp only [List.mem_cons, List.mem_nil_iff, or_false] at he
    rcases he with rfl | rfl
    · exact a1.mono (by simp)
    · exact a2.mono (by simp)
  exact (FailsOn.ref lk_Literal hc).mono (by omega)

theorem bool_fails (x : List Char) (h : HeadP (fun c => c ≠ 't' ∧ c ≠ 'f') x) : FailsOn grammar (.ref "BoolConstant") x 8 := by
  have hc : FailsOn grammar rule_BoolConstant x 7 := by
    rw [rule_BoolConstant]
    refine (FailsOn.act (FailsOn.choice (k := 1) ?_)).mono (by simp)
    intro e he
    simp only [List.mem_cons, List.mem_nil_iff, or_false] at he
    rcases he with rfl | rfl
    · exact FailsOn.lit (lit_fails_head 't' _ x (h.mono fun c hc => hc.1))
    · exact FailsOn.lit (lit_fails_head 'f' _ x (h.mono fun c hc => hc.2))
  exact (FailsOn.ref lk_BoolConstant hc).mono (by omega)

theorem digit_not_sign2 {d : Char} (hd : digitC d = true) : clsMatches ['+', '-'] [] false false d = false := by
  obtain ⟨h1, h2⟩ := digit_ne_sign hd
  simp [clsMatches, inRanges, h1, h2]

/-- `DoubleConstant` fails on an integer that is not followed by `.`. -/
theorem double_fails_int (i : SInt) (hok : i.Ok) (y : List Char) (hy : StopsAt digitC y) (hdot : HeadP (fun c => c ≠ '.') y) :
    FailsOn grammar (.ref "DoubleConstant") (i.text ++ y) (i.ds.length + 20) := by
  have hdig : ParsesTo grammar (.star (.ref "Digit")) (i.d :: i.ds ++ y) (.seq ((i.d :: i.ds).map fun c => Tree.text [c])) y (i.ds.length + 10) :=
    (ParsesTo.star (StarRun.chars digit_matcher (i.d :: i.ds) y (by
      intro c hc; simp only [List.mem_cons] at hc; rcases hc with rfl | hc
      · exact hok.2.1
      · exact hok.2.2.1 c hc) hy)).mono (by simp)
  have hdotf : FailsOn grammar (.lit ['.'] false) y (i.ds.length + 10) := (FailsOn.lit (lit_fails_head '.' [] y hdot)).mono (by omega)
  have htail : SeqFail grammar (i.ds.length + 10) [.star (.ref "Digit"), .lit ['.'] false, .star (.ref "Digit"),
      .opt (.seq [.cls ['\'', 'E', 'e', '\''] [] false false, .ref "IntConstant"])] (i.d :: i.ds ++ y) :=
    SeqFail.tail hdig (SeqFail.head hdotf)
  have hsf : SeqFail grammar (i.ds.length + 10) [.opt (.cls ['+', '-'] [] false false), .star (.ref "Digit"), .lit ['.'] false, .star (.ref "Digit"),
      .opt (.seq [.cls ['\'', 'E', 'e', '\''] [] false false, .ref "IntConstant"])] (i.text ++ y) := by
    rcases hok.1 with h | h | h
    · have : i.text ++ y = i.d :: i.ds ++ y := by simp [SInt.text, h]
      rw [this]
      exact SeqFail.tail ((ParsesTo.opt_none (FailsOn.cls (r := i.ds ++ y) (digit_not_sign2 hok.2.1))).mono (by omega)) htail
    · have : i.text ++ y = '-' :: (i.d :: i.ds ++ y) := by simp [SInt.text, h]
      rw [this]
      exact SeqFail.tail ((ParsesTo.opt_some (ParsesTo.cls (by decide))).mono (by omega)) htail
    · have : i.text ++ y = '+' :: (i.d :: i.ds ++ y) := by simp [SInt.text, h]
      rw [this]
      exact SeqFail.tail ((ParsesTo.opt_some (ParsesTo.cls (by decide))).mono (by omega)) htail
  have ha := FailsOn.act (tag := "DoubleConstant1") (FailsOn.seq hsf)
  exact (FailsOn.ref lk_DoubleConstant (by rw [rule_DoubleConstant]; exact ha)).mono (by simp; omega)

theorem SInt.head_facts (i : SInt) (hok : i.Ok) (y : List Char) :
    HeadP (fun c => (c ≠ '"' ∧ c ≠ '\'') ∧ (c ≠ 't' ∧ c ≠ 'f')) (i.text ++ y) := by
  obtain ⟨c, r, e, hc⟩ := i.text_head hok
  rw [e]
  refine HeadP.cons ?_
  rcases hc with h | rfl | rfl
  · refine ⟨⟨?_, ?_⟩, ⟨?_, ?_⟩⟩ <;> (intro e; subst e; revert h; decide)
  · decide
  · decide

/-- `ConstValue` on an integer literal. -/
theorem constInt_parses (i : SInt) (hok : i.Ok) (y : List Char) (hy : StopsAt digitC y) (hdot : HeadP (fun c => c ≠ '.') y) :
    ParsesTo grammar (.ref "ConstValue") (i.text ++ y) i.tree y (i.ds.length + 35) := by
  have hf := i.head_facts hok y
  have h1 := (quoteLit_fails _ (hf.mono fun c h => h.1)).mono (by omega : 15 ≤ i.ds.length + 20)
  have h2 := (bool_fails _ (hf.mono fun c h => h.2)).mono (by omega : 8 ≤ i.ds.length + 20)
  have h3 := double_fails_int i hok y hy hdot
  have h4 := (intconst_parses i hok y hy).mono (by omega : i.ds.length + 10 ≤ i.ds.length + 20)
  have hc := ParsesTo.choice (ChoiceRun.tail h1 (ChoiceRun.tail h2 (ChoiceRun.tail h3 (ChoiceRun.head (es := [.ref "ConstMap", .ref "ConstList", .ref "Identifier"]) h4))))
  exact (ParsesTo.ref lk_ConstValue (by rw [rule_ConstValue]; exact hc)).mono (by simp; omega)

/-! ### Field -/

/-- A written field. -/
structure SField where
  doc : Option SDoc
  id : SInt
  g1 : List Char                        -- `_` before ':'
  g2 : List Char                        -- `_` after ':'
  mod : Option (List Char × List Char)  -- `required`/`optional` and the gap of `_` after it
  ty : STy
  g4 : List Char                        -- `_` between type and name (not empty)
  c : Char
  s : List Char
  g5 : List Char                        -- `__` after the name
  dflt : Option SAssign                 -- `=` gap integer gap
  sep : Option Char

namespace SField

def tE (f : SField) (rest : List Char) : List Char :=
  match f.dflt with
  | none => sepText f.sep ++ rest
  | some a => '=' :: (a.g2 ++ (a.int.text ++ (a.g3 ++ (sepText f.sep ++ rest))))

def tC (f : SField) (rest : List Char) : List Char :=
  f.ty.render ++ (f.g4 ++ (f.c :: f.s ++ (f.g5 ++ f.tE rest)))

def tB (f : SField) (rest : List Char) : List Char :=
  match f.mod with
  | none => f.tC rest
  | some (kw, g3) => kw ++ (g3 ++ f.tC rest)

/-- The text, followed by `rest`. -/
def renderK (f : SField) (rest : List Char) : List Char :=
  docText f.doc ++ (f.id.text ++ (f.g1 ++ (':' :: (f.g2 ++ f.tB rest))))

def Ok (f : SField) : Prop :=
  DocOk f.doc ∧ f.id.Ok ∧ UGapText f.g1 ∧ UGapText f.g2 ∧
  (match f.mod with
   | none => matchLit false kwRequired f.ty.render = none ∧ matchLit false kwOptional f.ty.render = none
   | some (kw, g3) => (kw = kwRequired ∨ kw = kwOptional) ∧ UGapText g3) ∧
  f.ty.Ok ∧ UGapText f.g4 ∧ f.g4 ≠ [] ∧ idStart f.c = true ∧ (∀ x ∈ f.s, idPart x = true) ∧ UUGapText f.g5 ∧
  (match f.dflt with
   | none => True
   | some a => UGapText a.g2 ∧ a.int.Ok ∧ UGapText a.g3) ∧
  SepOkC f.sep

def End (f : SField) (rest : List Char) : Prop :=
  ItemEnd f.sep rest ∧
  (f.sep = none →
    match f.dflt with
    | none => UUStop rest ∧ HeadP (fun c => c ≠ '=') rest ∧ (f.g5 = [] → StopsAt idPart rest)
    | some a => (a.g3 = [] → StopsAt digitC rest ∧ HeadP (fun c => c ≠ '.') rest))

def modValue (f : SField) : Mod :=
  match f.mod with
  | none => .dflt
  | some (kw, _) => if kw = kwRequired then .required else .optional

/-- The field denoted. -/
def erase (f : SField) : Field :=
  { doc := docValue f.doc, id := f.id.value, mod := f.modValue, name := f.c :: f.s, ty := f.ty.erase,
    dflt := f.dflt.map (fun a => CV.int a.int.value), anns := [] }

def cost (f : SField) : Nat :=
  2 * (docText f.doc).length + f.id.ds.length + 2 * f.g1.length + 2 * f.g2.length +
    (match f.mod with | none => 0 | some (_, g3) => 2 * g3.length) + f.ty.cost + 2 * f.g4.length + f.s.length + 2 * f.g5.length +
    (match f.dflt with | none => 0 | some a => 2 * a.g2.length + a.int.ds.length + 2 * a.g3.length) + 200

end SField

theorem STy.render_tokHead (s : STy) (hok : s.Ok) (y : List Char) : HeadP (fun c => idPart c = true) (s.render ++ y) := by
  obtain ⟨c, r, e, hc⟩ := s.render_head hok
  rw [e]; exact HeadP.cons hc

/-- The chunk `def:('=' _ ConstValue)? _ annotations? ListSeparator?` of Field. -/
theorem fieldDefTail (f : SField) (hok : f.Ok) (rest : List Char) (hend : f.End rest) :
    ∃ td ts tsep, SeqRun grammar f.cost [.lab "def" (.opt (.seq [.lit ['='] false, .ref "_", .ref "ConstValue"])), .ref "_",
        .lab "annotations" (.opt (.ref "TypeAnnotations")), .opt (.ref "ListSeparator")] (f.tE rest)
        [.lab "def" td, .seq ts, .lab "annotations" .nil, tsep] rest ∧
      (match f.dflt with
       | none => td = .nil
       | some a => ∃ tg, td = .seq [.text ['='], .seq tg, a.int.tree]) := by
  obtain ⟨_, _, _, _, _, _, _, _, _, _, _, hdf, hsep⟩ := hok
  obtain ⟨hie, hend2⟩ := hend
  cases hd : f.dflt with
  | none =>
    have hend3 := fun h => by have := hend2 h; rw [hd] at this; exact this
    have hY_noeq : HeadP (fun c => c ≠ '=') (sepText f.sep ++ rest) :=
      sepText_head f.sep hsep rest _ ⟨by decide, by decide⟩ (fun h => (hend3 h).2.1)
    have hvn : ParsesTo grammar (.lab "def" (.opt (.seq [.lit ['='] false, .ref "_", .ref "ConstValue"]))) (sepText f.sep ++ rest)
        (.lab "def" .nil) (sepText f.sep ++ rest) 8 := by
      have hl : matchLit false ['='] (sepText f.sep ++ rest) = none := lit_fails_head '=' [] _ hY_noeq
      exact (ParsesTo.lab (ParsesTo.opt_none (FailsOn.seq (SeqFail.head (es := [.ref "_", .ref "ConstValue"]) (FailsOn.lit (g := grammar) hl))))).mono (by simp)
    obtain ⟨ts2, tsep, htail⟩ := itemTail_parses [] .nil f.sep hsep rest hie
    refine ⟨.nil, ts2, tsep, ?_, rfl⟩
    have := SeqRun.cons (hvn.mono (by simp [SField.cost] : 8 ≤ f.cost)) (SeqRun.mono (by simp [SField.cost] : 2 * ([] : List Char).length + 70 ≤ f.cost) htail)
    simpa [SField.tE, hd] using this
  | some a =>
    rw [hd] at hdf
    obtain ⟨hg2, hint, hg3⟩ := hdf
    have hend3 := fun h => by have := hend2 h; rw [hd] at this; exact this
    have hY_dig : a.g3 = [] → StopsAt digitC (sepText f.sep ++ rest) := by
      intro hg
      refine sepText_head f.sep hsep rest (fun c => digitC c = false) ⟨by decide, by decide⟩ (fun h => ?_)
      exact (hend3 h hg).1
    have hY_dot : a.g3 = [] → HeadP (fun c => c ≠ '.') (sepText f.sep ++ rest) := by
      intro hg
      exact sepText_head f.sep hsep rest _ ⟨by decide, by decide⟩ (fun h => (hend3 h hg).2)
    have hZ := stops_after_gap (p := digitC) (fun c => gapc_not_digit) a.g3 hg3 _ hY_dig
    have hZdot : HeadP (fun c => c ≠ '.') (a.g3 ++ (sepText f.sep ++ rest)) := by
      cases hg : a.g3 with
      | nil => simpa using hY_dot hg
      | cons x t =>
        refine HeadP.cons ?_
        have := wsOrSlash_tok (hg3.head x t hg)
        intro e; subst e; revert this; decide
    obtain ⟨ts2, hu2⟩ := u_consumes' a.g2 (a.int.text ++ (a.g3 ++ (sepText f.sep ++ rest))) hg2.isGap (a.int.uhead hint _)
    have hi := constInt_parses a.int hint (a.g3 ++ (sepText f.sep ++ rest)) hZ hZdot
    have heq : ParsesTo grammar (.lit ['='] false) ('=' :: (a.g2 ++ (a.int.text ++ (a.g3 ++ (sepText f.sep ++ rest))))) (.text ['=']) _ 1 :=
      ParsesTo.lit_append ['='] _
    have hvs := ParsesTo.lab (n := "def") (ParsesTo.opt_some (ParsesTo.seq (k := 2 * a.g2.length + a.int.ds.length + 70)
      (SeqRun.cons (heq.mono (by omega)) (SeqRun.cons (hu2.mono (by omega)) (SeqRun.cons (hi.mono (by omega)) SeqRun.nil)))))
    obtain ⟨ts3, tsep, htail⟩ := itemTail_parses a.g3 hg3 f.sep hsep rest hie
    refine ⟨_, ts3, tsep, ?_, ⟨ts2, rfl⟩⟩
    have := SeqRun.cons (hvs.mono (by simp [SField.cost, hd]; omega : _ ≤ f.cost)) (SeqRun.mono (by simp [SField.cost, hd]; omega : 2 * a.g3.length + 70 ≤ f.cost) htail)
    simpa [SField.tE, hd] using this

theorem evCV_int (i : SInt) (k : Nat) : evCV (k + 1) i.tree = some (.int i.value) := by
  simp [evCV, tagOf, SInt.tree]
  rfl

theorem evCV_int_tyFuel (i : SInt) (T : Tree) : evCV (tyFuel T) i.tree = some (.int i.value) := by
  simpa [tyFuel] using evCV_int i ((textOf T).length + 1)

theorem unlab_intTree (i : SInt) : unlab i.tree = i.tree := rfl

theorem kwMod_chars : (∀ c ∈ kwRequired, idPart c = true ∨ c = '<') ∧ (∀ c ∈ kwOptional, idPart c = true ∨ c = '<') := by decide

/-- `Field` on a written field. -/
theorem field_parses (f : SField) (hok : f.Ok) (rest : List Char) (hend : f.End rest) :
    ∃ t, ParsesTo grammar (.ref "Field") (f.renderK rest) t rest (f.cost + 30) ∧ unlab t = t ∧ evField t = some f.erase := by
  obtain ⟨tdf, ts5, tsep, hDE, hdfshape⟩ := fieldDefTail f hok rest hend
  obtain ⟨hdoc, hid, hg1, hg2, hmod, hty, hg4, hg4ne, hc, hs, hg5, hdf, hsep⟩ := hok
  obtain ⟨hie, hend2⟩ := hend
  -- what follows the name and its gap
  have hE_stop : UUStop (f.tE rest) := by
    cases hd : f.dflt with
    | some a => simp only [SField.tE, hd]; exact TokHead.uustop (HeadP.cons (by decide))
    | none =>
      simp only [SField.tE, hd]
      cases hs' : f.sep with
      | some c =>
        have : c = ',' ∨ c = ';' := by rw [hs'] at hsep; exact hsep
        rcases this with rfl | rfl <;> exact TokHead.uustop (HeadP.cons (by decide))
      | none => have := hend2 hs'; rw [hd] at this; simpa [sepText] using this.1
  have hE_id : f.g5 = [] → StopsAt idPart (f.tE rest) := by
    intro hg
    cases hd : f.dflt with
    | some a => simp only [SField.tE, hd]; exact HeadP.cons (by decide)
    | none =>
      simp only [SField.tE, hd]
      refine sepText_head f.sep hsep rest (fun c => idPart c = false) ⟨by decide, by decide⟩ (fun h => ?_)
      have := hend2 h; rw [hd] at this; exact this.2.2 hg
  -- chunk C: typ _ name __
  have hR_tok : TokHead (f.c :: f.s ++ (f.g5 ++ f.tE rest)) := HeadP.cons (idPart_tok (idStart_idPart hc))
  have hR_np : NoParen (f.c :: f.s ++ (f.g5 ++ f.tE rest)) := HeadP.cons (by intro e; rw [e] at hc; revert hc; decide)
  have hsep4 : SepOk (f.g4 ++ (f.c :: f.s ++ (f.g5 ++ f.tE rest))) := by
    cases hg : f.g4 with
    | nil => exact absurd hg hg4ne
    | cons a r =>
      intro c' r' e
      simp only [List.cons_append, List.cons.injEq] at e
      rw [← e.1]
      have ht := wsOrSlash_tok (hg4.head a r hg)
      exact ⟨gapc_not_idPart ht, by intro e; subst e; revert ht; decide, by intro e; subst e; revert ht; decide⟩
  obtain ⟨tt, mid, hT, hmid, htx, hev⟩ := fieldType_styled f.ty hty f.g4 _ hg4.isGap hsep4 hR_np hR_tok
  have htyev := tyEval_of_parses f.ty f.g4 _ tt mid hmid htx hev
  obtain ⟨ts3, hU3⟩ : ∃ ts3, ParsesTo grammar (.ref "_") mid (.seq ts3) (f.c :: f.s ++ (f.g5 ++ f.tE rest)) (2 * f.g4.length + 70) := by
    rcases hmid with rfl | rfl
    · exact u_consumes' f.g4 _ hg4.isGap hR_tok.uhead
    · obtain ⟨ts, h⟩ := u_consumes' [] _ (IsGap.nil _) hR_tok.uhead
      exact ⟨ts, by simpa using h.mono (by simp)⟩
  have hN := ParsesTo.lab (n := "name") (identifier_parses f.c f.s (f.g5 ++ f.tE rest) hc hs
    (stops_after_uugap (p := idPart) (fun c => gapc_not_idPart) f.g5 hg5 _ hE_id))
  obtain ⟨ts4, hU4⟩ := uu_consumes' f.g5 (f.tE rest) hg5.isGap hE_stop
  have hC : SeqRun grammar f.cost [.lab "typ" (.ref "FieldType"), .ref "_", .lab "name" (.ref "Identifier"), .ref "__"] (f.tC rest)
      [.lab "typ" tt, .seq ts3, .lab "name" (idTree f.c f.s), .seq ts4] (f.tE rest) :=
    SeqRun.cons ((ParsesTo.lab hT).mono (by simp [SField.cost]; omega)) (SeqRun.cons (hU3.mono (by simp [SField.cost]; omega))
      (SeqRun.cons (hN.mono (by simp [SField.cost]; omega)) (SeqRun.cons (hU4.mono (by simp [SField.cost]; omega)) SeqRun.nil)))
  -- chunk B: mod _
  have hC_uhead : UHead (f.tC rest) := (STy.render_tokHead f.ty hty _).mono fun c h => tokc_uhead (idPart_tok h)
  obtain ⟨tm, ts2, hB, hmodv⟩ : ∃ tm ts2, SeqRun grammar f.cost [.lab "mod" (.opt (.ref "FieldModifier")), .ref "_"] (f.tB rest)
      [.lab "mod" tm, .seq ts2] (f.tC rest) ∧ evMod tm = f.modValue := by
    cases hm : f.mod with
    | none =>
      rw [hm] at hmod
      have h1 : matchLit false kwRequired (f.tC rest) = none := matchLit_no_straddle _ _ _ kwMod_chars.1 hsep4 hmod.1
      have h2 : matchLit false kwOptional (f.tC rest) = none := matchLit_no_straddle _ _ _ kwMod_chars.2 hsep4 hmod.2
      obtain ⟨ts, hu⟩ := u_consumes' [] (f.tC rest) (IsGap.nil _) hC_uhead
      refine ⟨.nil, ts, ?_, by simp [evMod, isNil, SField.modValue, hm]⟩
      have := SeqRun.cons ((mod_none _ h1 h2).mono (by simp [SField.cost] : 10 ≤ f.cost))
        (SeqRun.cons (hu.mono (by simp [SField.cost] : _ ≤ f.cost)) SeqRun.nil)
      simpa [SField.tB, hm] using this
    | some p =>
      obtain ⟨kw, g3⟩ := p
      rw [hm] at hmod
      obtain ⟨hkw, hg3⟩ := hmod
      obtain ⟨ts, hu⟩ := u_consumes' g3 (f.tC rest) hg3.isGap hC_uhead
      refine ⟨.act "FieldModifier1" kw (.text kw), ts, ?_, ?_⟩
      · have := SeqRun.cons ((ParsesTo.lab (n := "mod") (ParsesTo.opt_some (mod_parses kw hkw (g3 ++ f.tC rest)))).mono (by simp [SField.cost] : _ ≤ f.cost))
          (SeqRun.cons (hu.mono (by simp [SField.cost, hm]; omega : _ ≤ f.cost)) SeqRun.nil)
        simpa [SField.tB, hm] using this
      · rcases hkw with rfl | rfl <;> simp [evMod, isNil, textOf, SField.modValue, hm, kwRequired, kwOptional]
  -- chunk A: docstr id _ ':' _
  have hB_uhead : UHead (f.tB rest) := by
    cases hm : f.mod with
    | none => simpa [SField.tB, hm] using hC_uhead
    | some p =>
      obtain ⟨kw, g3⟩ := p
      rw [hm] at hmod
      simp only [SField.tB, hm]
      rcases hmod.1 with rfl | rfl <;> exact HeadP.cons (by decide)
  have hA_tok : TokHead (f.id.text ++ (f.g1 ++ (':' :: (f.g2 ++ f.tB rest)))) := by
    obtain ⟨c, r, e, hc'⟩ := f.id.text_head hid
    rw [e]
    refine HeadP.cons ?_
    rcases hc' with h | rfl | rfl
    · exact idPart_tok (digit_idPart h)
    · decide
    · decide
  obtain ⟨td, hD, hdv⟩ := docOpt_parses f.doc hdoc _ hA_tok
  have hI := ParsesTo.lab (n := "id") (intconst_parses f.id hid (f.g1 ++ (':' :: (f.g2 ++ f.tB rest)))
    (stops_after_gap (p := digitC) (fun c => gapc_not_digit) f.g1 hg1 _ (fun _ => HeadP.cons (by decide))))
  obtain ⟨ts0, hU0⟩ := u_consumes' f.g1 (':' :: (f.g2 ++ f.tB rest)) hg1.isGap (HeadP.cons (by decide))
  have hcol : ParsesTo grammar (.lit [':'] false) (':' :: (f.g2 ++ f.tB rest)) (.text [':']) (f.g2 ++ f.tB rest) f.cost :=
    (ParsesTo.lit_append [':'] _).mono (by simp [SField.cost])
  obtain ⟨ts1, hU1⟩ := u_consumes' f.g2 (f.tB rest) hg2.isGap hB_uhead
  have hA : SeqRun grammar f.cost [.lab "docstr" (.opt (.seq [.ref "DocString", .ref "__"])), .lab "id" (.ref "IntConstant"), .ref "_",
      .lit [':'] false, .ref "_"] (f.renderK rest) [.lab "docstr" td, .lab "id" f.id.tree, .seq ts0, .text [':'], .seq ts1] (f.tB rest) :=
    SeqRun.cons (hD.mono (by simp [SField.cost]; omega)) (SeqRun.cons (hI.mono (by simp [SField.cost]; omega))
      (SeqRun.cons (hU0.mono (by simp [SField.cost]; omega)) (SeqRun.cons hcol (SeqRun.cons (hU1.mono (by simp [SField.cost]; omega)) SeqRun.nil))))
  have hall := SeqRun.append hA (SeqRun.append hB (SeqRun.append hC hDE))
  have hp := ParsesTo.ref lk_Field (by
    rw [rule_Field]
    exact ParsesTo.act (tag := "Field1") (ParsesTo.seq (by simpa using hall)))
  refine ⟨_, hp.mono (by simp; omega), rfl, ?_⟩
  -- the action
  cases hd : f.dflt with
  | none =>
    rw [hd] at hdfshape
    subst hdfshape
    simp [evField, FV.Act.get, FV.Act.body, findLab, isNil, htyev, hdv, hmodv, evIdent, idTree, textOf, evAnns, SField.erase, hd, evInt_tree]
  | some a =>
    rw [hd] at hdfshape
    obtain ⟨tg, rfl⟩ := hdfshape
    simp [evField, FV.Act.get, FV.Act.body, findLab, isNil, htyev, hdv, hmodv, evIdent, idTree, textOf, evAnns, SField.erase, hd, evInt_tree,
      nth, kids, unlab_intTree, evCV_int_tyFuel]

/-! ### FieldList `(Field __)*` -/

def fieldItemE : Expr := .seq [.ref "Field", .ref "__"]

theorem intconst_fails (x : List Char) (h : HeadP (fun c => digitC c = false ∧ c ≠ '-' ∧ c ≠ '+') x) :
    FailsOn grammar (.ref "IntConstant") x 12 := by
  have hd : FailsOn grammar (.ref "Digit") x 2 := by
    intro F hF
    cases x with
    | nil => exact (digit_matcher F hF).2
    | cons c r => rw [(digit_matcher F hF).1 c r, (h c r rfl).1]; simp
  have ho : ParsesTo grammar (.opt (.cls ['-', '+'] [] false false)) x .nil x 4 := by
    refine (ParsesTo.opt_none ?_).mono (by omega : 1 + 1 ≤ 4)
    cases x with
    | nil => exact FailsOn.cls_nil
    | cons c r =>
      have := h c r rfl
      exact FailsOn.cls (by simp [clsMatches, inRanges, this.2.1, this.2.2])
  have hs := FailsOn.act (tag := "IntConstant1") (FailsOn.seq (SeqFail.tail ho (SeqFail.head (es := []) ((FailsOn.plus hd).mono (by omega : 2 + 1 ≤ 4)))))
  exact (FailsOn.ref lk_IntConstant (by rw [rule_IntConstant]; exact hs)).mono (by simp)

/-- A character that cannot start a field: not a digit, sign or `/`. -/
def NoFieldStart (x : List Char) : Prop := HeadP (fun c => (digitC c = false ∧ c ≠ '-' ∧ c ≠ '+') ∧ c ≠ '/') x

theorem field_fails (x : List Char) (hx : NoFieldStart x) : FailsOn grammar (.ref "Field") x 50 := by
  have hd : ParsesTo grammar (.lab "docstr" (.opt (.seq [.ref "DocString", .ref "__"]))) x (.lab "docstr" .nil) x 20 :=
    (ParsesTo.lab (ParsesTo.opt_none (FailsOn.seq (SeqFail.head (es := [.ref "__"]) (docstring_fails_tok x (fun c r e => (hx c r e).2)))))).mono (by simp)
  have hn : FailsOn grammar (.lab "id" (.ref "IntConstant")) x 20 :=
    (FailsOn.lab (intconst_fails x (hx.mono fun c h => h.1))).mono (by omega)
  have hs := FailsOn.act (tag := "Field1") (FailsOn.seq (SeqFail.tail hd (SeqFail.head (es := [
    .ref "_", .lit [':'] false, .ref "_", .lab "mod" (.opt (.ref "FieldModifier")), .ref "_", .lab "typ" (.ref "FieldType"), .ref "_",
    .lab "name" (.ref "Identifier"), .ref "__", .lab "def" (.opt (.seq [.lit ['='] false, .ref "_", .ref "ConstValue"])), .ref "_",
    .lab "annotations" (.opt (.ref "TypeAnnotations")), .opt (.ref "ListSeparator")]) hn)))
  exact (FailsOn.ref lk_Field (by rw [rule_Field]; exact hs)).mono (by simp)

/-- The text of a list of written fields, each followed by its gap of `__`, then `tail`. -/
def fieldsK : List (SField × List Char) → List Char → List Char
  | [], tail => tail
  | (f, g) :: r, tail => f.renderK (g ++ fieldsK r tail)

def FieldsOk : List (SField × List Char) → List Char → Prop
  | [], _ => True
  | (f, g) :: r, tail => f.Ok ∧ UUGapText g ∧ f.End (g ++ fieldsK r tail) ∧ UUStop (fieldsK r tail) ∧ FieldsOk r tail

def fieldsCost : List (SField × List Char) → Nat
  | [] => 60
  | (f, g) :: r => f.cost + 2 * g.length + 110 + fieldsCost r

theorem fieldsCost_len : ∀ (items : List (SField × List Char)), items.length ≤ fieldsCost items := by
  intro items
  induction items with
  | nil => simp [fieldsCost]
  | cons p r ih => obtain ⟨v, g⟩ := p; simp [fieldsCost]; omega

theorem fields_run : ∀ (items : List (SField × List Char)) (tail : List Char), FieldsOk items tail → NoFieldStart tail →
    ∃ ts, StarRun grammar fieldItemE (fieldsCost items) (fieldsK items tail) ts tail ∧ ts.length = items.length ∧
      evFieldsAux ts = some (items.map fun p => p.1.erase) := by
  intro items
  induction items with
  | nil =>
    intro tail _ ht
    refine ⟨[], .done ?_, rfl, rfl⟩
    exact (FailsOn.seq (SeqFail.head (es := [.ref "__"]) (field_fails tail ht))).mono (by simp [fieldsCost])
  | cons p r ih =>
    obtain ⟨f, g⟩ := p
    intro tail hok ht
    obtain ⟨hf, hg, hend, hstop, hr⟩ := hok
    obtain ⟨ts, hrun, hlen, hval⟩ := ih tail hr ht
    obtain ⟨tv, hp, hul, hev⟩ := field_parses f hf (g ++ fieldsK r tail) hend
    obtain ⟨tsg, hu⟩ := uu_consumes' g (fieldsK r tail) hg.isGap hstop
    have hitem := ParsesTo.seq (SeqRun.cons (hp.mono (by omega : f.cost + 30 ≤ f.cost + 2 * g.length + 100))
      (SeqRun.cons (hu.mono (by omega : 2 * g.length + 70 ≤ f.cost + 2 * g.length + 100)) SeqRun.nil))
    refine ⟨.seq [tv, .seq tsg] :: ts, ?_, by simp [hlen], ?_⟩
    · exact .step (hitem.mono (by simp [fieldsCost]; omega)) (hrun.mono (by simp [fieldsCost]))
    · have : nth (.seq [tv, .seq tsg]) 0 = unlab tv := by simp [nth, kids]
      simp [evFieldsAux, this, hul, hev, hval]

/-- `FieldList` on a list of written fields. -/
theorem fieldList_parses (items : List (SField × List Char)) (tail : List Char) (hok : FieldsOk items tail) (ht : NoFieldStart tail) :
    ∃ t, ParsesTo grammar (.ref "FieldList") (fieldsK items tail) t tail (2 * fieldsCost items + 10) ∧
      evFields t = some (items.map fun p => p.1.erase) := by
  obtain ⟨ts, hrun, hlen, hval⟩ := fields_run items tail hok ht
  have hl := fieldsCost_len items
  have hp := ParsesTo.ref lk_FieldList (by
    rw [rule_FieldList]
    exact ParsesTo.act (tag := "FieldList1") (ParsesTo.lab (n := "fields") (ParsesTo.star hrun)))
  refine ⟨_, hp.mono (by rw [hlen]; omega), ?_⟩
  simp [evFields, FV.Act.get, FV.Act.body, kids, hval]

/-! ### StructLike, Struct / Exception / Union -/

/-- A written struct-like body: name gb `{` gc fields `}` gd ge `;`. -/
structure SStructLike where
  c : Char
  s : List Char
  gb : List Char
  gc : List Char
  items : List (SField × List Char)
  gd : List Char
  ge : List Char

namespace SStructLike

def closeK (e : SStructLike) (rest : List Char) : List Char := '}' :: (e.gd ++ (e.ge ++ (';' :: rest)))

def renderK (e : SStructLike) (rest : List Char) : List Char :=
  e.c :: e.s ++ (e.gb ++ ('{' :: (e.gc ++ fieldsK e.items (e.closeK rest))))

def Ok (e : SStructLike) (rest : List Char) : Prop :=
  idStart e.c = true ∧ (∀ x ∈ e.s, idPart x = true) ∧ UUGapText e.gb ∧ UUGapText e.gc ∧
  UUStop (fieldsK e.items (e.closeK rest)) ∧ FieldsOk e.items (e.closeK rest) ∧
  UGapText e.gd ∧ UUGapText e.ge ∧ UHead e.ge

def cost (e : SStructLike) : Nat :=
  2 * fieldsCost e.items + e.s.length + 2 * e.gb.length + 2 * e.gc.length + 2 * e.gd.length + 2 * e.ge.length + 100

/-- The struct denoted (kind and doc comment are added by the enclosing rules). -/
def erase (e : SStructLike) : Struct :=
  { doc := none, name := e.c :: e.s, fields := e.items.map fun p => p.1.erase, anns := [] }

end SStructLike

theorem structLike_parses (e : SStructLike) (rest : List Char) (hok : e.Ok rest) :
    ∃ t, ParsesTo grammar (.ref "StructLike") (e.renderK rest) t rest (e.cost + 30) ∧ evStructLike t = some e.erase := by
  obtain ⟨hc, hs, hgb, hgc, hstop, hbody, hgd, hge, hgeh⟩ := hok
  have hclose : NoFieldStart (e.closeK rest) := HeadP.cons (by decide)
  obtain ⟨tf, hfl, hfv⟩ := fieldList_parses e.items (e.closeK rest) hbody hclose
  have h3 := ParsesTo.lab (n := "name") (identifier_parses e.c e.s (e.gb ++ ('{' :: (e.gc ++ fieldsK e.items (e.closeK rest)))) hc hs
    (stops_after_uugap (p := idPart) (fun c => gapc_not_idPart) e.gb hgb _ (fun _ => HeadP.cons (by decide))))
  obtain ⟨t4, h4⟩ := uu_consumes e.gb ('{' :: (e.gc ++ fieldsK e.items (e.closeK rest))) hgb.isGap (HeadP.cons (by decide))
  have h5 : ParsesTo grammar (.lit ['{'] false) ('{' :: (e.gc ++ fieldsK e.items (e.closeK rest))) (.text ['{']) _ e.cost :=
    (ParsesTo.lit_append ['{'] _).mono (by simp [SStructLike.cost])
  obtain ⟨t6, h6⟩ := uu_consumes' e.gc (fieldsK e.items (e.closeK rest)) hgc.isGap hstop
  have h7 := ParsesTo.lab (n := "fields") hfl
  have h8 : ParsesTo grammar (.lit ['}'] false) (e.closeK rest) (.text ['}']) (e.gd ++ (e.ge ++ (';' :: rest))) e.cost :=
    (ParsesTo.lit_append ['}'] _).mono (by simp [SStructLike.cost])
  have hge' : UHead (e.ge ++ (';' :: rest)) := HeadP.append hgeh (HeadP.cons (by decide))
  obtain ⟨t9, h9⟩ := u_consumes' e.gd (e.ge ++ (';' :: rest)) hgd.isGap hge'
  have hnp : NoParen (e.ge ++ (';' :: rest)) :=
    HeadP.append (P := fun c => c ≠ '(') (hge.head.mono fun c h e => by subst e; revert h; decide) (HeadP.cons (r := rest) (by decide : ';' ≠ '('))
  have h10 := ParsesTo.lab (n := "annotations") (noAnns _ hnp)
  obtain ⟨t11, h11⟩ := eos_semicolon e.ge rest hge
  have hall := SeqRun.cons (h3.mono (by simp [SStructLike.cost]; omega : _ ≤ e.cost))
    (SeqRun.cons (h4.mono (by simp [SStructLike.cost]; omega : _ ≤ e.cost)) (SeqRun.cons h5 (SeqRun.cons (h6.mono (by simp [SStructLike.cost]; omega : _ ≤ e.cost))
    (SeqRun.cons (h7.mono (by simp [SStructLike.cost]; omega : _ ≤ e.cost)) (SeqRun.cons h8 (SeqRun.cons (h9.mono (by simp [SStructLike.cost]; omega : _ ≤ e.cost))
    (SeqRun.cons (h10.mono (by simp [SStructLike.cost] : _ ≤ e.cost)) (SeqRun.cons (h11.mono (by simp [SStructLike.cost]; omega : _ ≤ e.cost)) SeqRun.nil))))))))
  have hp := ParsesTo.ref lk_StructLike (by
    rw [rule_StructLike]
    exact ParsesTo.act (tag := "StructLike1") (ParsesTo.seq hall))
  refine ⟨_, hp.mono (by simp; omega), ?_⟩
  simp [evStructLike, FV.Act.get, FV.Act.body, findLab, hfv, evIdent, idTree, textOf, evAnns, isNil, SStructLike.erase]

/-- The keyword rule in front: `struct` / `exception` / `union`, a gap of `_`, the body. -/
theorem structKw_parses (rule tag : String) (kw : List Char)
    (hl : grammar.lookup rule = some (.act tag (.seq [.lit kw false, .ref "_", .lab "st" (.ref "StructLike")])))
    (ga : List Char) (hga : UGapText ga) (e : SStructLike) (rest : List Char) (hok : e.Ok rest) :
    ∃ t, ParsesTo grammar (.ref rule) (kw ++ (ga ++ e.renderK rest)) t rest (e.cost + 2 * ga.length + 110) ∧
      evStructLike (FV.Act.get t "st") = some e.erase := by
  obtain ⟨ts, hp, hev⟩ := structLike_parses e rest hok
  have hhead : UHead (e.renderK rest) := HeadP.cons (tokc_uhead (idPart_tok (idStart_idPart hok.1)))
  obtain ⟨tg, hu⟩ := u_consumes' ga (e.renderK rest) hga.isGap hhead
  have h1 : ParsesTo grammar (.lit kw false) (kw ++ (ga ++ e.renderK rest)) (.text kw) _ (e.cost + 2 * ga.length + 100) :=
    (ParsesTo.lit_append kw _).mono (by omega)
  have hall := SeqRun.cons h1 (SeqRun.cons (hu.mono (by omega : _ ≤ e.cost + 2 * ga.length + 100))
    (SeqRun.cons ((ParsesTo.lab (n := "st") hp).mono (by omega : _ ≤ e.cost + 2 * ga.length + 100)) SeqRun.nil))
  have hr := ParsesTo.ref hl (ParsesTo.act (tag := tag) (ParsesTo.seq hall))
  refine ⟨_, hr.mono (by simp; omega), ?_⟩
  simpa [FV.Act.get, FV.Act.body, findLab] using hev

end FV.PegIdl
