/-
Lemmas about the regenerated grammar (`FV.Generated.grammar`): character rules, identifiers,
integer constants.  Every lemma here is re-checked when grammar.peg changes.
-/
import FV.Proofs.Peg
import FV.Model.IdlActions
import FV.Generated.Grammar
open FV.Peg FV.Generated FV.Act

namespace FV.PegIdl

theorem lk_Letter : grammar.lookup "Letter" = some rule_Letter := by rfl
theorem lk_Digit : grammar.lookup "Digit" = some rule_Digit := by rfl
theorem lk_Identifier : grammar.lookup "Identifier" = some rule_Identifier := by rfl

/-- What `Letter` accepts (`[A-Za-z]`). -/
def letterC (c : Char) : Bool := clsMatches [] [('A', 'Z'), ('a', 'z')] false false c
/-- What `Digit` accepts (`[0-9]`). -/
def digitC (c : Char) : Bool := clsMatches [] [('0', '9')] false false c
/-- First-part characters of an identifier: `Letter / '_'`. -/
def idStart (c : Char) : Bool := letterC c || c == '_'
/-- Later characters: `Letter / Digit / [._]`. -/
def idPart (c : Char) : Bool := letterC c || digitC c || clsMatches ['.', '_'] [] false false c

theorem idStart_idPart {c : Char} (h : idStart c = true) : idPart c = true := by
  simp only [idStart, idPart, Bool.or_eq_true, beq_iff_eq] at h ⊢
  rcases h with h | h
  · exact Or.inl (Or.inl h)
  · subst h; exact Or.inr (by decide)

theorem letter_matcher : CharMatcher grammar (.ref "Letter") letterC 2 := by
  intro F hF
  obtain ⟨F', rfl⟩ : ∃ F', F = F' + 2 := ⟨F - 2, by omega⟩
  refine ⟨fun c r => ?_, ?_⟩
  · rw [pExpr_ref, lk_Letter]; simp only [rule_Letter, pExpr_cls, letterC]; rfl
  · rw [pExpr_ref, lk_Letter]; simp only [rule_Letter, pExpr_cls]

theorem digit_matcher : CharMatcher grammar (.ref "Digit") digitC 2 := by
  intro F hF
  obtain ⟨F', rfl⟩ : ∃ F', F = F' + 2 := ⟨F - 2, by omega⟩
  refine ⟨fun c r => ?_, ?_⟩
  · rw [pExpr_ref, lk_Digit]; simp only [rule_Digit, pExpr_cls, digitC]; rfl
  · rw [pExpr_ref, lk_Digit]; simp only [rule_Digit, pExpr_cls]

def idStartE : Expr := .choice [.ref "Letter", .lit ['_'] false]
def idPartE : Expr := .choice [.ref "Letter", .ref "Digit", .cls ['.', '_'] [] false false]

theorem idStart_matcher : CharMatcher grammar idStartE idStart 4 := by
  intro F hF
  obtain ⟨F', rfl⟩ : ∃ F', F = F' + 4 := ⟨F - 4, by omega⟩
  refine ⟨fun c r => ?_, ?_⟩
  · simp only [idStartE, pExpr_choice, pChoice_cons, (letter_matcher (F' + 2) (by omega)).1 c r, idStart]
    by_cases h : letterC c = true
    · simp [h]
    · simp only [h, Bool.false_eq_true, if_false, pExpr_lit, matchLit, Bool.false_or]
      by_cases h2 : c = '_'
      · subst h2; simp [consumed_cons]
      · simp [h2, pChoice_nil]
  · simp only [idStartE, pExpr_choice, pChoice_cons, (letter_matcher (F' + 2) (by omega)).2, pExpr_lit, matchLit, pChoice_nil]

theorem idPart_matcher : CharMatcher grammar idPartE idPart 5 := by
  intro F hF
  obtain ⟨F', rfl⟩ : ∃ F', F = F' + 5 := ⟨F - 5, by omega⟩
  refine ⟨fun c r => ?_, ?_⟩
  · simp only [idPartE, pExpr_choice, pChoice_cons, (letter_matcher (F' + 3) (by omega)).1 c r,
      (digit_matcher (F' + 2) (by omega)).1 c r, idPart, pExpr_cls, pChoice_nil]
    by_cases h : letterC c = true
    · simp [h]
    · by_cases h2 : digitC c = true
      · simp [h, h2]
      · by_cases h3 : clsMatches ['.', '_'] [] false false c = true
        · simp [h, h2, h3]
        · simp [h, h2, h3]
  · simp only [idPartE, pExpr_choice, pChoice_cons, (letter_matcher (F' + 3) (by omega)).2,
      (digit_matcher (F' + 2) (by omega)).2, pExpr_cls, pChoice_nil]

/-- `Identifier` on `a ++ b ++ rest` (a: maximal run of start characters, b: the remaining part characters). -/
theorem identifier_split (c : Char) (a b rest : List Char) (hc : idStart c = true) (ha : ∀ x ∈ a, idStart x = true)
    (hb : ∀ x ∈ b, idPart x = true) (hab : StopsAt idStart (b ++ rest)) (hrest : StopsAt idPart rest)
    (F : Nat) (hF : a.length + b.length + 12 ≤ F) :
    parse F grammar "Identifier" (c :: a ++ b ++ rest) =
      .ok (.act "Identifier1" (c :: a ++ b)
        (.seq [.seq ((c :: a).map fun x => Tree.text [x]), .seq (b.map fun x => Tree.text [x])])) rest := by
  obtain ⟨F', rfl⟩ : ∃ F', F = F' + 6 := ⟨F - 6, by omega⟩
  have h1 := pPlus_chars idStart_matcher c a (b ++ rest) hc ha hab (F' + 2) (by omega)
  have h2 := pStar_chars idPart_matcher b rest hb hrest F' (by omega)
  have h3 : consumed (c :: (a ++ (b ++ rest))) rest = c :: (a ++ b) := by
    have := consumed_append (c :: (a ++ b)) rest
    simpa [List.append_assoc] using this
  simp only [idStartE, idPartE, List.cons_append] at h1 h2
  simp only [parse, pExpr_ref, lk_Identifier, rule_Identifier, pExpr_act, pExpr_seq, pSeq_cons, pSeq_nil, pExpr_star,
    List.append_assoc, List.cons_append, h1, h2, h3]

/-! ### list helpers -/

theorem takeWhile_all (p : Char → Bool) : ∀ (l : List Char) (x : Char), x ∈ l.takeWhile p → p x = true := by
  intro l
  induction l with
  | nil => intro x h; simp at h
  | cons a t ih =>
    intro x h
    by_cases ha : p a = true
    · simp only [List.takeWhile_cons, ha, if_true, List.mem_cons] at h
      rcases h with h | h
      · subst h; exact ha
      · exact ih x h
    · simp [ha] at h

theorem dropWhile_mem (p : Char → Bool) : ∀ (l : List Char) (x : Char), x ∈ l.dropWhile p → x ∈ l := by
  intro l
  induction l with
  | nil => intro x h; simpa using h
  | cons a t ih =>
    intro x h
    by_cases ha : p a = true
    · simp only [List.dropWhile_cons, ha, if_true] at h
      exact List.mem_cons_of_mem _ (ih x h)
    · simp only [List.dropWhile_cons, ha] at h
      simpa using h

theorem dropWhile_head (p : Char → Bool) : ∀ (l : List Char) (d : Char) (r : List Char), l.dropWhile p = d :: r → p d = false := by
  intro l
  induction l with
  | nil => intro d r h; simp at h
  | cons a t ih =>
    intro d r h
    by_cases ha : p a = true
    · simp only [List.dropWhile_cons, ha, if_true] at h
      exact ih d r h
    · simp only [List.dropWhile_cons, ha] at h
      simp only [Bool.false_eq_true, if_false, List.cons.injEq] at h
      rw [← h.1]; simpa using ha

/-- `Identifier` consumes exactly an identifier-shaped string (first character a start
character, the others part characters) when the next character is not a part character. -/
theorem identifier_exact (c : Char) (s rest : List Char) (hc : idStart c = true) (hs : ∀ x ∈ s, idPart x = true)
    (hrest : StopsAt idPart rest) (F : Nat) (hF : s.length + 12 ≤ F) :
    ∃ t, parse F grammar "Identifier" (c :: s ++ rest) = .ok t rest ∧ tagOf t = "Identifier1" ∧ evIdent t = c :: s := by
  have hsplit : s.takeWhile idStart ++ s.dropWhile idStart = s := List.takeWhile_append_dropWhile
  have hlen : (s.takeWhile idStart).length + (s.dropWhile idStart).length = s.length := by
    rw [← List.length_append, hsplit]
  have hab : StopsAt idStart (s.dropWhile idStart ++ rest) := by
    intro d r hd
    cases hb : s.dropWhile idStart with
    | nil =>
      rw [hb] at hd
      have := hrest d r (by simpa using hd)
      cases h : idStart d with
      | false => rfl
      | true => rw [idStart_idPart h] at this; cases this
    | cons d' b' =>
      rw [hb] at hd
      simp only [List.cons_append, List.cons.injEq] at hd
      rw [← hd.1]; exact dropWhile_head idStart s d' b' hb
  have h := identifier_split c (s.takeWhile idStart) (s.dropWhile idStart) rest hc (takeWhile_all idStart s)
    (fun x hx => hs x (dropWhile_mem idStart s x hx)) hab hrest F (by omega)
  have e1 : c :: (s.takeWhile idStart ++ (s.dropWhile idStart ++ rest)) = c :: s ++ rest := by
    rw [← List.append_assoc, hsplit]; rfl
  have e2 : (c :: s.takeWhile idStart ++ s.dropWhile idStart) = c :: s := by
    rw [List.cons_append, hsplit]
  simp only [List.append_assoc, List.cons_append] at h
  rw [e1] at h
  exact ⟨_, h, rfl, by simp only [evIdent, textOf]; simpa using e2⟩

/-- The tree `Identifier` builds for `c :: s` (greedy split into start and part characters). -/
def idTree (c : Char) (s : List Char) : Tree :=
  .act "Identifier1" (c :: s)
    (.seq [.seq ((c :: s.takeWhile idStart).map fun x => Tree.text [x]), .seq ((s.dropWhile idStart).map fun x => Tree.text [x])])

/-- `identifier_exact` with the tree made explicit, as a `ParsesTo` fact. -/
theorem identifier_parses (c : Char) (s rest : List Char) (hc : idStart c = true) (hs : ∀ x ∈ s, idPart x = true)
    (hrest : StopsAt idPart rest) : ParsesTo grammar (.ref "Identifier") (c :: s ++ rest) (idTree c s) rest (s.length + 12) := by
  intro F hF
  have hsplit : s.takeWhile idStart ++ s.dropWhile idStart = s := List.takeWhile_append_dropWhile
  have hlen : (s.takeWhile idStart).length + (s.dropWhile idStart).length = s.length := by
    rw [← List.length_append, hsplit]
  have hab : StopsAt idStart (s.dropWhile idStart ++ rest) := by
    intro d r hd
    cases hb : s.dropWhile idStart with
    | nil =>
      rw [hb] at hd
      have := hrest d r (by simpa using hd)
      cases h : idStart d with
      | false => rfl
      | true => rw [idStart_idPart h] at this; cases this
    | cons d' b' =>
      rw [hb] at hd
      simp only [List.cons_append, List.cons.injEq] at hd
      rw [← hd.1]; exact dropWhile_head idStart s d' b' hb
  have h := identifier_split c (s.takeWhile idStart) (s.dropWhile idStart) rest hc (takeWhile_all idStart s)
    (fun x hx => hs x (dropWhile_mem idStart s x hx)) hab hrest F (by omega)
  have e1 : c :: (s.takeWhile idStart ++ (s.dropWhile idStart ++ rest)) = c :: s ++ rest := by
    rw [← List.append_assoc, hsplit]; rfl
  have e2 : (c :: s.takeWhile idStart ++ s.dropWhile idStart) = c :: s := by
    rw [List.cons_append, hsplit]
  simp only [List.append_assoc, List.cons_append] at h
  rw [e1] at h
  simp only [List.cons_append] at e2
  rw [e2] at h
  simpa [parse, idTree] using h

/-! ### integer constants -/

theorem lk_IntConstant : grammar.lookup "IntConstant" = some rule_IntConstant := by rfl

theorem digit_not_sign {d : Char} (hd : digitC d = true) : clsMatches ['-', '+'] [] false false d = false := by
  by_cases h1 : d = '-'
  · subst h1; revert hd; decide
  · by_cases h2 : d = '+'
    · subst h2; revert hd; decide
    · simp [clsMatches, inRanges, h1, h2]

/-- The tree of the optional sign. -/
def signTree : List Char → Tree
  | [c] => .text [c]
  | _ => .nil

/-- `IntConstant` consumes exactly an optional sign and a non-empty run of digits. -/
theorem intconst_exact (sign : List Char) (hs : sign = [] ∨ sign = ['-'] ∨ sign = ['+']) (d : Char) (ds rest : List Char)
    (hd : digitC d = true) (hds : ∀ x ∈ ds, digitC x = true) (hrest : StopsAt digitC rest) (F : Nat) (hF : ds.length + 10 ≤ F) :
    parse F grammar "IntConstant" (sign ++ d :: ds ++ rest) =
      .ok (.act "IntConstant1" (sign ++ d :: ds) (.seq [signTree sign, .seq ((d :: ds).map fun x => Tree.text [x])])) rest := by
  obtain ⟨F', rfl⟩ : ∃ F', F = F' + 6 := ⟨F - 6, by omega⟩
  have h1 := pPlus_chars digit_matcher d ds rest hd hds hrest (F' + 1) (by omega)
  simp only [List.cons_append] at h1
  rcases hs with rfl | rfl | rfl
  · have h3 : consumed (d :: (ds ++ rest)) rest = d :: ds := by
      simpa using consumed_append (d :: ds) rest
    simp only [parse, pExpr_ref, lk_IntConstant, rule_IntConstant, pExpr_act, pExpr_seq, pSeq_cons, pSeq_nil, pExpr_opt,
      pExpr_cls, digit_not_sign hd, List.nil_append, List.cons_append, Bool.false_eq_true, if_false, h1, h3, signTree]
  · have h3 : consumed ('-' :: d :: (ds ++ rest)) rest = '-' :: d :: ds := by
      simpa using consumed_append ('-' :: d :: ds) rest
    have hc : clsMatches ['-', '+'] [] false false '-' = true := by decide
    simp only [parse, pExpr_ref, lk_IntConstant, rule_IntConstant, pExpr_act, pExpr_seq, pSeq_cons, pSeq_nil, pExpr_opt,
      pExpr_cls, hc, List.cons_append, List.nil_append, if_true, h1, h3, signTree]
  · have h3 : consumed ('+' :: d :: (ds ++ rest)) rest = '+' :: d :: ds := by
      simpa using consumed_append ('+' :: d :: ds) rest
    have hc : clsMatches ['-', '+'] [] false false '+' = true := by decide
    simp only [parse, pExpr_ref, lk_IntConstant, rule_IntConstant, pExpr_act, pExpr_seq, pSeq_cons, pSeq_nil, pExpr_opt,
      pExpr_cls, hc, List.cons_append, List.nil_append, if_true, h1, h3, signTree]

theorem digit_ne_sign {d : Char} (hd : digitC d = true) : d ≠ '-' ∧ d ≠ '+' := by
  constructor <;> (intro h; subst h; revert hd; decide)

/-- `strconv.ParseInt` of the matched text: the signed Horner value when it fits int64. -/
theorem parseInt_unsigned (d : Char) (ds : List Char) (hd : digitC d = true) : parseInt (d :: ds) = posInt (d :: ds) := by
  obtain ⟨h1, h2⟩ := digit_ne_sign hd
  simp [parseInt, h1, h2]

theorem parseInt_minus (ds : List Char) : parseInt ('-' :: ds) = negInt ds := by
  simp [parseInt]

theorem parseInt_plus (ds : List Char) : parseInt ('+' :: ds) = posInt ds := by
  simp [parseInt]

/-! ### types -/

theorem lk_U : grammar.lookup "_" = some rule_U := by rfl
theorem lk_WS : grammar.lookup "WS" = some rule_WS := by rfl
theorem lk_Whitespace : grammar.lookup "Whitespace" = some rule_Whitespace := by rfl
theorem lk_MLCN : grammar.lookup "MultiLineCommentNoLineTerminator" = some rule_MultiLineCommentNoLineTerminator := by rfl
theorem lk_DocString : grammar.lookup "DocString" = some rule_DocString := by rfl
theorem lk_TypeAnnotations : grammar.lookup "TypeAnnotations" = some rule_TypeAnnotations := by rfl
theorem lk_FieldType : grammar.lookup "FieldType" = some rule_FieldType := by rfl
theorem lk_BaseType : grammar.lookup "BaseType" = some rule_BaseType := by rfl
theorem lk_BaseTypeName : grammar.lookup "BaseTypeName" = some rule_BaseTypeName := by rfl
theorem lk_ContainerType : grammar.lookup "ContainerType" = some rule_ContainerType := by rfl
theorem lk_MapType : grammar.lookup "MapType" = some rule_MapType := by rfl
theorem lk_SetType : grammar.lookup "SetType" = some rule_SetType := by rfl
theorem lk_ListType : grammar.lookup "ListType" = some rule_ListType := by rfl
theorem lk_CppType : grammar.lookup "CppType" = some rule_CppType := by rfl

/-- What may follow a type in the texts considered: nothing, `>` or `,`. -/
def StopHead (rest : List Char) : Prop := ∀ c r, rest = c :: r → (c = '>' ∨ c = ',')

/-- `_` (white space and one-line comments) matches the empty string before `>`, `,` or the end. -/
theorem under_stop (rest : List Char) (h : StopHead rest) (F : Nat) (hF : 20 ≤ F) :
    pExpr grammar F (.ref "_") rest = .ok (.seq []) rest := by
  obtain ⟨F', rfl⟩ : ∃ F', F = F' + 20 := ⟨F - 20, by omega⟩
  have w1 : clsMatches [' ', '\t', '\r'] [] false false '>' = false := by decide
  have w2 : clsMatches [' ', '\t', '\r'] [] false false ',' = false := by decide
  cases rest with
  | nil =>
    simp [pExpr_ref, lk_U, rule_U, pExpr_star, pStar_succ, pExpr_choice, pChoice_cons, pChoice_nil, lk_Whitespace,
      rule_Whitespace, pExpr_cls, lk_MLCN, rule_MultiLineCommentNoLineTerminator, pExpr_seq, pSeq_cons, pExpr_notP,
      lk_DocString, rule_DocString, pExpr_act, pExpr_lit, matchLit]
  | cons c r =>
    rcases h c r rfl with rfl | rfl
    · simp [pExpr_ref, lk_U, rule_U, pExpr_star, pStar_succ, pExpr_choice, pChoice_cons, pChoice_nil, lk_Whitespace,
        rule_Whitespace, pExpr_cls, w1, lk_MLCN, rule_MultiLineCommentNoLineTerminator, pExpr_seq, pSeq_cons, pExpr_notP,
        lk_DocString, rule_DocString, pExpr_act, pExpr_lit, matchLit]
    · simp [pExpr_ref, lk_U, rule_U, pExpr_star, pStar_succ, pExpr_choice, pChoice_cons, pChoice_nil, lk_Whitespace,
        rule_Whitespace, pExpr_cls, w2, lk_MLCN, rule_MultiLineCommentNoLineTerminator, pExpr_seq, pSeq_cons, pExpr_notP,
        lk_DocString, rule_DocString, pExpr_act, pExpr_lit, matchLit]

/-- `annotations:TypeAnnotations?` is absent before `>`, `,` or the end. -/
theorem noanns_stop (rest : List Char) (h : StopHead rest) (F : Nat) (hF : 6 ≤ F) :
    pExpr grammar F (.opt (.ref "TypeAnnotations")) rest = .ok .nil rest := by
  obtain ⟨F', rfl⟩ : ∃ F', F = F' + 6 := ⟨F - 6, by omega⟩
  cases rest with
  | nil => simp [pExpr_opt, pExpr_ref, lk_TypeAnnotations, rule_TypeAnnotations, pExpr_act, pExpr_seq, pSeq_cons, pExpr_lit, matchLit]
  | cons c r =>
    rcases h c r rfl with rfl | rfl
    · simp [pExpr_opt, pExpr_ref, lk_TypeAnnotations, rule_TypeAnnotations, pExpr_act, pExpr_seq, pSeq_cons, pExpr_lit, matchLit]
    · simp [pExpr_opt, pExpr_ref, lk_TypeAnnotations, rule_TypeAnnotations, pExpr_act, pExpr_seq, pSeq_cons, pExpr_lit, matchLit]

theorem consumed_of_eq (inp s rest : List Char) (h : inp = s ++ rest) : consumed inp rest = s := by
  subst h; exact consumed_append s rest

/-- The eight base type names of `BaseTypeName`. -/
def baseNames : List (List Char) :=
  [['b','o','o','l'], ['b','y','t','e'], ['i','1','6'], ['i','3','2'], ['i','6','4'], ['d','o','u','b','l','e'],
   ['s','t','r','i','n','g'], ['b','i','n','a','r','y']]

/-- The tree `FieldType` builds for a base type name without annotations. -/
def baseTree (kw : List Char) : Tree :=
  .act "FieldType1" kw (.lab "typ" (.act "BaseType1" kw (.seq [
    .lab "name" (.act "BaseTypeName1" kw (.text kw)), .seq [], .lab "annotations" .nil])))

theorem fieldType_base (kw : List Char) (hkw : kw ∈ baseNames) (rest : List Char) (h : StopHead rest) (F : Nat) (hF : 40 ≤ F) :
    parse F grammar "FieldType" (kw ++ rest) = .ok (baseTree kw) rest := by
  obtain ⟨F', rfl⟩ : ∃ F', F = F' + 40 := ⟨F - 40, by omega⟩
  simp only [baseNames, List.mem_cons, List.mem_nil_iff, or_false] at hkw
  rcases hkw with rfl | rfl | rfl | rfl | rfl | rfl | rfl | rfl <;>
  · simp [parse, baseTree, pExpr_ref, lk_FieldType, rule_FieldType, pExpr_act, pExpr_lab, pExpr_choice, pChoice_cons, lk_BaseType,
      rule_BaseType, pExpr_seq, pSeq_cons, pSeq_nil, lk_BaseTypeName, rule_BaseTypeName, pExpr_lit, matchLit,
      under_stop rest h, noanns_stop rest h]
    exact consumed_of_eq _ _ _ rfl

/-- Literals that are tried before `Identifier` in `FieldType`: the base type names, and the
openers of the container rules. -/
def typeKeywords : List (List Char) :=
  baseNames ++ [['c','p','p','_','t','y','p','e'], ['m','a','p','<'], ['s','e','t','<'], ['l','i','s','t','<']]

/-- None of those literals is a prefix of the text (the negation of the recorded finding's class). -/
def NoTypeKeywordPrefix (inp : List Char) : Prop := ∀ kw ∈ typeKeywords, matchLit false kw inp = none

theorem stop_idPart {rest : List Char} (h : StopHead rest) : StopsAt idPart rest := by
  intro c r hr
  rcases h c r hr with rfl | rfl <;> decide

theorem fieldType_named (c : Char) (s rest : List Char) (hc : idStart c = true) (hs : ∀ x ∈ s, idPart x = true)
    (hno : NoTypeKeywordPrefix (c :: s ++ rest)) (h : StopHead rest) (F : Nat) (hF : s.length + 40 ≤ F) :
    ∃ t, parse F grammar "FieldType" (c :: s ++ rest) = .ok t rest ∧ ∀ k, evTy (k + 1) t = some (.named (c :: s)) := by
  obtain ⟨F', rfl⟩ : ∃ F', F = F' + 40 := ⟨F - 40, by omega⟩
  obtain ⟨ti, hti, htag, hid⟩ := identifier_exact c s rest hc hs (stop_idPart h) (F' + 33) (by omega)
  simp only [NoTypeKeywordPrefix, typeKeywords, baseNames, List.cons_append, List.nil_append, List.mem_cons, List.mem_nil_iff,
    or_false, forall_eq_or_imp, forall_eq] at hno
  obtain ⟨h1, h2, h3, h4, h5, h6, h7, h8, h9, h10, h11, h12⟩ := hno
  simp only [parse] at hti
  simp only [List.cons_append] at hti
  refine ⟨.act "FieldType1" (c :: s) (.lab "typ" ti), ?_, ?_⟩
  · simp [parse, pExpr_ref, lk_FieldType, rule_FieldType, pExpr_act, pExpr_lab, pExpr_choice, pChoice_cons, lk_BaseType,
      rule_BaseType, pExpr_seq, pSeq_cons, lk_BaseTypeName, rule_BaseTypeName, pExpr_lit, pChoice_nil,
      lk_ContainerType, rule_ContainerType, lk_MapType, rule_MapType, lk_SetType, rule_SetType, lk_ListType, rule_ListType,
      lk_CppType, rule_CppType, pExpr_opt, h1, h2, h3, h4, h5, h6, h7, h8, h9, h10, h11, h12, hti]
    exact consumed_of_eq _ _ _ rfl
  · intro k
    have hg : FV.Act.get (.act "FieldType1" (c :: s) (.lab "typ" ti)) "typ" = ti := by simp [FV.Act.get, FV.Act.body]
    simp [evTy, hg, htag, hid]


theorem evTy_baseTree (kw : List Char) (k : Nat) : evTy (k + 1) (baseTree kw) = some (.base kw []) := by
  simp [evTy, baseTree, FV.Act.get, FV.Act.body, tagOf, textOf, evAnns, isNil, findLab]


end FV.PegIdl
