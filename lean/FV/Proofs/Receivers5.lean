/-
Lemmas about the reply step of FV.Model.Receivers5 (C05 (f)).
-/
import FV.Model.Receivers5

namespace FV.Recv5

theorem write_le {limit len w l : Nat} (hl : limit > 0) (h : write limit len w = some l) : l ≤ limit := by
  unfold write at h
  split at h
  · cases h
  · cases h; omega

theorem group_le (limit : Nat) (hl : 4 ≤ limit) : ∀ (ws : List Nat) (len : Nat), len ≤ limit →
    group limit len ws ≤ limit := by
  intro ws
  induction ws with
  | nil => intro len h; exact h
  | cons w t ih =>
    intro len h
    simp only [group]
    cases hw : write limit len w with
    | some l => exact ih l (write_le (by omega) hw)
    | none => exact hl

theorem unchecked_le (limit : Nat) (hl : 4 ≤ limit) : ∀ (gs : List (List Nat)) (len : Nat), len ≤ limit →
    unchecked limit len gs ≤ limit := by
  intro gs
  induction gs with
  | nil => intro len h; exact h
  | cons g t ih =>
    intro len h
    simp only [unchecked]
    exact ih _ (group_le limit hl g len h)

theorem checked_le (limit : Nat) (hl : 0 < limit) : ∀ (ws : List Nat) (len n : Nat), len ≤ limit →
    checked limit len ws = some n → n ≤ limit := by
  intro ws
  induction ws with
  | nil => intro len n h hc; simp only [checked] at hc; cases hc; exact h
  | cons w t ih =>
    intro len n h hc
    simp only [checked] at hc
    cases hw : write limit len w with
    | some l => rw [hw] at hc; exact ih l n (write_le hl hw) hc
    | none => rw [hw] at hc; cases hc

/-- A header block that alone passes the limit leaves nothing behind: the attempt goes on without it. -/
theorem unchecked_head_overflow (limit h : Nat) (rest : List (List Nat)) (hl : limit > 0) (ho : h + 4 > limit) :
    unchecked limit 4 ([h] :: rest) = unchecked limit 4 rest := by
  simp only [unchecked, group]
  have : write limit 4 h = none := by unfold write; rw [if_pos ⟨hl, ho⟩]
  rw [this]

theorem checked_head_overflow (limit h : Nat) (rest : List Nat) (hl : limit > 0) (ho : h + 4 > limit) :
    checked limit 4 (h :: rest) = none := by
  simp only [checked]
  have : write limit 4 h = none := by unfold write; rw [if_pos ⟨hl, ho⟩]
  rw [this]

theorem sendErrorRec_diverges (limit : Nat) (exc : List Nat) (h : checked limit 4 exc = none) :
    ∀ fuel, sendErrorRec limit exc fuel = none := by
  intro fuel
  induction fuel with
  | zero => rfl
  | succ k ih => simp only [sendErrorRec, h]; exact ih

end FV.Recv5
