/-
Helper lemmas for the handler-script part of C09 (Model/ContextOnward.lean): what an onward call does
to the response headers of the calling context. All reader lemmas are stated for an arbitrary wire.
-/
import FV.Model.ContextOnward
import FV.Proofs.Context
namespace FV

theorem Hdrs.get?_setAll_some (R : Hdrs) : ∀ (a : Hdrs) (k v : Bytes), a.get? k = some v →
    ∃ v', (a.setAll R).get? k = some v' ∧ (k ∉ R.keys → v' = v) := by
  induction R with
  | nil => intro a k v h; exact ⟨v, h, fun _ => rfl⟩
  | cons kv t ih =>
    intro a k v h
    show ∃ v', ((a.set kv.1 kv.2).setAll t).get? k = some v' ∧ _
    by_cases e : kv.1 = k
    · obtain ⟨v', h1, _⟩ := ih (a.set kv.1 kv.2) k kv.2 (by rw [e]; exact Hdrs.get?_set_same a k kv.2)
      exact ⟨v', h1, fun hn => absurd (by simp [Hdrs.keys, e]) hn⟩
    · obtain ⟨v', h1, h2⟩ := ih (a.set kv.1 kv.2) k v (by rw [Hdrs.get?_set_other a kv.1 kv.2 k e]; exact h)
      refine ⟨v', h1, fun hn => h2 ?_⟩
      intro hm; exact hn (by simp only [Hdrs.keys, List.map_cons, List.mem_cons]; exact Or.inr hm)


theorem readResponseHeader_ok_inv (c : Ctx) (wire : Bytes) (c' : Ctx) (rest : Bytes)
    (h : readResponseHeader c wire = .ok (c', rest)) :
    ∃ d, unmarshalStream wire = .ok (d, rest) ∧ c' = mergeResponse c d := by
  unfold readResponseHeader at h
  split at h
  · rename_i d r hu
    injection h with h
    injection h with h1 h2
    subst h1 h2
    exact ⟨d, hu, rfl⟩
  · cases h
  · cases h

theorem wireReply_merge (cc s cc' : Ctx) (rest : Bytes) (h : wireReply cc s = .ok (cc', rest)) :
    ∃ d, unmarshalStream (marshal s.resp) = .ok (d, rest) ∧ cc' = mergeResponse cc d :=
  readResponseHeader_ok_inv cc (marshal s.resp) cc' rest h

theorem runActsW_keeps (req : Ctx → Nat → Res (Ctx × Bytes)) (rep : Ctx → Ctx → Res (Ctx × Bytes))
    (hrep : ∀ cc s cc' rest, rep cc s = .ok (cc', rest) → ∀ k v, cc.resp.get? k = some v → ∃ v', cc'.resp.get? k = some v')
    (acts : List HAct) (c : Ctx) (ctr : Nat) :
    ∀ c' ctr' tr, runActsW req rep acts c ctr = .ok (c', ctr', tr) →
      ∀ k v, c.resp.get? k = some v → ∃ v', c'.resp.get? k = some v' := by
  fun_induction runActsW req rep acts c ctr
  case case1 c ctr => intro c' ctr' tr h k v hk; injection h with h; injection h with h1 _; subst h1; exact ⟨v, hk⟩
  case case2 k0 v0 t c ctr ih =>
    intro c' ctr' tr h k v hk
    by_cases e : k0 = k
    · exact ih c' ctr' tr h k v0 (by subst e; exact Hdrs.get?_set_same _ _ _)
    · exact ih c' ctr' tr h k v (by show Hdrs.get? (Hdrs.set _ _ _) _ = _; rw [Hdrs.get?_set_other _ _ _ _ e]; exact hk)
  case case3 k0 v0 t c ctr ih => intro c' ctr' tr h k v hk; exact ih c' ctr' tr h k v hk
  all_goals first | (intro c' ctr' tr h; cases h; done) | skip
  case case12 clone sub t c ctr cc ctr1 s0 r0 hq s1 ctr2 tr1 hsub cc1 r1 hr c1 ctr3 tr2 ht ih2 ih1 =>
    intro c' ctr' tr h k v hk
    injection h with h; injection h with h1 _; subst h1
    cases hc : clone with
    | true =>
      simp only [hc] at ih1 ht
      exact ih1 c1 ctr3 tr2 ht k v hk
    | false =>
      simp only [hc] at ih1 ht hr
      have hcc : cc = c := by simp [cc, hc]
      rw [hcc] at hr
      obtain ⟨v1, hv1⟩ := hrep c s1 cc1 r1 hr k v hk
      exact ih1 c1 ctr3 tr2 ht k v1 hv1
end FV
