/-
Helper lemmas for C09 (Props/C09.lean): the decimal codec of op ids and timeouts,
lookups in header maps after `set`/`setAll`/`without`, and what `serverCtx` builds.
-/
import FV.Model.Context
import FV.Proofs.Headers
namespace FV

/-! ### Decimal integers -/

theorem natDigitsAux_append (n : Nat) : ∀ acc : Bytes, natDigitsAux n acc = natDigitsAux n [] ++ acc := by
  induction n using Nat.strongRecOn with
  | _ n ih =>
    intro acc
    rw [natDigitsAux]
    conv => rhs; rw [natDigitsAux]
    split
    · simp
    · rw [ih (n / 10) (by omega) (_ :: acc), ih (n / 10) (by omega) [_]]
      simp

theorem digitsVal_append (l1 l2 : Bytes) (a : Nat) :
    digitsVal (l1 ++ l2) a = (digitsVal l1 a).bind (fun x => digitsVal l2 x) := by
  induction l1 generalizing a with
  | nil => simp [digitsVal]
  | cons c t ih =>
    simp only [List.cons_append, digitsVal]
    split
    · exact ih _
    · rfl

theorem digitsVal_natDigits (n : Nat) : digitsVal (natDigits n) 0 = some n := by
  unfold natDigits
  induction n using Nat.strongRecOn with
  | _ n ih =>
    rw [natDigitsAux]
    split
    · rename_i h
      simp [digitsVal]
      omega
    · rename_i h
      rw [natDigitsAux_append, digitsVal_append, ih (n / 10) (by omega)]
      simp [digitsVal]
      omega

/-- A rendered number starts with a decimal digit. -/
theorem natDigitsAux_head (n : Nat) : ∀ acc : Bytes, ∃ c t, natDigitsAux n acc = c :: t ∧ 48 ≤ c.toNat ∧ c.toNat ≤ 57 := by
  induction n using Nat.strongRecOn with
  | _ n ih =>
    intro acc
    rw [natDigitsAux]
    split
    · rename_i h
      exact ⟨_, _, rfl, by simp; omega, by simp; omega⟩
    · exact ih (n / 10) (by omega) _

theorem natDigits_head (n : Nat) : ∃ c t, natDigits n = c :: t ∧ 48 ≤ c.toNat ∧ c.toNat ≤ 57 :=
  natDigitsAux_head n []

theorem natDigits_ne_nil (n : Nat) : natDigits n ≠ [] := by
  obtain ⟨c, t, h, _⟩ := natDigits_head n
  rw [h]; simp

theorem natDigits_injective {a b : Nat} (h : natDigits a = natDigits b) : a = b := by
  have h1 := digitsVal_natDigits a
  rw [h, digitsVal_natDigits b] at h1
  exact (Option.some.inj h1).symm

theorem parseU64_natDigits (n : Nat) (h : n < 18446744073709551616) : parseU64 (natDigits n) = some n := by
  unfold parseU64
  have hne : (natDigits n).isEmpty = false := by
    cases hd : natDigits n with
    | nil => exact absurd hd (natDigits_ne_nil n)
    | cons _ _ => rfl
  simp [hne, digitsVal_natDigits, h]

theorem parseI64_formatInt (z : Int) (hlo : -9223372036854775808 ≤ z) (hhi : z < 9223372036854775808) :
    parseI64 (formatInt z) = some z := by
  unfold formatInt
  split
  · rename_i hneg
    have hne : (natDigits z.natAbs).isEmpty = false := by
      cases hd : natDigits z.natAbs with
      | nil => exact absurd hd (natDigits_ne_nil _)
      | cons _ _ => rfl
    have hle : z.natAbs ≤ 9223372036854775808 := by omega
    simp [parseI64, hne, digitsVal_natDigits, hle]
    omega
  · rename_i hpos
    obtain ⟨c, t, hd, h1, h2⟩ := natDigits_head z.toNat
    have hv := digitsVal_natDigits z.toNat
    rw [hd] at hv
    rw [hd]
    have c43 : c ≠ 43 := by intro e; subst e; simp at h1
    have c45 : c ≠ 45 := by intro e; subst e; simp at h1
    have hlt : z.toNat < 9223372036854775808 := by omega
    simp [parseI64, c43, c45, hv, hlt]
    omega

theorem digitsVal_nondigit (s : Bytes) (c : UInt8) (hc : c ∈ s) (hnd : ¬ (48 ≤ c.toNat ∧ c.toNat ≤ 57)) :
    ∀ a, digitsVal s a = none := by
  induction s with
  | nil => cases hc
  | cons x t ih =>
    intro a
    simp only [digitsVal]
    split
    · rename_i hx
      rcases List.mem_cons.mp hc with e | hm
      · subst e; exact absurd hx hnd
      · exact ih hm _
    · rfl

/-- A header value containing a byte that is neither a decimal digit nor a sign is not a number. -/
theorem parseI64_nonnumeric (s : Bytes) (c : UInt8) (hc : c ∈ s) (hnd : ¬ (48 ≤ c.toNat ∧ c.toNat ≤ 57))
    (h43 : c ≠ 43) (h45 : c ≠ 45) : parseI64 s = none := by
  cases s with
  | nil => rfl
  | cons x t =>
    by_cases hx : x = 43 ∨ x = 45
    · have hct : c ∈ t := by
        rcases List.mem_cons.mp hc with e | hm
        · subst e; rcases hx with e | e <;> contradiction
        · exact hm
      simp only [parseI64, hx, if_true, digitsVal_nondigit t c hct hnd]
      split <;> rfl
    · simp only [parseI64, hx, if_false, digitsVal_nondigit (x :: t) c hc hnd]
      split <;> rfl

theorem parseI64_nil : parseI64 [] = none := rfl


/-! ### Header maps -/

theorem Hdrs.keys_set (h : Hdrs) (k v : Bytes) :
    (h.set k v).keys = if k ∈ h.keys then h.keys else h.keys ++ [k] := by
  induction h with
  | nil => simp [Hdrs.set, Hdrs.keys]
  | cons a t ih =>
    obtain ⟨k', v'⟩ := a
    by_cases e : k' = k
    · subst e; simp [Hdrs.set, Hdrs.keys]
    · have e' : ¬ k = k' := fun x => e x.symm
      simp only [Hdrs.set, e, if_false]
      simp only [Hdrs.keys, List.map_cons, List.mem_cons, e', false_or] at ih ⊢
      rw [ih]
      split <;> simp [*]

theorem Hdrs.nodup_set (h : Hdrs) (k v : Bytes) (hnd : h.keys.Nodup) : (h.set k v).keys.Nodup := by
  rw [Hdrs.keys_set]
  split
  · exact hnd
  · rename_i hk
    exact List.nodup_append.mpr ⟨hnd, by simp, by intro a ha b hb; simp at hb; subst hb; intro e; subst e; exact hk ha⟩

theorem Hdrs.nodup_setAll (R : Hdrs) : ∀ h : Hdrs, h.keys.Nodup → (h.setAll R).keys.Nodup := by
  induction R with
  | nil => intro h hnd; exact hnd
  | cons kv t ih => intro h hnd; exact ih _ (Hdrs.nodup_set h kv.1 kv.2 hnd)

theorem Hdrs.get?_none_of_not_mem (h : Hdrs) (k : Bytes) (hk : k ∉ h.keys) : h.get? k = none := by
  induction h with
  | nil => rfl
  | cons a t ih =>
    obtain ⟨k', v'⟩ := a
    simp only [Hdrs.keys, List.map_cons, List.mem_cons, not_or] at hk
    have e : ¬ k' = k := fun x => hk.1 x.symm
    simp only [Hdrs.get?, e, if_false]
    exact ih hk.2

theorem Hdrs.mem_keys_of_get? (h : Hdrs) (k v : Bytes) (hg : h.get? k = some v) : k ∈ h.keys := by
  apply Classical.byContradiction
  intro hk
  rw [Hdrs.get?_none_of_not_mem h k hk] at hg
  cases hg

theorem Hdrs.get?_setAll_not_mem (R : Hdrs) (k : Bytes) (hk : k ∉ R.keys) :
    ∀ h : Hdrs, (h.setAll R).get? k = h.get? k := by
  induction R with
  | nil => intro h; rfl
  | cons kv t ih =>
    intro h
    simp only [Hdrs.keys, List.map_cons, List.mem_cons, not_or] at hk
    show ((h.set kv.1 kv.2).setAll t).get? k = _
    rw [ih hk.2, Hdrs.get?_set_other h kv.1 kv.2 k (fun e => hk.1 e.symm)]

theorem Hdrs.get?_setAll_mem (R : Hdrs) (k v : Bytes) (hnd : R.keys.Nodup) (hm : (k, v) ∈ R) :
    ∀ h : Hdrs, (h.setAll R).get? k = some v := by
  induction R with
  | nil => cases hm
  | cons kv t ih =>
    intro h
    simp only [Hdrs.keys, List.map_cons, List.nodup_cons] at hnd
    show ((h.set kv.1 kv.2).setAll t).get? k = _
    rcases List.mem_cons.mp hm with e | hmt
    · subst e
      rw [Hdrs.get?_setAll_not_mem t k hnd.1, Hdrs.get?_set_same]
    · exact ih hnd.2 hmt _

/-! `without` -/

theorem Hdrs.without_keys_sublist (h : Hdrs) (k : Bytes) : (h.without k).keys.Sublist h.keys :=
  (List.filter_sublist (l := h)).map Prod.fst

theorem Hdrs.nodup_without (h : Hdrs) (k : Bytes) (hnd : h.keys.Nodup) : (h.without k).keys.Nodup :=
  (Hdrs.without_keys_sublist h k).nodup hnd

theorem Hdrs.not_mem_without (h : Hdrs) (k : Bytes) : k ∉ (h.without k).keys := by
  simp [Hdrs.without, Hdrs.keys]

theorem Hdrs.get?_without_other (h : Hdrs) (k k2 : Bytes) (hne : k ≠ k2) : (h.without k).get? k2 = h.get? k2 := by
  induction h with
  | nil => rfl
  | cons a t ih =>
    obtain ⟨k', v'⟩ := a
    by_cases e : k' = k
    · subst e
      simp [Hdrs.without, Hdrs.get?, hne] 
      simpa [Hdrs.without] using ih
    · by_cases e2 : k' = k2
      · subst e2
        simp [Hdrs.without, Hdrs.get?, e]
      · simp [Hdrs.without, Hdrs.get?, e, e2]
        simpa [Hdrs.without] using ih

theorem Hdrs.without_of_not_mem (h : Hdrs) (k : Bytes) (hk : k ∉ h.keys) : h.without k = h := by
  unfold Hdrs.without
  rw [List.filter_eq_self]
  intro a ha
  have : a.1 ∈ h.keys := List.mem_map_of_mem (f := Prod.fst) ha
  simp
  intro e; rw [e] at this; exact hk this

theorem Hdrs.without_perm (h h' : Hdrs) (k : Bytes) (hp : h.Perm h') : (h.without k).Perm (h'.without k) :=
  hp.filter _

theorem Hdrs.keys_perm (h h' : Hdrs) (hp : h.Perm h') : h.keys.Perm h'.keys := hp.map Prod.fst

/-! ### Contexts -/

theorem op_ne_cid : opIdHeader ≠ cidHeader := by decide
theorem op_ne_tmo : opIdHeader ≠ timeoutHeader := by decide
theorem cid_ne_tmo : cidHeader ≠ timeoutHeader := by decide

/-- The reply-side response headers `ReadRequestHeader` prepares. -/
def replyIds (opid cid : Bytes) : Hdrs := (opIdHeader, opid) :: (if cid = [] then [] else [(cidHeader, cid)])

/-- What `serverCtx` builds from a decoded map with distinct names that has an `_opid`. -/
theorem serverCtx_eq (h : Hdrs) (fresh : Nat) (o : Bytes) (hnd : h.keys.Nodup) (ho : h.get? opIdHeader = some o) :
    serverCtx h fresh = .ok ⟨h.without opIdHeader ++ [(opIdHeader, natDigits fresh)],
      replyIds o ((h.get? cidHeader).getD [])⟩ := by
  have hw := Hdrs.nodup_without h opIdHeader hnd
  have hcid : (((h.without opIdHeader).set opIdHeader (natDigits fresh)).get? cidHeader) = h.get? cidHeader := by
    rw [Hdrs.get?_set_other _ _ _ _ op_ne_cid, Hdrs.get?_without_other _ _ _ op_ne_cid]
  simp only [serverCtx, ho, Ctx.addRequestHeaders, Ctx.addResponseHeader, Ctx.addRequestHeader, Ctx.correlationID,
    Hdrs.setAll_nil _ hw, hcid]
  rw [Hdrs.set_fresh _ _ _ (Hdrs.not_mem_without h opIdHeader)]
  by_cases hc : (h.get? cidHeader).getD [] = []
  · simp [hc, replyIds, Hdrs.set]
  · simp [hc, replyIds, Hdrs.set, op_ne_cid]

theorem serverCtx_missing (h : Hdrs) (fresh : Nat) (ho : h.get? opIdHeader = none) :
    serverCtx h fresh = .err .invalidData := by
  simp [serverCtx, ho]

/-- The caller's request map in insertion order. -/
theorem clientCtx_req (cid : Bytes) (opid : Nat) (U : Hdrs) (ns : Int)
    (hU : U.keys.Nodup) (h1 : opIdHeader ∉ U.keys) (h2 : cidHeader ∉ U.keys) (h3 : timeoutHeader ∉ U.keys) :
    (clientCtx cid opid U ns []).req =
      (cidHeader, cid) :: (opIdHeader, natDigits opid) :: (timeoutHeader, encodeTimeout ns) :: U := by
  have hnd : Hdrs.keys (([(cidHeader, cid), (opIdHeader, natDigits opid), (timeoutHeader, defaultTimeoutHeader)] : Hdrs) ++ U) |>.Nodup := by
    simp only [Hdrs.keys, List.map_cons, List.cons_append, List.nil_append,
      List.nodup_cons, List.mem_cons, not_or]
    simp only [Hdrs.keys] at hU h1 h2 h3
    exact ⟨⟨op_ne_cid.symm, cid_ne_tmo, h2⟩, ⟨op_ne_tmo, h1⟩, h3, hU⟩
  simp only [clientCtx, Ctx.new, Ctx.addRequestHeaders, Ctx.setTimeout, Ctx.addRequestHeader]
  rw [Hdrs.setAll_fresh _ _ hnd]
  simp [Hdrs.setAll, Hdrs.set, op_ne_tmo, cid_ne_tmo]

theorem encodeTimeout_whole (ms : Int) : encodeTimeout (ms * 1000000) = formatInt ms := by
  unfold encodeTimeout nsPerMs
  rw [Int.mul_tdiv_cancel _ (by decide)]
  split
  · rename_i h
    obtain ⟨hpos, hz⟩ := h
    subst hz
    omega
  · rfl

/-- A positive timeout never encodes as "0" (which `ToContext` reads as "no deadline"): below the header's
resolution it is written as 1 ms. -/
theorem encodeTimeout_pos_ne_zero (ns : Int) (h : 0 < ns) (hhi : ns < 9223372036854775808) :
    encodeTimeout ns ≠ formatInt 0 := by
  unfold encodeTimeout
  split
  · intro e
    have := congrArg parseI64 e
    rw [parseI64_formatInt 1 (by decide) (by decide), parseI64_formatInt 0 (by decide) (by decide)] at this
    cases this
  · rename_i hn
    have hne : Int.tdiv ns nsPerMs ≠ 0 := fun e => hn ⟨h, e⟩
    intro e
    have hpos : 0 ≤ Int.tdiv ns nsPerMs := Int.tdiv_nonneg (by omega) (by decide)
    have := congrArg parseI64 e
    have hle : Int.tdiv ns nsPerMs ≤ ns := Int.tdiv_le_self _ (by omega)
    rw [parseI64_formatInt _ (by omega) (by omega), parseI64_formatInt 0 (by decide) (by decide)] at this
    exact hne (Option.some.inj this)

theorem decodeTimeout_formatInt (ms : Int) (h0 : -9223372036854 ≤ ms) (h1 : ms ≤ 9223372036854) :
    decodeTimeout (formatInt ms) = ms * 1000000 := by
  unfold decodeTimeout decodeTimeoutMs
  rw [parseI64_formatInt ms (by omega) (by omega)]
  simp only [toI64, nsPerMs]
  omega

/-! ### Reading over the wire (stated for an arbitrary byte string `wire`, so that no proof
ever evaluates the codec on a concrete `marshal …`) -/

theorem readRequestHeader_ok (wire rest : Bytes) (h : Hdrs) (ctr : Nat) (c : Ctx)
    (hu : unmarshalStream wire = .ok (h, rest)) (hs : serverCtx h (ctr + 1) = .ok c) :
    readRequestHeader wire ctr = .ok (c, rest) := by
  unfold readRequestHeader
  rw [hu]
  simp only [hs]

theorem readRequestHeader_err (wire rest : Bytes) (h : Hdrs) (ctr : Nat) (e : Err)
    (hu : unmarshalStream wire = .ok (h, rest)) (hs : serverCtx h (ctr + 1) = .err e) :
    readRequestHeader wire ctr = .err e := by
  unfold readRequestHeader
  rw [hu]
  simp only [hs]

theorem ctrAfterRead_ok (wire : Bytes) (ctr : Nat) (x : Ctx × Bytes) (h : readRequestHeader wire ctr = .ok x) :
    ctrAfterRead wire ctr = ctr + 1 := by
  unfold ctrAfterRead
  rw [h]

theorem ctrAfterRead_err (wire : Bytes) (ctr : Nat) (e : Err) (h : readRequestHeader wire ctr = .err e) :
    ctrAfterRead wire ctr = ctr := by
  unfold ctrAfterRead
  rw [h]

theorem readResponseHeader_ok (c : Ctx) (wire rest : Bytes) (h : Hdrs)
    (hu : unmarshalStream wire = .ok (h, rest)) :
    readResponseHeader c wire = .ok (mergeResponse c h, rest) := by
  unfold readResponseHeader
  rw [hu]

end FV
