/- The model of the emitted Read (FV.Thrift.decV) does not depend on struct/field names nor on the
key/value types announced by an EMPTY map: what the byte protocols do not carry is never looked at. -/
import FV.Model.Thrift
namespace FV.Thrift

/-- What the emitted `Read` never looks at: struct and field names, and the key/value types of an
empty map (`Skip` of an empty map does not use them either). -/
def forget : Event → Event
  | .sb _ => .sb ""
  | .fb _ tt id => .fb "" tt id
  | .mb kt vt n => .mb (if n = 0 then 0 else kt) (if n = 0 then 0 else vt) n
  | e => e

def mapR {α : Type} : Res (α × List Event) → Res (α × List Event)
  | .ok (a, r) => .ok (a, r.map forget)
  | .err e => .err e
  | .panic p => .panic p

def mapS : Res (List Event) → Res (List Event)
  | .ok r => .ok (r.map forget)
  | .err e => .err e
  | .panic p => .panic p

theorem skipN_forget (sk : Nat → List Event → Res (List Event))
    (hsk : ∀ tt es, sk tt (es.map forget) = mapS (sk tt es)) :
    ∀ (k tt : Nat) (es : List Event), skipN sk k tt (es.map forget) = mapS (skipN sk k tt es) := by
  intro k
  induction k with
  | zero => intro tt es; rfl
  | succ k ih =>
    intro tt es
    simp only [skipN, hsk]
    cases sk tt es with
    | ok l => simp only [mapS, ih]
    | err e => rfl
    | panic p => rfl

theorem skipKV_forget (sk : Nat → List Event → Res (List Event))
    (hsk : ∀ tt es, sk tt (es.map forget) = mapS (sk tt es)) (kt vt : Nat) :
    ∀ (k : Nat) (es : List Event), skipKV sk kt vt k (es.map forget) = mapS (skipKV sk kt vt k es) := by
  intro k
  induction k with
  | zero => intro es; rfl
  | succ k ih =>
    intro es
    simp only [skipKV, hsk]
    cases sk kt es with
    | ok l =>
      simp only [mapS, hsk]
      cases sk vt l with
      | ok l2 => simp only [mapS, ih]
      | err e => rfl
      | panic p => rfl
    | err e => rfl
    | panic p => rfl

theorem skipFields_forget (sk : Nat → List Event → Res (List Event))
    (hsk : ∀ tt es, sk tt (es.map forget) = mapS (sk tt es)) :
    ∀ (f : Nat) (es : List Event), skipFields sk f (es.map forget) = mapS (skipFields sk f es) := by
  intro f
  induction f with
  | zero => intro es; rfl
  | succ f ih =>
    intro es
    cases es with
    | nil => rfl
    | cons e r =>
      cases e
      case fs =>
        cases r with
        | nil => rfl
        | cons e2 r2 => cases e2 <;> simp [skipFields, mapS, forget]
      case fb nm ft id =>
        simp only [List.map_cons, forget, skipFields, hsk]
        cases sk ft r with
        | ok l =>
          cases l with
          | nil => rfl
          | cons e3 l3 => cases e3 <;> simp [mapS, forget, ih]
        | err e => rfl
        | panic p => rfl
      all_goals simp [skipFields, mapS, forget]


theorem skip_forget : ∀ (n tt : Nat) (es : List Event), skip n tt (es.map forget) = mapS (skip n tt es) := by
  intro n
  induction n with
  | zero => intro tt es; rfl
  | succ n ih =>
    intro tt es
    cases es with
    | nil => simp [skip, mapS]
    | cons e r =>
      cases e
      case bool b =>
        by_cases h : tt = 2
        · subst h; simp [skip, mapS, forget]
        · simp [skip, mapS, forget, h]
      case byte k =>
        by_cases h : tt = 3
        · subst h; simp [skip, mapS, forget]
        · simp [skip, mapS, forget, h]
      case i16 k =>
        by_cases h : tt = 6
        · subst h; simp [skip, mapS, forget]
        · simp [skip, mapS, forget, h]
      case i32 k =>
        by_cases h : tt = 8
        · subst h; simp [skip, mapS, forget]
        · simp [skip, mapS, forget, h]
      case i64 k =>
        by_cases h : tt = 10
        · subst h; simp [skip, mapS, forget]
        · simp [skip, mapS, forget, h]
      case dbl k =>
        by_cases h : tt = 4
        · subst h; simp [skip, mapS, forget]
        · simp [skip, mapS, forget, h]
      case str fl k =>
        by_cases h : tt = 11
        · subst h; simp [skip, mapS, forget]
        · simp [skip, mapS, forget, h]
      case sb nm =>
        by_cases h : tt = 12
        · subst h
          simp only [List.map_cons, forget, skip, List.length_map]
          exact skipFields_forget (skip n) ih _ r
        · simp [skip, mapS, forget, h]
      case lb et k =>
        by_cases h : tt = 15
        · subst h
          simp only [List.map_cons, forget, skip, skipN_forget (skip n) ih]
          cases skipN (skip n) k et r with
          | ok l =>
            cases l with
            | nil => rfl
            | cons e3 l3 => cases e3 <;> simp [mapS, forget]
          | err e => rfl
          | panic p => rfl
        · simp [skip, mapS, forget, h]
      case tb et k =>
        by_cases h : tt = 14
        · subst h
          simp only [List.map_cons, forget, skip, skipN_forget (skip n) ih]
          cases skipN (skip n) k et r with
          | ok l =>
            cases l with
            | nil => rfl
            | cons e3 l3 => cases e3 <;> simp [mapS, forget]
          | err e => rfl
          | panic p => rfl
        · simp [skip, mapS, forget, h]
      case mb kt vt k =>
        by_cases h : tt = 13
        · subst h
          have hkv : skipKV (skip n) (if k = 0 then 0 else kt) (if k = 0 then 0 else vt) k (r.map forget)
              = mapS (skipKV (skip n) kt vt k r) := by
            cases k with
            | zero => rfl
            | succ k' => simp only [Nat.succ_ne_zero, if_false]; exact skipKV_forget (skip n) ih kt vt _ r
          simp only [List.map_cons, forget, skip, hkv]
          cases skipKV (skip n) kt vt k r with
          | ok l =>
            cases l with
            | nil => rfl
            | cons e3 l3 => cases e3 <;> simp [mapS, forget]
          | err e => rfl
          | panic p => rfl
        · simp [skip, mapS, forget, h]
      all_goals simp [skip, mapS, forget]

theorem decN_forget (dec : List Event → Res (Val × List Event))
    (hd : ∀ es, dec (es.map forget) = mapR (dec es)) :
    ∀ (k : Nat) (es : List Event) (acc : List Val), decN dec k (es.map forget) acc = mapR (decN dec k es acc) := by
  intro k
  induction k with
  | zero => intro es acc; rfl
  | succ k ih =>
    intro es acc
    simp only [decN, hd]
    cases dec es with
    | ok p => obtain ⟨v, l⟩ := p; simp only [mapR, ih]
    | err e => rfl
    | panic p => rfl

theorem decKV_forget (deck decv : List Event → Res (Val × List Event))
    (hk : ∀ es, deck (es.map forget) = mapR (deck es)) (hv : ∀ es, decv (es.map forget) = mapR (decv es)) :
    ∀ (k : Nat) (es : List Event) (acc : List (Val × Val)),
      decKV deck decv k (es.map forget) acc = mapR (decKV deck decv k es acc) := by
  intro k
  induction k with
  | zero => intro es acc; rfl
  | succ k ih =>
    intro es acc
    simp only [decKV, hk]
    cases deck es with
    | ok p =>
      obtain ⟨v, l⟩ := p
      simp only [mapR, hv]
      cases decv l with
      | ok p2 => obtain ⟨v2, l2⟩ := p2; simp only [mapR, ih]
      | err e => rfl
      | panic p => rfl
    | err e => rfl
    | panic p => rfl

theorem decFields_forget (dec : Ty → List Event → Res (Val × List Event)) (skp : Nat → List Event → Res (List Event))
    (sd : StructDef)
    (hd : ∀ t es, dec t (es.map forget) = mapR (dec t es))
    (hs : ∀ tt es, skp tt (es.map forget) = mapS (skp tt es)) :
    ∀ (f : Nat) (es : List Event) (acc : List (Int × Val)),
      decFields dec skp sd f (es.map forget) acc = mapR (decFields dec skp sd f es acc) := by
  intro f
  induction f with
  | zero => intro es acc; rfl
  | succ f ih =>
    intro es acc
    cases es with
    | nil => rfl
    | cons e r =>
      cases e
      case fs => rfl
      case fb nm ft id =>
        simp only [List.map_cons, forget, decFields]
        cases sd.fields.find? (·.id = id) with
        | some fd =>
          simp only [hd]
          cases dec fd.ty r with
          | ok p =>
            obtain ⟨v, l⟩ := p
            cases l with
            | nil => rfl
            | cons e3 l3 => cases e3 <;> simp [mapR, forget, ih]
          | err e => rfl
          | panic p => rfl
        | none =>
          simp only [hs]
          cases skp ft r with
          | ok l =>
            cases l with
            | nil => rfl
            | cons e3 l3 => cases e3 <;> simp [mapS, mapR, forget, ih]
          | err e => rfl
          | panic p => rfl
      all_goals simp [decFields, mapR, forget]

theorem mapR_ite {α : Type} (c : Prop) [Decidable c] (a b : Res (α × List Event)) :
    mapR (if c then a else b) = if c then mapR a else mapR b := by
  split <;> rfl

/-- The emitted `Read` does not depend on what `forget` erases. -/
theorem decV_forget (d : Defs) : ∀ (n : Nat) (t : Ty) (es : List Event),
    decV d n t (es.map forget) = mapR (decV d n t es) := by
  intro n
  induction n with
  | zero => intro t es; rfl
  | succ n ih =>
    intro t es
    cases hres : resolve d t
    case list a =>
      cases es with
      | nil => simp [decV, hres, mapR]
      | cons e r =>
        cases e
        case lb et k =>
          simp only [List.map_cons, forget, decV, hres, decN_forget (decV d n a) (ih a)]
          cases decN (decV d n a) k r [] with
          | ok p =>
            obtain ⟨vs, l⟩ := p
            cases l with
            | nil => rfl
            | cons e3 l3 => cases e3 <;> simp [mapR, forget]
          | err e => rfl
          | panic p => rfl
        all_goals simp [decV, hres, mapR, forget]
    case set a =>
      cases es with
      | nil => simp [decV, hres, mapR]
      | cons e r =>
        cases e
        case tb et k =>
          simp only [List.map_cons, forget, decV, hres, decN_forget (decV d n a) (ih a)]
          cases decN (decV d n a) k r [] with
          | ok p =>
            obtain ⟨vs, l⟩ := p
            cases l with
            | nil => rfl
            | cons e3 l3 => cases e3 <;> simp [mapR, forget]
          | err e => rfl
          | panic p => rfl
        all_goals simp [decV, hres, mapR, forget]
    case map kt vt =>
      cases es with
      | nil => simp [decV, hres, mapR]
      | cons e r =>
        cases e
        case mb kt' vt' k =>
          simp only [List.map_cons, forget, decV, hres, decKV_forget (decV d n kt) (decV d n vt) (ih kt) (ih vt)]
          cases decKV (decV d n kt) (decV d n vt) k r [] with
          | ok p =>
            obtain ⟨vs, l⟩ := p
            cases l with
            | nil => rfl
            | cons e3 l3 => cases e3 <;> simp [mapR, forget]
          | err e => rfl
          | panic p => rfl
        all_goals simp [decV, hres, mapR, forget]
    case struct nm =>
      cases es with
      | nil => simp [decV, hres, mapR]
      | cons e r =>
        cases e
        case sb nm' =>
          simp only [List.map_cons, forget, decV, hres, List.length_map]
          cases lookupStruct d nm with
          | none => rfl
          | some sd =>
            simp only [decFields_forget (decV d n) (skip (n + 1)) sd ih (skip_forget (n + 1))]
            cases decFields (decV d n) (skip (n + 1)) sd r.length r [] with
            | ok p =>
              obtain ⟨fs, l⟩ := p
              cases l with
              | nil => rfl
              | cons e3 l3 =>
                cases e3
                case se =>
                  simp only [mapR, List.map_cons, forget]
                  split
                  · rfl
                  · split <;> rfl
                all_goals simp [mapR, forget]
            | err e => rfl
            | panic p => rfl
        all_goals simp [decV, hres, mapR, forget]
    all_goals (
      cases es with
      | nil => simp [decV, hres, mapR]
      | cons e r => cases e <;> simp [decV, hres, mapR, forget])
end FV.Thrift
