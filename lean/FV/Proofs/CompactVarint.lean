/- varint / zigzag lemmas of the compact protocol model (FV.Model.CompactProtocol). -/
import FV.Model.CompactProtocol
import FV.Proofs.BinaryProtocol
namespace FV.Thrift

theorem zigzag_unzigzag (z : Int) : unzigzag (zigzag z) = z := by
  simp only [unzigzag, zigzag]
  split <;> split <;> omega

theorem zigzag_lt32 (z : Int) (h : -2147483648 ≤ z ∧ z < 2147483648) : zigzag z < 4294967296 := by
  simp only [zigzag]; split <;> omega

theorem zigzag_lt64 (z : Int) (h : -9223372036854775808 ≤ z ∧ z < 9223372036854775808) :
    zigzag z < 18446744073709551616 := by
  simp only [zigzag]; split <;> omega

theorem split128 (n X : Nat) : n % 128 * X + n / 128 * (X * 128) = n * X := by
  have h : n = 128 * (n / 128) + n % 128 := (Nat.div_add_mod n 128).symm
  generalize n / 128 = q at h
  generalize n % 128 = m at h
  subst h
  grind

theorem uvarintDec_uvarint (n : Nat) : ∀ (rest : Bytes) (s a : Nat),
    uvarintDec (uvarint n ++ rest) s a = .ok (a + n * 2 ^ s, rest) := by
  induction n using Nat.strongRecOn with
  | _ n ih =>
    intro rest s a
    rw [uvarint]
    split
    · rename_i hlt
      simp only [List.cons_append, List.nil_append, uvarintDec, u8_small n (by omega)]
      rw [if_pos hlt, Nat.mod_eq_of_lt hlt]
    · rename_i hge
      have hb : (UInt8.ofNat (n % 128 + 128)).toNat = n % 128 + 128 := u8_small _ (by omega)
      simp only [List.cons_append, uvarintDec, hb]
      rw [if_neg (by omega), ih (n / 128) (by omega)]
      have : (n % 128 + 128) % 128 = n % 128 := by omega
      rw [this, Nat.pow_add, Nat.add_assoc, split128]

end FV.Thrift
